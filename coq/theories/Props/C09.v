(* C09 Algebraic law checkers report exactly the laws that hold.

   Full statement: each law checker of lattices/src/algebra.rs returns success exactly when
   its law holds on every tuple drawn from the given carrier, and the shipped semiring
   applications satisfy the semiring laws they claim.

   This file contains only the property theorems (each closed by a lemma proved under
   Algebra/) and non-vacuity examples.  Carrier type `A`, its equality test `eqb` (Rust
   PartialEq), the item list and all operations are universally quantified.  `x == y` below
   means `eqb x y = true`; the `_eq` variants restate the law with Leibniz `=` for equality
   tests that reflect it (u8, u32, bool, ...).

   Recorded exceptions (the statement is FALSE of the code; `_refuted` theorems + replays,
   known_findings.d/C09.txt):
     * ConfidenceScore: binary64 `*` is not associative
   (the former linearity and release-profile Cost exceptions are fixed)
   FuzzyLogic is proved for all binary64 values in [0,1] from the standard library's
   FloatAxioms specification of <?, <=?, =? (axioms ltb_spec, leb_spec, eqb_spec).
   Not proved (correspondence check only): ConfidenceScore's laws other than the refuted one
   (distributivity of binary64 `*` over max needs monotonicity of rounding). *)
From Coq Require Import List Bool NArith Floats.
From HV Require Import Algebra.Model Algebra.PBasic Algebra.PPower Algebra.PCheckers
  Algebra.PSemiring Algebra.PMaster Algebra.PFuzzy.
Import ListNotations.
Set Printing Width 400.   (* one line per assumption in the Print Assumptions output *)

(* ------------------------------------------------------------------ cartesian_power *)
Theorem C09_cartesian_power_complete : forall (A : Type) (n : nat) (items tup : list A),
  In tup (cartesian_power n items) <->
  items <> [] /\ length tup = n /\ Forall (fun x => In x items) tup.
Proof. exact (@cartesian_power_In). Qed.
Print Assumptions C09_cartesian_power_complete.

(* iterator order = first coordinate fastest; never panics, terminates, `len()` is exact
   before every `next()`, and the iterator is fused *)
Theorem C09_cartesian_power_run : forall (A : Type) (n : nat) (items : list A),
  cartesian_power n items = cp_spec n items /\
  exists fin,
    cp_trace (cp_fuel n items) (cp_init n items)
    = Some (cartesian_power n items, count_down (length (cartesian_power n items)), fin) /\
    cp_next fin = CpDone /\ cp_size_hint fin = 0.
Proof. exact (@cartesian_power_run_full). Qed.
Print Assumptions C09_cartesian_power_run.

Example C09_cartesian_power_ex :
  cartesian_power 2 [1; 2; 3]%N =
  [[1; 1]; [2; 1]; [3; 1]; [1; 2]; [2; 2]; [3; 2]; [1; 3]; [2; 3]; [3; 3]]%N.
Proof. vm_compute. reflexivity. Qed.

(* ------------------------------------------------------------------ base checkers *)
Section Statements.
  Context {A : Type} (eqb : A -> A -> bool).
  Local Notation "x == y" := (eqb x y = true) (at level 70).

  Theorem C09_associativity : forall items f,
    associativity eqb items f = Ok <->
    forall a b c, In a items -> In b items -> In c items -> f a (f b c) == f (f a b) c.
  Proof. exact (associativity_ok eqb). Qed.

  Theorem C09_commutativity : forall items f,
    commutativity eqb items f = Ok <-> forall x y, In x items -> In y items -> f x y == f y x.
  Proof. exact (commutativity_ok eqb). Qed.

  Theorem C09_idempotency : forall items f,
    idempotency eqb items f = Ok <-> forall x, In x items -> f x x == x.
  Proof. exact (idempotency_ok eqb). Qed.

  Theorem C09_identity : forall items f e,
    identity eqb items f e = Ok <-> forall a, In a items -> f e a == a /\ f a e == a.
  Proof. exact (identity_ok eqb). Qed.

  Theorem C09_inverse : forall items f e b,
    inverse eqb items f e b = Ok <-> forall a, In a items -> f a (b a) == e /\ f (b a) a == e.
  Proof. exact (inverse_ok eqb). Qed.

  Theorem C09_nonzero_inverse : forall items f e zero b,
    nonzero_inverse eqb items f e zero b = Ok <->
    forall a, In a items -> eqb a zero = false -> f a (b a) == e /\ f (b a) a == e.
  Proof. exact (nonzero_inverse_ok eqb). Qed.

  Theorem C09_absorbing_element : forall items f z,
    absorbing_element eqb items f z = Ok <-> forall a, In a items -> f a z == z /\ f z a == z.
  Proof. exact (absorbing_element_ok eqb). Qed.

  Theorem C09_left_distributes : forall items f g,
    left_distributes eqb items f g = Ok <->
    forall a b c, In a items -> In b items -> In c items -> g a (f b c) == f (g a b) (g a c).
  Proof. exact (left_distributes_ok eqb). Qed.

  Theorem C09_right_distributes : forall items f g,
    right_distributes eqb items f g = Ok <->
    forall a b c, In a items -> In b items -> In c items -> g (f b c) a == f (g b a) (g c a).
  Proof. exact (right_distributes_ok eqb). Qed.

  Theorem C09_no_nonzero_zero_divisors : forall items f zero,
    no_nonzero_zero_divisors eqb items f zero = Ok <->
    forall a b, In a items -> In b items -> eqb a zero = false -> eqb b zero = false ->
                eqb (f a b) zero = false.
  Proof. exact (no_nonzero_zero_divisors_ok eqb). Qed.

  (* ---------------------------------------------------------------- composites: conjunctions *)
  Theorem C09_composites : forall items f g zero one b b2,
    (distributive eqb items f g = Ok <-> LDist eqb items f g /\ RDist eqb items f g) /\
    (semigroup eqb items f = Ok <-> Assoc eqb items f) /\
    (monoid eqb items f zero = Ok <-> Assoc eqb items f /\ Identity eqb items f zero) /\
    (commutative_monoid eqb items f zero = Ok <->
       (Assoc eqb items f /\ Identity eqb items f zero) /\ Comm eqb items f) /\
    (group eqb items f zero b = Ok <->
       (Assoc eqb items f /\ Identity eqb items f zero) /\ Inverse eqb items f zero b) /\
    (abelian_group eqb items f zero b = Ok <->
       ((Assoc eqb items f /\ Identity eqb items f zero) /\ Inverse eqb items f zero b) /\
       Comm eqb items f) /\
    (semiring eqb items f g zero one = Ok <->
       CMonoid eqb items f zero /\ Monoid eqb items g one /\ Absorbing eqb items g zero /\
       Dist eqb items f g) /\
    (ring eqb items f g zero one b = Ok <->
       Semiring eqb items f g zero one /\ Inverse eqb items f zero b) /\
    (commutative_ring eqb items f g zero one b = Ok <->
       (Semiring eqb items f g zero one /\ Inverse eqb items f zero b) /\ Comm eqb items g) /\
    (integral_domain eqb items f g zero one b = Ok <->
       CRing eqb items f g zero one b /\ NoZeroDiv eqb items g zero) /\
    (field eqb items f g zero one b b2 = Ok <->
       CRing eqb items f g zero one b /\ NzInverse eqb items g one zero b2).
  Proof. exact (composites_ok eqb). Qed.


  Theorem C09_single_function_properties : forall items f e b z,
    let l := get_single_function_properties eqb items f e b z in
    (In PAssoc l <-> Assoc eqb items f) /\ (In PComm l <-> Comm eqb items f) /\
    (In PIdem l <-> Idem eqb items f) /\ (In PIdentity l <-> Identity eqb items f e) /\
    (In PInverse l <-> Inverse eqb items f e b) /\ (In PAbsorbing l <-> Absorbing eqb items f z) /\
    ~ In POther l.
  Proof. exact (single_function_properties_spec eqb). Qed.
End Statements.
Print Assumptions C09_associativity.
Print Assumptions C09_commutativity.
Print Assumptions C09_idempotency.
Print Assumptions C09_identity.
Print Assumptions C09_inverse.
Print Assumptions C09_nonzero_inverse.
Print Assumptions C09_absorbing_element.
Print Assumptions C09_left_distributes.
Print Assumptions C09_right_distributes.
Print Assumptions C09_no_nonzero_zero_divisors.
Print Assumptions C09_composites.
Print Assumptions C09_single_function_properties.

(* with an equality test that reflects `=` the laws read with Leibniz equality *)
Theorem C09_associativity_eq : forall (A : Type) (eqb : A -> A -> bool),
  (forall x y, eqb x y = true <-> x = y) ->
  forall items f,
    associativity eqb items f = Ok <->
    forall a b c, In a items -> In b items -> In c items -> f a (f b c) = f (f a b) c.
Proof. exact (@associativity_ok_eq). Qed.
Print Assumptions C09_associativity_eq.

Theorem C09_distributive_eq : forall (A : Type) (eqb : A -> A -> bool),
  (forall x y, eqb x y = true <-> x = y) ->
  forall items f g,
    distributive eqb items f g = Ok <->
    (forall a b c, In a items -> In b items -> In c items -> g a (f b c) = f (g a b) (g a c)) /\
    (forall a b c, In a items -> In b items -> In c items -> g (f b c) a = f (g b a) (g c a)).
Proof. exact (@distributive_ok_eq). Qed.
Print Assumptions C09_distributive_eq.

Example C09_checker_ok_ex : associativity N.eqb [0; 1; 2]%N N.max = Ok.
Proof. vm_compute. reflexivity. Qed.
Example C09_checker_err_ex : associativity N.eqb [0; 1; 2]%N N.sub = Err EAssoc.
Proof. vm_compute. reflexivity. Qed.
Example C09_field_ex :   (* GF(2) *)
  field Bool.eqb [false; true] xorb andb false true (fun x => x) (fun _ => true) = Ok.
Proof. vm_compute. reflexivity. Qed.

(* ------------------------------------------------------------------ linearity, bilinearity *)
(* Former finding, fixed in /repo commit 2405c2befba: `linearity` compared q (f a b) with
   g (q b) (q a) (arguments of g swapped).  Former witnesses (C09_linearity_refuted /
   C09_linearity_accepts_nonlinear_refuted): items [0;1;2], q = id, f = g = left projection
   gave Err although q is linear; f = left, g = right projection gave Ok although q is not.
   They are replayed first on every run (corpus/C09/linearity_swapped.json). *)
Theorem C09_linearity : forall (S R : Type) (eqbR : R -> R -> bool) items
    (f : S -> S -> S) (g : R -> R -> R) (q : S -> R),
  linearity eqbR items f g q = Ok <->
  forall a b, In a items -> In b items -> eqbR (q (f a b)) (g (q a) (q b)) = true.
Proof. exact (@linearity_ok). Qed.
Print Assumptions C09_linearity.

Example C09_linearity_ex :     (* the former false rejection / false acceptance *)
  linearity N.eqb [0; 1; 2]%N lproj lproj (fun x => x) = Ok /\
  linearity N.eqb [0; 1; 2]%N lproj rproj (fun x => x) = Err ELinearity.
Proof. vm_compute. split; reflexivity. Qed.

Theorem C09_bilinearity : forall (S R T : Type) (eqbR : R -> R -> bool) items_f items_h
    (f : S -> S -> S) (h : T -> T -> T) (g : R -> R -> R) (q : S -> T -> R),
  bilinearity eqbR items_f items_h f h g q = Ok <->
  (forall a b c, In a items_f -> In b items_f -> In c items_h ->
                 eqbR (q (f a b) c) (g (q a c) (q b c)) = true) /\
  (forall a c d, In a items_f -> In c items_h -> In d items_h ->
                 eqbR (q a (h c d)) (g (q a c) (q a d)) = true).
Proof. exact (@bilinearity_ok). Qed.
Print Assumptions C09_bilinearity.

(* ------------------------------------------------------------------ the executable form used
   by the correspondence check is satisfied by the model on every in-scope case, and the
   brute-force deciders inside it decide the Prop-level laws *)
Theorem C09_model_satisfies_executable_form :
  forall c, in_scope c -> C09_holds_b c (model_run c) = true.
Proof. exact model_satisfies_C09. Qed.
Print Assumptions C09_model_satisfies_executable_form.

Theorem C09_deciders_decide_the_laws : forall (A : Type) (eqb : A -> A -> bool) items f g zero one b b2,
  (assoc_b eqb items f = true <-> Assoc eqb items f) /\
  (comm_b eqb items f = true <-> Comm eqb items f) /\
  (idem_b eqb items f = true <-> Idem eqb items f) /\
  (ident_b eqb items f zero = true <-> Identity eqb items f zero) /\
  (inv_b eqb items f zero b = true <-> Inverse eqb items f zero b) /\
  (nzinv_b eqb items g one zero b2 = true <-> NzInverse eqb items g one zero b2) /\
  (absorb_b eqb items g zero = true <-> Absorbing eqb items g zero) /\
  (dist_b eqb items f g = true <-> Dist eqb items f g) /\
  (nzd_b eqb items g zero = true <-> NoZeroDiv eqb items g zero) /\
  (semiring_b eqb items f g zero one = true <-> Semiring eqb items f g zero one) /\
  (field_b eqb items f g zero one b b2 = true <-> Field eqb items f g zero one b b2).
Proof. exact (@deciders_spec). Qed.
Print Assumptions C09_deciders_decide_the_laws.

(* ------------------------------------------------------------------ semiring applications.
   SrLaw t (lhs, rhs): for all values a b c, if neither side panics (u32 overflow) the two
   sides are equal; SrSemiring t: all eleven semiring laws of algebra.rs::semiring. *)
Theorem C09_binary_trust_semiring : SrSemiring SBinaryTrust.
Proof. exact binary_trust_semiring. Qed.
Print Assumptions C09_binary_trust_semiring.

Theorem C09_multiplicity_semiring : SrSemiring SMultiplicity.
Proof. exact multiplicity_semiring. Qed.
Print Assumptions C09_multiplicity_semiring.

Theorem C09_cost_semiring : SrSemiring SCost.
Proof. exact cost_semiring. Qed.
Print Assumptions C09_cost_semiring.

Example C09_semiring_ex :   (* the guarded laws are not vacuous: nothing overflows here *)
  sr_eval SMultiplicity (VN 2) (VN 3) (VN 4) (XMul XA (XAdd XB XC)) = Some (VN 14) /\
  sr_eval SCost (VN 2) VInf (VN 4) (XMul XA (XAdd XB XC)) = Some (VN 6).
Proof. vm_compute. split; reflexivity. Qed.

Theorem C09_confidence_mul_assoc_refuted :
  exists a b c : float,
    in01 a && in01 b && in01 c = true /\
    PrimFloat.mul (PrimFloat.mul a b) c <> PrimFloat.mul a (PrimFloat.mul b c) /\
    ~ SrLaw SConfidence (XMul (XMul XA XB) XC, XMul XA (XMul XB XC)).
Proof. exact confidence_mul_refuted. Qed.
Print Assumptions C09_confidence_mul_assoc_refuted.

(* Former finding, fixed in /repo commit eb5e08fe819: Cost::mul used an unchecked `a + b`
   that wraps in release builds (former C09_cost_release_overflow_refuted: a = 4294967295,
   b = 1, c = 0 gave a*(b+c) = 4294967295 but a*b + a*c = 0).  It now panics on overflow in
   every profile, so C09_cost_semiring covers release builds; the witness is replayed first
   by the release probe (corpus/C09/cost_release_overflow.json). *)

(* FuzzyLogic ([0,1], max, min, 0, 1): for every value accepted by `FuzzyLogic::new`, both
   sides of each of the eleven semiring laws are defined and equal for f64's `==` *)
Theorem C09_fuzzy_semiring :
  Forall (fun p : ex * ex =>
            forall a b c : float, in01 a = true -> in01 b = true -> in01 c = true ->
            exists u v,
              sr_eval SFuzzy (VF a) (VF b) (VF c) (fst p) = Some (VF u) /\
              sr_eval SFuzzy (VF a) (VF b) (VF c) (snd p) = Some (VF v) /\
              PrimFloat.eqb u v = true)
         semiring_law_pairs.
Proof. exact fuzzy_semiring. Qed.
Print Assumptions C09_fuzzy_semiring.

Example C09_fuzzy_ex :
  sr_eval SFuzzy (VF 0x1p-1) (VF 0x1p-2) (VF 1) (XMul XA (XAdd XB XC)) = Some (VF 0x1p-1).
Proof. vm_compute. reflexivity. Qed.
