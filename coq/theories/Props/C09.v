(* C09 Algebraic law checkers report exactly the laws that hold.
   Only the property theorems; each closed by a lemma proved under Algebra/. *)
From Coq Require Import List.
From HV Require Import Algebra.Model Algebra.PBasic.

Theorem C09_first_err_ok : forall (X : Type) (xs : list X) body,
  first_err xs body = Ok <-> (forall x, In x xs -> body x = Ok).
Proof. exact (@first_err_ok). Qed.
Print Assumptions C09_first_err_ok.
