(* C24 Ticks advance one at a time and deferred data lands in the next tick.
   Theorems about the tick program model of Dfir/ModelTick.v (the generated tick closure and
   Dfir::run_tick / run_available_sync); proofs in Dfir/PTick.v. *)
From Coq Require Import List NArith Bool.
From HV Require Import Dfir.Model Dfir.ModelTick Dfir.POps Dfir.PTick Dfir.PFrame.
Import ListNotations.
Open Scope N_scope.

(* every executed tick adds exactly one to the counter, for every program (any subgraphs, loop
   gates, swaps) and every input history: after k calls of run_tick current_tick() = 1, .., k *)
Theorem C24_tick_counter :
  (forall p ext w, w_tick (fst (run_tick p ext w)) = w_tick w + 1) /\
  (forall p h, snd (drive false p h) = map N.of_nat (seq 1 (length h))).
Proof. split; [exact run_tick_tick | exact tick_counter]. Qed.
Print Assumptions C24_tick_counter.

(* the double buffer of a tick-level defer_tick handoff h:
   - the producing subgraph starts from an empty `buf` (buf.clear()),
   - at the end of the tick `back` becomes exactly that tick's `buf` (and `buf` the drained back),
   - the consuming subgraph's operators read exactly `back` and leave it empty, `buf` untouched;
   a handoff that is not in the tick-level swap list keeps both buffers over the tick end *)
Theorem C24_double_buffer :
  (forall sg w h k, In (h, k) (sg_send sg) -> k <> SExit -> NoDup (map fst (sg_send sg)) ->
     get h (w_buf (prep_send sg w)) = []) /\
  (forall p ext w h, NoDup (p_swaps p) -> In h (p_swaps p) ->
     let w' := fst (tick_closure p ext w) in
     get h (w_back w') = get h (w_buf (body_world p ext w)) /\
     get h (w_buf w') = get h (w_back (body_world p ext w))) /\
  (forall sg w h, NoDup (map fst (sg_recv sg)) -> In (h, true) (sg_recv sg) ->
     let r := recv_all sg w in
     get h (snd r) = get h (w_back w) /\ get h (w_back (fst r)) = [] /\
     get h (w_buf (fst r)) = get h (w_buf w)) /\
  (forall p ext w h, ~ In h (p_swaps p) ->
     let w' := fst (tick_closure p ext w) in
     get h (w_back w') = get h (w_back (body_world p ext w)) /\
     get h (w_buf w') = get h (w_buf (body_world p ext w))).
Proof.
  split; [exact prep_send_clears|]. split; [exact defer_swap|].
  split; [exact consumer_gets_back | exact no_swap_keeps].
Qed.
Print Assumptions C24_double_buffer.

(* end to end, for a tick program without loop blocks: h is a tick-level defer_tick handoff (in the
   swap list), P the one block that sends to it, C the one block that receives it; every block
   after P leaves h's `buf` alone and every block before C leaves h's `back` alone (C itself only
   drains `back`).  Then what C's operators read from h in tick t+1 (after any blocks A2, with
   any new external input ext') is exactly the buffer P's block left in tick t, and P's block
   had started from an empty buffer: deferred items land exactly one tick later. *)
Theorem C24_delivery : forall p ext ext' w h A1 P B1 A2 C B2 k,
  p_body p = map IRun (A1 ++ P :: B1) ->
  A1 ++ P :: B1 = A2 ++ C :: B2 ->
  NoDup (p_swaps p) -> In h (p_swaps p) ->
  Forall (fun sg => buf_free sg h) B1 ->
  Forall (fun sg => back_free sg h) A2 ->
  NoDup (map fst (sg_recv C)) -> In (h, true) (sg_recv C) ->
  In (h, k) (sg_send P) -> k <> SExit -> NoDup (map fst (sg_send P)) ->
  let w' := fst (tick_closure p ext w) in
  reads_at ext' A2 C h w' = get h (w_buf (run_sg ext P (run_sgs ext A1 w))) /\
  get h (w_buf (prep_send P (run_sgs ext A1 w))) = [].
Proof. exact defer_delivery. Qed.
Print Assumptions C24_delivery.

(* running until idle: the wake flag after a tick is set iff it was set before or some buffer of
   the schedule list (the non-lazy deferred handoffs; a lazy one is never in it) is non-empty at
   the end of the tick; run_available_sync runs another tick exactly in that case; a program
   whose only deferred handoffs are lazy runs exactly one tick per call *)
Theorem C24_run_available :
  (forall p ext w, w_wake (fst (tick_closure p ext w)) =
                   w_wake w || existsb (check_b (body_world p ext w)) (p_sched p)) /\
  (forall f p wakes ext w n,
     run_avail_loop (S f) p wakes ext w n =
     let w1 := fst (run_tick p ext w) in
     if existsb (check_b (body_world p ext (set_wake w false))) (p_sched p) || hd false wakes
     then run_avail_loop f p (tl wakes) [] (set_wake w1 false) (n + 1)
     else (w1, n + 1)) /\
  (forall p ext w, p_sched p = [] -> snd (run_available p ext w) = 1).
Proof.
  split; [exact tick_closure_wake|]. split; [exact run_avail_step | exact lazy_never_ticks].
Qed.
Print Assumptions C24_run_available.

(* 'tick state is the prologue value again after every tick end, 'static state is kept, and the
   tick end applies every operator's write_tick_end *)
Theorem C24_state_lifetimes :
  (forall a s k, (k < nports a)%nat -> acc_pers a k = Tick ->
     port k (st_ports (op_end (OAcc a) s)) = ao_init a k) /\
  (forall a s k, (k < nports a)%nat -> acc_pers a k = Static ->
     port k (st_ports (op_end (OAcc a) s)) = port k (st_ports s)) /\
  (forall p ext w id, In id (map fst (w_st (body_world p ext w))) ->
     lookup (op_init op_identity) id (w_st (fst (tick_closure p ext w))) =
     op_end (kind_op (lookup (NSink 0) id (p_ops p)) (w_tick w))
            (lookup (op_init op_identity) id (w_st (body_world p ext w)))).
Proof.
  split; [exact op_end_tick_reset|]. split; [exact op_end_static_keep | exact tick_end_applied].
Qed.
Print Assumptions C24_state_lifetimes.

(* non-vacuity: a one-subgraph program with a self-loop through a defer_tick handoff (wire 0):
   source -> union -> sink, union -> defer -> union; three ticks *)
Example C24_example :
  let sg := {| sg_recv := [(0, true)]; sg_send := [(0, SClear)];
               sg_slots := []; sg_nodes := [ {| n_id := 0; n_kind := NSource 0; n_ins := []; n_outs := [1] |};
                             {| n_id := 1; n_kind := NOp (op_union 2); n_ins := [1; 0]; n_outs := [2] |};
                             {| n_id := 2; n_kind := NOp (op_tee 2); n_ins := [2]; n_outs := [3; 0] |};
                             {| n_id := 3; n_kind := NSink 0; n_ins := [3]; n_outs := [] |} ] |} in
  let p := {| p_body := [IRun sg]; p_sched := [CBuf 0]; p_swaps := [0];
              p_ops := [(0, NSource 0); (1, NOp (op_union 2)); (2, NOp (op_tee 2)); (3, NSink 0)] |} in
  let '(w, obs) := drive false p [[(0, [VN 5])]; []; []] in
  (get 0 (w_out w), obs) =
  ([VP (VN 0) (VN 5); VP (VN 1) (VN 5); VP (VN 2) (VN 5)], [1; 2; 3]).
Proof. vm_compute. reflexivity. Qed.
