(* C38 Simulator runs replay deterministically.
   The model is a FUNCTION of (hook states, iteration order of every keyed map, decision
   script), so "same input, same run" is definitional for the model and is NOT presented as a
   result.  The property is decided by the replay correspondence (props/C38.py): every corpus
   instance is run twice in-process and once in a fresh process with the same decision input;
   all logs must be equal to each other and (scripted instances) to the model's.

   What is proved here is only what the replay argument needs from the model about the one
   source of non-determinism the code has, FxHashMap iteration order in the keyed hooks:
   scheduling predicates do not depend on it; decision outcomes DO (witness below), which is
   why replay relies on the hasher being deterministic - an assumption about hashbrown/FxHash
   that is not modelled. *)
From Coq Require Import List Arith Bool NArith Permutation String.
From HV Require Import Sim.Model Sim.Run Sim.Log Sim.POracle Sim.PReplay.
Import ListNotations.
Open Scope N_scope.

(* whether a tick can run, and each hook's readiness, is independent of the order oracle *)
Theorem C38_can_run_oracle_independent : forall hs hs',
  Forall2 same_up_to_order hs hs' -> can_run hs = can_run hs'.
Proof. exact can_run_oracle_independent. Qed.
Print Assumptions C38_can_run_oracle_independent.

Theorem C38_readiness_oracle_independent : forall h h',
  same_up_to_order h h' ->
  current_decision h = current_decision h' /\ can_nontrivial h = can_nontrivial h'
  /\ is_ready h = is_ready h' /\ hook_can_release h = hook_can_release h'.
Proof. exact readiness_oracle_independent. Qed.
Print Assumptions C38_readiness_oracle_independent.

(* the same decision script under two iteration orders releases different items: the decision
   outcome is NOT oracle independent, replay needs a deterministic hasher *)
Example C38_outcome_depends_on_oracle :
  same_up_to_order (HKeyedT [(1, [10]); (2, [20])] None) (HKeyedT [(2, [20]); (1, [10])] None)
  /\ auto (HKeyedT [(1, [10]); (2, [20])] None) false [1; 0]%nat
     = Ok (HKeyedT [(1, []); (2, [20])] (Some [(1, 10)]), true, [])
  /\ auto (HKeyedT [(2, [20]); (1, [10])] None) false [1; 0]%nat
     = Ok (HKeyedT [(2, []); (1, [10])] (Some [(2, 20)]), true, []).
Proof.
  split; [|split; reflexivity]. constructor. apply perm_swap.
Qed.

(* The modelled run of an instance -- readiness, decisions consumed, released items, remaining
   queues, panics and the decision-log TEXT -- is the Gallina function [run_log]'s reference
   ([model_tick], [tick_log]) of (hook states, map iteration orders, decision values); that it is
   a function is definitional.  props/C38.py compares EVERY component of the implementation's
   log with it on every explored instance, for the scripted driver and for bolero's real
   byte-slice driver (whose returned values are recorded and replayed on the model).
   With content: a run reads its script left to right and ignores what follows the decisions
   it consumed, so a recorded decision string replays identically when more entropy follows. *)
Theorem C38_run_ignores_unused_decisions : forall hs ds hs2 outs rest e,
  run_hooks hs ds = Ok (hs2, outs, rest) -> run_hooks hs (ds ++ e) = Ok (hs2, outs, rest ++ e).
Proof. exact run_hooks_frame. Qed.
Print Assumptions C38_run_ignores_unused_decisions.

Theorem C38_model_run_is_a_function : forall hs rs v1 v2,
  run_log hs rs = v1 -> run_log hs rs = v2 -> v1 = v2.
Proof. intros hs rs v1 v2 H1 H2. congruence. Qed.
Print Assumptions C38_model_run_is_a_function.

Example C38_log_text :
  fst (tick_log [HStreamT [10; 20] None; HSingle [7; 8] None (Some 5)]
                [HStreamT [20] None; HSingle [] None (Some 8)]
                [([(0, 10)], true); ([(0, 8)], true)] [[]; []])
  = ("--> loc" ++ nl ++ " |line" ++ nl ++ " |  ^ releasing items: [10]" ++ nl
     ++ "--> loc" ++ nl ++ " |line" ++ nl
     ++ " |  ^ releasing snapshot: 8 (skipping earlier states: [7])" ++ nl)%string.
Proof. reflexivity. Qed.
