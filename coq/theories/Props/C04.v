(* C04 Each lattice type implements its mathematical model.
   Shape: (1) for every type code, merge is the join (least upper bound) of the order the
   lattice induces; (2) for each constructor that order is the documented mathematical one
   (inclusion, key-wise with bottom entries invisible, numeric max/min, adjoined bottom/top,
   component-wise, lexicographic dominance, index-wise with extension, flat conflict);
   (3) the executable join test applied to implementation outputs is sound.
   Representations (hash / btree / vec / array / singleton / option) share one carrier in the
   model -- they differ only in which values are well-formed -- and LatticeFrom is the
   identity there, so the theorems hold across representations by construction; that the
   Rust conversions and cross-representation impls really behave so is the correspondence
   check's "het" stream.  The union-find part is in Props/C04uf.v. *)
From HV Require Import Lattice.Univ Lattice.Het Lattice.PSet Lattice.PBot Lattice.PPair Lattice.PVec
  Lattice.PMap Lattice.PUniv Lattice.PJoin.

Theorem C04_merge_is_join : forall t, key_total t = true ->
  forall a b : val t, W (ops t) a -> W (ops t) b ->
    W (ops t) (m (ops t) a b) /\
    Le (ops t) a (m (ops t) a b) /\ Le (ops t) b (m (ops t) a b) /\
    forall c, W (ops t) c -> Le (ops t) a c -> Le (ops t) b c -> Le (ops t) (m (ops t) a b) c.
Proof. exact merge_is_join. Qed.
Print Assumptions C04_merge_is_join.

Theorem C04_join_test_sound : forall t, key_total t = true ->
  forall (a b : val t) (i : obs t), W (ops t) a -> W (ops t) b ->
    C04_join_b t a b i = true -> E (ops t) (fst (o_ab i)) (m (ops t) a b).
Proof. exact join_b_sound. Qed.
Print Assumptions C04_join_test_sound.

(* set union *)
Theorem C04_set : forall a b : list N, W set_ops a -> W set_ops b ->
  (Le set_ops a b <-> incl a b) /\
  (forall x, In x (fst (mrg set_ops a b)) <-> In x a \/ In x b).
Proof. intros a b Wa Wb. exact (conj (set_order a b Wa Wb) (set_merge_union a b)). Qed.
Print Assumptions C04_set.

(* key-wise merge, bottom-valued entries invisible: [aget] is the visible value at a key *)
Theorem C04_map : forall t, key_total t = true ->
  forall a b : val (TMap t), W (ops (TMap t)) a -> W (ops (TMap t)) b ->
    (Le (ops (TMap t)) a b <-> forall k, ole _ (ops t) (aget _ (ops t) k a) (aget _ (ops t) k b)) /\
    (forall k, let r := aget _ (ops t) k (fst (mrg (ops (TMap t)) a b)) in
       ole _ (ops t) (aget _ (ops t) k a) r /\ ole _ (ops t) (aget _ (ops t) k b) r /\
       forall z, owf _ (ops t) z -> ole _ (ops t) (aget _ (ops t) k a) z -> ole _ (ops t) (aget _ (ops t) k b) z ->
                 ole _ (ops t) r z).
Proof.
  intros t K a b Wa Wb. split.
  - exact (map_order t K a b Wa Wb).
  - intros k. exact (map_merge_model _ _ (laws t K) a b k Wa Wb).
Qed.
Print Assumptions C04_map.

Theorem C04_max_min : forall top a b,
  fst (mrg (max_ops top) a b) = N.max a b /\ fst (mrg (min_ops top) a b) = N.min a b.
Proof. intros top a b. exact (conj (max_join top a b) (min_join top a b)). Qed.
Print Assumptions C04_max_min.

Theorem C04_conflict : forall a b : option N,
  fst (mrg conflict_ops a b) =
  match a, b with Some x, Some y => if N.eqb x y then Some x else None | _, _ => None end.
Proof. exact conflict_join. Qed.
Print Assumptions C04_conflict.

(* adjoined bottom / top *)
Theorem C04_withbot_withtop : forall t, key_total t = true ->
  (forall a b, W (ops (TBot t)) a -> W (ops (TBot t)) b ->
     (Le (ops (TBot t)) a b <-> bot_le _ (ops t) a b)) /\
  (forall a b, W (ops (TTop t)) a -> W (ops (TTop t)) b ->
     (Le (ops (TTop t)) a b <-> top_le _ (ops t) a b)).
Proof. intros t K. exact (conj (withbot_order t K) (withtop_order t K)). Qed.
Print Assumptions C04_withbot_withtop.

(* component-wise pair (and derived structs), dominating pair *)
Theorem C04_pair_dom : forall t u, key_total t = true -> key_total u = true ->
  (forall a b, W (ops (TPair t u)) a -> W (ops (TPair t u)) b ->
     (Le (ops (TPair t u)) a b <-> Le (ops t) (fst a) (fst b) /\ Le (ops u) (snd a) (snd b))) /\
  (total_ty t = true -> forall a b, W (ops (TDom t u)) a -> W (ops (TDom t u)) b ->
     (Le (ops (TDom t u)) a b <-> dom_le _ _ (ops t) (ops u) a b)).
Proof.
  intros t u Kt Ku. split.
  - exact (pair_order t u Kt Ku).
  - intros T a b. exact (dom_order t u Kt Ku a b T).
Qed.
Print Assumptions C04_pair_dom.

(* index-wise vector merge with extension *)
Theorem C04_vec : forall t, key_total t = true ->
  (forall a b, W (ops (TVec t)) a -> W (ops (TVec t)) b ->
     (Le (ops (TVec t)) a b <-> vle _ (ops t) a b)) /\
  (forall a b i, nth_error (fst (mrg (ops (TVec t)) a b)) i =
     match nth_error a i, nth_error b i with
     | Some x, Some y => Some (m (ops t) x y)
     | Some x, None => Some x
     | None, Some y => Some y
     | None, None => None
     end).
Proof.
  intros t K. split.
  - exact (vec_order t K).
  - intros a b i. exact (vec_merge_nth _ (ops t) a b i).
Qed.
Print Assumptions C04_vec.

Example C04_nonvacuous :
  let t := TMap (TBot TSet) in
  key_total t = true /\ W (ops t) [(1, Some [2]); (3, None)]%N /\ W (ops t) [(1, Some [4]); (5, Some [])]%N /\
  aget _ (ops (TBot TSet)) 1 (fst (mrg (ops t) [(1, Some [2]); (3, None)] [(1, Some [4]); (5, Some [])]))%N
    = Some (Some [2; 4])%N /\
  aget _ (ops (TBot TSet)) 5 (fst (mrg (ops t) [(1, Some [2]); (3, None)] [(1, Some [4]); (5, Some [])]))%N = None.
Proof. repeat split. Qed.
