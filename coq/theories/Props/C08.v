(* C08 Generalized hash tries behave as sets of tuples.
   Only the property theorems; each is closed by an exact/apply of a lemma proved in
   Coll/PGHT.v and followed by Print Assumptions.  Model: Coll/ModelGHT.v.
   [wf h d t]: t is a trie of height h keyed from column d on, as produced by insert/merge
   (distinct child keys, no empty child, rows below child k have k in column d, leaves are sets).
   The extended model ModelGHT2 (every leaf storage, `forced` flag, force_drain, child drain, COLT
   forest get) is correspondence-checked; proved about it (the two former deviations are fixed in
   /repo, see the end of the file): conservation of the multiset of rows by insert / merge_node / force_drain for the counted and
   column leaf storages, and the COLT forest: ColtGet::get along any key path keeps the forest
   well-formed, loses nothing and returns exactly the rows with the prefix (C08_colt_get,
   C08_colt_history). *)
From HV Require Import Coll.ModelGHT Coll.PGHT Coll.ModelGHT2 Coll.PGHT2 Coll.PVC Coll.PCOLT.
From Coq Require Import Permutation.

(* Every answer of every history of insert / merge / contains / recursive_iter / prefix_iter /
   find_containing_leaf / partial_cmp / == / height / is_bot / deep join / cartesian product / force on
   two tries of any height equals the answer of the plain set of rows (row lists up to
   permutation), without exception. *)
Theorem C08_history :
  forall nk arity ops, gops_ok nk arity ops = true ->
    Forall2 gans_equiv (gmodel_run nk ops) (gspec_run nk ops).
Proof. exact ght_history_equiv. Qed.
Print Assumptions C08_history.

(* rows (insert t r) = rows t U {r}, for any height *)
Theorem C08_insert :
  forall h d t r, wf h d t ->
    wf h d (insert h d t r) /\
    forall x, In x (riter h (insert h d t r)) <-> In x (riter h t) \/ x = r.
Proof. exact insert_spec. Qed.
Print Assumptions C08_insert.

Theorem C08_contains :
  forall h d t r, wf h d t -> (contains h d t r = true <-> In r (riter h t)).
Proof. exact contains_spec. Qed.
Print Assumptions C08_contains.

(* recursive_iter enumerates the rows without duplicates *)
Theorem C08_iter_nodup : forall h d t, wf h d t -> NoDup (riter h t).
Proof. exact riter_nodup. Qed.
Print Assumptions C08_iter_nodup.

(* rows (merge a b) = rows a U rows b; changed <-> b has a row a lacks *)
Theorem C08_merge :
  forall h d a b, wf h d a -> wf h d b ->
    wf h d (fst (merge h a b)) /\
    (forall x, In x (riter h (fst (merge h a b))) <-> In x (riter h a) \/ In x (riter h b)) /\
    snd (merge h a b) = negb (subset_b (riter h b) (riter h a)).
Proof. exact merge_spec. Qed.
Print Assumptions C08_merge.

(* partial_cmp is the subset comparison of the row sets, for ALL tries (it never panics) *)
Theorem C08_pcmp :
  forall h d a b, wf h d a -> wf h d b -> pcmp h a b = subset_cmp (riter h a) (riter h b).
Proof. exact pcmp_is_subset_cmp. Qed.
Print Assumptions C08_pcmp.

Theorem C08_pcmp_rel :
  forall h d a b, wf h d a -> wf h d b -> cmp_rel (riter h a) (riter h b) (pcmp h a b).
Proof. exact pcmp_spec. Qed.
Print Assumptions C08_pcmp_rel.

(* Since repo commit c041ccb5709 merge / partial_cmp / == skip children without rows.  So the
   three statements hold for ALL weakly well-formed tries (wfw: distinct child keys, rows below
   child k carry k, leaves are sets -- children may be EMPTY, as left by get_mut + drain, COLT
   get, or a deep join): two tries with the same rows are == and compare Equal whatever empty
   children they carry, and merge reports exactly "the row set grew". *)
Theorem C08_pcmp_any_children :
  forall h d a b, wfw h d a -> wfw h d b -> cmp_rel (riter h a) (riter h b) (pcmp h a b).
Proof. exact pcmp_spec_w. Qed.
Print Assumptions C08_pcmp_any_children.

Theorem C08_eq_any_children :
  forall h d a b, wfw h d a -> wfw h d b ->
    (peq h a b = true <-> incl (riter h a) (riter h b) /\ incl (riter h b) (riter h a)).
Proof. exact peq_spec_w. Qed.
Print Assumptions C08_eq_any_children.

Theorem C08_merge_any_children :
  forall h d a b, wfw h d a -> wfw h d b ->
    wfw h d (fst (merge h a b)) /\
    (forall x, In x (riter h (fst (merge h a b))) <-> In x (riter h a) \/ In x (riter h b)) /\
    snd (merge h a b) = negb (subset_b (riter h b) (riter h a)).
Proof. exact merge_spec_w. Qed.
Print Assumptions C08_merge_any_children.

Theorem C08_wf_is_weak : forall h d t, wf h d t -> wfw h d t.
Proof. exact wf_wfw. Qed.
Print Assumptions C08_wf_is_weak.

Theorem C08_eq :
  forall h d a b, wf h d a -> wf h d b ->
    (peq h a b = true <-> incl (riter h a) (riter h b) /\ incl (riter h b) (riter h a)).
Proof. exact peq_spec. Qed.
Print Assumptions C08_eq.

(* prefix lookups agree with filtering the rows *)
Theorem C08_prefix :
  forall h d t p, wf h d t -> Forall (fun x => h + d <= length x) (riter h t) ->
    NoDup (prefix_iter h d t p) /\
    forall x, In x (prefix_iter h d t p) <-> In x (riter h t) /\ has_prefix p (skipn d x) = true.
Proof. exact prefix_iter_spec. Qed.
Print Assumptions C08_prefix.

Theorem C08_find_leaf :
  forall h d t r, wf h d t -> Forall (fun x => h + d <= length x) (riter h t) -> h + d <= length r ->
    match find_leaf h d t r with
    | Some L => In r (riter h t) /\ NoDup L /\
                forall x, In x L <-> In x (riter h t) /\ firstn h (skipn d x) = firstn h (skipn d r)
    | None => ~ In r (riter h t)
    end.
Proof. exact find_leaf_spec. Qed.
Print Assumptions C08_find_leaf.

(* DeepJoinLatticeBimorphism (GhtNodeKeyedBimorphism nested over GhtValTypeProductBimorphism):
   the rows of the output trie are exactly the natural join on the key columns d .. d+h-1,
   each once (wfw gives NoDup of recursive_iter, C08_join_nodup) *)
Theorem C08_join :
  forall h d nk a b, wf h d a -> wf h d b ->
    Forall (fun x => h + d <= length x) (riter h a) ->
    Forall (fun x => h + d <= length x) (riter h b) ->
    wfw h d (deep_join h nk a b) /\
    forall z, In z (riter h (deep_join h nk a b)) <->
      exists x y, In x (riter h a) /\ In y (riter h b) /\
                  firstn h (skipn d x) = firstn h (skipn d y) /\ z = x ++ skipn nk y.
Proof. exact deep_join_spec. Qed.
Print Assumptions C08_join.

Theorem C08_join_nodup : forall h d t, wfw h d t -> NoDup (riter h t).
Proof. exact riter_nodup_w. Qed.
Print Assumptions C08_join_nodup.

(* GhtCartesianProductBimorphism at the roots, collected into a trie with nko key columns *)
Theorem C08_cart :
  forall h nko a b,
    wf nko 0 (cart_product h nko a b) /\
    forall z, In z (riter nko (cart_product h nko a b)) <->
              exists x y, In x (riter h a) /\ In y (riter h b) /\ z = x ++ y.
Proof. exact cart_product_spec. Qed.
Print Assumptions C08_cart.

(* COLT force: a leaf becomes a trie of height 1 with exactly the same rows; inner nodes: None *)
Theorem C08_force :
  forall h d t, wf h d t ->
    (h = 0 /\ exists t', force h d t = Some t' /\ wf 1 d t' /\
               forall x, In x (riter 1 t') <-> In x (riter h t)) \/
    (exists k, h = S k /\ force h d t = None).
Proof. exact force_spec. Qed.
Print Assumptions C08_force.

(* the executable form evaluated on the implementation's answers *)
Theorem C08_holds_b_sound :
  forall nk ops impl, C08_holds_b nk ops impl = true <-> Forall2 gans_equiv impl (gspec_run nk ops).
Proof. exact c08_holds_b_spec. Qed.
Print Assumptions C08_holds_b_sound.

(* FORMER FINDING, fixed in /repo by commit 40ab16e7935 (model updated accordingly):
   GhtInner::partial_cmp reached unreachable!() on incomparable tries.  The former theorem was
     C08_pcmp_refuted : exists h a b, a = insert h 0 (empty h) [1; 10] /\ b = insert h 0 (empty h) [2; 20]
                          /\ pcmp h a b = PPanic /\ subset_cmp (riter h a) (riter h b) = PNone
   (witness h = 1).  The same input is corpus/C08/pcmp_incomparable.json, re-checked first on
   every run; on the fixed code and model the answer is None: *)
Example C08_former_witness :
  pcmp 1 (insert 1 0 (empty 1) [1; 10]%N) (insert 1 0 (empty 1) [2; 20]%N) = PNone.
Proof. exact pcmp_former_witness. Qed.

(* ---- extended model: multiset leaf storages (k <> KSet), any height *)
Theorem C08_multiset_insert :
  forall k a, k <> KSet -> 0 < a -> forall h d t r, good k a h t -> length r = a ->
    good k a h (sinsert k a h d t r) /\
    forall x, cnt (sriter h (sinsert k a h d t r)) x = cnt (sriter h t) x + (if row_eqb x r then 1 else 0).
Proof. intros k a m p. exact (@sinsert_cnt k a m p). Qed.
Print Assumptions C08_multiset_insert.

Theorem C08_multiset_merge :
  forall k a, k <> KSet -> 0 < a -> forall h t u, good k a h t -> good k a h u ->
    good k a h (fst (smerge h t u)) /\
    forall x, cnt (sriter h (fst (smerge h t u))) x = cnt (sriter h t) x + cnt (sriter h u) x.
Proof. intros k a m p. exact (@smerge_cnt k a m p). Qed.
Print Assumptions C08_multiset_merge.

Theorem C08_multiset_force_drain :
  forall k a, k <> KSet -> 0 < a -> forall st f d, leaf_good k a st ->
    exists st' t', sforce_drain k a 0 d (SLeaf st f) = (SLeaf st' true, Some t') /\
      leaf_good k a st' /\ (forall x, cnt (st_iter st') x = 0) /\ good k a 1 t' /\
      forall x, cnt (sriter 1 t') x = cnt (st_iter st) x.
Proof. intros k a m p. exact (@sforce_drain_cnt k a m p). Qed.
Print Assumptions C08_multiset_force_drain.

(* ---- COLT (colt.rs): forest of tries of heights 0..n-1 (PCOLT.fswf: each well-formed -- distinct
   keys, rows below child k carry k in column d, leaves refine bags of rows of arity a; children
   may be empty), multiset leaf storage.  ColtGet::get along [path] (each get's result is the
   receiver of the next): the forest keeps its shape and stays well-formed, the multiset of all
   rows is unchanged, and the result forest holds exactly the rows whose columns d.. start with
   [path], each with its multiplicity. *)
Theorem C08_colt_get :
  forall k a, k <> KSet -> 0 < a -> forall path d fs,
    map fst fs = seq 0 (length fs) -> fswf k a d fs -> d + length fs <= S a ->
    (path = [] \/ length path < length fs) ->
    let res := colt_get_path k a d fs path in
    map fst (fst res) = map fst fs /\ fswf k a d (fst res) /\
    (forall x, cnt (T (fst res)) x = cnt (T fs) x) /\
    (forall x, cnt (concat (snd res)) x = if has_prefix path (skipn d x) then cnt (T fs) x else 0).
Proof. intros k a m p. exact (colt_get_spec k a m p). Qed.
Print Assumptions C08_colt_get.

(* every history of insert / get along any path / all-rows on a fresh COLT forest of a+1 tries
   answers as the plain multiset of inserted rows does (cspec_holds is the executable form the
   correspondence check evaluates on the real forests) *)
Theorem C08_colt_history :
  forall k a, k <> KSet -> 0 < a -> forall ops,
    Forall (cop_ok a) ops -> cspec_holds [] ops (cmodel_run k a (S a) ops) = true.
Proof. intros k a m p. exact (colt_history k a m p). Qed.
Print Assumptions C08_colt_history.

(* ---- former findings *)
(* FORMER FINDING, fixed in /repo by beb89003dcf: the derived PartialEq of GhtLeaf compared the
   COLT flag `forced` (former theorem C08_forced_eq_refuted, witness PGHT2.forced_ops =
   insert (1,1); force_drain; partial_cmp; ==).  corpus/C08/forced_flag_eq.json is re-checked
   first on every run; on the fixed code and model the answers are the specified ones: *)
Example C08_former_forced_witness :
  xmodel_run KSet 2 0 forced_ops = xspec_run KSet 0 forced_ops /\
  xspec_run KSet 0 forced_ops = [XABool true; XAOptRows (Some [[1; 1]%N]); XACmp (PSome Eq); XABool true].
Proof. exact forced_eq_now_agrees. Qed.

(* FORMER FINDING, fixed in /repo by c041ccb5709: an emptied child stayed in GhtInner::children
   and counted as content (former theorem C08_empty_child_refuted, witness PGHT2.empty_child_ops =
   insert (1,10); get_mut(1).drain(); iter; is_bot; partial_cmp; ==; merge into the empty trie).
   corpus/C08/empty_child_cmp.json is re-checked first on every run; on the fixed code and model
   the answers are the specified ones (positive general statements: C08_*_any_children above): *)
Example C08_former_empty_child_witness :
  xmodel_run KSet 2 1 empty_child_ops = xspec_run KSet 1 empty_child_ops /\
  xspec_run KSet 1 empty_child_ops =
    [XABool true; XAOptRows (Some [[1; 10]%N]); XARows []; XABool true; XACmp (PSome Eq);
     XABool true; XABool false].
Proof. exact empty_child_now_agrees. Qed.

(* ---- non-vacuity *)
Example C08_ex_colt :
  cmodel_run KColumn 2 3 [CInsert [1; 1]; CInsert [1; 2]; CInsert [2; 2]; CGet [1]; CGet [1; 2]; CAll]%N
  = [CAUnit; CAUnit; CAUnit; CAForest [[[1; 1]; [1; 2]]; []]; CAForest [[[1; 2]]];
     CAForest [[]; [[2; 2]]; [[1; 1]; [1; 2]]]]%N
  /\ Forall (cop_ok 2) [CInsert [1; 1]; CGet [1; 2]; CAll]%N.
Proof. split; [vm_compute; reflexivity|repeat constructor]. Qed.
Example C08_ex_good :
  good KColumn 2 1 (sinsert KColumn 2 1 0 (sempty KColumn 2 1) [1; 2]%N).
Proof.
  apply (@sinsert_cnt KColumn 2 ltac:(discriminate) ltac:(repeat constructor) 1 0 (sempty KColumn 2 1) [1; 2]%N).
  - apply good_sempty.
  - reflexivity.
Qed.

Example C08_ex_wf :
  let t := insert 2 0 (insert 2 0 (insert 2 0 (empty 2) [1; 2; 3]%N) [1; 4; 5]%N) [2; 2; 2]%N in
  wf 2 0 t /\ riter 2 t = [[1; 2; 3]; [1; 4; 5]; [2; 2; 2]]%N /\
  Forall (fun x => 2 + 0 <= length x) (riter 2 t).
Proof.
  split; [|split; [vm_compute; reflexivity|vm_compute; repeat constructor]].
  repeat apply insert_spec. apply wf_empty.
Qed.
Example C08_ex_pcmp :
  pcmp 1 (insert 1 0 (insert 1 0 (empty 1) [1; 1]%N) [2; 2]%N) (insert 1 0 (empty 1) [1; 1]%N) = PSome Gt.
Proof. vm_compute. reflexivity. Qed.
Example C08_ex_history :
  let ops := [GInsert false [1; 1; 5]; GInsert true [1; 2; 6]; GMerge false; GCmp false;
              GPrefix false [1; 2]; GLeaf false [1; 1; 5]; GEq true; GInsert true [1; 1; 7]; GJoin false]%N in
  gops_ok 2 3 ops = true /\
  gmodel_run 2 ops = [GABool true; GABool true; GABool true; GACmp (PSome Gt); GARows [[1; 2; 6]];
                      GAOptRows (Some [[1; 1; 5]]); GABool false; GABool true;
                      GARows [[1; 2; 6; 6]; [1; 1; 5; 7]]]%N.
Proof. split; vm_compute; reflexivity. Qed.
