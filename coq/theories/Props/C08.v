(* C08 Generalized hash tries behave as sets of tuples.
   Only the property theorems; each is closed by an exact/apply of a lemma proved in
   Coll/PGHT.v and followed by Print Assumptions.  Model: Coll/ModelGHT.v. *)
From HV Require Import Coll.ModelGHT Coll.PGHT.

(* recorded finding: GhtInner::partial_cmp reaches unreachable!() on incomparable tries *)
Theorem C08_pcmp_refuted :
  exists h a b,
    a = insert h 0 (empty h) [1; 10]%N /\ b = insert h 0 (empty h) [2; 20]%N /\
    pcmp h a b = PPanic /\ subset_cmp (riter h a) (riter h b) = PNone.
Proof. exact pcmp_refuted. Qed.
Print Assumptions C08_pcmp_refuted.
