(* C08 Generalized hash tries behave as sets of tuples.
   Only the property theorems; each is closed by an exact/apply of a lemma proved in
   Coll/PGHT.v and followed by Print Assumptions.  Model: Coll/ModelGHT.v.
   [wf h d t]: t is a trie of height h keyed from column d on, as produced by insert/merge. *)
From HV Require Import Coll.ModelGHT Coll.PGHT.

(* rows (insert t r) = rows t U {r}, for any height *)
Theorem C08_insert :
  forall h d t r, wf h d t ->
    wf h d (insert h d t r) /\
    forall x, In x (riter h (insert h d t r)) <-> In x (riter h t) \/ x = r.
Proof. exact insert_spec. Qed.
Print Assumptions C08_insert.

Theorem C08_contains :
  forall h d t r, wf h d t -> (contains h d t r = true <-> In r (riter h t)).
Proof. exact contains_spec. Qed.
Print Assumptions C08_contains.

(* recursive_iter enumerates the rows without duplicates *)
Theorem C08_iter_nodup : forall h d t, wf h d t -> NoDup (riter h t).
Proof. exact riter_nodup. Qed.
Print Assumptions C08_iter_nodup.

(* partial_cmp is the subset comparison of the row sets whenever it returns; when it panics
   (unreachable!()) the row sets are incomparable, i.e. the specified answer is None *)
Theorem C08_pcmp :
  forall h d a b, wf h d a -> wf h d b -> cmp_rel (riter h a) (riter h b) (pcmp h a b).
Proof. exact pcmp_spec. Qed.
Print Assumptions C08_pcmp.

(* recorded finding: GhtInner::partial_cmp reaches unreachable!() on incomparable tries *)
Theorem C08_pcmp_refuted :
  exists h a b,
    a = insert h 0 (empty h) [1; 10]%N /\ b = insert h 0 (empty h) [2; 20]%N /\
    pcmp h a b = PPanic /\ subset_cmp (riter h a) (riter h b) = PNone.
Proof. exact pcmp_refuted. Qed.
Print Assumptions C08_pcmp_refuted.

(* ---- non-vacuity *)
Example C08_ex_wf :
  let t := insert 2 0 (insert 2 0 (insert 2 0 (empty 2) [1; 2; 3]%N) [1; 4; 5]%N) [2; 2; 2]%N in
  wf 2 0 t /\ riter 2 t = [[1; 2; 3]; [1; 4; 5]; [2; 2; 2]]%N.
Proof.
  split; [|vm_compute; reflexivity].
  repeat apply insert_spec. apply wf_empty.
Qed.
Example C08_ex_pcmp :
  pcmp 1 (insert 1 0 (insert 1 0 (empty 1) [1; 1]%N) [2; 2]%N) (insert 1 0 (empty 1) [1; 1]%N) = PSome Gt.
Proof. vm_compute. reflexivity. Qed.
