(* C39 Quorum collection is batching-independent and fires once per key.
   Only the property theorems, each closed by a lemma of Proto/PQuorum.v.

   `bs` is ANY batching (partition into ticks) of the response sequence `concat bs`; the helpers
   are the per-batch step functions of Proto/QuorumModel.v, written as hydro_std/src/quorum.rs
   and request_response.rs are written.  Precondition everywhere: 1 <= min <= max and at most max
   responses per key (the documented usage).                                                 *)
From HV Require Import Proto.QuorumModel Proto.PQuorum.

(* collect_quorum: the j-th tick reports exactly the keys whose min-th success lies in the j-th
   batch, without duplicates ... *)
Theorem C39_collect_quorum : forall mn mx bs j o,
  1 <= mn -> mn <= mx -> (forall k, total k (concat bs) <= mx) ->
  nth_error (q_run cq_out mn mx q_init bs) j = Some o ->
  NoDup o /\
  forall k, In k o <-> (mn <= succ k (concat (firstn (S j) bs)) /\ succ k (concat (firstn j bs)) < mn).
Proof. exact cq_correct. Qed.
Print Assumptions C39_collect_quorum.

(* ... hence at most once over the whole run ... *)
Theorem C39_collect_quorum_once : forall mn mx bs j1 j2 o1 o2 k,
  1 <= mn -> mn <= mx -> (forall k, total k (concat bs) <= mx) ->
  nth_error (q_run cq_out mn mx q_init bs) j1 = Some o1 ->
  nth_error (q_run cq_out mn mx q_init bs) j2 = Some o2 ->
  In k o1 -> In k o2 -> j1 = j2.
Proof. exact cq_once. Qed.
Print Assumptions C39_collect_quorum_once.

(* ... and it is reported iff the sequence holds min successes for it: the set of reported keys is
   a function of the sequence, not of the batching *)
Theorem C39_collect_quorum_reported_iff : forall mn mx bs k,
  1 <= mn -> mn <= mx -> (forall k, total k (concat bs) <= mx) ->
  (mn <= succ k (concat bs) <->
   exists j o, nth_error (q_run cq_out mn mx q_init bs) j = Some o /\ In k o).
Proof. exact cq_reported_iff. Qed.
Print Assumptions C39_collect_quorum_reported_iff.

(* errors pass through 1:1 under every batching *)
Theorem C39_errors_passthrough : forall bs, concat (map q_errs bs) = err_vals (concat bs).
Proof. exact errs_passthrough. Qed.
Print Assumptions C39_errors_passthrough.

(* collect_quorum_with_response, every min <= max: the j-th tick reports every success received so
   far, in stream order, of exactly the keys whose min-th success lies in the j-th batch *)
Theorem C39_with_response : forall mn mx bs j o,
  1 <= mn -> mn <= mx -> (forall k, total k (concat bs) <= mx) ->
  nth_error (q_run cqr_out mn mx q_init bs) j = Some o ->
  exists b, nth_error bs j = Some b /\
  o = ok_vals (filter (fun r => just_reached mn (concat (firstn j bs)) b (fst r)) (concat (firstn j bs) ++ b)).
Proof. exact cqr_correct. Qed.
Print Assumptions C39_with_response.

(* with min = max the values reported for a key are all its successes in the whole sequence,
   whatever the batching *)
Theorem C39_with_response_min_eq_max_batching_independent : forall mn bs j o k,
  1 <= mn -> (forall k, total k (concat bs) <= mn) ->
  nth_error (q_run cqr_out mn mn q_init bs) j = Some o ->
  In k (map fst o) ->
  filter (fun kv => N.eqb (fst kv) k) o = ok_vals (filter (key_is k) (concat bs)).
Proof. exact cqr_min_eq_max_batching_independent. Qed.
Print Assumptions C39_with_response_min_eq_max_batching_independent.

(* KNOWN FINDING (known_findings.d/C39.txt): with min < max the reported values DO depend on the
   batching -- two batchings of one sequence, within the precondition, give different outputs *)
Theorem C39_with_response_batching_dependent_refuted :
  exists (mn mx : nat) (s : list resp) (bs1 bs2 : list (list resp)),
    1 <= mn /\ mn < mx /\ (forall k, total k s <= mx) /\
    concat bs1 = s /\ concat bs2 = s /\
    concat (q_run cqr_out mn mx q_init bs1) <> concat (q_run cqr_out mn mx q_init bs2) /\
    length (concat (q_run cqr_out mn mx q_init bs1)) <> length (concat (q_run cqr_out mn mx q_init bs2)).
Proof. exact cqr_batching_dependent_refuted. Qed.
Print Assumptions C39_with_response_batching_dependent_refuted.

(* join_responses: in every tick a response is joined with a metadata entry iff the entry was
   generated in the same or an earlier tick and no earlier response used its key (under the
   documented usage: metadata never later than its response) *)
Theorem C39_join_responses : forall ticks j out,
  meta_not_late [] ticks ->
  nth_error (j_run (mkJ []) ticks) j = Some out ->
  exists mt rs, nth_error ticks j = Some (mt, rs) /\
    forall k m v, In (k, (m, v)) out <->
      (In (k, v) rs /\ In (k, m) (concat (map fst (firstn j ticks)) ++ mt) /\
       ~ In k (map fst (concat (map snd (firstn j ticks))))).
Proof. exact jr_correct. Qed.
Print Assumptions C39_join_responses.

(* non-vacuity: a run inside the precondition in which a key is reported *)
Example C39_nonvacuous :
  q_run cq_out 2 3 q_init [[(1%N, ROk 0%N)]; [(2%N, RErr 5%N); (1%N, ROk 0%N)]; [(1%N, ROk 0%N)]]
  = [[]; [1%N]; []].
Proof. reflexivity. Qed.
