(* C15 Merged network sources keep per-sender order and lose nothing.
   Only the property theorems (each closed by `exact` of a lemma of Chan/PMerge*.v).
   Model: Chan/ModelMerge.v -- `mpoll`/`mrun` transcribe MergeSource::poll_next (cursor modulo
   the length, None-marking, retain with cursor fix-up) over TaggedSource over scripted streams;
   all theorems are for ANY number of sources and ALL per-poll scripts of any length. *)
From Coq Require Import List Arith Bool NArith.
From HV Require Import Chan.ModelMerge Chan.ModelMergeChk Chan.PMergeQ Chan.PMergeRef Chan.PMergeTop.
Import ListNotations.

(* The cursor machine is the round-robin queue machine on the list rotated by the cursor:
   same Poll values for every number of polls; it never indexes out of bounds or unwraps a
   removed source (MPanic), and after every poll the cursor is < len (or 0 when empty). *)
Theorem C15_refines_round_robin : forall n ss,
  let '(os, (ss', c')) := mrun n ss 0 in
  qrun n ss = (map res_of os, rot c' ss') /\ inb ss' c' /\ Forall obs_ok os.
Proof. exact refines_round_robin. Qed.
Print Assumptions C15_refines_round_robin.

(* Interleaving with tags preserved, per-source order kept, nothing lost or duplicated:
   for every source tag t, (items of t emitted so far) ++ (items t still has to deliver)
   = (items of t at the start); every emitted tag is the tag of a source. *)
Theorem C15_order_no_loss : forall n ss, NoDup (map tag ss) ->
  let '(os, (ss', c')) := mrun n ss 0 in
  let outs := readys (map res_of os) in
  (forall t, remf ss t = of_tag t outs ++ remf ss' t) /\
  (forall t a, In (t, a) outs -> In t (map tag ss)) /\
  NoDup (map tag ss').
Proof. exact order_no_loss. Qed.
Print Assumptions C15_order_no_loss.

(* Ready(None) iff all (remaining) sources have ended; then every item has been delivered,
   no source remains, and the answer is Ready(None) forever. *)
Theorem C15_ends_iff_all_ended : forall ss c, inb ss c ->
  let '(o, ss', c') := mpoll ss c in
  (o = MNone <-> forallb answers_end ss = true) /\
  (o = MNone -> ss' = [] /\ c' = 0 /\ forall t, remf ss t = []) /\
  (forall n, fst (mrun n [] 0) = repeat (MNone, 0, 0) n).
Proof. exact ends_iff_all_ended. Qed.
Print Assumptions C15_ends_iff_all_ended.

(* the cursor stays in bounds, one poll from any in-bounds state (also when sources end
   mid-round and retain + fix-up run) *)
Theorem C15_cursor_in_bounds : forall ss c, inb ss c ->
  let '(o, ss', c') := mpoll ss c in
  qpoll (rot c ss) = (o, rot c' ss') /\ inb ss' c' /\ o <> MPanic.
Proof. exact mpoll_refines. Qed.
Print Assumptions C15_cursor_in_bounds.

(* Fairness: a source whose next answer is Ready, i positions after the cursor in round-robin
   order (so i <= n-1), is served after at most i items of other sources (one round), and
   every poll until then returns Ready. *)
Theorem C15_fair_within_one_round : forall ss c i s a r, inb ss c ->
  nth_error (rot c ss) i = Some s -> script s = Rdy a :: r ->
  i < length ss /\
  exists j, j <= i /\
    nth_error (map res_of (fst (mrun (S j) ss c))) j = Some (MReady (tag s, a)) /\
    forall m, m < j -> exists x, nth_error (map res_of (fst (mrun (S j) ss c))) m = Some (MReady x).
Proof. exact fair_within_one_round. Qed.
Print Assumptions C15_fair_within_one_round.

(* ------------------------------------------------------------------ non-vacuity *)
Open Scope N_scope.

(* three sources, one ends in the middle of a round (cursor fix-up), one is pending *)
Definition ex_ss : list src :=
  [mkSrc 7 [Rdy 1; Pend; Rdy 2]; mkSrc 3 [End; Rdy 99]; mkSrc 4 [Rdy 5]].

Example C15_example_run :
  map res_of (fst (mrun 6 ex_ss 0)) =
  [MReady (7, 1); MReady (4, 5); MPending; MReady (7, 2); MNone; MNone] /\
  NoDup (map tag ex_ss) /\ inb ex_ss 0.
Proof.
  split; [vm_compute; reflexivity|]. split; [|left; cbn; auto].
  repeat constructor; cbn; intuition discriminate.
Qed.

(* the hypotheses of the fairness theorem hold of a source that is not at the cursor *)
Example C15_fair_nonvacuous :
  nth_error (rot 1 ex_ss) 1%nat = Some (mkSrc 4 [Rdy 5]) /\ inb ex_ss 1.
Proof. split; [reflexivity|left; cbn; auto]. Qed.

(* the executable form used by the correspondence check accepts the model's own run and
   rejects a run that loses an item *)
Example C15_holds_b_examples :
  C15_holds_b ex_ss (mrun_obs 6 ex_ss 0) = true /\
  C15_holds_b ex_ss [(MReady (7, 1), 1%nat, 3%nat, [7]); (MReady (4, 5), 0%nat, 2%nat, [3; 4]);
                     (MPending, 0%nat, 1%nat, [7; 4]); (MNone, 0%nat, 0%nat, [7])] = false.
Proof. split; vm_compute; reflexivity. Qed.
