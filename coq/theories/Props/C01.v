(* C01 Lattice merge is associative, commutative and idempotent.
   Only property theorems live here; each is closed by an exact of a lemma proved in
   Lattice/P*.v and followed by Print Assumptions. *)
From HV Require Import Lattice.Univ Lattice.PUniv Lattice.Point.

(* every nesting of the shipped constructors (every type code), every well-formed triple;
   key_total is the property's own side condition on DomPair *)
Theorem C01_laws : forall t, key_total t = true ->
  forall a b c : val t, W (ops t) a -> W (ops t) b -> W (ops t) c ->
    E (ops t) (m (ops t) a a) a /\
    E (ops t) (m (ops t) a b) (m (ops t) b a) /\
    E (ops t) (m (ops t) (m (ops t) a b) c) (m (ops t) a (m (ops t) b c)) /\
    W (ops t) (m (ops t) a b).
Proof. intros t K. exact (laws_C01 (laws t K)). Qed.
Print Assumptions C01_laws.

(* merge respects the lattice's own equality (needed for "same lattice value") *)
Theorem C01_congruence : forall t, key_total t = true ->
  forall a a' b b' : val t, W (ops t) a -> W (ops t) a' -> W (ops t) b -> W (ops t) b' ->
    E (ops t) a a' -> E (ops t) b b' -> E (ops t) (m (ops t) a b) (m (ops t) a' b').
Proof. intros t K. exact (m_cong (laws t K)). Qed.
Print Assumptions C01_congruence.

(* the side condition is needed: DomPair over a partially ordered key is not a lattice *)
Theorem C01_dom_needs_total_refuted :
  exists t (a b c : val t), key_total t = false /\ W (ops t) a /\ W (ops t) b /\ W (ops t) c /\
    ~ E (ops t) (m (ops t) (m (ops t) a b) c) (m (ops t) a (m (ops t) b c)).
Proof. exact dom_needs_total_refuted. Qed.
Print Assumptions C01_dom_needs_total_refuted.

(* point lattices only ever merge equal values (a merge of inequal values panics) *)
Theorem C01_point : forall a b : N,
  (a = b -> point_merge a b = Some (a, false)) /\ (a <> b -> point_merge a b = None).
Proof. exact point_merge_spec. Qed.
Print Assumptions C01_point.

(* non-vacuity: a nested code satisfying the hypotheses with non-trivial well-formed values *)
Example C01_nonvacuous :
  let t := TMap (TPair (TBot TSet) (TDom (TMax SU8) (TVec (TTop (TMin SU8))))) in
  key_total t = true /\
  W (ops t) [(1, (Some [2; 3], (7, [Some 4; None])))]%N /\
  W (ops t) [(1, (None, (9, []))); (5, (Some [], (0, [None])))]%N.
Proof. repeat split. Qed.
