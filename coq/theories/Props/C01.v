(* C01 Lattice merge is associative, commutative and idempotent.
   This file contains only the property theorems; each is closed by an exact/apply of a
   lemma proved elsewhere and followed by Print Assumptions. *)
From HV Require Import Lattice.Univ Lattice.PScalar.

Theorem C01_max : forall top, C01_stmt (max_ops top).
Proof. intro top. exact (laws_C01 (max_laws top)). Qed.
Print Assumptions C01_max.
