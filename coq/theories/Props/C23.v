(* C23 Blocking inputs see the tick's complete input.
   Proved here (on the tick program model): a same-tick handoff is a FIFO buffer that pushes only
   append to and that its consuming subgraph drains completely, once, when it starts -- so the
   consumer's operators (which the operator layer applies to complete lists: blocking operators
   drain their inputs before emitting) see everything the producers that ran earlier in the tick
   pushed.  That every producer has run before the consumer is the topological order of the
   partitioned graph (property C18); the equality of the partitioned run with the denotation of the
   flat graph is NOT proved here -- the correspondence check compares the implementation with both. *)
From Coq Require Import List NArith Bool.
From HV Require Import Dfir.Model Dfir.ModelTick Dfir.ModelFlat Dfir.PTick Dfir.PFrame Dfir.PFlat Dfir.PFlatCheck.
Import ListNotations.

Theorem C23_handoff_complete :
  (forall sg w h, NoDup (map fst (sg_recv sg)) -> In (h, false) (sg_recv sg) ->
     let r := recv_all sg w in
     get h (snd r) = get h (w_buf w) /\ get h (w_buf (fst r)) = []) /\
  (forall k l m, get k (push_to k l m) = get k m ++ l) /\
  (forall k k' l m, k <> k' -> get k (push_to k' l m) = get k m).
Proof. split; [exact consumer_gets_buf|]. split; [exact push_to_get | exact push_to_other]. Qed.
Print Assumptions C23_handoff_complete.

(* end to end for one handoff of a tick program without loop blocks: the consuming block reads
   exactly (all of, once) what the producing block left, whatever blocks run in between *)
Theorem C23_same_tick_delivery : forall ext A P M C h k w,
  Forall (fun sg => buf_free sg h) M ->
  ~ In h (map fst (sg_send C)) ->
  NoDup (map fst (sg_recv C)) -> In (h, false) (sg_recv C) ->
  In (h, k) (sg_send P) -> k <> SExit -> NoDup (map fst (sg_send P)) ->
  reads_at ext (A ++ P :: M) C h w = get h (w_buf (run_sg ext P (run_sgs ext A w))) /\
  get h (w_buf (prep_send P (run_sgs ext A w))) = [].
Proof. exact same_tick_delivery. Qed.
Print Assumptions C23_same_tick_delivery.

(* the whole program: for a tick program without loop blocks whose handoffs are all same-tick Vec
   handoffs, whose blocks are well formed (PFlat.wf_chain: a block reads only handoffs it receives and
   wires it produced, receives only handoffs sent by earlier blocks, one producer and one consumer
   per wire), running the blocks one after the other is, over every history of inputs and for all
   operators and closures, the denotation of the flat graph -- every operator applied once per tick,
   in the same order, to the complete lists produced for it in that tick: same sink outputs, same
   operator states, same tick counts.  Any DAG of blocks (chains, trees, diamonds). *)
Theorem C23_partitioned_eq_flat : forall sgs ops h,
  wf_chain [] [] [] sgs ->
  let '(wp, obsp) := drive false (part_prog sgs ops) h in
  let '(wf, obsf) := drive false (flat_prog sgs ops) h in
  w_out wp = w_out wf /\ w_st wp = w_st wf /\ w_panic wp = w_panic wf /\ obsp = obsf.
Proof. exact partitioned_eq_flat. Qed.
Print Assumptions C23_partitioned_eq_flat.

(* the same for every program that passes the executable check evaluated on the real partitions *)
Theorem C23_transparency : forall p h,
  flat_applicable p = true ->
  let '(wp, obsp) := drive false p h in
  let '(wf, obsf) := drive false (flat_of p) h in
  w_out wp = w_out wf /\ w_st wp = w_st wf /\ w_panic wp = w_panic wf /\ obsp = obsf.
Proof. exact transparency. Qed.
Print Assumptions C23_transparency.

(* non-vacuity: producer subgraph then anti_join consumer across handoff 0 *)
Example C23_example :
  let a := {| sg_recv := []; sg_send := [(0%N, SFresh)];
              sg_slots := []; sg_nodes := [ {| n_id := 0%N; n_kind := NSource 0; n_ins := []; n_outs := [0%N] |} ] |} in
  let b := {| sg_recv := [(0%N, false)]; sg_send := [];
              sg_slots := []; sg_nodes := [ {| n_id := 1%N; n_kind := NSource 1; n_ins := []; n_outs := [1%N] |};
                            {| n_id := 2%N; n_kind := NOp (op_anti_join Tick Tick); n_ins := [0%N; 1%N]; n_outs := [2%N] |};
                            {| n_id := 3%N; n_kind := NSink 0; n_ins := [2%N]; n_outs := [] |} ] |} in
  let p := {| p_body := [IRun a; IRun b]; p_sched := []; p_swaps := [];
              p_ops := [(0%N, NSource 0); (1%N, NSource 1); (2%N, NOp (op_anti_join Tick Tick)); (3%N, NSink 0)] |} in
  get 0%N (w_out (fst (drive false p [[(0%N, [VN 1; VN 2]); (1%N, [VP (VN 1) (VN 5); VP (VN 3) (VN 6)])]]))) =
  [VP (VN 0) (VP (VN 3) (VN 6))].
Proof. vm_compute. reflexivity. Qed.

Example C23_example_applicable :
  flat_applicable
    {| p_body := [IRun {| sg_recv := []; sg_send := [(0%N, SFresh)]; sg_slots := [];
                          sg_nodes := [ {| n_id := 0%N; n_kind := NSource 0; n_ins := []; n_outs := [0%N] |} ] |};
                  IRun {| sg_recv := [(0%N, false)]; sg_send := []; sg_slots := [];
                          sg_nodes := [ {| n_id := 1%N; n_kind := NSink 0; n_ins := [0%N]; n_outs := [] |} ] |}];
       p_sched := []; p_swaps := []; p_ops := [] |} = true.
Proof. vm_compute. reflexivity. Qed.
