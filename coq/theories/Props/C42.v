(* C42 Code generation is deterministic.
   Full statement (properties.jsonl): compiling the same DFIR program / Hydro flow twice gives
   identical partitioned graphs and identical generated code, independent of hash-map seeds and
   memory layout.  That statement is about the Rust process (RandomState, allocator, ASLR) and is
   decided by the replay comparison in props/C42.py (same process x4, separate processes x3).
   What is proved here is the mechanism on the model side, for the only place where a
   hash-ordered container is *iterated* by the partitioner (SubgraphMerge::try_merge, "Merge
   enemies"): with the iteration order chosen by an arbitrary oracle the resulting enemy
   relation -- the only thing later code observes, through `contains` -- is the same.
   All other hash containers in dfir_lang/src/graph are accessed by key only (source scan,
   regenerated each run and compared with corpus/C42/hash_iteration_sites.json).
   C42_partition_model_oracle_independent lifts this to the WHOLE executable model of
   partition_graph (Partition/Full.v, the model that C18 compares with every real output): with
   the iteration order of enemies[v] chosen by an arbitrary oracle pi (any permutation), the
   model's result -- the complete partitioned graph -- is the same.  The proof needs no invariant:
   the loop body's effects commute (Partition/POracle.v). *)
From Coq Require Import List String NArith Permutation.
From HV Require Import Partition.Base GraphAlg.Model Partition.Model Partition.Oracle Partition.Full Partition.FullO Partition.POracle Gen.OpsTable.
Import ListNotations.
Open Scope N_scope.

Theorem C42_enemy_merge_oracle_independent_partial :
  forall (u v : N) (en : emap) (o1 o2 : list N),
    u <> v -> en v v = false -> en v u = false ->
    enumerates o1 en v -> enumerates o2 en v ->
    forall k x, merge_enemies o1 u v en k x = merge_enemies o2 u v en k x.
Proof. exact merge_enemies_oracle_independent. Qed.
Print Assumptions C42_enemy_merge_oracle_independent_partial.

Theorem C42_enemy_merge_closed_form :
  forall (u v : N) (en : emap), u <> v -> en v v = false -> en v u = false ->
    forall order, enumerates order en v ->
    forall k x, merge_enemies order u v en k x = merged u v en k x.
Proof. exact merge_enemies_closed_form. Qed.
Print Assumptions C42_enemy_merge_closed_form.

Theorem C42_partition_model_oracle_independent :
  forall (pi : list N -> list N), (forall l, Permutation (pi l) l) ->
  forall (T : optable) (g : graph), partition_model_o pi T g = partition_model T g.
Proof. exact partition_model_oracle_independent. Qed.
Print Assumptions C42_partition_model_oracle_independent.

(* "The output is a function of the input program" for the modelled pipeline: the per-run source scan
   (tools/partition.py scan_hash_iteration, which follows type aliases and hash-returning functions)
   finds exactly ONE hash-iteration site in dfir_lang/src (try_merge's enemy merge); every other
   std HashMap/HashSet there is accessed by key only, and keyed access is already a function in the
   model (association lists looked up by key).  So the only way two compilations of one program
   could differ inside the modelled pipeline is through two different iteration orders at that
   site -- and any two admissible oracles give the same complete partitioned graph: *)
Theorem C42_model_output_function_of_input :
  forall (pi1 pi2 : list N -> list N),
    (forall l, Permutation (pi1 l) l) -> (forall l, Permutation (pi2 l) l) ->
    forall (T : optable) (g : graph), partition_model_o pi1 T g = partition_model_o pi2 T g.
Proof.
  intros pi1 pi2 H1 H2 T g.
  transitivity (partition_model T g).
  - exact (partition_model_oracle_independent pi1 H1 T g).
  - symmetry. exact (partition_model_oracle_independent pi2 H2 T g).
Qed.
Print Assumptions C42_model_output_function_of_input.

(* non-vacuity: reversing every iteration is an admissible oracle, and on a graph whose
   partitioning does merge subgraphs that carry enemies (defer_tick barrier) the oracle model
   computes the same complete graph as the plain model *)
Definition g_oracle_example : graph :=
  mkGraph [mkNode 1 (KOp "source_iter") None [] None None;
           mkNode 2 (KOp "union") None [] None None;
           mkNode 3 (KOp "tee") None [] None None;
           mkNode 4 (KOp "for_each") None [] None None;
           mkNode 5 (KOp "defer_tick") None [] None None;
           mkNode 6 (KOp "map") None [] None None]
          [mkEdge 1 1 2 PElided PElided; mkEdge 2 2 3 PElided PElided; mkEdge 3 3 4 PElided PElided;
           mkEdge 4 6 2 PElided PElided; mkEdge 5 3 5 PElided PElided; mkEdge 6 5 6 PElided PElided]
          [] [] [].
Example C42_oracle_example :
  (forall l : list N, Permutation (rev l) l) /\
  partition_model_o (@rev N) ops_table g_oracle_example = partition_model ops_table g_oracle_example /\
  match partition_model ops_table g_oracle_example with
  | POk p => g_topo p = [1; 2]%N /\ List.length (g_sgs p) = 2%nat
  | _ => False
  end.
Proof.
  split; [intro l; apply Permutation_sym; apply Permutation_rev|].
  split; [vm_compute; reflexivity|]. vm_compute. split; reflexivity.
Qed.

(* non-vacuity of the hypotheses *)
Example C42_hyps_satisfiable :
  1 <> 2 /\ ex_en 2 2 = false /\ ex_en 2 1 = false /\
  enumerates [5; 7] ex_en 2 /\ enumerates [7; 5; 7] ex_en 2 /\
  merge_enemies [5; 7] 1 2 ex_en 1 7 = true /\ merge_enemies [7; 5; 7] 1 2 ex_en 7 1 = true
  /\ merge_enemies [5; 7] 1 2 ex_en 7 2 = false.
Proof. exact oracle_hyps_satisfiable. Qed.
