(* C42 Code generation is deterministic.
   Full statement (properties.jsonl): compiling the same DFIR program / Hydro flow twice gives
   identical partitioned graphs and identical generated code, independent of hash-map seeds and
   memory layout.  That statement is about the Rust process (RandomState, allocator, ASLR) and is
   decided by the replay comparison in props/C42.py (same process x4, separate processes x3).
   What is proved here is the mechanism on the model side, for the only place where a
   hash-ordered container is *iterated* by the partitioner (SubgraphMerge::try_merge, "Merge
   enemies"): with the iteration order chosen by an arbitrary oracle the resulting enemy
   relation -- the only thing later code observes, through `contains` -- is the same.
   All other hash containers in dfir_lang/src/graph are accessed by key only (source scan,
   regenerated each run and compared with corpus/C42/hash_iteration_sites.json).
   Named _partial: oracle independence of the *whole* partition model is not stated here. *)
From Coq Require Import List NArith.
From HV Require Import Partition.Oracle.
Import ListNotations.
Open Scope N_scope.

Theorem C42_enemy_merge_oracle_independent_partial :
  forall (u v : N) (en : emap) (o1 o2 : list N),
    u <> v -> en v v = false -> en v u = false ->
    enumerates o1 en v -> enumerates o2 en v ->
    forall k x, merge_enemies o1 u v en k x = merge_enemies o2 u v en k x.
Proof. exact merge_enemies_oracle_independent. Qed.
Print Assumptions C42_enemy_merge_oracle_independent_partial.

Theorem C42_enemy_merge_closed_form :
  forall (u v : N) (en : emap), u <> v -> en v v = false -> en v u = false ->
    forall order, enumerates order en v ->
    forall k x, merge_enemies order u v en k x = merged u v en k x.
Proof. exact merge_enemies_closed_form. Qed.
Print Assumptions C42_enemy_merge_closed_form.

(* non-vacuity of the hypotheses *)
Example C42_hyps_satisfiable :
  1 <> 2 /\ ex_en 2 2 = false /\ ex_en 2 1 = false /\
  enumerates [5; 7] ex_en 2 /\ enumerates [7; 5; 7] ex_en 2 /\
  merge_enemies [5; 7] 1 2 ex_en 1 7 = true /\ merge_enemies [7; 5; 7] 1 2 ex_en 7 1 = true
  /\ merge_enemies [5; 7] 1 2 ex_en 7 2 = false.
Proof. exact oracle_hyps_satisfiable. Qed.
