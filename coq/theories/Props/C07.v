(* C07 Shipped lattice morphisms distribute over merge.
   Covered: CartesianProductBimorphism, PairBimorphism, KeyedBimorphism (parametric in ANY wrapped
   bimorphism, hence every nesting of Keyed over Cartesian / Pair).
   GHT bimorphisms (lattices/src/ght/lattice.rs), on e2-coll's trie model: GhtCartesianProduct and
   GhtValTypeProduct full; DeepJoin / GhtNodeKeyed towers full (C07_ght_deep_join, proof in
   Coll/PGHTEq.v by e2-coll); the earlier rows-only statement (_rows_partial) is kept.
   Full statement, for a bimorphism f and all well-formed a, da, b, db:
     f(a merged da, b) = f(a, b) merged f(da, b)   and   f(a, b merged db) = f(a, b) merged f(a, db)
   up to the output lattice's own equality. *)
From HV Require Import Coll.ModelGHT Coll.PGHT Lattice.MorphGHT Lattice.PMorphGHT Coll.PGHTEq.
From HV Require Import Lattice.Univ Lattice.Morph Lattice.PMorph.

(* EVERY shape  Cartesian | Pair(ta, tb) | Keyed(shape)  -- PairBimorphism under any number of
   KeyedBimorphisms included ([shape_ok] only asks C01's side condition of the Pair's lattices):
   distributes in each argument separately, maps well-formed to well-formed *)
Theorem C07_distributes : forall s, shape_ok s = true ->
  forall (a da : val (ty_a s)) (b db : val (ty_b s)),
    W (ops (ty_a s)) a -> W (ops (ty_a s)) da -> W (ops (ty_b s)) b -> W (ops (ty_b s)) db ->
    E (ops (ty_o s)) (bapply s (m (ops (ty_a s)) a da) b)
                     (m (ops (ty_o s)) (bapply s a b) (bapply s da b)) /\
    E (ops (ty_o s)) (bapply s a (m (ops (ty_b s)) b db))
                     (m (ops (ty_o s)) (bapply s a b) (bapply s a db)) /\
    W (ops (ty_o s)) (bapply s a b).
Proof.
  intros s OK a da b db Wa Wda Wb Wdb. pose proof (shape_bimorph s OK) as BM.
  exact (conj (bm_l BM Wa Wda Wb) (conj (bm_r BM Wa Wb Wdb) (bm_wf BM Wa Wb))).
Qed.
Print Assumptions C07_distributes.

Theorem C07_respects_eq : forall s, shape_ok s = true ->
  forall (a a' : val (ty_a s)) (b b' : val (ty_b s)),
    W (ops (ty_a s)) a -> W (ops (ty_a s)) a' -> W (ops (ty_b s)) b -> W (ops (ty_b s)) b' ->
    E (ops (ty_a s)) a a' -> E (ops (ty_b s)) b b' ->
    E (ops (ty_o s)) (bapply s a b) (bapply s a' b').
Proof. intros s OK. exact (bm_cong (shape_bimorph s OK)). Qed.
Print Assumptions C07_respects_eq.

(* KeyedBimorphism is parametric: over ANY three value lattices and ANY wrapped bimorphism f (no
   bottom-preservation hypothesis: the loop skips bottom-valued entries itself), [keyed f] is a
   bimorphism, and it maps bottom in either argument to bottom *)
Theorem C07_keyed_parametric :
  forall (VA VB VO : Type) (LA : LatOps VA) (LB : LatOps VB) (LO : LatOps VO),
    LatLaws LA -> LatLaws LB -> LatLaws LO ->
    forall f : VA -> VB -> VO, Bimorph LA LB LO f ->
      Bimorph (map_ops LA) (map_ops LB) (map_ops LO) (keyed LA LB f) /\
      Strict (map_ops LA) (map_ops LB) (map_ops LO) (keyed LA LB f).
Proof. exact keyed_bimorph. Qed.
Print Assumptions C07_keyed_parametric.

(* the induction on nesting depth: the bimorphism record for every shape, and bottom-preservation
   of every KeyedBimorphism whatever it wraps *)
Theorem C07_all_shapes : forall s, shape_ok s = true ->
  Bimorph (ops (ty_a s)) (ops (ty_b s)) (ops (ty_o s)) (bapply s) /\
  Strict (ops (ty_a (BKeyed s))) (ops (ty_b (BKeyed s))) (ops (ty_o (BKeyed s))) (bapply (BKeyed s)).
Proof. intros s OK. exact (conj (shape_bimorph s OK) (keyed_shape_strict s OK)). Qed.
Print Assumptions C07_all_shapes.

(* the cartesian product really is the set of all pairs: the N-encoding of pairs is injective *)
Theorem C07_cartesian_is_product : forall a b x y,
  In (penc x y) (cart a b) <-> In x a /\ In y b.
Proof. exact cart_pairs. Qed.
Print Assumptions C07_cartesian_is_product.

(* FORMER FINDING keyed/inner-not-bottom-preserving, fixed in /repo by commit 77f6722ffe1
   "fix: KeyedBimorphism skips bottom-valued entries" (model updated accordingly; the old loop is
   Morph.keyed_old, its failure PMorph.keyed_old_pair_witness).  The former theorem was
     C07_keyed_pair_refuted : let s := BKeyed (BPair TSet TSet) in exists a da b, W a /\ W da /\ W b /\
        ~ E (bapply s (m a da) b) (m (bapply s a b) (bapply s da b))
   with witness a = {}, da = {0: {}}, b = {0: {1}}: PairBimorphism maps (bottom, b) to a non-bottom
   Pair, MapUnion::merge skips the bottom-valued delta entry on the input side but kept its image on
   the output side.  The same input is the first case of corpus/C07/seed_cases.json, re-checked
   first on every run; on the fixed code and model both sides are the empty map: *)
Example C07_former_witness :
  let s := BKeyed (BPair TSet TSet) in
  let a : val (ty_a s) := [] in let da : val (ty_a s) := [(0, [])]%N in
  let b : val (ty_b s) := [(0, [1])]%N in
  shape_ok s = true /\
  bapply s (m (ops (ty_a s)) a da) b = [] /\
  m (ops (ty_o s)) (bapply s a b) (bapply s da b) = [].
Proof. repeat split. Qed.

(* ---------------------------------------------------------------- GHT bimorphisms
   Model and row-level specifications are e2-coll's (Coll/ModelGHT.v, Coll/PGHT.v; [PGHT.wf h d t]:
   t is a trie of height h keyed from column d on, as produced by insert/merge).  [peq] is the
   crate's PartialEq on tries, [ModelGHT.merge] its Merge. *)

(* GhtCartesianProductBimorphism, any input height h, output trie with nko key columns: full *)
Theorem C07_ght_cartesian : forall h d nko a da b db,
  PGHT.wf h d a -> PGHT.wf h d da -> PGHT.wf h d b -> PGHT.wf h d db ->
  peq nko (cart_product h nko (fst (ModelGHT.merge h a da)) b)
          (fst (ModelGHT.merge nko (cart_product h nko a b) (cart_product h nko da b))) = true /\
  peq nko (cart_product h nko a (fst (ModelGHT.merge h b db)))
          (fst (ModelGHT.merge nko (cart_product h nko a b) (cart_product h nko a db))) = true.
Proof. exact cart_product_distrib. Qed.
Print Assumptions C07_ght_cartesian.

(* GhtValTypeProductBimorphism (two leaves = the deep join at height 0): full *)
Theorem C07_ght_valtype_product : forall d nk a da b db,
  PGHT.wf 0 d a -> PGHT.wf 0 d da -> PGHT.wf 0 d b -> PGHT.wf 0 d db ->
  Forall (fun x : row => d <= length x) (riter 0 a) -> Forall (fun x : row => d <= length x) (riter 0 da) ->
  Forall (fun x : row => d <= length x) (riter 0 b) -> Forall (fun x : row => d <= length x) (riter 0 db) ->
  peq 0 (deep_join 0 nk (fst (ModelGHT.merge 0 a da)) b)
        (fst (ModelGHT.merge 0 (deep_join 0 nk a b) (deep_join 0 nk da b))) = true /\
  peq 0 (deep_join 0 nk a (fst (ModelGHT.merge 0 b db)))
        (fst (ModelGHT.merge 0 (deep_join 0 nk a b) (deep_join 0 nk a db))) = true.
Proof. exact valtype_product_distrib. Qed.
Print Assumptions C07_ght_valtype_product.

(* DeepJoinLatticeBimorphism = GhtNodeKeyedBimorphism nested h times over the value product.
   FULL STATEMENT (not proved):  peq h X Y = true  for X, Y below.
   PROVED (_rows_partial): X and Y are weakly well-formed tries holding exactly the same rows.
   Missing: the join output may contain empty children, for which == is finer than "same rows";
   that X and Y also have the same key structure is not proved (checked on the implementation). *)
Theorem C07_ght_deep_join_rows_partial : forall h d nk a da b db,
  PGHT.wf h d a -> PGHT.wf h d da -> PGHT.wf h d b -> PGHT.wf h d db ->
  Forall (fun x : row => h + d <= length x) (riter h a) ->
  Forall (fun x : row => h + d <= length x) (riter h da) ->
  Forall (fun x : row => h + d <= length x) (riter h b) ->
  Forall (fun x : row => h + d <= length x) (riter h db) ->
  (let X := deep_join h nk (fst (ModelGHT.merge h a da)) b in
   let Y := fst (ModelGHT.merge h (deep_join h nk a b) (deep_join h nk da b)) in
   wfw h d X /\ wfw h d Y /\ forall z, In z (riter h X) <-> In z (riter h Y)) /\
  (let X := deep_join h nk a (fst (ModelGHT.merge h b db)) in
   let Y := fst (ModelGHT.merge h (deep_join h nk a b) (deep_join h nk a db)) in
   wfw h d X /\ wfw h d Y /\ forall z, In z (riter h X) <-> In z (riter h Y)).
Proof.
  intros h d nk a da b db Wa Wda Wb Wdb La Lda Lb Ldb. split.
  - exact (@deep_join_distrib_l h d nk a da b Wa Wda Wb La Lda Lb).
  - exact (@deep_join_distrib_r h d nk a b db Wa Wb Wdb La Lb Ldb).
Qed.
Print Assumptions C07_ght_deep_join_rows_partial.

(* FULL STATEMENT for the deep join at any height, with the crate's == (peq): for tries built by
   the public API -- invariant PGHT.wf: distinct child keys, NO EMPTY CHILD, rows below child k
   carry k, leaves are sets; established by Default and preserved by insert and merge
   (C08_insert, C08_merge; C07_ght_inputs_wf for the harness's tries) -- the two sides have, level
   by level, the same keys and ==-equal children (the outputs themselves may hold empty children;
   == is structural there, and the structures coincide). *)
Theorem C07_ght_deep_join : forall h d nk a da b db,
  PGHT.wf h d a -> PGHT.wf h d da -> PGHT.wf h d b -> PGHT.wf h d db ->
  Forall (fun x : row => h + d <= length x) (riter h a) ->
  Forall (fun x : row => h + d <= length x) (riter h da) ->
  Forall (fun x : row => h + d <= length x) (riter h b) ->
  Forall (fun x : row => h + d <= length x) (riter h db) ->
  peq h (deep_join h nk (fst (ModelGHT.merge h a da)) b)
        (fst (ModelGHT.merge h (deep_join h nk a b) (deep_join h nk da b))) = true /\
  peq h (deep_join h nk a (fst (ModelGHT.merge h b db)))
        (fst (ModelGHT.merge h (deep_join h nk a b) (deep_join h nk a db))) = true.
Proof. exact deep_join_distrib_peq. Qed.
Print Assumptions C07_ght_deep_join.

(* the tries the harness builds (rows of one arity inserted into Default) satisfy the hypotheses *)
Theorem C07_ght_inputs_wf : forall nk arity rows,
  Forall (fun x : row => length x = arity) rows -> nk <= arity ->
  PGHT.wf nk 0 (build nk rows) /\ (forall x, In x (riter nk (build nk rows)) <-> In x rows) /\
  Forall (fun x : row => nk + 0 <= length x) (riter nk (build nk rows)).
Proof.
  intros nk arity rows F le. destruct (build_spec nk rows) as [W M].
  exact (conj W (conj M (@build_len nk arity rows F le))).
Qed.
Print Assumptions C07_ght_inputs_wf.

Example C07_ght_nonvacuous :
  let a := build 2 [[1; 2; 3]; [1; 4; 5]]%N in let da := build 2 [[1; 2; 9]; [2; 2; 2]]%N in
  let b := build 2 [[1; 2; 7]; [1; 5; 5]; [2; 2; 8]]%N in
  riter 2 (deep_join 2 2 (fst (ModelGHT.merge 2 a da)) b) = [[1; 2; 3; 7]; [1; 2; 9; 7]; [2; 2; 2; 8]]%N /\
  peq 2 (deep_join 2 2 (fst (ModelGHT.merge 2 a da)) b)
        (fst (ModelGHT.merge 2 (deep_join 2 2 a b) (deep_join 2 2 da b))) = true.
Proof. split; vm_compute; reflexivity. Qed.

(* the executable form evaluated by the correspondence check is implied by the theorem *)
Theorem C07_holds_b_sound : forall s, shape_ok s = true ->
  forall (a da : val (ty_a s)) (b db : val (ty_b s)),
    W (ops (ty_a s)) a -> W (ops (ty_a s)) da -> W (ops (ty_b s)) b -> W (ops (ty_b s)) db ->
    C07_holds_b s (model_bobs s a da b db) = true.
Proof. exact holds_b_model. Qed.
Print Assumptions C07_holds_b_sound.

(* non-vacuity: a depth-2 tower on non-trivial well-formed inputs (bottom-valued entries, keys
   present on one side only) with a non-empty output; a pair shape over nested lattices *)
Example C07_nonvacuous :
  let s := BKeyed (BKeyed BCart) in
  let a : val (ty_a s) := [(1, [(5, [2; 3]); (6, [])]); (2, [(5, [7])])]%N in
  let da : val (ty_a s) := [(1, [(6, [4])]); (3, [(5, [6])]); (4, [(5, [])])]%N in
  let b : val (ty_b s) := [(1, [(5, [9]); (6, [8])]); (3, [(5, [1])])]%N in
  shape_ok s = true /\ W (ops (ty_a s)) a /\ W (ops (ty_a s)) da /\ W (ops (ty_b s)) b /\
  bapply s (m (ops (ty_a s)) a da) b
    = [(1, [(5, [penc 2 9; penc 3 9]); (6, [penc 4 8])]); (3, [(5, [penc 6 1])])]%N /\
  shape_ok (BPair (TMap TSet) (TBot (TMax SU8))) = true /\
  shape_ok (BKeyed (BKeyed (BPair TSet (TMax SU8)))) = true.
Proof. repeat split. Qed.
