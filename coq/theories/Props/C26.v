(* C26 Loop blocks iterate to a fixpoint with correct windowing.
   Theorems about the loop gates of the tick program model (Dfir/ModelTick.v `exec`, the
   transcription of meta_graph.rs `emit_loop_gate`); proofs in Dfir/PTick.v.
   Termination is not claimed: a loop that keeps feeding itself diverges; in the model the
   `while` takes fuel and running out is reported in w_oof. *)
From Coq Require Import List NArith Bool.
From HV Require Import Dfir.Model Dfir.ModelTick Dfir.ModelGraph Dfir.PTick Dfir.PGraph.
Import ListNotations.

(* gate semantics: no check = unconditional body; root loop = `if`; nested loop = `while` over
   "some entry handoff / loop-delayed back buffer of the check list is non-empty" *)
Theorem C26_gate_semantics :
  (forall ext root checks body swaps w,
     exec ext (IGate root checks body swaps) w =
     match checks with
     | [] => gate_body ext body swaps w
     | _ => if root then (if gate_cond checks w then gate_body ext body swaps w else w)
            else while_gate loop_fuel (gate_cond checks) (gate_body ext body swaps) w
     end) /\
  (* a root-level loop runs at most once per tick *)
  (forall ext checks body swaps w,
     exec ext (IGate true checks body swaps) w =
     if match checks with [] => true | _ => gate_cond checks w end
     then gate_body ext body swaps w else w).
Proof. split; [exact exec_gate | exact root_gate_once]. Qed.
Print Assumptions C26_gate_semantics.

(* a nested loop re-runs while its gate is open and stops exactly when it is closed: if the gate
   is open before each of the first n iterations and closed after the n-th (n within the fuel),
   the loop is exactly n iterations of (body; swaps); and in every case the loop ends with the
   gate closed or with the out-of-fuel mark *)
Theorem C26_fixpoint :
  (forall n fuel cond body w, (n <= fuel)%nat ->
     (forall k, (k < n)%nat -> cond (iter_n k body w) = true) ->
     cond (iter_n n body w) = false ->
     while_gate fuel cond body w = iter_n n body w) /\
  (forall fuel cond body w,
     cond (while_gate fuel cond body w) = false \/ w_oof (while_gate fuel cond body w) = true).
Proof. split; [exact while_gate_iter | exact while_gate_stops]. Qed.
Print Assumptions C26_fixpoint.

(* defer_tick inside a loop delays by exactly one iteration: the swap at the end of every
   iteration turns what the iteration pushed into the next iteration's back buffer *)
Theorem C26_loop_defer :
  forall ext body swaps w h, NoDup swaps -> In h swaps ->
    let w1 := fold_left (fun w i => exec ext i w) body w in
    get h (w_back (gate_body ext body swaps w)) = get h (w_buf w1) /\
    get h (w_buf (gate_body ext body swaps w)) = get h (w_back w1).
Proof. exact loop_defer_swap. Qed.
Print Assumptions C26_loop_defer.

(* which handoffs gate a loop, which are swapped per iteration and which per tick: the functions of
   Dfir/ModelGraph.v that build the tick program from the graph record (read from the real
   meta_graph()) satisfy the rules of emit_loop_gate / as_code_with_options /
   mark_tick_boundary_handoffs:
   - a defer_tick (defer_tick_lazy) consumed inside a nested loop is Loop (LoopLazy) delayed,
     elsewhere Tick (TickLazy) delayed;
   - a loop re-runs on its non-lazy entry handoffs (back buffer if delayed) and on the non-lazy
     back buffers delayed at its level (Loop for a nested, Tick for a root-level loop) -- lazy
     windows and lazily delayed handoffs never gate;
   - the loop's swap list holds the loop-delayed handoffs consumed in it (and the tick-delayed ones
     for a root-level loop), the tick-level swap list the tick-delayed ones not consumed in a
     root-level loop; a deferred handoff consumed in a nested loop is swapped per iteration and
     never per tick;
   - a loop block is the declaration of its exit handoffs followed by the gate. *)
Theorem C26_selection_rules :
  (forall g h,
     (gh_base h = BNone -> eff_delay g h = DNo) /\
     (gh_base h = BTick -> eff_delay g h = if in_nested g (gh_succ_loop h) then DLoop else DTick) /\
     (gh_base h = BTickLazy -> eff_delay g h = if in_nested g (gh_succ_loop h) then DLoopLazy else DTickLazy)) /\
  (forall g l c,
     In c (gate_checks g l) <->
     (exists h, In h (g_hoffs g) /\ gh_succ_loop h = Some l /\ gh_pred_loop h = loop_parent g l /\
        gh_lazy_win h = false /\ c = (if delayed g h then CBack (gh_wire h) else CBuf (gh_wire h))) \/
     (exists h, In h (g_hoffs g) /\ gh_succ_sg_loop h = Some l /\
        eff_delay g h = (if is_root g l then DTick else DLoop) /\ c = CBack (gh_wire h))) /\
  (forall g l w,
     In w (loop_swaps g l) <->
     exists h, In h (g_hoffs g) /\ gh_wire h = w /\ gh_succ_sg_loop h = Some l /\
               (loop_d (eff_delay g h) = true \/ (tick_d (eff_delay g h) = true /\ is_root g l = true))) /\
  (forall g w,
     In w (tick_swaps g) <->
     exists h, In h (g_hoffs g) /\ gh_wire h = w /\ tick_d (eff_delay g h) = true /\
               in_root g (gh_succ_sg_loop h) = false) /\
  (forall g h l, In h (g_hoffs g) -> gh_base h <> BNone ->
     gh_succ_loop h = Some l -> gh_succ_sg_loop h = Some l -> is_root g l = false ->
     In (gh_wire h) (loop_swaps g l)) /\
  (forall g h l, (forall h', In h' (g_hoffs g) -> gh_wire h' = gh_wire h -> h' = h) ->
     gh_succ_loop h = Some l -> is_root g l = false -> ~ In (gh_wire h) (tick_swaps g)) /\
  (forall g l body,
     lower_sk g (SKLoop l body) =
     [IDecl (exit_hoffs g l);
      IGate (is_root g l) (gate_checks g l) (flat_map (lower_sk g) body) (loop_swaps g l)]).
Proof.
  split; [exact remap_rule|]. split; [exact gate_checks_rule|]. split; [exact loop_swaps_rule|].
  split; [exact tick_swaps_rule|]. split; [exact nested_defer_in_loop_swaps|].
  split; [exact nested_defer_not_tick_swapped | exact lower_loop].
Qed.
Print Assumptions C26_selection_rules.

(* non-vacuity: a `while` gate over handoff 0 whose body moves one item per iteration from
   buffer 0 to the sink runs exactly three times on three items *)
Example C26_example :
  let sg := {| sg_recv := [(0%N, false)]; sg_send := [(0%N, SExit)];
               sg_slots := []; sg_nodes := [ {| n_id := 0%N; n_kind := NOp (OStateless (fun i => [firstn 1 (port 0 i); skipn 1 (port 0 i)]));
                                n_ins := [0%N]; n_outs := [1%N; 0%N] |};
                             {| n_id := 1%N; n_kind := NSink 0; n_ins := [1%N]; n_outs := [] |} ] |} in
  let w0 := {| w_buf := [(0%N, [VN 7; VN 8; VN 9])]; w_back := []; w_st := []; w_out := []; w_tick := 0%N;
               w_wake := false; w_work := false; w_oof := false; w_panic := false |} in
  let w := exec [] (IGate false [CBuf 0%N] [IRun sg] []) w0 in
  (get 0%N (w_out w), get 0%N (w_buf w), w_oof w) =
  ([VP (VN 0) (VN 7); VP (VN 0) (VN 8); VP (VN 0) (VN 9)], [], false).
Proof. vm_compute. reflexivity. Qed.
