(* C26 Loop blocks iterate to a fixpoint with correct windowing.
   Theorems about the loop gates of the tick program model (Dfir/ModelTick.v `exec`, the
   transcription of meta_graph.rs `emit_loop_gate`); proofs in Dfir/PTick.v.
   Termination is not claimed: a loop that keeps feeding itself diverges; in the model the
   `while` takes fuel and running out is reported in w_oof. *)
From Coq Require Import List NArith Bool.
From HV Require Import Dfir.Model Dfir.ModelTick Dfir.PTick.
Import ListNotations.

(* gate semantics: no check = unconditional body; root loop = `if`; nested loop = `while` over
   "some entry handoff / loop-delayed back buffer of the check list is non-empty" *)
Theorem C26_gate_semantics :
  (forall ext root checks body swaps w,
     exec ext (IGate root checks body swaps) w =
     match checks with
     | [] => gate_body ext body swaps w
     | _ => if root then (if gate_cond checks w then gate_body ext body swaps w else w)
            else while_gate loop_fuel (gate_cond checks) (gate_body ext body swaps) w
     end) /\
  (* a root-level loop runs at most once per tick *)
  (forall ext checks body swaps w,
     exec ext (IGate true checks body swaps) w =
     if match checks with [] => true | _ => gate_cond checks w end
     then gate_body ext body swaps w else w).
Proof. split; [exact exec_gate | exact root_gate_once]. Qed.
Print Assumptions C26_gate_semantics.

(* a nested loop re-runs while its gate is open and stops exactly when it is closed: if the gate
   is open before each of the first n iterations and closed after the n-th (n within the fuel),
   the loop is exactly n iterations of (body; swaps); and in every case the loop ends with the
   gate closed or with the out-of-fuel mark *)
Theorem C26_fixpoint :
  (forall n fuel cond body w, (n <= fuel)%nat ->
     (forall k, (k < n)%nat -> cond (iter_n k body w) = true) ->
     cond (iter_n n body w) = false ->
     while_gate fuel cond body w = iter_n n body w) /\
  (forall fuel cond body w,
     cond (while_gate fuel cond body w) = false \/ w_oof (while_gate fuel cond body w) = true).
Proof. split; [exact while_gate_iter | exact while_gate_stops]. Qed.
Print Assumptions C26_fixpoint.

(* defer_tick inside a loop delays by exactly one iteration: the swap at the end of every
   iteration turns what the iteration pushed into the next iteration's back buffer *)
Theorem C26_loop_defer :
  forall ext body swaps w h, NoDup swaps -> In h swaps ->
    let w1 := fold_left (fun w i => exec ext i w) body w in
    get h (w_back (gate_body ext body swaps w)) = get h (w_buf w1) /\
    get h (w_buf (gate_body ext body swaps w)) = get h (w_back w1).
Proof. exact loop_defer_swap. Qed.
Print Assumptions C26_loop_defer.

(* non-vacuity: a `while` gate over handoff 0 whose body moves one item per iteration from
   buffer 0 to the sink runs exactly three times on three items *)
Example C26_example :
  let sg := {| sg_recv := [(0%N, false)]; sg_send := [(0%N, SExit)];
               sg_slots := []; sg_nodes := [ {| n_id := 0%N; n_kind := NOp (OStateless (fun i => [firstn 1 (port 0 i); skipn 1 (port 0 i)]));
                                n_ins := [0%N]; n_outs := [1%N; 0%N] |};
                             {| n_id := 1%N; n_kind := NSink 0; n_ins := [1%N]; n_outs := [] |} ] |} in
  let w0 := {| w_buf := [(0%N, [VN 7; VN 8; VN 9])]; w_back := []; w_st := []; w_out := []; w_tick := 0%N;
               w_wake := false; w_work := false; w_oof := false; w_panic := false |} in
  let w := exec [] (IGate false [CBuf 0%N] [IRun sg] []) w0 in
  (get 0%N (w_out w), get 0%N (w_buf w), w_oof w) =
  ([VP (VN 0) (VN 7); VP (VN 0) (VN 8); VP (VN 0) (VN 9)], [], false).
Proof. vm_compute. reflexivity. Qed.
