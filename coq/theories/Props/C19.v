(* C19 The partitioner rejects exactly the graphs with same-tick cycles.

   Model: Partition/Model.v.  [same_tick_deps T g] is the dependency graph the partitioner
   builds (non-delayed pipe edges, reference edges + borrower-before-consumer, access-group
   order, loop-ingress constraints) over the operator table T; [partition_verdict T g] is
   partition_graph's outcome up to and including SubgraphMerge::new, the only fallible step.
   [is_cycle] is GraphAlg.PTopo.is_cycle (non-empty, duplicate-free, consecutive elements are
   dependency edges, last -> first closes).

   Full statement = the three theorems below for ALL operator tables T and ALL graphs g,
   outside two input classes on which the model panics instead of answering:
     access_conflict g   : one operator references one handoff in two different access groups
                           (known finding, _refuted witness below on the regenerated Gen.ops_table)
     enemy_self_pair T g : a reference from a node to itself (cannot be written in the surface
                           syntax; a delayed self edge no longer counts since /repo 155f525eb46)
   Precondition [deps_closed_b T g]: every predecessor named by a dependency is a node of g (decidable;
   the check evaluates it on every real flat graph).
   Not stated here: that the phases after SubgraphMerge::new cannot fail (checked by
   correspondence: the implementation never panicked there on any generated graph). *)
From Coq Require Import List String NArith Bool.
From HV Require Import Partition.Base GraphAlg.Model GraphAlg.PTopo Partition.Model Partition.PC19 Partition.PKahn Gen.OpsTable.
Import ListNotations.
Open Scope N_scope.
Open Scope string_scope.

Theorem C19_reported_cycle_is_real : forall (T : optable) (g : graph) (c : list N),
  partition_verdict T g = Rejected c -> is_cycle (same_tick_deps T g) c.
Proof. exact reported_cycle_is_real. Qed.
Print Assumptions C19_reported_cycle_is_real.

Theorem C19_rejects_iff_cycle : forall (T : optable) (g : graph),
  deps_closed_b T g = true -> access_conflict g = false -> enemy_self_pair T g = false ->
  ((exists c, partition_verdict T g = Rejected c) <-> exists c, is_cycle (same_tick_deps T g) c).
Proof. exact rejects_iff_cycle. Qed.
Print Assumptions C19_rejects_iff_cycle.

Theorem C19_acyclic_accepted : forall (T : optable) (g : graph),
  deps_closed_b T g = true -> access_conflict g = false -> enemy_self_pair T g = false ->
  (~ exists c, is_cycle (same_tick_deps T g) c) -> partition_verdict T g = Accepted.
Proof. exact acyclic_accepted. Qed.
Print Assumptions C19_acyclic_accepted.

(* The independent oracle the check uses to re-decide cyclicity on the implementation's outputs
   (Kahn-style elimination, Partition/Model.v has_cycle_b) decides exactly the right-hand side of
   C19_rejects_iff_cycle. *)
Theorem C19_oracle_correct : forall (T : optable) (g : graph),
  deps_closed_b T g = true ->
  (has_cycle_b (same_tick_deps T g) (node_ids g) = true <->
   exists c, is_cycle (same_tick_deps T g) c).
Proof. exact c19_oracle_correct. Qed.
Print Assumptions C19_oracle_correct.

(* ---- former finding 1 (fixed in /repo 155f525eb46):  `a = defer_tick(); a -> a;`
   The only edge is delayed, so the same-tick dependency graph is empty (acyclic); since the fix
   the self pair is no longer an enemy pair and the graph is accepted (corpus/C19/delayed_self_loop.json
   runs first in every check). *)
Definition g_self_delay : graph :=
  mkGraph [mkNode 1 (KOp "defer_tick") None [] None None]
          [mkEdge 1 1 1 PElided PElided] [] [] [].

Example C19_delayed_self_loop_accepted :
  deps_closed_b ops_table g_self_delay = true /\ enemy_self_pair ops_table g_self_delay = false /\
  access_conflict g_self_delay = false /\ partition_verdict ops_table g_self_delay = Accepted.
Proof. vm_compute. repeat split; reflexivity. Qed.

(* ---- known finding:
   `n0 = source_iter(0..1) -> singleton(); source_iter(0..5) -> map(|x| x + #{0} n0 + #{1} n0) -> null();`
   node 4 (map) references handoff 2 in groups 0 and 1: the access-order dependency 4 -> 4 is a
   cycle of the dependency graph, but instead of the diagnostic with the cycle the code panics
   in find_access_group_ordering (a TODO in the source says "handle with diagnostics"). *)
Definition g_access_conflict : graph :=
  mkGraph [mkNode 1 (KOp "source_iter") None [] None None;
           mkNode 2 (KHoff HSingleton) None [] None None;
           mkNode 3 (KOp "source_iter") None [] None None;
           mkNode 4 (KOp "map") None [mkRef (Some 2) false (Some 0); mkRef (Some 2) false (Some 1)] None None;
           mkNode 5 (KOp "null") None [] None None]
          [mkEdge 1 1 2 PElided PElided; mkEdge 2 4 5 PElided PElided; mkEdge 3 3 4 PElided PElided]
          [] [] [].

Theorem C19_refuted_access_conflict :
  exists g, deps_closed_b ops_table g = true /\ access_conflict g = true /\
            is_cycle (same_tick_deps ops_table g) [4] /\
            partition_verdict ops_table g = Panicked.
Proof.
  exists g_access_conflict. split; [vm_compute; reflexivity|]. split; [vm_compute; reflexivity|]. split.
  - apply is_cycle_b_sound. vm_compute. reflexivity.
  - vm_compute. reflexivity.
Qed.
Print Assumptions C19_refuted_access_conflict.

(* ---- non-vacuity: the hypotheses of the theorems hold for real graphs of both kinds.
   `source_iter(0..5) -> u; u = union() -> map(|x| x + 1) -> u;`  (rejected, cycle map -> union) *)
Definition g_cyclic : graph :=
  mkGraph [mkNode 1 (KOp "source_iter") None [] None None;
           mkNode 2 (KOp "union") None [] None None;
           mkNode 3 (KOp "map") None [] None None]
          [mkEdge 1 1 2 PElided PElided; mkEdge 2 3 2 PElided PElided; mkEdge 3 2 3 PElided PElided]
          [] [] [].
(* the same loop broken by defer_tick: accepted *)
Definition g_deferred : graph :=
  mkGraph [mkNode 1 (KOp "source_iter") None [] None None;
           mkNode 2 (KOp "union") None [] None None;
           mkNode 3 (KOp "tee") None [] None None;
           mkNode 4 (KOp "for_each") None [] None None;
           mkNode 5 (KOp "defer_tick") None [] None None]
          [mkEdge 1 1 2 PElided PElided; mkEdge 2 2 3 PElided PElided; mkEdge 3 3 4 PElided PElided;
           mkEdge 4 5 2 PElided PElided; mkEdge 5 3 5 PElided PElided]
          [] [] [].

Example C19_hyps_cyclic :
  deps_closed_b ops_table g_cyclic = true /\ access_conflict g_cyclic = false /\
  enemy_self_pair ops_table g_cyclic = false /\ partition_verdict ops_table g_cyclic = Rejected [3; 2].
Proof. vm_compute. repeat split; reflexivity. Qed.

Example C19_hyps_acyclic :
  deps_closed_b ops_table g_deferred = true /\ access_conflict g_deferred = false /\
  enemy_self_pair ops_table g_deferred = false /\ partition_verdict ops_table g_deferred = Accepted /\
  table_ok ops_table = true /\
  delayed_ops ops_table = [("defer_tick", DTick); ("defer_tick_lazy", DTickLazy)].
Proof. vm_compute. repeat split; reflexivity. Qed.
