(* C30 Tick-scoped collections behave like finite batches.
   Statement: inside a tick, bounded collections behave exactly like operations on the finite
   batch (fold, reduce, count, max/min, first/last, limit, sort, enumerate, cross_singleton,
   join/anti_join with a bounded side preserving the other side's order), tick-scoped state
   does not leak into later ticks, and values sent to the next tick (defer_tick, tick cycles,
   across_ticks) arrive exactly one tick later.
   Proved for the modelled tick IR [bnode] (count/max/min/first/last/limit are the library's
   own fold / reduce / generator instances, see Hydro/ModelFlows.v); the body of
   `across_ticks` is a program of the top-level IR fed with the batches. *)
From HV Require Import Hydro.Model Hydro.ModelTick Hydro.ModelFlows Hydro.PBase Hydro.PTick Hydro.PScope Hydro.PAcross.

(* the emitted 'tick state machines compute, tick by tick, the list function of the batch, for
   every program of the IR and every history of batches *)
Theorem C30_batch_functions_modelled_ir : forall n bs, brun n bs = bspec n bs.
Proof. exact brun_bspec. Qed.
Print Assumptions C30_batch_functions_modelled_ir.

(* no leak: any operator with 'tick persistence starts every tick from its initial state *)
Theorem C30_tick_state_does_not_leak :
  forall (St I O : Type) (init : St) (step : St -> I -> O * St) xss,
    op_run LTick init step xss = map (fun xs => fst (step init xs)) xss.
Proof. exact op_run_tick. Qed.
Print Assumptions C30_tick_state_does_not_leak.

Theorem C30_defer_one_tick_later :
  forall x bs t, S t < length (brun x bs) ->
    nth (S t) (brun (BDefer x) bs) [] = nth t (brun x bs) [] /\ nth 0 (brun (BDefer x) bs) [] = [].
Proof. exact defer_one_tick_later. Qed.
Print Assumptions C30_defer_one_tick_later.

Theorem C30_cycle_carry :
  forall body bs prev t e, nth_error bs (S t) = Some e ->
    nth_error (loop_run body prev bs) (S t) = Some (body (nth t (loop_run body prev bs) []) e).
Proof. exact loop_carry. Qed.
Print Assumptions C30_cycle_carry.

(* across_ticks: the body keeps its ('static) state from batch to batch; it is causal, and in tick t
   it has emitted / holds exactly the denotation of the batches of ticks 0..t *)
Theorem C30_across_ticks_stream_modelled_ir : forall n bs k, wf_s n -> 0 < k -> bs <> [] ->
  equiv (ord n) (concat (firstn k (run_s n bs))) (den_s n (flat (firstn k bs))).
Proof. exact across_stream_prefix. Qed.
Print Assumptions C30_across_ticks_stream_modelled_ir.

Theorem C30_across_ticks_aggregate_modelled_ir : forall a bs t, wf_a a -> t < length bs ->
  equiv (aexact a) (nth t (run_a a bs) []) (den_a a (flat (firstn (S t) bs))).
Proof. exact across_aggregate_at_tick. Qed.
Print Assumptions C30_across_ticks_aggregate_modelled_ir.

Example C30_defer_example :
  brun t_defer_chain [mkenv [[VN 1]; [VN 7]]; mkenv [[VN 2]; [VN 8]]; mkenv [[VN 3]; [VN 9]]]
  = [[VN 2]; [VN 4]; [VN 6; VN 7]].
Proof. reflexivity. Qed.

Example C30_limit_example :
  brun t_limit [mkenv [[VN 1; VN 2; VN 3]]; mkenv [[]]; mkenv [[VN 5]]] = [[VN 1; VN 2]; []; [VN 5]].
Proof. reflexivity. Qed.
