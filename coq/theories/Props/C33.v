(* C33 Monotonicity and bounded-value annotations are truthful.
   Statement: collections whose types promise monotone growth (monotone singletons such as
   counts, keyed singletons with monotonic keys or values, bounded-value keyed singletons such as
   per-key first) never shrink or change in a disallowed way between ticks: keys never disappear,
   monotone values never decrease, and a bounded value never changes once present.

   Proved on the emitted semantics of the modelled IR ([run_a]: the per-tick snapshots of the
   'static fold / fold_keyed / reduce_keyed state), for every input history and partition.  The
   mapping API -> bound (SingletonBound / KeyedSingletonBound associated types) is Rust trait
   resolution and is only compared as a table (tools/hydro.py BOUND_TABLE). *)
From HV Require Import Hydro.Model Hydro.ModelFlows Hydro.PBase Hydro.PTick Hydro.PMono.

(* any top-level fold whose closure carries the `monotone` obligation *)
Theorem C33_monotone_fold_modelled_ir :
  forall (le : val -> val -> Prop), (forall a, le a a) -> (forall a b c, le a b -> le b c -> le a c) ->
  forall acc, (forall s a, le s (acc s a)) ->
  forall init x bs, Adj (single_le le) (run_a (AFold init acc x) bs).
Proof. exact fold_snapshots_monotone. Qed.
Print Assumptions C33_monotone_fold_modelled_ir.

Theorem C33_count_monotone : forall x bs, Adj (single_le nle) (run_a (AFold (VN 0) c_count x) bs).
Proof. exact count_snapshots_monotone. Qed.
Print Assumptions C33_count_monotone.

(* MonotonicKeys: keys of keyed folds / reduces never disappear *)
Theorem C33_keys_never_disappear_fold : forall init acc x bs,
  Adj (snap_evolves (fun _ _ => True)) (run_a (AFoldKeyed init acc x) bs).
Proof. exact keyed_fold_keys_monotone. Qed.
Print Assumptions C33_keys_never_disappear_fold.

Theorem C33_keys_never_disappear_reduce : forall f x bs,
  Adj (snap_evolves (fun _ _ => True)) (run_a (AReduceKeyed f x) bs).
Proof. exact keyed_reduce_keys_monotone. Qed.
Print Assumptions C33_keys_never_disappear_reduce.

(* MonotonicValue: keyed fold with a monotone closure *)
Theorem C33_monotone_keyed_fold_modelled_ir :
  forall (R : val -> val -> Prop), (forall a, R a a) -> (forall a b c, R a b -> R b c -> R a c) ->
  forall init acc, (forall s a, R s (acc s a)) ->
  forall x bs, Adj (snap_evolves R) (run_a (AFoldKeyed init acc x) bs).
Proof. exact keyed_fold_snapshots. Qed.
Print Assumptions C33_monotone_keyed_fold_modelled_ir.

Theorem C33_value_counts_monotone : forall x bs,
  Adj (snap_evolves nle) (run_a (AFoldKeyed (VN 0) c_count x) bs).
Proof. exact value_counts_snapshots_monotone. Qed.
Print Assumptions C33_value_counts_monotone.

(* BoundedValue: per-key first (as keyed reduce that keeps its accumulator) never changes *)
Theorem C33_bounded_value_first : forall x bs,
  Adj (snap_evolves eq) (run_a (AReduceKeyed c_first x) bs).
Proof. exact keyed_first_value_never_changes. Qed.
Print Assumptions C33_bounded_value_first.

(* the model's bound judgement ([abound]: which API keeps / erases which promise; compared on every
   run, node by node, with the bound the builder records) only promises what the emitted semantics
   delivers *)
Theorem C33_bound_judgement_sound : forall r bs,
  match r with
  | RMap _ _ => True
  | _ =>
    match abound r with
    | BMonoSingle => Adj (single_le nle) (run_a (interp_a r) bs)
    | BMonoValue => Adj (snap_evolves nle) (run_a (interp_a r) bs)
    | BMonoKeys => Adj (snap_evolves (fun _ _ => True)) (run_a (interp_a r) bs)
    | BUnb => True
    end
  end.
Proof. exact abound_sound. Qed.
Print Assumptions C33_bound_judgement_sound.

(* map / map_with_key erase the monotone-value promise: a non order-preserving closure over a
   MonotonicValue collection really produces shrinking values *)
Example C33_map_must_erase :
  abound (RMap (fun e => e) (RFoldKeyed (VN 0) KCount (SSrc 0))) = BMonoKeys /\
  C33_holds_b MonoValue
    (run_a (AMap (fun e => VP (vfst e) (VN (100 - 10 * n_of (vsnd e)))) (AFoldKeyed (VN 0) c_count (SSrc 0)))
       [mkenv [[VP (VN 1) (VN 0)]]; mkenv [[VP (VN 1) (VN 0)]]]) = false.
Proof. split; reflexivity. Qed.

Example C33_count_snapshots :
  run_a (AFold (VN 0) c_count (SSrc 0)) [mkenv [[VN 5; VN 6]]; mkenv [[]]; mkenv [[VN 7]]]
  = [[VN 2]; [VN 2]; [VN 3]].
Proof. reflexivity. Qed.
