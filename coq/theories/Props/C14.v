(* C14 Sink adaptors route every item to the right sink, once, in order.
   Only the property theorems; each is closed by an exact of a lemma proved in
   theories/Push/PSink.v and followed by Print Assumptions.

   FULL statement intended for every adaptor c (map, filter, filter_map, flat_map, flatten,
   unzip, LazySink), for all item sequences, all Ready/Pending/Err scripts of every downstream
   sink and all fuel:
       C14_holds_b c items (srun_case c fuel items scripts) = true
   (SinkRun.v: strict futures::Sink protocol toward every downstream [swf], items offered =
   prefix of the reference list / all of it and closed when the driver finished, errors
   propagated to the driver and nothing called after an error, lazy initializer called at most
   once and exactly once if anything reached the sink).
   Proved: the full statement for every MODELLED adaptor: map, filter, filter_map, flat_map,
   flatten, unzip, LazySink, for_each, try_for_each and send_iter ([C14_map], [C14_filter],
   [C14_filter_map], [C14_flat_map], [C14_flatten], [C14_unzip], [C14_lazy], [C14_for_each],
   [C14_try_for_each], [C14_send_iter], + [C14_lazy_init_once_partial]: initializer count over ANY
   downstream sink, kept under its historical name).  demux_map's routing is covered by
   property C35's check and not duplicated here.  UNMODELLED (no claim): inspect, send_stream,
   demux_map_lazy, demux_var, LazySinkSource, LazySource. *)
From Coq Require Import List NArith Bool.
From HV Require Import Push.SinkModel Push.PBase Push.PSink Push.PSinkOne Push.PSinkLazy Push.PSinkUnzip Push.PSinkFlat Push.PSinkMore.
Import ListNotations.

(* FULL statement for the forwarding adaptors map.rs / filter.rs / filter_map.rs over a scripted
   futures::Sink recorder [s0] with ARBITRARY Ready/Pending/Err scripts (any [sds] with an empty
   log), all items, all fuel.  [sresult fwd FInv items o s'] unfolds, by the driver's outcome o, to
   [SInv gref phase (slg s')] (PSinkOne.v):
     - always: the strict futures::Sink protocol [swf] toward the downstream (start_send only
       directly after poll_ready = Ready(Ok), nothing sent once closing, nothing at all after
       an error or after close completed);
     - SFinished: no failure, closed, items offered = items accepted = reference list [gref items];
     - SFailed: the downstream log contains the failure (error propagated, nothing called after
       it) and the items offered are the reference of a prefix of the input;
     - SOutOfFuel: no failure so far, offered = accepted = reference of the consumed prefix;
     - SPanicked: impossible. *)
Theorem C14_filter_map : forall A B (g : A -> option B) fuel items (s0 : sds B),
    slg s0 = [] ->
    match sdrive (sfilter_map (srec B) g) fuel items s0 [] with
    | (o, _, s') => sresult (sfilter_map (srec B) g) (FInv g) items o s'
    end.
Proof.
  intros A B g. exact (@fwd_correct A B g (ssend (sfilter_map (srec B) g)) (fun _ _ => eq_refl)).
Qed.
Print Assumptions C14_filter_map.

Theorem C14_map : forall A B (f : A -> B) fuel items (s0 : sds B),
    slg s0 = [] ->
    match sdrive (smap (srec B) f) fuel items s0 [] with
    | (o, _, s') => sresult (smap (srec B) f) (FInv (fun a => Some (f a))) items o s'
    end.
Proof.
  intros A B f. exact (@fwd_correct A B (fun a => Some (f a)) (ssend (smap (srec B) f)) (fun _ _ => eq_refl)).
Qed.
Print Assumptions C14_map.

Theorem C14_filter : forall A (q : A -> bool) fuel items (s0 : sds A),
    slg s0 = [] ->
    match sdrive (sfilter (srec A) q) fuel items s0 [] with
    | (o, _, s') => sresult (sfilter (srec A) q) (FInv (fun a => if q a then Some a else None)) items o s'
    end.
Proof.
  intros A q.
  refine (@fwd_correct A A (fun a => if q a then Some a else None) (ssend (sfilter (srec A) q)) _).
  intros a s. cbn. destruct (q a); reflexivity.
Qed.
Print Assumptions C14_filter.

(* FULL statement for FlatMap / Flatten (flat_map.rs, flatten.rs).  [FMInv] (PSinkFlat.v), by
   outcome, with [spend] = the buffered iterator (iter_next): strict protocol; while not failed
   accepted = offered and offered ++ buffered = flat_map g (items sent so far): the element
   buffered across a Pending answer is neither lost nor duplicated; SFinished: accepted =
   flat_map g items and closed; SFailed: failure in the log, offered is a prefix. *)
Theorem C14_flat_map : forall A B (g : A -> list B) fuel items (s0 : sds B),
    slg s0 = [] ->
    match sdrive (sflat_map (srec B) g) fuel items (None, s0) [] with
    | (o, _, st') => sresult (sflat_map (srec B) g) (FMInv g) items o st'
    end.
Proof. exact (@sflat_map_correct). Qed.
Print Assumptions C14_flat_map.

Theorem C14_flatten : forall B fuel (items : list (list B)) (s0 : sds B),
    slg s0 = [] ->
    match sdrive (sflatten (srec B)) fuel items (None, s0) [] with
    | (o, _, st') => sresult (sflatten (srec B)) (FMInv (fun l : list B => l)) items o st'
    end.
Proof. exact sflatten_correct. Qed.
Print Assumptions C14_flatten.

(* FULL statement for Unzip (unzip.rs as of /repo e255bb09846) over two recorders with arbitrary
   Ready/Pending/Err scripts.  [UInv] (PSinkUnzip.v), by outcome: both logs satisfy the strict
   protocol [swf]; SFinished: no failure, both closed, sink 0 accepted exactly [map fst items]
   and sink 1 exactly [map snd items]; SFailed: one of the two logs contains the failure, both
   protocol-correct, items offered are prefixes of the references; never panics. *)
Theorem C14_unzip : forall A B fuel (items : list (A * B)) (d0 : sds A) (d1 : sds B),
    slg d0 = [] -> slg d1 = [] ->
    match sdrive (sunzip (srec A) (srec B)) fuel items ((false, false), (d0, d1)) [] with
    | (o, _, st') => sresult (sunzip (srec A) (srec B)) (@UInv A B) items o st'
    end.
Proof. exact (@sunzip_correct). Qed.
Print Assumptions C14_unzip.

(* FULL delivery statement for LazySink (lazy.rs) over a recorder, for every initializer pending
   count [n] and result [ok] and all scripts.  [LInv] (PSinkLazy.v), by outcome, with
   [held] = the item LazySink holds (Thunkulating.item / Done.buf):
     - always: strict protocol [swf] toward the inner sink; nothing reaches it before the
       initializer succeeded; while an item is held nothing has been offered yet, so the item
       handed over while uninitialised is delivered FIRST;
     - not failed: items offered = items accepted, and offered ++ held = the items the driver
       has sent: nothing lost, nothing duplicated, for any initializer / readiness script;
     - SFinished: accepted = all items, nothing held, and the sink closed (or never created
       because there were no items);
     - SFailed: the inner sink's log contains the failure or the initializer failed. *)
Theorem C14_lazy : forall A fuel (items : list A) n ok (s0 : sds A),
    slg s0 = [] ->
    match sdrive (slazy (srec A)) fuel items (@LUninit A n ok, 0, s0) [] with
    | (o, _, st') => sresult (slazy (srec A)) (@LInv A) items o st'
    end.
Proof. exact (@lazy_correct). Qed.
Print Assumptions C14_lazy.

(* for_each.rs / try_for_each.rs: terminal sinks.  [TInv]: the closure is called with exactly the
   items offered so far, in order, once; only the last call may have failed, and then the driver
   sees the failure; for_each never fails. *)
Theorem C14_try_for_each : forall A (fails : A -> bool) fuel items,
    match sdrive (stry_for_each fails) fuel items [] [] with
    | (o, _, l) => sresult (stry_for_each fails) (TInv fails) items o l
    end.
Proof. exact (@try_for_each_correct). Qed.
Print Assumptions C14_try_for_each.

Theorem C14_for_each : forall A fuel (items : list A),
    match sdrive (sfor_each A) fuel items [] [] with
    | (o, _, l) => o <> SFailed /\ sresult (sfor_each A) (TInv (fun _ : A => false)) items o l
    end.
Proof. exact for_each_correct. Qed.
Print Assumptions C14_for_each.

(* send_iter.rs: the SendIter future polled until Ready, over a recorder with arbitrary scripts
   (take dn = [] and an empty log for a fresh sink): strict protocol, never closed; Ready(Ok): every
   item accepted once and in order and the sink flushed last; Ready(Err): the failure is in the
   sink's log; nothing is lost across Pending polls. *)
Theorem C14_send_iter : forall A fuel items dn (s : sds A) tr,
    sgood (slg s) dn ->
    match si_drive (srec A) fuel items s tr with
    | (o, _, (it', s')) =>
      swf (slg s') = true /\ sclosing (slg s') = false /\ prefix (soffered (slg s')) (dn ++ items) /\
      (o = SFinished -> sgood (slg s') (dn ++ items) /\ exists r, slg s' = SFlush RDone :: r) /\
      (o = SFailed -> sfailed (slg s') = true) /\
      (o = SOutOfFuel -> sfailed (slg s') = false) /\ o <> SPanicked
    end.
Proof. exact (@send_iter_correct). Qed.
Print Assumptions C14_send_iter.

Theorem C14_lazy_init_once_partial : forall A (nx : sink A) fuel items n ok (s0 : SSt nx),
    match sdrive (slazy nx) fuel items (@LUninit A n ok, 0, s0) [] with
    | (_, _, st) => lz_count_ok st /\ snd (fst st) <= 1
    end.
Proof. exact (@lazy_init_once). Qed.
Print Assumptions C14_lazy_init_once_partial.

(* History: before /repo e255bb09846 sinktools Unzip closed a sink again after its poll_close
   had completed (finding unzip/poll_close-after-close-completed, now `fixed:`).  The former
   theorem C14_unzip_strict_refuted was about the pre-fix step function, which survives with its
   witness in Push/SinkHistoric.v (sunzip_old_strict_refuted) for the record only.  Former
   witness: items [], sink 0 always Ready, sink 1 poll_close script [Pending] => sink 0 saw
   poll_close twice.  On the code as it is now the same scripts close sink 0 exactly once
   (SinkHistoric.sunzip_witness_now_strict; corpus/C14/unzip_reclose.json). *)

(* non-vacuity: a lazy sink whose initializer pends twice; the item handed over while
   uninitialised is delivered first, the initializer ran once *)
Example C14_lazy_example :
  match sdrive (slazy (srec N)) 20 [5; 6]%N (@LUninit N 2 true, 0, mksds [RPend] [] [] [RPend] []) [] with
  | (o, _, st) => o = SFinished /\ ssent (slg (snd st)) = [5; 6]%N /\ snd (fst st) = 1
  end.
Proof. vm_compute. auto. Qed.
