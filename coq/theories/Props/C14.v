(* C14 Sink adaptors route every item to the right sink, once, in order.
   Only the property theorems; each is closed by an exact of a lemma proved in
   theories/Push/PSink.v and followed by Print Assumptions.

   FULL statement intended for every adaptor c (map, filter, filter_map, flat_map, flatten,
   unzip, LazySink), for all item sequences, all Ready/Pending/Err scripts of every downstream
   sink and all fuel:
       C14_holds_b c items (srun_case c fuel items scripts) = true
   (SinkRun.v: strict futures::Sink protocol toward every downstream [swf], items offered =
   prefix of the reference list / all of it and closed when the driver finished, errors
   propagated to the driver and nothing called after an error, lazy initializer called at most
   once and exactly once if anything reached the sink).
   Proved: the full statement for map, filter, filter_map ([C14_map], [C14_filter],
   [C14_filter_map]); the initializer clause for LazySink over ANY downstream sink
   ([C14_lazy_init_once_partial]).  For flat_map,
   flatten, unzip and the delivery clauses of LazySink the property is checked per run on the
   implementation's histories only (correspondence + executable property), not yet proved. *)
From Coq Require Import List NArith Bool.
From HV Require Import Push.SinkModel Push.PBase Push.PSink Push.PSinkOne.
Import ListNotations.

(* FULL statement for the forwarding adaptors map.rs / filter.rs / filter_map.rs over a scripted
   futures::Sink recorder [s0] with ARBITRARY Ready/Pending/Err scripts (any [sds] with an empty
   log), all items, all fuel.  [sresult fwd FInv items o s'] unfolds, by the driver's outcome o, to
   [SInv gref phase (slg s')] (PSinkOne.v):
     - always: the strict futures::Sink protocol [swf] toward the downstream (start_send only
       directly after poll_ready = Ready(Ok), nothing sent once closing, nothing at all after
       an error or after close completed);
     - SFinished: no failure, closed, items offered = items accepted = reference list [gref items];
     - SFailed: the downstream log contains the failure (error propagated, nothing called after
       it) and the items offered are the reference of a prefix of the input;
     - SOutOfFuel: no failure so far, offered = accepted = reference of the consumed prefix;
     - SPanicked: impossible. *)
Theorem C14_filter_map : forall A B (g : A -> option B) fuel items (s0 : sds B),
    slg s0 = [] ->
    match sdrive (sfilter_map (srec B) g) fuel items s0 [] with
    | (o, _, s') => sresult (sfilter_map (srec B) g) (FInv g) items o s'
    end.
Proof.
  intros A B g. exact (@fwd_correct A B g (ssend (sfilter_map (srec B) g)) (fun _ _ => eq_refl)).
Qed.
Print Assumptions C14_filter_map.

Theorem C14_map : forall A B (f : A -> B) fuel items (s0 : sds B),
    slg s0 = [] ->
    match sdrive (smap (srec B) f) fuel items s0 [] with
    | (o, _, s') => sresult (smap (srec B) f) (FInv (fun a => Some (f a))) items o s'
    end.
Proof.
  intros A B f. exact (@fwd_correct A B (fun a => Some (f a)) (ssend (smap (srec B) f)) (fun _ _ => eq_refl)).
Qed.
Print Assumptions C14_map.

Theorem C14_filter : forall A (q : A -> bool) fuel items (s0 : sds A),
    slg s0 = [] ->
    match sdrive (sfilter (srec A) q) fuel items s0 [] with
    | (o, _, s') => sresult (sfilter (srec A) q) (FInv (fun a => if q a then Some a else None)) items o s'
    end.
Proof.
  intros A q.
  refine (@fwd_correct A A (fun a => if q a then Some a else None) (ssend (sfilter (srec A) q)) _).
  intros a s. cbn. destruct (q a); reflexivity.
Qed.
Print Assumptions C14_filter.

Theorem C14_lazy_init_once_partial : forall A (nx : sink A) fuel items n ok (s0 : SSt nx),
    match sdrive (slazy nx) fuel items (@LUninit A n ok, 0, s0) [] with
    | (_, _, st) => lz_count_ok st /\ snd (fst st) <= 1
    end.
Proof. exact (@lazy_init_once). Qed.
Print Assumptions C14_lazy_init_once_partial.

(* History: before /repo e255bb09846 sinktools Unzip closed a sink again after its poll_close
   had completed (finding unzip/poll_close-after-close-completed, now `fixed:`).  The former
   theorem C14_unzip_strict_refuted was about the pre-fix step function, which survives with its
   witness in Push/SinkHistoric.v (sunzip_old_strict_refuted) for the record only.  Former
   witness: items [], sink 0 always Ready, sink 1 poll_close script [Pending] => sink 0 saw
   poll_close twice.  On the code as it is now the same scripts close sink 0 exactly once
   (SinkHistoric.sunzip_witness_now_strict; corpus/C14/unzip_reclose.json). *)

(* non-vacuity: a lazy sink whose initializer pends twice; the item handed over while
   uninitialised is delivered first, the initializer ran once *)
Example C14_lazy_example :
  match sdrive (slazy (srec N)) 20 [5; 6]%N (@LUninit N 2 true, 0, mksds [RPend] [] [] [RPend] []) [] with
  | (o, _, st) => o = SFinished /\ ssent (slg (snd st)) = [5; 6]%N /\ snd (fst st) = 1
  end.
Proof. vm_compute. auto. Qed.
