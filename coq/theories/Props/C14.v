(* C14 Sink adaptors route every item to the right sink, once, in order.
   Only the property theorems; each is closed by an exact of a lemma proved in
   theories/Push/PSink.v and followed by Print Assumptions.

   FULL statement intended for every adaptor c (map, filter, filter_map, flat_map, flatten,
   unzip, LazySink), for all item sequences, all Ready/Pending/Err scripts of every downstream
   sink and all fuel:
       C14_holds_b c items (srun_case c fuel items scripts) = true
   (SinkRun.v: strict futures::Sink protocol toward every downstream [swf], items offered =
   prefix of the reference list / all of it and closed when the driver finished, errors
   propagated to the driver and nothing called after an error, lazy initializer called at most
   once and exactly once if anything reached the sink).
   Proved so far (hence the names): the initializer clause for LazySink over ANY downstream
   sink ([C14_lazy_init_once_partial]), and the refutation of the strict protocol for Unzip
   ([C14_unzip_strict_refuted], finding unzip/poll_close-after-close-completed).  The remaining
   clauses are checked per run on the implementation's histories only (correspondence +
   executable property), not yet proved for all inputs. *)
From Coq Require Import List NArith Bool.
From HV Require Import Push.SinkModel Push.PSink.
Import ListNotations.

Theorem C14_lazy_init_once_partial : forall A (nx : sink A) fuel items n ok (s0 : SSt nx),
    match sdrive (slazy nx) fuel items (@LUninit A n ok, 0, s0) [] with
    | (_, _, st) => lz_count_ok st /\ snd (fst st) <= 1
    end.
Proof. exact (@lazy_init_once). Qed.
Print Assumptions C14_lazy_init_once_partial.

Theorem C14_unzip_strict_refuted : exists (items : list (N * N)) (d0 d1 : sds N),
    match sdrive (sunzip (srec N) (srec N)) 10 items (d0, d1) [] with
    | (o, _, s') => o = SFinished /\ swf (slg (fst s')) = false /\ swfw (slg (fst s')) = true
    end.
Proof. exact sunzip_strict_refuted. Qed.
Print Assumptions C14_unzip_strict_refuted.

(* non-vacuity: a lazy sink whose initializer pends twice; the item handed over while
   uninitialised is delivered first, the initializer ran once *)
Example C14_lazy_example :
  match sdrive (slazy (srec N)) 20 [5; 6]%N (@LUninit N 2 true, 0, mksds [RPend] [] [] [RPend] []) [] with
  | (o, _, st) => o = SFinished /\ ssent (slg (snd st)) = [5; 6]%N /\ snd (fst st) = 1
  end.
Proof. vm_compute. auto. Qed.
