(* C03 Lattice comparisons, bottom and top agree with merge. *)
From HV Require Import Lattice.Univ Lattice.PUniv.

Theorem C03_order : forall t, key_total t = true -> C03_order_stmt (ops t).
Proof. intros t K. exact (laws_C03_order (laws t K)). Qed.
Print Assumptions C03_order.

(* equality is an equivalence (the induced one, by C03_order's second clause) *)
Theorem C03_eq_equiv : forall t, key_total t = true ->
  (forall a, W (ops t) a -> E (ops t) a a) /\
  (forall a b, W (ops t) a -> W (ops t) b -> E (ops t) a b -> E (ops t) b a) /\
  (forall a b c, W (ops t) a -> W (ops t) b -> W (ops t) c ->
     E (ops t) a b -> E (ops t) b c -> E (ops t) a c).
Proof.
  intros t K. pose proof (laws t K) as H.
  exact (conj (e_refl H) (conj (e_sym H) (e_trans H))).
Qed.
Print Assumptions C03_eq_equiv.

(* is_top exactly for a greatest element.  [top_ok] excludes only the degenerate codes where a
   WithBot or MapUnion sits over a one-point value lattice (e.g. WithBot<()>): there every value
   is a greatest element but None / the empty map is not reported as top (recorded finding).
   The former exclusion "WithTop over a lattice that has a top" is gone: that defect was repaired
   (fix: WithTop::is_top reports only the adjoined top). *)
Theorem C03_top : forall t, key_total t = true -> top_ok t = true ->
  forall a : val t, W (ops t) a ->
    (istop (ops t) a = true <-> forall b, W (ops t) b -> Le (ops t) b a).
Proof. intros t K T. exact (toplaw t K T). Qed.
Print Assumptions C03_top.

Theorem C03_top_degenerate_refuted :
  exists t (a : val t), key_total t = true /\ W (ops t) a /\
    (forall b, W (ops t) b -> Le (ops t) b a) /\ istop (ops t) a = false.
Proof. exact toplaw_degenerate_refuted. Qed.
Print Assumptions C03_top_degenerate_refuted.

Example C03_nonvacuous :
  let t := TBot (TPair (TMax SBool) (TTop (TMax SBool))) in
  key_total t = true /\ top_ok t = true /\ W (ops t) (Some (1, None))%N /\
  istop (ops t) (Some (1, None))%N = true.
Proof. repeat split. Qed.
