(* C34 Atomic acknowledgements imply read-after-write.

   FULL STATEMENT (properties.jsonl): once an output released through an atomic region's end
   has been observed, every later atomic snapshot of state updated in that region reflects
   the acknowledged update.
   On the model (HydroB/ModelAtomic.v: after unify_atomic_ticks the region's writes, the
   `end_atomic` release and the slices taking `use::atomic` snapshots run in one tick; the
   write batch and the read batch of each tick are chosen by arbitrary hook decisions) this is
   C34_ack_implies_read_after_write, for all tick scripts (arrivals and decisions).
   `_partial` is not needed for the statement on the model; what the model does not express:
   that the simulator / production runtime really executes the unified tick as one DFIR tick
   (engines Dfir C24, Sim C36), and multi-location flows where the acknowledgement travels
   over a network before the read is issued (then j > i strictly, covered by j >= i). *)
From Coq Require Import List NArith Bool Arith.
From HV Require Import Sim.Model HydroB.ModelSlice HydroB.ModelAtomic HydroB.PAtomic HydroB.SimSlice HydroB.PSimSlice.
Import ListNotations.
Open Scope nat_scope.

Theorem C34_ack_implies_read_after_write :
  forall (W R : Type) (script : list (atick W R)) (s : astate W R) i j acks resps acks' resps' w r snap,
    i <= j ->
    nth_error (run_atomic W R s script) i = Some (acks, resps) -> In w acks ->
    nth_error (run_atomic W R s script) j = Some (acks', resps') -> In (r, snap) resps' ->
    In w snap.
Proof. exact ack_implies_read_after_write. Qed.
Print Assumptions C34_ack_implies_read_after_write.

(* the same over engine Sim's model of the real simulator: the unified atomic tick is a SimTick
   of nw write hooks followed by any number of read hooks (any hook kinds) decided by the real run_hooks procedure; for
   every arrival and decision script *)
Theorem C34_sim_ack_implies_read_after_write :
  forall nw sc s obs i j acks resps acks' resps' w r snap,
    run_sim_atomic nw s sc = Ok obs -> i <= j ->
    nth_error obs i = Some (acks, resps) -> In w acks ->
    nth_error obs j = Some (acks', resps') -> In (r, snap) resps' ->
    In w snap.
Proof. exact sim_ack_implies_read_after_write. Qed.
Print Assumptions C34_sim_ack_implies_read_after_write.

(* acknowledgements are exactly the writes that entered the region (none lost, none twice) *)
Theorem C34_acks_are_the_writes : forall (W R : Type) (script : list (atick W R)) (s : astate W R),
  exists rest, concat (map fst (run_atomic W R s script)) ++ rest
               = a_wq W R s ++ concat (map (t_warr W R) script).
Proof. exact acks_partition_writes. Qed.
Print Assumptions C34_acks_are_the_writes.

(* the hypothesis "atomic" matters: with an ordinary (possibly stale) snapshot on the read
   path the acknowledged write 7 is missing from a later read's snapshot *)
Theorem C34_nonatomic_refuted :
  run_nonatomic nat nat (mkA nat nat [] [] []) [[]] stale_script = [([7], []); ([], [(1, [])])].
Proof. exact nonatomic_stale_read. Qed.
Print Assumptions C34_nonatomic_refuted.

(* non-vacuity: a script in which an acknowledged write is read in the same and a later tick *)
Example C34_example :
  run_atomic nat nat (mkA nat nat [] [] [])
    [mkTick nat nat [7; 8] [1] false 1 false 1; mkTick nat nat [] [2] true 0 false 5]
  = [([7], [(1, [7])]); ([8], [(2, [7; 8])])].
Proof. reflexivity. Qed.
