(* C31 Slices partition streams and take monotone snapshots.

   FULL STATEMENT (properties.jsonl): for every execution, the batches a slice observes
   partition the input stream (each element in exactly one batch, in order), the snapshots it
   observes never go back to an older state, all hooks of one slice are taken at the same
   point, and slice-local state hooks carry their value to the next slice.
   On the model (HydroB/ModelSlice.v: the batch hook = sim/runtime.rs StreamHook<_,TotalOrder>
   with production as the "release everything" script, the snapshot hook = SingletonHook, the
   state hook = Tick::cycle_with_initial, a slice = the synchronous product of its hooks) the
   four clauses are the four theorems below, each for ALL scripts of arrivals and decisions.
   Second half of the file: the same clauses over engine Sim's model of the real simulator
   hooks and run_hooks, for EVERY hook kind SimBuilder::batch creates:
     batches    TotalOrder: lists equal (C31_sim_batches_partition); keyed TotalOrder: per key
                lists equal (C31_sim_keyed_batches_order); NoOrder / keyed NoOrder (no order to
                keep): each element in exactly one batch (C31_sim_batches_conserved, all kinds);
     snapshots  SingletonHook and PassthroughSingletonHook (C31_sim_snapshots_monotone),
                KeyedSingletonHook per key (C31_sim_keyed_snapshots_monotone);
     same point run_hooks gives every hook one decide-and-release step per tick
                (C31_sim_hooks_same_tick, C31_sim_slice_columns);
     state      C31_state_carries (Tick::cycle_with_initial). *)
From Coq Require Import List NArith Bool Arith Sorted.
From HV Require Import Sim.Model Sim.PHooks HydroB.ModelSlice HydroB.PSlice HydroB.SimSlice HydroB.PSimSlice HydroB.PSimSnap.
Import ListNotations.
Open Scope nat_scope.

(* batches of successive slices ++ what is still queued = the input, as lists (so: every
   element in exactly one batch or still queued, order kept); any arrivals, any decisions *)
Theorem C31_batches_partition : forall (A : Type) script (q bs qf : list A) bss,
  run_stream A q script = (bss, qf) ->
  concat bss ++ qf = q ++ concat (arrivals_of A script).
Proof. intros A script q bs qf bss. exact (run_stream_partition A script q bss qf). Qed.
Print Assumptions C31_batches_partition.

(* production code generation (batch = identity): slice t sees exactly tick t's arrivals *)
Theorem C31_production_batches : forall (A : Type) (arrivals : list (list A)),
  run_stream A [] (prod_script A arrivals) = (arrivals, []).
Proof. exact run_stream_prod. Qed.
Print Assumptions C31_production_batches.

(* released snapshot versions never decrease *)
Theorem C31_model_snapshots_monotone : forall script vs,
  StronglySorted lt (snap_arrivals script) ->
  run_snap (mkSnap [] None) script = Some vs -> sorted_le vs = true.
Proof. exact snapshots_monotone. Qed.
Print Assumptions C31_model_snapshots_monotone.

(* all hooks of one slice: one release per hook per slice, the first hook's column is that
   hook's own run, the remaining columns are the slice run of the remaining hooks *)
Theorem C31_model_hooks_same_slice : forall (A : Type) script (q : list A) qs,
  Forall (fun tick => tick <> []) script ->
  map (fun rec => hd [] rec) (run_slices A (q :: qs) script)
    = fst (run_stream A q (map (fun tick => hd (dflt A) tick) script)) /\
  map (fun rec => tl rec) (run_slices A (q :: qs) script)
    = run_slices A qs (map (fun tick => tl tick) script).
Proof. exact slices_head_tail. Qed.
Print Assumptions C31_model_hooks_same_slice.

(* a state hook: the first slice reads the initial value, slice i+1 reads what slice i wrote *)
Theorem C31_state_carries : forall (S I O : Type) (body : S -> I -> S * O) ins s,
  (forall r w o, nth_error (run_state S I O body s ins) 0 = Some (r, w, o) -> r = s) /\
  (forall i r w o r' w' o',
      nth_error (run_state S I O body s ins) i = Some (r, w, o) ->
      nth_error (run_state S I O body s ins) (Datatypes.S i) = Some (r', w', o') -> r' = w).
Proof. exact state_carries. Qed.
Print Assumptions C31_state_carries.

(* ------------------------------------------------------------------------------------------
   The same clauses over engine Sim's model of the REAL simulator code (sim/runtime.rs hooks,
   sim/compiled.rs run_hooks; tied to the code by engine Sim's C36 check and, for slice-shaped
   multi-hook multi-round runs, by this property's own check through harness/h_sim), for all
   arrival and decision scripts. *)

(* TotalOrder batch hook over the ticks of its slice: batches ++ queue = queue0 ++ arrivals *)
Theorem C31_sim_batches_partition : forall tr q h',
  Traj (HStreamT q None) tr h' ->
  exists rem, h' = HStreamT rem None /\ map snd (outs_of tr) ++ rem = q ++ map snd (arrs_of tr).
Proof. exact traj_total_partition. Qed.
Print Assumptions C31_sim_batches_partition.

(* every batch hook kind (TotalOrder, NoOrder, keyed TotalOrder, keyed NoOrder): each element is
   in exactly one batch or still queued (multiset form) *)
Theorem C31_sim_batches_conserved : forall tr h h',
  Traj h tr h' -> batch_kind h -> Forall (fun ao => arr_ok h (fst ao)) tr ->
  Permutation.Permutation (outs_of tr ++ content h') (content h ++ arrs_of tr).
Proof. exact traj_conserves. Qed.
Print Assumptions C31_sim_batches_conserved.

(* snapshot hook (SingletonHook): released versions never decrease *)
Theorem C31_sim_singleton_snapshots_monotone : forall tr q last h',
  Traj (HSingle q None last) tr h' ->
  StronglySorted N.lt (olist last ++ q ++ vals (arrs_of tr)) ->
  StronglySorted N.le (snaps_of tr) /\
  Forall (fun v => forall l, last = Some l -> N.le l v) (snaps_of tr).
Proof. exact traj_single_mono. Qed.
Print Assumptions C31_sim_singleton_snapshots_monotone.

(* keyed TotalOrder batch hook: for every key, released values over all ticks ++ the key's queue
   = the key's initial queue ++ its arrivals, as lists *)
Theorem C31_sim_keyed_batches_order : forall tr m h',
  Traj (HKeyedT m None) tr h' -> NoDup (map fst m) ->
  exists m', h' = HKeyedT m' None /\ NoDup (map fst m') /\
    forall k, proj k (outs_of tr) ++ qof k m' = qof k m ++ proj k (arrs_of tr).
Proof. exact traj_keyed_total_order. Qed.
Print Assumptions C31_sim_keyed_batches_order.

(* SingletonHook and PassthroughSingletonHook (with its re-release of the last value) *)
Theorem C31_sim_snapshots_monotone : forall tr h q last h',
  snap_hook h q last -> Traj h tr h' ->
  StronglySorted N.lt (olist last ++ q ++ vals (arrs_of tr)) ->
  StronglySorted N.le (vals (outs_of tr)).
Proof. exact traj_snapshot_mono. Qed.
Print Assumptions C31_sim_snapshots_monotone.

(* KeyedSingletonHook: per key *)
Theorem C31_sim_keyed_snapshots_monotone : forall tr m last h' k,
  Traj (HKSingle m None last) tr h' -> NoDup (map fst m) ->
  StronglySorted N.lt (olist (lookup N.eqb k last) ++ qof k m ++ proj k (arrs_of tr)) ->
  StronglySorted N.le (proj k (outs_of tr)).
Proof. exact traj_keyed_snapshot_mono. Qed.
Print Assumptions C31_sim_keyed_snapshots_monotone.

(* all hooks of one slice are taken at the same point: in every tick of a slice run the real
   run_hooks procedure gives every hook exactly one decide-and-release step, and a hook's
   column of the run is its own trajectory *)
Theorem C31_sim_hooks_same_tick : forall sc hs outss hsf,
  run_sim_slices hs sc = Ok (outss, hsf) ->
  forallb idle hs = true -> forallb slice_kind hs = true ->
  TrajL hs (combine (map fst sc) outss) hsf.
Proof. exact run_sim_slices_traj. Qed.
Print Assumptions C31_sim_hooks_same_tick.

Theorem C31_sim_slice_columns : forall trl h hs hsf,
  TrajL (h :: hs) trl hsf -> Forall (fun ao => fst ao <> []) trl ->
  exists h' hs', hsf = h' :: hs' /\
    Traj h (map (fun ao => (hd [] (fst ao), fst (hd ([], false) (snd ao)))) trl) h' /\
    TrajL hs (map (fun ao => (tl (fst ao), tl (snd ao))) trl) hs'.
Proof. exact TrajL_head_tail. Qed.
Print Assumptions C31_sim_slice_columns.

(* non-vacuity: a script with a forced release, a skipped snapshot state and a re-release *)
Example C31_stream_example :
  run_stream nat [] [([1; 2; 3], false, 2); ([4], true, 0); ([], false, 9)]
  = ([[1; 2]; [3]; [4]], []).
Proof. reflexivity. Qed.
Example C31_snapshot_example :
  run_snap (mkSnap [] None) [([0; 1; 2], false, SNew 1); ([], false, SReRelease); ([3], false, SNew 5)]
  = Some [1; 1; 3] /\ StronglySorted lt (snap_arrivals [([0; 1; 2], false, SNew 1); ([], false, SReRelease); ([3], false, SNew 5)]).
Proof. split; [reflexivity|]. vm_compute. repeat constructor. Qed.
