(* C31 Slices partition streams and take monotone snapshots.

   FULL STATEMENT (properties.jsonl): for every execution, the batches a slice observes
   partition the input stream (each element in exactly one batch, in order), the snapshots it
   observes never go back to an older state, all hooks of one slice are taken at the same
   point, and slice-local state hooks carry their value to the next slice.
   On the model (HydroB/ModelSlice.v: the batch hook = sim/runtime.rs StreamHook<_,TotalOrder>
   with production as the "release everything" script, the snapshot hook = SingletonHook, the
   state hook = Tick::cycle_with_initial, a slice = the synchronous product of its hooks) the
   four clauses are the four theorems below, each for ALL scripts of arrivals and decisions.
   `_partial`: the hooks are modelled one kind at a time (TotalOrder batch hook and singleton
   snapshot hook; not the NoOrder / keyed variants, which engine Sim covers), and "same point"
   is the statement that a slice record is the synchronous product of one release per hook --
   it does not say the simulator's scheduler runs the hooks of one tick together (engine Sim,
   C36). *)
From Coq Require Import List NArith Bool Arith Sorted.
From HV Require Import HydroB.ModelSlice HydroB.PSlice.
Import ListNotations.
Open Scope nat_scope.

(* batches of successive slices ++ what is still queued = the input, as lists (so: every
   element in exactly one batch or still queued, order kept); any arrivals, any decisions *)
Theorem C31_batches_partition_partial : forall (A : Type) script (q bs qf : list A) bss,
  run_stream A q script = (bss, qf) ->
  concat bss ++ qf = q ++ concat (arrivals_of A script).
Proof. intros A script q bs qf bss. exact (run_stream_partition A script q bss qf). Qed.
Print Assumptions C31_batches_partition_partial.

(* production code generation (batch = identity): slice t sees exactly tick t's arrivals *)
Theorem C31_production_batches : forall (A : Type) (arrivals : list (list A)),
  run_stream A [] (prod_script A arrivals) = (arrivals, []).
Proof. exact run_stream_prod. Qed.
Print Assumptions C31_production_batches.

(* released snapshot versions never decrease *)
Theorem C31_snapshots_monotone_partial : forall script vs,
  StronglySorted lt (snap_arrivals script) ->
  run_snap (mkSnap [] None) script = Some vs -> sorted_le vs = true.
Proof. exact snapshots_monotone. Qed.
Print Assumptions C31_snapshots_monotone_partial.

(* all hooks of one slice: one release per hook per slice, the first hook's column is that
   hook's own run, the remaining columns are the slice run of the remaining hooks *)
Theorem C31_hooks_same_slice_partial : forall (A : Type) script (q : list A) qs,
  Forall (fun tick => tick <> []) script ->
  map (fun rec => hd [] rec) (run_slices A (q :: qs) script)
    = fst (run_stream A q (map (fun tick => hd (dflt A) tick) script)) /\
  map (fun rec => tl rec) (run_slices A (q :: qs) script)
    = run_slices A qs (map (fun tick => tl tick) script).
Proof. exact slices_head_tail. Qed.
Print Assumptions C31_hooks_same_slice_partial.

(* a state hook: the first slice reads the initial value, slice i+1 reads what slice i wrote *)
Theorem C31_state_carries : forall (S I O : Type) (body : S -> I -> S * O) ins s,
  (forall r w o, nth_error (run_state S I O body s ins) 0 = Some (r, w, o) -> r = s) /\
  (forall i r w o r' w' o',
      nth_error (run_state S I O body s ins) i = Some (r, w, o) ->
      nth_error (run_state S I O body s ins) (Datatypes.S i) = Some (r', w', o') -> r' = w).
Proof. exact state_carries. Qed.
Print Assumptions C31_state_carries.

(* non-vacuity: a script with a forced release, a skipped snapshot state and a re-release *)
Example C31_stream_example :
  run_stream nat [] [([1; 2; 3], false, 2); ([4], true, 0); ([], false, 9)]
  = ([[1; 2]; [3]; [4]], []).
Proof. reflexivity. Qed.
Example C31_snapshot_example :
  run_snap (mkSnap [] None) [([0; 1; 2], false, SNew 1); ([], false, SReRelease); ([3], false, SNew 5)]
  = Some [1; 1; 3] /\ StronglySorted lt (snap_arrivals [([0; 1; 2], false, SNew 1); ([], false, SReRelease); ([3], false, SNew 5)]).
Proof. split; [reflexivity|]. vm_compute. repeat constructor. Qed.
