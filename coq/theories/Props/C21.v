(* C21 DFIR operators compute their documented per-tick results.
   For every history of per-tick inputs and every tick, the outputs of the operator's state
   machine (prologue state, per-tick step, write_tick_end) equal the documented function of the
   history.  Only the property theorems; proofs are in Dfir/POps.v and Dfir/PNamed.v. *)
From Coq Require Import List NArith.
From HV Require Import Dfir.Model Dfir.POps Dfir.PNamed.
Import ListNotations.

Definition op_correct (o : op) (sp : hspec) : Prop :=
  forall h t, (t < length h)%nat -> nth t (run_op o h) [] = tick_view sp h t.

(* the two generic families: any stateless operator, any accumulate-per-port operator with any
   insert / output functions and any 'tick / 'static choice per port *)
Theorem C21_families :
  (forall g, op_correct (OStateless g) (stateless_spec g)) /\
  (forall a, op_correct (OAcc a) (acc_spec a)).
Proof. split; [exact stateless_correct | exact acc_correct]. Qed.
Print Assumptions C21_families.

(* the named operators against their documented semantics, for all closures and persistences *)
Theorem C21_operators :
  (forall f, op_correct (op_map f) (fun _ cur => [map f (port 0 cur)])) /\
  (forall p, op_correct (op_filter p) (fun _ cur => [filter p (port 0 cur)])) /\
  (forall f, op_correct (op_filter_map f) (fun _ cur => [filter_map_l f (port 0 cur)])) /\
  (forall f, op_correct (op_flat_map f) (fun _ cur => [flat_map f (port 0 cur)])) /\
  op_correct op_identity (fun _ cur => [port 0 cur]) /\
  (forall n, op_correct (op_union n) (fun _ cur => [concat (firstn n cur)])) /\
  (forall n, op_correct (op_tee n) (fun _ cur => repeat (port 0 cur) n)) /\
  op_correct op_unzip (fun _ cur => [map vfst (port 0 cur); map vsnd (port 0 cur)]) /\
  (forall p, op_correct (op_partition p)
     (fun _ cur => [filter p (port 0 cur); filter (fun x => negb (p x)) (port 0 cur)])) /\
  op_correct op_sort (fun _ cur => [isort (port 0 cur)]) /\
  (forall k, op_correct (op_sort_by_key k) (fun _ cur => [isort_by k (port 0 cur)])) /\
  (forall n, op_correct (op_chain_first_n n) (fun _ cur => [firstn n (port 0 cur ++ port 1 cur)])) /\
  (forall p i f, op_correct (op_fold p i f) (fold_spec p i f)) /\
  (forall p f, op_correct (op_reduce p f) (reduce_spec p f)) /\
  (forall p i f, op_correct (op_fold_keyed p i f) (fold_keyed_spec p i f)) /\
  (forall p f, op_correct (op_reduce_keyed p f) (reduce_keyed_spec p f)) /\
  (forall p, op_correct (op_unique p) (unique_spec p)) /\
  (forall p, op_correct (op_enumerate p) (enumerate_spec p)) /\
  op_correct op_persist persist_spec /\
  op_correct op_multiset_delta delta_spec /\
  (forall pl pr, op_correct (op_join pl pr) (join_spec pl pr)) /\
  (forall pl pr, op_correct (op_join_multiset pl pr) (join_multiset_spec pl pr)) /\
  (forall pl pr, op_correct (op_cross_join pl pr) (cross_join_spec pl pr)) /\
  (forall pl pr, op_correct (op_cross_join_multiset pl pr) (cross_join_multiset_spec pl pr)) /\
  (forall pp pn, op_correct (op_anti_join pp pn) (anti_join_spec pp pn)) /\
  (forall pp pn, op_correct (op_difference pp pn) (difference_spec pp pn)) /\
  op_correct (op_zip Tick Tick) zip_tick_spec /\
  op_correct (op_zip Static Static) zip_static_spec /\
  op_correct (op_zip Static Tick) zip_st_spec /\
  op_correct (op_zip Tick Static) zip_ts_spec /\
  op_correct op_zip_longest (fun _ cur => [vzip_longest (port 0 cur) (port 1 cur)]) /\
  op_correct op_demux2 (fun _ cur => [map vsnd (filter (fun v => vnum (vfst v) =? 0) (port 0 cur));
                                      map vsnd (filter (fun v => vnum (vfst v) =? 1) (port 0 cur))]) /\
  (forall p i f, op_correct (op_scan p i f) (scan_spec p i f)) /\
  (forall p, op_correct (op_cross_singleton p) (cross_singleton_spec p)) /\
  (forall p i f, op_correct (op_fold_no_replay p i f) (fold_no_replay_spec p i f)) /\
  (forall p f, op_correct (op_reduce_no_replay p f) (reduce_no_replay_spec p f)).
Proof. exact named_operators_correct. Qed.
Print Assumptions C21_operators.

(* what the specifications mean: sorted permutation, multiset growth, set join, anti-join,
   unique never repeats *)
Theorem C21_meaning :
  (forall l, Sorted_val (isort l) /\ Permutation.Permutation (isort l) l) /\
  (forall cur prev y, vcount y (delta_run prev cur) = (vcount y cur - vcount y prev)%nat) /\
  (forall l r k a b, In (VP k (VP a b)) (join_tables l r) <->
     exists x y, In x l /\ In y r /\ vfst x = k /\ vfst y = k /\ vsnd x = a /\ vsnd y = b) /\
  (forall neg pos kv, In kv (anti_filter neg pos) <-> In kv pos /\ ~ In (vfst kv) neg) /\
  (forall pre cur x, In x (port 0 (unique_spec Static pre cur)) -> ~ In x (items pre 0)) /\
  (forall p pre cur, NoDup (port 0 (unique_spec p pre cur))).
Proof. exact named_meaning. Qed.
Print Assumptions C21_meaning.

(* non-vacuity: a join<'static,'tick> over three ticks *)
Example C21_example :
  let h := [[[VP (VN 1) (VN 10)]; [VP (VN 1) (VN 7)]];
            [[VP (VN 2) (VN 20)]; [VP (VN 1) (VN 8); VP (VN 2) (VN 9)]];
            [[]; [VP (VN 1) (VN 7)]]] in
  map (fun o => port 0 o) (run_op (op_join Static Tick) h) =
  [[VP (VN 1) (VP (VN 10) (VN 7))];
   [VP (VN 1) (VP (VN 10) (VN 8)); VP (VN 2) (VP (VN 20) (VN 9))];
   [VP (VN 1) (VP (VN 10) (VN 7))]].
Proof. vm_compute. reflexivity. Qed.
