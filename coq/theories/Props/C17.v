(* C17 Graph ordering and subgraph-merging algorithms are correct.
   This file contains only the property theorems; each is closed by an exact/apply of a
   lemma proved under GraphAlg/ and followed by Print Assumptions. *)
From Coq Require Import List NArith.
From HV Require Import GraphAlg.Model GraphAlg.PUf.
Import ListNotations.

(* UnionFind::find terminates on EVERY parent map (reachable or not): the fuel of [uf_find] suffices *)
Theorem C17_uf_find_terminates : forall m k, uf_find_fuel (S (length m)) m k <> None.
Proof. exact uf_find_fuel_ok. Qed.
Print Assumptions C17_uf_find_terminates.
