(* C17 Graph ordering and subgraph-merging algorithms are correct.
   This file contains only the property theorems; each is closed by an exact/apply of a
   lemma proved under GraphAlg/ and followed by Print Assumptions (+ non-vacuity Examples). *)
From Coq Require Import List NArith Permutation.
From HV Require Import GraphAlg.Model GraphAlg.PUf GraphAlg.PTopo GraphAlg.PSm GraphAlg.PSmCyc GraphAlg.PSmMerge GraphAlg.PSmRefine GraphAlg.Check GraphAlg.PCheck.
Import ListNotations.
Open Scope N_scope.

(* ---------------------------------------------------------------- topo_sort *)

(* Ok order: every node listed, no duplicates, every predecessor strictly before its successor,
   nothing outside any predecessor-closed set containing the nodes *)
Theorem C17_topo_sort_ok : forall preds fuel nodes o,
  topo_sort_fuel preds fuel nodes = TOk o ->
  NoDup o /\ incl nodes o /\ tsorted preds o /\
  (forall s p, In s o -> In p (preds s) -> before p s o) /\
  (forall U : N -> Prop, (forall x p, U x -> In p (preds x) -> U p) ->
                         (forall x, In x nodes -> U x) -> forall x, In x o -> U x).
Proof. exact topo_sort_ok. Qed.
Print Assumptions C17_topo_sort_ok.

(* on a closed duplicate-free graph the order is a permutation of the nodes *)
Theorem C17_topo_sort_ok_perm : forall preds fuel nodes o,
  NoDup nodes -> (forall x p, In x nodes -> In p (preds x) -> In p nodes) ->
  topo_sort_fuel preds fuel nodes = TOk o -> Permutation o nodes.
Proof. exact topo_sort_ok_perm. Qed.
Print Assumptions C17_topo_sort_ok_perm.

(* Err: a non-empty duplicate-free genuine cycle, reachable from the nodes *)
Theorem C17_topo_sort_cycle : forall preds fuel nodes c,
  topo_sort_fuel preds fuel nodes = TErr c ->
  is_cycle preds c /\ forall x, In x c -> reach preds nodes x.
Proof. exact topo_sort_err_reachable. Qed.
Print Assumptions C17_topo_sort_cycle.

(* fuel bound: OutOfFuel is impossible when the fuel exceeds the length of any
   predecessor-closed list containing the nodes; in particular [topo_sort] on closed graphs
   and [topo_sort_adj] on every association-list graph *)
Theorem C17_topo_sort_fuel : forall preds fuel nodes (L : list N),
  (forall x p, In x L -> In p (preds x) -> In p L) -> incl nodes L -> (length L < fuel)%nat ->
  topo_sort_fuel preds fuel nodes <> TFuel.
Proof. exact topo_sort_fuel_ok. Qed.
Print Assumptions C17_topo_sort_fuel.

Theorem C17_topo_sort_adj_total : forall nodes adj, topo_sort_adj nodes adj <> TFuel.
Proof. exact topo_sort_adj_no_fuel. Qed.
Print Assumptions C17_topo_sort_adj_total.

(* Ok exactly when no cycle is reachable from the nodes *)
Theorem C17_topo_sort_ok_iff_acyclic : forall preds fuel nodes (L : list N),
  (forall x p, In x L -> In p (preds x) -> In p L) -> incl nodes L -> (length L < fuel)%nat ->
  ((exists o, topo_sort_fuel preds fuel nodes = TOk o) <->
   ~ exists c, is_cycle preds c /\ forall x, In x c -> reach preds nodes x).
Proof. exact topo_sort_ok_iff_acyclic. Qed.
Print Assumptions C17_topo_sort_ok_iff_acyclic.

Example C17_topo_ok_nonvacuous :
  topo_sort_adj [3; 2; 1; 0] [(3, [1; 2]); (1, [0]); (2, [0])] = TOk [0; 1; 2; 3].
Proof. vm_compute. reflexivity. Qed.
Example C17_topo_cycle_nonvacuous :
  topo_sort_adj [0; 1; 2; 3] [(1, [0; 3]); (2, [1]); (3, [2])] = TErr [2; 3; 1].
Proof. vm_compute. reflexivity. Qed.

(* ---------------------------------------------------------------- union-find *)

(* find terminates on EVERY parent map (reachable or not): the fuel of [uf_find] suffices *)
Theorem C17_uf_find_terminates : forall m k, uf_find_fuel (S (length m)) m k <> None.
Proof. exact uf_find_fuel_ok. Qed.
Print Assumptions C17_uf_find_terminates.

(* every state reachable by a history of union / find / same_set calls satisfies the invariant *)
Theorem C17_uf_reachable_inv : forall ops, exists f, UFInv (uf_exec [] ops) f.
Proof. exact uf_reachable_inv. Qed.
Print Assumptions C17_uf_reachable_inv.

(* same_set = equivalence closure of the unions performed, after any history *)
Theorem C17_uf_same_set_spec : forall ops a b,
  snd (uf_same (uf_exec [] ops) a b) = true <-> eqcl (fun x y => In (x, y) (unions_of ops)) a b.
Proof. exact uf_same_set_spec. Qed.
Print Assumptions C17_uf_same_set_spec.

(* find returns the representative and does not change the partition (path compression is invisible) *)
Theorem C17_uf_find_correct : forall m f k,
  UFInv m f -> UFInv (fst (uf_find m k)) f /\ snd (uf_find m k) = f k.
Proof. exact uf_find_correct. Qed.
Print Assumptions C17_uf_find_correct.

(* the first argument's root survives union and represents both arguments afterwards *)
Theorem C17_uf_union_keeps_first_root : forall m f a b,
  UFInv m f ->
  let '(m', i) := uf_union m a b in i = uf_root m a /\ uf_root m' a = i /\ uf_root m' b = i.
Proof. exact uf_union_keeps_first_root. Qed.
Print Assumptions C17_uf_union_keeps_first_root.

Example C17_uf_nonvacuous :
  let m := uf_exec [] [UUnion 0 1; UUnion 2 0; UFind 1; UUnion 4 5] in
  snd (uf_same m 1 2) = true /\ snd (uf_same m 1 4) = false /\ uf_root m 1 = 2.
Proof. vm_compute. repeat split. Qed.

(* ---------------------------------------------------------------- SubgraphMerge *)

(* SMInv (GraphAlg/PSm.v): the union-find's representative function f stays inside the keys; the
   global order is a permutation of the keys and a topological order of the node-level
   predecessors; every group occupies the contiguous range idx..idx+len with its representative
   first; subgraph_preds holds exactly the quotient predecessors; the quotient graph is acyclic;
   enemies is symmetric, over representatives and reflects the declared pairs; no group contains
   an enemy pair.  It holds after new (on closed graphs): *)
Theorem C17_sm_new_inv : forall keys np en s,
  (forall x p, In x keys -> In p (np x) -> In p keys) ->
  sm_new keys np en = NewOk s ->
  SMInv (sort_dedup keys) np en s (fun x => x).
Proof. exact sm_new_inv. Qed.
Print Assumptions C17_sm_new_inv.

Theorem C17_sm_new_cycle : forall keys np en c,
  (forall x p, In x keys -> In p (np x) -> In p keys) ->
  sm_new keys np en = NewCycle c -> is_cycle np c /\ incl c (sort_dedup keys).
Proof. exact sm_new_cycle. Qed.
Print Assumptions C17_sm_new_cycle.

Theorem C17_sm_new_total : forall keys np en,
  (forall x p, In x keys -> In p (np x) -> In p keys) ->
  (forall a b, In (a, b) en -> a <> b) ->
  sm_new keys np en <> NewFuel /\ sm_new keys np en <> NewPanic.
Proof. exact sm_new_total. Qed.
Print Assumptions C17_sm_new_total.

(* group-order lemma: a quotient edge a -> b puts the whole index range of group a before that of b *)
Theorem C17_sm_group_order : forall ks np en s f a b,
  SMInv ks np en s f -> qedge f np ks a b ->
  exists ia la ib lb,
    alookup a (sm_idx s) = Some ia /\ alookup a (sm_len s) = Some la /\
    alookup b (sm_idx s) = Some ib /\ alookup b (sm_len s) = Some lb /\
    (1 <= la)%nat /\ (1 <= lb)%nat /\ (ia + la <= ib)%nat.
Proof. intros ks np en s f a b I. exact (qedge_ranges ks np en s f I a b). Qed.
Print Assumptions C17_sm_group_order.

(* EXACTNESS of try_merge's refusals (both directions; the <- direction contains the completeness
   of the window-pruned DFS: no path from v to u leaves the window, and the worklist closure
   finds every one), with no panic and no out-of-fuel on the refusing paths *)
Theorem C17_sm_try_merge_exact : forall ks np en s f u v,
  SMInv ks np en s f -> In u ks -> In v ks ->
  ((exists s', sm_try_merge s u v = ROk (s', false)) <->
   f u <> f v /\ (enemy_conflict f en u v \/ would_cycle f np ks (f u) (f v))).
Proof. intros ks np en s f u v I. exact (sm_try_merge_exact ks np en s f I u v). Qed.
Print Assumptions C17_sm_try_merge_exact.

(* a refused cycle leaves the abstract state and the invariant unchanged *)
Theorem C17_sm_try_merge_cycle_refused : forall ks np en s f u0 v0,
  SMInv ks np en s f -> In u0 ks -> In v0 ks -> f u0 <> f v0 -> would_cycle f np ks (f u0) (f v0) ->
  exists s', sm_try_merge s u0 v0 = ROk (s', false) /\ SMInv ks np en s' f.
Proof. intros ks np en s f u0 v0 I. exact (sm_try_merge_cycle_refused ks np en s f I u0 v0). Qed.
Print Assumptions C17_sm_try_merge_cycle_refused.

(* a TRUE answer is safe (decision correctness of successful merges): either the two nodes were in
   one group already, or there was no enemy conflict and no cycle through the merged group, and
   the merged partition [relabel f (f u) (f v)] again has an acyclic quotient graph and no enemy
   pair inside a group *)
Theorem C17_sm_try_merge_true_safe : forall ks np en s f u0 v0 s',
  SMInv ks np en s f -> In u0 ks -> In v0 ks ->
  sm_try_merge s u0 v0 = ROk (s', true) ->
  f u0 = f v0 \/
  (~ enemy_conflict f en u0 v0 /\ ~ would_cycle f np ks (f u0) (f v0) /\
   qacyclic (relabel f (f u0) (f v0)) np ks /\
   forall x y, In (x, y) en -> relabel f (f u0) (f v0) x <> relabel f (f u0) (f v0) y).
Proof. exact sm_try_merge_true_safe. Qed.
Print Assumptions C17_sm_try_merge_true_safe.

(* PRESERVATION (full): every merge attempt on keys returns ROk -- never a panic (index, unwrap,
   expect, debug assertion, copy_from_slice length) and never out of fuel -- and the new state
   satisfies SMInv for some representative function.  The successful-merge case is the refinement
   theorem GraphAlg/PSmRefine.v: the window quotient is acyclic so the re-sort cannot fail, the
   rebuilt window is a permutation of the old one preserving the order inside every group, the new
   global order is again topological, reindex lays the groups out at their prefix sums, and the
   predecessor / length / enemy maps represent the merged partition [relabel f u v]. *)
Theorem C17_sm_try_merge_preserves : forall ks np en s f u v,
  SMInv ks np en s f -> In u ks -> In v ks ->
  exists s' b f', sm_try_merge s u v = ROk (s', b) /\ SMInv ks np en s' f'.
Proof. exact sm_try_merge_preserves. Qed.
Print Assumptions C17_sm_try_merge_preserves.

(* the successful-merge refinement itself *)
Theorem C17_sm_merge_phase_refines : merge_phase_refines.
Proof. exact merge_phase_refines_proved. Qed.
Print Assumptions C17_sm_merge_phase_refines.

(* soundness of refusals (one direction of C17_sm_try_merge_exact, with the state):
   a false answer implies distinct groups and an enemy conflict or a cycle through the merged
   group, and leaves the abstract state unchanged.
   *)
Theorem C17_sm_try_merge_false_sound : forall ks np en s f u0 v0 s',
  SMInv ks np en s f ->
  sm_try_merge s u0 v0 = ROk (s', false) ->
  f u0 <> f v0 /\
  (enemy_conflict f en u0 v0 \/ would_cycle f np ks (f u0) (f v0)) /\
  SMInv ks np en s' f.
Proof. exact sm_try_merge_false_sound. Qed.
Print Assumptions C17_sm_try_merge_false_sound.

(* completeness for the enemy clause: a declared conflict is always refused *)
Theorem C17_sm_try_merge_enemy_refused : forall ks np en s f u0 v0,
  SMInv ks np en s f -> enemy_conflict f en u0 v0 ->
  exists s', sm_try_merge s u0 v0 = ROk (s', false) /\ SMInv ks np en s' f.
Proof. exact sm_try_merge_enemy_refused. Qed.
Print Assumptions C17_sm_try_merge_enemy_refused.

Theorem C17_sm_try_merge_same_group : forall ks np en s f u0 v0,
  SMInv ks np en s f -> f u0 = f v0 ->
  exists s', sm_try_merge s u0 v0 = ROk (s', true) /\ SMInv ks np en s' f.
Proof. exact sm_try_merge_same_group. Qed.
Print Assumptions C17_sm_try_merge_same_group.

(* non-vacuity: the invariant's hypotheses are met by the diamond of the Rust unit test, and
   the refusal theorem's hypothesis by its "D outside" step *)
Example C17_sm_nonvacuous :
  exists s s1 s2,
    sm_new [0; 1; 2; 3; 4; 5] (preds_of [(1, [0]); (2, [1]); (3, [1]); (4, [2; 3]); (5, [4])]) [(0, 5)] = NewOk s /\
    sm_try_merge s 1 2 = ROk (s1, true) /\
    sm_try_merge s1 2 4 = ROk (s2, false) /\
    sm_subgraphs s2 = ROk [[0]; [1; 2]; [3]; [4]; [5]].
Proof. vm_compute. do 3 eexists. repeat split. Qed.

(* ---------------------------------------------------------------- executable forms used by the check *)

(* the cycle test evaluated on the implementation's Err output is exactly [is_cycle] *)
Theorem C17_is_cycle_b_spec : forall preds c, is_cycle_b preds c = true <-> is_cycle preds c.
Proof. exact is_cycle_b_spec. Qed.
Print Assumptions C17_is_cycle_b_spec.

(* the order test evaluated on the implementation's Ok output implies the order clause *)
Theorem C17_topo_order_b_sound : forall preds o,
  topo_order_b preds o = true ->
  NoDup o /\ forall s p, In s o -> In p (preds s) -> before p s o.
Proof. exact topo_order_b_sound. Qed.
Print Assumptions C17_topo_order_b_sound.

(* on every history the model's outputs satisfy the union-find property form *)
Theorem C17_uf_model_satisfies_property : forall ops, C17_uf_holds_b ops (uf_run [] ops) = true.
Proof. exact uf_model_satisfies_property. Qed.
Print Assumptions C17_uf_model_satisfies_property.
