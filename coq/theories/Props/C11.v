(* C11 Pull combinators match iterator semantics under any pending schedule.
   This file contains only the property theorems; each is closed by an exact/apply of a
   lemma proved in Pull/P*.v and followed by Print Assumptions.

   [C11_spec m pre fin ref] (Pull/PSpec.v) says, for EVERY state s of the combinator's state
   machine m -- i.e. every upstream script of Rdy/Pend/End answers of any length, with Pend in
   any position, and every value of the combinator's own fields (buffered item, current inner
   iterator, counters) -- satisfying the trait-bound precondition [pre]:
     1. polling until the first Ended terminates and yields exactly [ref s], in order
        ([ref] = the std iterator adaptor on the items the upstreams still hold);
     2. after any number of polls the items emitted so far are a prefix of [ref s]
        (nothing invented or emitted twice, wherever a Pending interrupts);
     3. if the combinator's `impl FusedPull` condition [fin] holds, Ended is sticky;
     4. size_hint brackets the number of items still to come (upstream hints truthful).
   Upstream scripts may contain End in the middle (a source that resumes after reporting
   the end), so clause 3 is a theorem about the combinator, not an assumption. *)
From HV Require Import Pull.Model Pull.PCore Pull.POne Pull.PTwo Pull.PSpec Pull.PCompose Pull.Corr Pull.PSound Pull.PHolds Pull.ModelX Pull.PX Pull.CorrX Pull.PX2 Pull.CorrP Pull.PPipe Pull.PHoldsX.
Open Scope N_scope.

Theorem C11_map : forall (A B : Type) (uh : script A -> hintT), truthful uh -> forall f : A -> B,
  C11_spec (map_m uh f) always (fun l => fused_b l = true) (fun l => map f (items l)).
Proof. exact map_spec. Qed.
Print Assumptions C11_map.

Theorem C11_inspect : forall (A : Type) (uh : script A -> hintT), truthful uh ->
  C11_spec (inspect_m uh) always (fun l => fused_b l = true) (fun l => items l).
Proof. exact inspect_spec. Qed.
Print Assumptions C11_inspect.

Theorem C11_filter : forall (A : Type) (uh : script A -> hintT), truthful uh -> forall p : A -> bool,
  C11_spec (filter_m uh p) always (fun l => fused_b l = true) (fun l => filter p (items l)).
Proof. exact filter_spec. Qed.
Print Assumptions C11_filter.

Theorem C11_filter_map : forall (A B : Type) (uh : script A -> hintT), truthful uh ->
  forall f : A -> option B,
  C11_spec (filter_map_m uh f) always (fun l => fused_b l = true)
           (fun l => filter_map_ref f (items l)).
Proof. exact filter_map_spec. Qed.
Print Assumptions C11_filter_map.

(* state = (current inner iterator, upstream script) *)
Theorem C11_flat_map : forall (A B : Type) (g : A -> list B),
  C11_spec (flat_map_m g) always (fun st => fused_b (snd st) = true)
           (fun st => match fst st with Some it => it | None => [] end
                      ++ flat_map g (items (snd st))).
Proof. exact flat_map_spec. Qed.
Print Assumptions C11_flat_map.

Theorem C11_flatten : forall A : Type,
  C11_spec (@flatten_m A) always (fun st => fused_b (snd st) = true)
           (fun st => match fst st with Some it => it | None => [] end
                      ++ concat (items (snd st))).
Proof. exact flatten_spec. Qed.
Print Assumptions C11_flatten.

(* TakeWhile has no FusedPull impl: no stickiness is promised *)
Theorem C11_take_while : forall (A : Type) (uh : script A -> hintT), truthful uh ->
  forall p : A -> bool,
  C11_spec (take_while_m uh p) always never (fun l => take_while_ref p (items l)).
Proof. exact take_while_spec. Qed.
Print Assumptions C11_take_while.

(* state = (skipping, upstream script); the combinator starts with skipping = true *)
Theorem C11_skip_while : forall (A : Type) (uh : script A -> hintT), truthful uh ->
  forall p : A -> bool,
  C11_spec (skip_while_m uh p) always (fun st => fused_b (snd st) = true)
           (fun st => if fst st then skip_while_ref p (items (snd st)) else items (snd st)).
Proof. exact skip_while_spec. Qed.
Print Assumptions C11_skip_while.

(* state = (remaining, upstream script); Take is fused over ANY upstream *)
Theorem C11_take : forall (A : Type) (uh : script A -> hintT), truthful uh ->
  C11_spec (take_m uh) always always
           (fun st => firstn (N.to_nat (fst st)) (items (snd st))).
Proof. exact take_spec. Qed.
Print Assumptions C11_take.

Theorem C11_skip : forall (A : Type) (uh : script A -> hintT), truthful uh ->
  C11_spec (skip_m uh) always (fun st => fused_b (snd st) = true)
           (fun st => skipn (N.to_nat (fst st)) (items (snd st))).
Proof. exact skip_spec. Qed.
Print Assumptions C11_skip.

(* state = (index, upstream script) *)
Theorem C11_enumerate : forall (A : Type) (uh : script A -> hintT), truthful uh ->
  C11_spec (enumerate_m uh) always (fun st => fused_b (snd st) = true)
           (fun st => enumerate_from (fst st) (items (snd st))).
Proof. exact enumerate_spec. Qed.
Print Assumptions C11_enumerate.

(* state = Some upstream | None once the upstream reported the end; fused over ANY upstream *)
Theorem C11_fuse : forall (A : Type) (uh : script A -> hintT), truthful uh ->
  C11_spec (fuse_m uh) always always
           (fun st => match st with Some l => items l | None => [] end).
Proof. exact fuse_spec. Qed.
Print Assumptions C11_fuse.

(* Chain<A, B> requires A : FusedPull; it is fused if B is *)
Theorem C11_chain : forall (A : Type) (uh : script A -> hintT), truthful uh ->
  forall uh' : script A -> hintT, truthful uh' ->
  C11_spec (chain_m uh uh') (fun st => fused_b (fst st) = true)
           (fun st => fused_b (snd st) = true)
           (fun st => items (fst st) ++ items (snd st)).
Proof. exact chain_spec. Qed.
Print Assumptions C11_chain.

(* state = (buffer, left script, right script): a buffered item counts for its side *)
Theorem C11_zip : forall (A B : Type) (uh : script A -> hintT), truthful uh ->
  forall uh2 : script B -> hintT, truthful uh2 ->
  C11_spec (zip_m uh uh2) always never
           (fun st => let '(buf, l1, l2) := st in
                      combine (bufl buf ++ items l1) (bufr buf ++ items l2)).
Proof. exact zip_spec. Qed.
Print Assumptions C11_zip.

(* ZipLongest requires both inputs FusedPull and is then fused *)
Theorem C11_zip_longest : forall (A B : Type) (uh : script A -> hintT), truthful uh ->
  forall uh2 : script B -> hintT, truthful uh2 ->
  C11_spec (zipl_m uh uh2)
           (fun st => let '(_, l1, l2) := st in fused_b l1 = true /\ fused_b l2 = true)
           always
           (fun st => let '(buf, l1, l2) := st in
                      zip_longest_ref (bufl buf ++ items l1) (bufr buf ++ items l2)).
Proof. exact zip_longest_spec. Qed.
Print Assumptions C11_zip_longest.

(* state = (cached singleton, item script, singleton script) *)
Theorem C11_cross_singleton : forall (A B : Type) (uh : script A -> hintT), truthful uh ->
  C11_spec (cross_m B uh) always
           (fun st => fused_b (snd (fst st)) = true /\ fused_b (snd st) = true)
           (fun st => let '(sing, li, ls) := st in
                      match sing with
                      | Some s => map (fun a => (a, s)) (items li)
                      | None => cross_ref (items li) (items ls)
                      end).
Proof. exact cross_spec. Qed.
Print Assumptions C11_cross_singleton.

(* the run relation is functional, and the executable runner used by the check decides it *)
Theorem C11_run_deterministic : forall (B : Type) (m : machine B) s o1 s1 o2 s2,
  runs_to m s o1 s1 -> runs_to m s o2 s2 -> o1 = o2 /\ s1 = s2.
Proof. intros B m s o1 s1 o2 s2 R1 R2. exact (runs_to_fun R1 R2). Qed.
Print Assumptions C11_run_deterministic.

Theorem C11_run_fuel_iff : forall (B : Type) (m : machine B) s out s',
  runs_to m s out s' <-> exists n, run_fuel m n s = Some (out, s').
Proof.
  intros B m s out s'. split.
  - intros R. destruct (run_fuel_complete R) as [n H]. exists n. apply H. apply le_n.
  - intros [n H]. exact (run_fuel_sound m n s H).
Qed.
Print Assumptions C11_run_fuel_iff.

(* the scripted source of the harness reports truthful hints, whatever its slack *)
Theorem C11_source_truthful : forall (A : Type) lo hi, truthful (@slack_hint A lo hi).
Proof. intros A lo hi. exact (slack_truthful lo hi). Qed.
Print Assumptions C11_source_truthful.

(* ---- composition: a combinator over a combinator ---- *)
(* What an outer combinator sees of an inner one is the inner machine's answers, poll for poll
   ([beh inner n s], n = any horizon at least the length of the inner run).  The spec of the
   outer combinator then gives items = ref_outer (ref_inner ..) and the prefix property for the
   pipeline; [embed] builds the outer state from its upstream script. *)
Theorem C11_compose : forall (A B : Type) (inner : machine A) (outer : machine B)
    (pre fin : St outer -> Prop) (ref : St outer -> list B)
    (embed : script A -> St outer) (refo : list A -> list B),
  C11_spec outer pre fin ref ->
  (forall l, ref (embed l) = refo (items l)) ->
  forall s out s', runs_to inner s out s' ->
  exists n0, forall n, (n0 <= n)%nat -> pre (embed (beh inner n s)) ->
    (exists s'', runs_to outer (embed (beh inner n s)) (refo out) s'') /\
    (forall k, exists rest, refo out = emitted (polls outer k (embed (beh inner n s))) ++ rest).
Proof. exact @C11_compose. Qed.
Print Assumptions C11_compose.

(* a scripted source over the behaviour script replays the inner machine exactly *)
Theorem C11_beh_replays : forall (B : Type) (m : machine B) uh k n s, (k <= n)%nat ->
  map snd (polls (src_m uh) k (beh m n s)) = map snd (polls m k s).
Proof. exact @beh_replays. Qed.
Print Assumptions C11_beh_replays.

(* fusedness composes: an inner machine that stays ended is a fused upstream *)
Theorem C11_compose_fused : forall (B : Type) (m : machine B) s out s',
  runs_to m s out s' -> ended_forever m s' -> forall n, fused_b (beh m n s) = true.
Proof. exact @beh_fused. Qed.
Print Assumptions C11_compose_fused.

(* ---- the executable form used by the check is sound for the statements above ---- *)
Theorem C11_checker_sound : forall c t, C11_holds_b c t = true -> pre_case c = true ->
  tr_items t = Some (ref_case c) /\
  (promises_fused c = true ->
     Forall (fun x => snd x = Ended /\ fst (fst x) = 0) (tr_after_end t)) /\
  hints_bracket t.
Proof. exact C11_holds_b_sound. Qed.
Print Assumptions C11_checker_sound.

(* conversely, every trace of the model that reaches the end passes the executable form:
   the check's property bit can only fire on an implementation trace that differs from the
   model's (all sixteen combinators, every script, every number of polls) *)
Theorem C11_checker_complete : forall c n, pre_case c = true ->
  tr_items (run_case c n) <> None -> C11_holds_b c (run_case c n) = true.
Proof. exact C11_model_holds. Qed.
Print Assumptions C11_checker_complete.

(* ---- size hints through composition ---- *)
(* [outer uh] is a combinator as a function of its upstream's size_hint; its spec is assumed for
   every truthful hint (all sixteen theorems above have this form).  Over the behaviour script
   of an inner machine meeting its own spec, reading the inner machine's REAL size_hint
   ([guard] is transparent there), the pipeline yields refo (refi s) and its size_hint brackets
   that many items.  PCompose.beh_suffix / uh_of_rebase show that every later state of the
   pipeline is again of this form. *)
Theorem C11_compose_hints : forall (A B : Type) (inner : machine A)
    (prei fini : St inner -> Prop) (refi : St inner -> list A),
  C11_spec inner prei fini refi ->
  forall (outer : (script A -> hintT) -> machine B)
    (embed : forall uh, script A -> St (outer uh))
    (pre fin : forall uh, St (outer uh) -> Prop) (ref : forall uh, St (outer uh) -> list B)
    (refo : list A -> list B),
  (forall uh, truthful uh -> C11_spec (outer uh) (pre uh) (fin uh) (ref uh)) ->
  (forall uh l, ref uh (embed uh l) = refo (items l)) ->
  forall s, prei s ->
  exists n0, forall H, (n0 <= H)%nat ->
    let uh := guard (uh_of inner s H) in
    let st := embed uh (beh inner H s) in
    pre uh st ->
    uh (beh inner H s) = hint inner s /\
    (exists st', runs_to (outer uh) st (refo (refi s)) st') /\
    hint_ok (hint (outer uh) st) (len (refo (refi s))).
Proof. exact @C11_compose_hints. Qed.
Print Assumptions C11_compose_hints.

(* ---- the rest of dfir_pipes::pull (Pull/ModelX.v) ---- *)
(* stream, stream_compat, either relay the wrapped source / stream one to one *)
Theorem C11_relay : forall (A : Type) (uh : script A -> hintT), truthful uh ->
  C11_spec (src_m uh) always (fun l => fused_b l = true) (fun l => items l).
Proof. exact @src_spec. Qed.
Print Assumptions C11_relay.

(* flat_map_stream (flatten_stream with g = fun s => s): the inner stream g a is itself a
   script; state = (current inner stream, upstream script) *)
Theorem C11_flat_map_stream : forall (A B : Type) (g : A -> script B) (ih : script B -> hintT),
  truthful ih ->
  C11_spec (fms_m g ih) always (fun st => fused_b (snd st) = true)
           (fun st => (match fst st with Some s => items s | None => [] end)
                      ++ flat_map (fun a => items (g a)) (items (snd st))).
Proof. exact @fms_spec. Qed.
Print Assumptions C11_flat_map_stream.

(* filter_map_async: f a = (polls the future stays pending, its output); no item is lost or
   duplicated across those Pendings; size_hint counts the item of the in-flight future
   (repaired in /repo b3ec35f8b2d; before, the upper bound was one too small) *)
Theorem C11_filter_map_async : forall (A B : Type) (uh : script A -> hintT)
    (f : A -> nat * option B), truthful uh ->
  C11_spec (fma_m uh f) always (fun st => fused_b (snd st) = true)
           (fun st => (match fst st with Some (_, Some b) => [b] | _ => [] end)
                      ++ filter_map_ref (fun a => snd (f a)) (items (snd st))).
Proof. exact @fma_spec. Qed.
Print Assumptions C11_filter_map_async.

(* stream_ready: a Pending stream is reported as the end: items = those before the first
   Pending / end; size_hint = (0, stream upper) (repaired in /repo 037f9db078c; before, the
   stream's lower bound was forwarded).  No FusedPull impl. *)
Theorem C11_stream_ready : forall (A : Type) (uh : script A -> hintT), truthful uh ->
  C11_spec (sready_m uh) always never (fun l => items_now l).
Proof. exact @sready_spec. Qed.
Print Assumptions C11_stream_ready.

(* collect, for_each, accumulate_all: polled to completion, the effect has been applied to
   exactly the items before the first end, in order; one Pending per scripted Pending; the pull
   is never polled after its end (what is left of the script is untouched) *)
Theorem C11_consume : forall (A Acc : Type) (step : Acc -> A -> Acc) (l : script A) n acc,
  (length l < n)%nat ->
  drive_run step n acc l = Some (pend_count l, (fold_left step (items l) acc, after_end l)).
Proof. exact @drive_run_spec. Qed.
Print Assumptions C11_consume.

Theorem C11_collect : forall (A : Type) (l : script A),
  drive_run (fun acc x => acc ++ [x]) (S (length l)) [] l = Some (pend_count l, (items l, after_end l)).
Proof. exact @collect_spec. Qed.
Print Assumptions C11_collect.

(* send_push / send_sink: the downstream is sent exactly the items, in order, whatever its
   poll_ready / poll_finalize answers; the pull is not polled after its end *)
Theorem C11_send : forall wh uh n s p s', PX.send_run n wh uh s = Some (p, s') ->
  if pull_ended s
  then PX.sends (p_log (s_push s')) = PX.sends (p_log (s_push s)) /\ s_script s' = s_script s
  else PX.sends (p_log (s_push s')) = PX.sends (p_log (s_push s)) ++ items (s_script s) /\
       s_script s' = after_end (s_script s).
Proof. exact @send_run_spec. Qed.
Print Assumptions C11_send.

(* send_push / send_sink toward the downstream: start_send only directly after a Done
   poll_ready, nothing but finalize once finalize has been called (proto_ok, Pull/CorrX.v) *)
Theorem C11_send_protocol : forall wh uh n l rd fn p s',
  PX.send_run n wh uh (SendS false false l (PushS rd fn [])) = Some (p, s') ->
  proto_ok false false (p_log (s_push s')) = true.
Proof. exact send_protocol. Qed.
Print Assumptions C11_send_protocol.

(* the composed model the check runs for pipelines ([prun], Pull/CorrP.v), depth 2: for every
   sufficient horizon H the trace emits stage_ref g2 (stage_ref g1 items) before its first Ended *)
Theorem C11_pipeline_model : forall g1 g2 (a : srcN), exists H0, forall H, (H0 <= H)%nat ->
  exists n0, forall n, (n0 <= n)%nat ->
    tr_items_until (prun (PCase H [g1] g2 a) n) = pref (PCase H [g1] g2 a).
Proof. exact pipe2_items. Qed.
Print Assumptions C11_pipeline_model.

(* any depth: if every intermediate level reports its end within the horizon (a boolean the
   check evaluates as part of its agreement bit) and the trace reaches the end, the composed
   model emits the composition of the iterator adaptors *)
Theorem C11_pipeline_model_any_depth : forall (c : pcase) n,
  horizon_ok (p_inner c) (p_h c) (s_scr (p_src c), sh (p_src c)) = true ->
  has_end (prun c n) = true ->
  tr_items_until (prun c n) = pref c.
Proof. exact pipe_items. Qed.
Print Assumptions C11_pipeline_model_any_depth.

(* the clause evaluator shared by all check kinds (combinators, adaptors, pipelines) is sound *)
Theorem C11_gen_ok_sound : forall refv f t, gen_ok refv f t = true ->
  tr_items t = Some refv /\
  (f = true -> Forall (fun x => snd x = Ended /\ fst (fst x) = 0) (tr_after_end t)) /\
  hints_bracket t.
Proof. exact gen_ok_sound. Qed.
Print Assumptions C11_gen_ok_sound.

(* and complete on the model's traces of the adaptors with a full specification *)
Theorem C11_adaptors_checker_complete : forall c n,
  match c with XRelay _ | XSource _ | XStreamReady _ | XFlatMapStream _ _ | XFlattenStream _
           | XFilterMapAsync _ _ => True | _ => False end ->
  tr_items (xrun c n) <> None -> gen_ok (xref c) (xfused c) (xrun c n) = true.
Proof. exact xmodel_holds. Qed.
Print Assumptions C11_adaptors_checker_complete.

(* a binary combinator (zip, chain, zip_longest, cross_singleton) over two pipelines, as the
   check runs it ([brun], Pull/CorrP.v): under the checkable side conditions (horizons, fused
   inputs where FusedPull is demanded) the composed model emits the adaptor of the two sides *)
Theorem C11_binary_pipeline_model : forall (c : bcase) n,
  horizon_ok (b_sa c) (b_h c) (s_scr (b_a c), sh (b_a c)) = true ->
  horizon_ok (b_sb c) (b_h c) (s_scr (b_b c), sh (b_b c)) = true ->
  bpre c = true -> has_end (brun c n) = true ->
  tr_items_until (brun c n) = bref c.
Proof. exact bpipe_items. Qed.
Print Assumptions C11_binary_pipeline_model.

(* next: Pending once per leading Pending answer, then the pull's first other answer *)
Theorem C11_next : forall (A : Type) (l : script A),
  exists rest, l = repeat Pend (N.to_nat (fst (next_res l))) ++ rest /\
               fst (src_pull rest) = snd (next_res l) /\
               match rest with Pend :: _ => False | _ => True end.
Proof. exact @next_spec. Qed.
Print Assumptions C11_next.

(* non-vacuity: concrete scripts with Pend between the two sides of a zip, inside a flat_map's
   inner iterator, and a non-fused source under Fuse *)
Example C11_ex_zip :
  run_fuel (zip_m (slack_hint 0 (Some 0)) (slack_hint 1 None)) 20
           (None, [Rdy 1; Pend; Rdy 2; Rdy 3], [Pend; Rdy 10; Rdy 20; End; Rdy 30])
  = Some ([(1, 10); (2, 20)], (None, [], [Rdy 30])).
Proof. vm_compute. reflexivity. Qed.

Example C11_ex_flat_map :
  run_fuel (flat_map_m (fun x : N => [x; x + 1])) 20 (None, [Rdy 1; Pend; Rdy 5; Pend])
  = Some ([1; 2; 5; 6], (None, [])).
Proof. vm_compute. reflexivity. Qed.

Example C11_ex_fuse_nonfused :
  map snd (polls (fuse_m (slack_hint 0 None)) 5 (Some [Rdy 1; End; Rdy 2; Pend]))
  = [Ready 1; Ended; Ended; Ended; Ended]
  /\ map snd (polls (src_m (slack_hint 0 None)) 5 [Rdy 1; End; Rdy 2; Pend])
  = [Ready 1; Ended; Ready 2; Pending; Ended].
Proof. split; vm_compute; reflexivity. Qed.

Example C11_ex_fused_script : fused_b [Rdy 1; Pend; Rdy 2; End; End] = true
                              /\ fused_b [Rdy 1; End; Rdy 2] = false.
Proof. split; reflexivity. Qed.
