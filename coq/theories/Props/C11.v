(* C11 Pull combinators match iterator semantics under any pending schedule.
   This file contains only the property theorems; each is closed by an exact/apply of a
   lemma proved in Pull/P*.v and followed by Print Assumptions. *)
From HV Require Import Pull.Model Pull.PCore Pull.POne.

Theorem C11_map_items : forall (A B : Type) (uh : script A -> hintT) (f : A -> B) (l : script A),
  exists l', runs_to (map_m uh f) l (map f (items l)) l'.
Proof. exact map_runs. Qed.
Print Assumptions C11_map_items.
