(* C36 Simulator decisions are sound.
   This file contains only the property theorems; each is closed by an exact/apply of a lemma
   proved in Sim/PHooks.v, Sim/PTick.v and followed by Print Assumptions.
   Model: Sim/Model.v (transcription of hydro_lang/src/sim/runtime.rs hooks and
   compiled.rs run_hooks).  All statements quantify over ALL queues and ALL decision scripts. *)
From Coq Require Import List Arith Bool NArith Permutation Sorted.
From HV Require Import Sim.Model Sim.PHooks Sim.PTick Sim.Run Sim.PNoPanic Sim.ModelTop Sim.PTop Sim.PTop2.
Import ListNotations.
Close Scope N_scope.

(* TotalOrder batch: the released items are a prefix of the pending queue, the rest stays in
   order, nothing lost or duplicated; a forced decision releases something *)
Theorem C36_total_prefix : forall (A : Type) force (q : list A) ds rel rem rest nt,
  decide_total force q ds = Ok (rel, rem, rest, nt) ->
  q = rel ++ rem /\ nt = negb (is_nil rel) /\ (force = true -> rel <> [])
  /\ exists d, ds = d :: rest /\ rel = firstn d q /\ d <= length q.
Proof. intros A. exact (@total_prefix A). Qed.
Print Assumptions C36_total_prefix.

(* NoOrder batch: released and remaining are complementary sub-sequences of the queue
   (Merge), hence a permutation of it, and the remaining items keep their relative order *)
Theorem C36_noorder_subsequence : forall (A : Type) force (q : list A) ds rel rem rest nt,
  decide_noorder force q ds = Ok (rel, rem, rest, nt) ->
  Merge rel rem q /\ Subseq rel q /\ Subseq rem q /\ Permutation (rel ++ rem) q
  /\ nt = negb (is_nil rel) /\ (force = true -> q <> [] -> rel <> []).
Proof.
  intros A force q ds rel rem rest nt H. apply noorder_merge in H. destruct H as (HM & Hn & Hf).
  repeat split; auto.
  - eapply Merge_sub_l; eauto.
  - eapply Merge_sub_r; eauto.
  - apply Merge_perm; auto.
Qed.
Print Assumptions C36_noorder_subsequence.

(* keyed TotalOrder: per map entry (per key) a prefix; for every iteration order of the map *)
Theorem C36_keyed_total_per_key : forall (A K : Type) force (m : list (K * list A)) ds rel m' rest nt,
  decide_keyed_total force m ds = Ok (rel, m', rest, nt) ->
  KeyedSplit PrefixSplit m rel m' /\ Permutation (rel ++ flatten m') (flatten m)
  /\ nt = negb (is_nil rel) /\ (force = true -> count_nonempty m <> 0 -> rel <> []).
Proof.
  intros A K force m ds rel m' rest nt H. apply keyed_total_per_key in H.
  destruct H as (HS & Hn & Hf). repeat split; auto.
  apply (@KeyedSplit_perm A K PrefixSplit m rel m'); [apply @PrefixSplit_Merge | exact HS].
Qed.
Print Assumptions C36_keyed_total_per_key.

(* keyed NoOrder: per key complementary sub-sequences *)
Theorem C36_keyed_noorder_per_key : forall (A K : Type) force (m : list (K * list A)) ds rel m' rest nt,
  decide_keyed_noorder force m ds = Ok (rel, m', rest, nt) ->
  KeyedSplit Merge m rel m' /\ Permutation (rel ++ flatten m') (flatten m)
  /\ nt = negb (is_nil rel) /\ (force = true -> count_nonempty m <> 0 -> rel <> []).
Proof.
  intros A K force m ds rel m' rest nt H. apply keyed_noorder_per_key in H.
  destruct H as (HS & Hn & Hf). repeat split; auto.
  apply (@KeyedSplit_perm A K Merge m rel m'); [auto | exact HS].
Qed.
Print Assumptions C36_keyed_noorder_per_key.

(* singleton: the snapshot released is the last released one (nothing consumed) or an element
   of the pending queue, with everything older dropped and everything newer kept *)
Theorem C36_single_monotone : forall (A : Type) force (q : list A) last ds x is_new skipped rem rest,
  decide_single force q last ds = Ok (x, is_new, skipped, rem, rest) ->
  (is_new = false /\ last = Some x /\ rem = q /\ skipped = [] /\ force = false)
  \/ (is_new = true /\ q = skipped ++ x :: rem).
Proof. intros A. exact (@single_sound A). Qed.
Print Assumptions C36_single_monotone.

(* with snapshots numbered by version (pending versions newer than the last released, oldest
   first): the released version never goes back, a new one is strictly newer, and the
   invariant is preserved for the next decision *)
Theorem C36_single_versions : forall force q last ds x is_new skipped rem rest,
  decide_single force q last ds = Ok (x, is_new, skipped, rem, rest) ->
  versions_wf last q ->
  (forall l, last = Some l -> l <= x) /\ versions_wf (Some x) rem
  /\ (is_new = true -> forall l, last = Some l -> l < x).
Proof. exact single_versions. Qed.
Print Assumptions C36_single_versions.

(* passthrough singleton: releases the newest pending snapshot and clears the queue *)
Theorem C36_pass_latest : forall (A : Type) (q : list A),
  match decide_pass q with
  | (Some x, rem) => exists pre, q = pre ++ [x] /\ rem = []
  | (None, rem) => q = [] /\ rem = []
  end.
Proof. intros A. exact (@pass_latest A). Qed.
Print Assumptions C36_pass_latest.

(* keyed singleton: per key at most one snapshot, sound as for the singleton *)
Theorem C36_ksingle_per_key : forall (A K : Type) keq force (m : list (K * list A)) last ds rel m' last' rest nt,
  decide_ksingle keq force m last ds = Ok (rel, m', last', rest, nt) ->
  KSplit keq last m rel m' /\ nt = existsb (fun e => snd e) rel
  /\ (force = true -> count_nonempty m <> 0 -> nt = true).
Proof. intros A K. exact (@ksingle_per_key A K). Qed.
Print Assumptions C36_ksingle_per_key.

(* run_hooks, forced non-trivial rule (two-pass argument): on idle hooks, if some hook can
   make a non-trivial decision, then some hook's released decision is non-trivial *)
Theorem C36_run_hooks_releases_new : forall hs ds hs' outs rest,
  run_hooks hs ds = Ok (hs', outs, rest) ->
  forallb idle hs = true ->
  existsb can_nontrivial hs = true ->
  existsb snd outs = true.
Proof. exact run_hooks_releases_new. Qed.
Print Assumptions C36_run_hooks_releases_new.

(* SimTick::can_run: a tick is scheduled only if all hooks are ready and one can release *)
Theorem C36_can_run_iff : forall hs,
  can_run hs = true <->
  (forall h, In h hs -> is_ready h = true) /\ (exists h, In h hs /\ hook_can_release h = true).
Proof. exact can_run_iff. Qed.
Print Assumptions C36_can_run_iff.

(* ---- top-level (observation) hooks and inline (ObserveNonDet) hooks, unkeyed kinds ---- *)

(* TopLevelStreamOrderHook: at most one item, taken from anywhere, the rest keeps its order;
   a picked observation (forced) releases exactly that one item *)
Theorem C36_top_order_sound : forall (A : Type) force (q : list A) ds rel rem rest nt,
  decide_top_order force q ds = Ok (rel, rem, rest, nt) ->
  Merge rel rem q /\ length rel <= 1 /\ nt = negb (is_nil rel)
  /\ (force = true -> q <> [] -> rel <> []).
Proof. intros A. exact (@top_order_sound A). Qed.
Print Assumptions C36_top_order_sound.

(* TopLevelFoldHook: the batch handed to the fold is a permutation of a NON-EMPTY
   sub-sequence of the buffer; what is not selected stays, in order *)
Theorem C36_top_fold_sound : forall (A : Type) force (q : list A) ds out rem rest nt,
  decide_top_fold force q ds = Ok (out, rem, rest, nt) -> q <> [] ->
  exists sel, Merge sel rem q /\ Permutation out sel /\ sel <> [] /\ nt = true.
Proof. intros A. exact (@top_fold_sound A). Qed.
Print Assumptions C36_top_fold_sound.

(* TopLevelMergeOrderedHook: nothing, or the front of one of the two inputs *)
Theorem C36_top_merge_sound : forall (A : Type) force (q1 q2 : list A) ds rel r1 r2 rest nt,
  decide_top_merge force q1 q2 ds = Ok (rel, r1, r2, rest, nt) ->
  ((rel = [] /\ r1 = q1 /\ r2 = q2 /\ nt = false /\ (force = true -> q1 = [] /\ q2 = []))
   \/ (exists x, rel = [x] /\ q1 = x :: r1 /\ r2 = q2 /\ nt = true)
   \/ (exists x, rel = [x] /\ q2 = x :: r2 /\ r1 = q1 /\ nt = true)).
Proof. intros A. exact (@top_merge_sound A). Qed.
Print Assumptions C36_top_merge_sound.

(* inline StreamOrderHook: the observed order is a permutation of the batch;
   inline MergeOrderedHook: an interleaving preserving the order of both inputs *)
Theorem C36_inline_shuffle_perm : forall (A : Type) (l : list A) ds out rest,
  decide_shuffle l ds = Ok (out, rest) -> Permutation out l.
Proof. intros A. exact (@shuffle_perm A). Qed.
Print Assumptions C36_inline_shuffle_perm.

Theorem C36_inline_merge_interleaves : forall (A : Type) (a b : list A) ds out rest,
  decide_merge a b ds = Ok (out, rest) -> Merge a b out.
Proof. intros A. exact (@merge_interleaves A). Qed.
Print Assumptions C36_inline_merge_interleaves.

(* TopLevelKeyedStreamOrderHook ([front] = false) / TopLevelPartiallyOrderedStreamHook
   ([front] = true): nothing, or exactly one item of exactly one key -- any position resp. the
   front of that key's queue --, every other entry untouched, for every iteration order; a
   picked observation (forced) releases exactly that one item *)
Theorem C36_top_keyed_sound : forall (A K : Type) front force (m : list (K * list A)) ds rel m' rest nt,
  decide_top_keyed front force m ds = Ok (rel, m', rest, nt) ->
  (rel = [] /\ m' = m /\ nt = false /\ (force = true -> count_ne m = 0))
  \/ (nt = true /\ TakesOne front m rel m').
Proof. intros A K. exact (@top_keyed_sound A K). Qed.
Print Assumptions C36_top_keyed_sound.

(* ---- the last four hook kinds ---- *)

(* TopLevelKeyedMergeOrderedHook: nothing, or the front item of exactly one key of one of the two
   inputs; everything else untouched, both maps keep their shape *)
Theorem C36_top_kmerge_sound : forall (A K : Type) force (m1 m2 : list (K * list A)) ds rel r1 r2 rest nt,
  decide_top_kmerge force m1 m2 ds = Ok (rel, r1, r2, rest, nt) ->
  (rel = [] /\ r1 = m1 /\ r2 = m2 /\ nt = false /\ (force = true -> count_ne (m1 ++ m2) = 0))
  \/ (nt = true /\ TakesOne true (m1 ++ m2) rel (r1 ++ r2) /\ length r1 = length m1 /\ length r2 = length m2).
Proof. intros A K. exact (@top_kmerge_sound A K). Qed.
Print Assumptions C36_top_kmerge_sound.

(* inline KeyedStreamOrderHook: per key a permutation of that key's items *)
Theorem C36_inline_kshuffle_sound : forall (A K : Type) (gs : list (K * list A)) ds gs' rest,
  kshuffle gs ds = Ok (gs', rest) ->
  Forall2 (fun g g' => fst g = fst g' /\ Permutation (snd g') (snd g)) gs gs'.
Proof. intros A K. exact (@kshuffle_sound A K). Qed.
Print Assumptions C36_inline_kshuffle_sound.

(* inline PartiallyOrderedStreamHook: the output is built by repeatedly taking the FRONT item of
   some key (per-key order preserved) until every key is exhausted (nothing lost) *)
Theorem C36_inline_partial_sound : forall (A K : Type) (gs : list (K * list A)) ds out rest,
  decide_partial gs ds = Ok (out, rest) ->
  exists gs', POSteps gs out gs' /\ count_ne gs' = 0.
Proof. intros A K gs ds out rest H. eapply partial_sound; eauto. Qed.
Print Assumptions C36_inline_partial_sound.

(* inline KeyedMergeOrderedHook: keys in first-seen order, per key an order-preserving
   interleaving of its items in the two inputs *)
Theorem C36_inline_kmerge_sound : forall (A K : Type) (gs : list (K * (list A * list A))) ds out rest,
  kmerge gs ds = Ok (out, rest) -> KMerged gs out.
Proof. intros A K. exact (@kmerge_sound A K). Qed.
Print Assumptions C36_inline_kmerge_sound.

(* non-vacuity: the hypotheses are satisfiable by non-trivial values *)
Example C36_ex_noorder :
  decide_noorder false [10; 20; 30] [0; 1; 0; 1] = Ok ([20; 30], [10], [], true).
Proof. reflexivity. Qed.
Example C36_ex_keyed :
  decide_keyed_total true [(1, [10; 11]); (2, [20])] [0; 1] = Ok ([(2, 20)], [(1, [10; 11]); (2, [])], [], true).
Proof. reflexivity. Qed.
Example C36_ex_single :
  decide_single false [7; 8; 9] (Some 5) [0; 1] = Ok (8, true, [7], [9], []).
Proof. reflexivity. Qed.
Example C36_ex_run_hooks :
  run_hooks [HStreamT [10; 20]%N None; HStreamN [1; 2]%N None] [0; 0; 1]
  = Ok ([HStreamT [10; 20]%N None; HStreamN [2]%N None], [([], false); ([(0, 1)]%N, true)], []).
Proof. reflexivity. Qed.

(* run_hooks never panics on a tick of idle hooks that SimTick::can_run reports runnable, for
   every decision script (a bad script is [BadScript], never a panic).  [ksingle_wf_hook]: a
   key of a keyed singleton with an empty queue has been released before (keys only enter the
   map together with an item).  With C36_run_hooks_releases_new: every scheduled tick
   releases at least one new item or snapshot.

   FIXED FINDING (known_findings.d/C36.txt, /repo 3c81bfcb4b9).  Before the fix this statement
   was refuted on the faithful model (former theorem C36_run_hooks_no_panic_refuted) and on
   the real code: a PassthroughSingletonHook with nothing pending was ready (trait default)
   and took no decision, so
     run_hooks [HPass [] None; HStreamT [10] None] [1] = Panic 1   ("No decision to release")
     run_hooks [HStreamT [10] None; HPass [] None] [1] = Panic 5   (usize underflow)
   (corpus/C36/passthrough_empty_{first,last}.json, now first-run cases that must not panic;
   end-to-end reproducer corpus/C36/e2e_fold_snapshot_with_sibling_batch.rs.txt).  The hook now
   re-releases its last value and is ready only once it has one. *)
Theorem C36_run_hooks_no_panic : forall hs ds,
  forallb idle hs = true -> can_run hs = true -> forallb ksingle_wf_hook hs = true ->
  forall c, run_hooks hs ds <> Panic c.
Proof. exact run_hooks_no_panic. Qed.
Print Assumptions C36_run_hooks_no_panic.

(* the former witnesses: not runnable while the passthrough hook never had a value, and a
   plain re-release once it has *)
Example C36_run_hooks_passthrough_empty :
  can_run [HPass [] None None; HStreamT [10]%N None] = false
  /\ run_hooks [HPass [] None (Some 7%N); HStreamT [10]%N None] [1]
     = Ok ([HPass [] None (Some 7%N); HStreamT [] None], [([(0, 7)]%N, false); ([(0, 10)]%N, true)], [])
  /\ run_hooks [HStreamT [10]%N None; HPass [] None (Some 7%N)] [1]
     = Ok ([HStreamT [] None; HPass [] None (Some 7%N)], [([(0, 10)]%N, true); ([(0, 7)]%N, false)], []).
Proof. repeat split; reflexivity. Qed.

(* and without the idle hypothesis the forced rule fails (a pending trivial manual decision): *)
Example C36_manual_trivial_decision :
  hook_can_release (HStreamT [10]%N (Some [])) = true
  /\ run_hooks [HStreamT [10]%N (Some [])] [] = Ok ([HStreamT [10]%N None], [([], false)], []).
Proof. split; reflexivity. Qed.

Example C36_ex_top_fold :
  decide_top_fold true [10; 20; 30] [1; 0; 1; 0] = Ok ([30; 10], [20], [], true).
Proof. reflexivity. Qed.
Example C36_ex_shuffle :
  decide_shuffle [1; 2; 3] [2; 1] = Ok ([3; 2; 1], []).
Proof. reflexivity. Qed.
