(* E2 Coll engine -- the GHT deep join distributes over merge UP TO THE CRATE'S == (C07).
   Since repo commit c041ccb5709, == on tries ignores children without rows, and
   PGHT.peq_spec_w shows that == is exactly equality of the row sets on every weakly
   well-formed trie (the outputs of a deep join are such tries: they may hold empty children).
   So the `_rows_partial` statement of Lattice.PMorphGHT (same rows, both sides weakly
   well-formed) lifts directly to `peq ... = true`.
   (Before that commit == was structural; the statement was then proved key by key under the
   no-empty-child invariant of the inputs -- see the history of this file.) *)
From HV Require Import Coll.ModelGHT Coll.PVC Coll.PGHT Lattice.MorphGHT Lattice.PMorphGHT.

Set Implicit Arguments.

Theorem deep_join_distrib_peq h : forall d nk a da b db,
  wf h d a -> wf h d da -> wf h d b -> wf h d db ->
  Forall (fun x : row => h + d <= length x) (riter h a) ->
  Forall (fun x : row => h + d <= length x) (riter h da) ->
  Forall (fun x : row => h + d <= length x) (riter h b) ->
  Forall (fun x : row => h + d <= length x) (riter h db) ->
  peq h (deep_join h nk (fst (merge h a da)) b)
        (fst (merge h (deep_join h nk a b) (deep_join h nk da b))) = true /\
  peq h (deep_join h nk a (fst (merge h b db)))
        (fst (merge h (deep_join h nk a b) (deep_join h nk a db))) = true.
Proof.
  intros d nk a da b db Wa Wda Wb Wdb La Lda Lb Ldb. split.
  - destruct (@deep_join_distrib_l h d nk a da b Wa Wda Wb La Lda Lb) as (WX & WY & M).
    apply (peq_spec_w h d _ _ WX WY). split; intros z i; apply M, i.
  - destruct (@deep_join_distrib_r h d nk a b db Wa Wb Wdb La Lb Ldb) as (WX & WY & M).
    apply (peq_spec_w h d _ _ WX WY). split; intros z i; apply M, i.
Qed.
