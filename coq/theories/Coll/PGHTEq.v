(* E2 Coll engine -- the GHT deep join distributes over merge UP TO THE CRATE'S == (C07):
   for tries built by the public API (PGHT.wf: distinct child keys, no empty child, leaves are
   sets -- preserved by insert and merge, PGHT.insert_spec / merge_spec) the two sides
     deep_join (merge a da) b     and     merge (deep_join a b) (deep_join da b)
   have, level by level, the same keys and ==-equal children, although both may contain empty
   children.  Lifts Lattice.PMorphGHT's `_rows_partial` to `peq ... = true`. *)
From HV Require Import Coll.ModelGHT Coll.PVC Coll.PGHT Lattice.MorphGHT Lattice.PMorphGHT.

Set Implicit Arguments.
Local Arguments N.eqb : simpl never.

(* ---------------------------------------------------------------- == on inner nodes, key by key *)
Definition kw_rel (R : ght -> ght -> Prop) (ox oy : option ght) : Prop :=
  match ox, oy with
  | Some x, Some y => R x y
  | None, None => True
  | _, _ => False
  end.

Lemma cget_keys ch k : (exists c, cget ch k = Some c) <-> In k (map fst ch).
Proof.
  destruct (cget ch k) as [c|] eqn:G.
  - split; [intros _|intros _; eauto]. apply cget_in in G. apply (in_map fst) in G. exact G.
  - split; [intros [c e]; discriminate|]. intros i. apply cget_none in G. tauto.
Qed.

Lemma peq_inner_iff h ca cb :
  NoDup (map fst ca) -> NoDup (map fst cb) ->
  (peq (S h) (Inner ca) (Inner cb) = true <->
   forall k, kw_rel (fun x y => peq h x y = true) (cget ca k) (cget cb k)).
Proof.
  intros nda ndb. cbn [peq]. split.
  - destruct (Nat.eqb_spec (length ca) (length cb)) as [L|]; [cbn [negb]|discriminate].
    rewrite forallb_forall. intros H.
    assert (KI : incl (map fst ca) (map fst cb)).
    { intros k i. apply in_map_iff in i as [[k' c] [e i]]. cbn in e. subst k'.
      specialize (H _ i). cbn [fst] in H. destruct (cget cb k) as [o|] eqn:G; [|discriminate].
      apply cget_in in G. apply (in_map fst) in G. exact G. }
    assert (KJ : incl (map fst cb) (map fst ca)).
    { apply NoDup_length_incl; [assumption|rewrite !map_length; lia|assumption]. }
    intros k. unfold kw_rel. destruct (cget ca k) as [x|] eqn:Ga.
    + pose proof (cget_in _ _ Ga) as i. specialize (H _ i). cbn [fst] in H.
      destruct (cget cb k) as [o|]; [|discriminate]. rewrite Ga in H. exact H.
    + destruct (cget cb k) as [o|] eqn:Gb; [|exact I].
      apply cget_none in Ga. apply Ga, KJ. apply cget_in in Gb. apply (in_map fst) in Gb. exact Gb.
  - intros H.
    assert (KK : forall k, In k (map fst ca) <-> In k (map fst cb)).
    { intros k. rewrite <- !cget_keys. specialize (H k). unfold kw_rel in H.
      destruct (cget ca k), (cget cb k); split; intros [c e]; try discriminate; try contradiction; eauto. }
    assert (L : length ca = length cb).
    { rewrite <- (map_length fst ca), <- (map_length fst cb). apply Nat.le_antisymm;
        apply NoDup_incl_length; try assumption; intros k i; apply KK; assumption. }
    rewrite L, Nat.eqb_refl. cbn [negb]. apply forallb_forall. intros [k c] i. cbn [fst].
    specialize (H k). unfold kw_rel in H. rewrite (in_cget _ _ _ nda i) in *.
    destruct (cget cb k) as [o|]; [exact H|contradiction].
Qed.

(* == is reflexive on weakly well-formed tries *)
Lemma peq_refl h : forall d t, wfw h d t -> peq h t t = true.
Proof.
  induction h as [|h IH]; intros d t W.
  - destruct t as [rows|]; [|contradiction]. cbn in *.
    rewrite (hs_eq_spec (nodup_Rset W) (nodup_Rset W)). apply set_eqb_spec. reflexivity.
  - destruct t as [|ch]; [contradiction|]. destruct W as [nd F].
    apply (@peq_inner_iff h ch ch nd nd). intros k. unfold kw_rel.
    destruct (cget ch k) as [c|] eqn:G; [|exact I].
    apply cget_in in G. rewrite Forall_forall in F. destruct (F _ G) as [Wc _]. apply (IH _ _ Wc).
Qed.

(* ---------------------------------------------------------------- children of join and merge, key by key *)
Lemma join_cget h nk ca cb k :
  cget (flat_map (fun kv : N * ght =>
                    match cget ca (fst kv) with
                    | Some va => [(fst kv, deep_join h nk va (snd kv))]
                    | None => []
                    end) cb) k =
  match cget cb k, cget ca k with
  | Some vb, Some va => Some (deep_join h nk va vb)
  | _, _ => None
  end.
Proof.
  induction cb as [|[k' vb] cb IH]; [reflexivity|]. cbn [flat_map fst snd cget].
  destruct (N.eqb_spec k k') as [->|ne].
  - destruct (cget ca k') as [va|] eqn:Ga; cbn [app cget].
    + rewrite N.eqb_refl. reflexivity.
    + rewrite IH. destruct (cget cb k'); reflexivity.
  - destruct (cget ca k') as [va|]; cbn [app cget].
    + destruct (N.eqb_spec k k'); [congruence|]. exact IH.
    + exact IH.
Qed.

Lemma join_keys_nodup h nk ca cb :
  NoDup (map fst cb) ->
  NoDup (map fst (flat_map (fun kv : N * ght =>
                              match cget ca (fst kv) with
                              | Some va => [(fst kv, deep_join h nk va (snd kv))]
                              | None => []
                              end) cb)).
Proof.
  induction cb as [|[k vb] cb IH]; intros nd; [constructor|].
  inversion nd as [|? ? n nd']; subst. cbn [flat_map fst snd].
  destruct (cget ca k) as [va|]; cbn [app map fst]; [|apply IH, nd'].
  constructor; [|apply IH, nd']. intros i. apply n. apply cget_keys in i as [c G].
  rewrite join_cget in G. destruct (cget cb k) as [o|] eqn:Gb; [|discriminate].
  apply cget_in in Gb. apply (in_map fst) in Gb. exact Gb.
Qed.

Lemma creplace_cget ch k c k0 :
  cget (creplace ch k c) k0 =
  if N.eqb k0 k then (match cget ch k with Some _ => Some c | None => None end) else cget ch k0.
Proof.
  induction ch as [|[k' c'] ch IH]; cbn [creplace cget].
  - destruct (N.eqb k0 k); reflexivity.
  - destruct (N.eqb_spec k k') as [->|ne]; cbn [cget].
    + destruct (N.eqb_spec k0 k'); reflexivity.
    + destruct (N.eqb_spec k0 k') as [->|ne0].
      * destruct (N.eqb_spec k' k); [congruence|reflexivity].
      * exact IH.
Qed.

Lemma cget_app ch k v k0 :
  cget (ch ++ [(k, v)]) k0 =
  match cget ch k0 with Some x => Some x | None => if N.eqb k0 k then Some v else None end.
Proof.
  induction ch as [|[k' c'] ch IH]; cbn [app cget]; [reflexivity|].
  destruct (N.eqb k0 k'); [reflexivity|exact IH].
Qed.

Section MergeKeys.
  Variable h : nat.
  Let stepf := fun (acc : list (N * ght) * bool) (kv : N * ght) =>
                 let '(ca, changed) := acc in
                 match cget ca (fst kv) with
                 | Some c => let '(c', chg) := merge h c (snd kv) in
                             (creplace ca (fst kv) c', changed || chg)
                 | None => (ca ++ [kv], true)
                 end.

  Lemma merge_fold_keys rest : forall cur chg,
    NoDup (map fst cur) -> NoDup (map fst rest) ->
    NoDup (map fst (fst (fold_left stepf rest (cur, chg)))) /\
    forall k, cget (fst (fold_left stepf rest (cur, chg))) k =
              match cget cur k, cget rest k with
              | Some x, Some y => Some (fst (merge h x y))
              | Some x, None => Some x
              | None, Some y => Some y
              | None, None => None
              end.
  Proof.
    induction rest as [|[k' v] rest IHr]; intros cur chg ndc ndr; cbn [fold_left].
    - cbn [fst]. split; [assumption|]. intros k. cbn [cget]. destruct (cget cur k); reflexivity.
    - inversion ndr as [|? ? nk ndr']; subst.
      assert (Estep : stepf (cur, chg) (k', v) =
                      match cget cur k' with
                      | Some c => let '(c', g) := merge h c v in (creplace cur k' c', chg || g)
                      | None => (cur ++ [(k', v)], true)
                      end) by reflexivity.
      rewrite Estep. clear Estep.
      assert (Rnone : cget rest k' = None) by (apply cget_none, nk).
      destruct (cget cur k') as [c|] eqn:G.
      + destruct (merge h c v) as [c' g] eqn:M.
        destruct (IHr (creplace cur k' c') (chg || g)) as [nd2 C2];
          [rewrite creplace_keys; assumption|assumption|].
        split; [exact nd2|]. intros k. rewrite C2, creplace_cget. cbn [cget].
        destruct (N.eqb_spec k k') as [->|ne].
        * rewrite G, Rnone, M. reflexivity.
        * reflexivity.
      + assert (nin : ~ In k' (map fst cur)) by (apply cget_none, G).
        destruct (IHr (cur ++ [(k', v)]) true) as [nd2 C2].
        * rewrite map_app. cbn. apply NoDup_snoc; assumption.
        * assumption.
        * split; [exact nd2|]. intros k. rewrite C2, cget_app. cbn [cget].
          destruct (N.eqb_spec k k') as [->|ne].
          -- rewrite G, Rnone. reflexivity.
          -- destruct (cget cur k); reflexivity.
  Qed.
End MergeKeys.

Lemma merge_inner_keys h ca cb :
  NoDup (map fst ca) -> NoDup (map fst cb) ->
  exists cm, fst (merge (S h) (Inner ca) (Inner cb)) = Inner cm /\ NoDup (map fst cm) /\
    forall k, cget cm k = match cget ca k, cget cb k with
                          | Some x, Some y => Some (fst (merge h x y))
                          | Some x, None => Some x
                          | None, Some y => Some y
                          | None, None => None
                          end.
Proof.
  intros nda ndb. cbn [merge].
  pose proof (@merge_fold_keys h cb ca false nda ndb) as L.
  match goal with |- context [fold_left ?f cb (ca, false)] => set (res := fold_left f cb (ca, false)) in * end.
  destruct res as [cm changed]. cbn [fst] in *. exists cm. destruct L as [nd C]. auto.
Qed.

(* ---------------------------------------------------------------- the deep join distributes, with == *)
Definition LenOk (h d : nat) (t : ght) : Prop := Forall (fun x : row => h + d <= length x) (riter h t).

Lemma child_facts h d ch k c :
  wf (S h) d (Inner ch) -> LenOk (S h) d (Inner ch) -> cget ch k = Some c ->
  wf h (S d) c /\ LenOk h (S d) c.
Proof.
  intros [nd F] L G. pose proof (cget_in _ _ G) as i. rewrite Forall_forall in F.
  destruct (F _ i) as (W & _). split; [exact W|]. unfold LenOk in *. rewrite Forall_forall in *.
  intros x ix. assert (j : In x (riter (S h) (Inner ch))) by (apply in_riter_inner; eauto).
  specialize (L _ j). lia.
Qed.

Lemma wf_shape h d t : wf (S h) d t -> exists ch, t = Inner ch /\ NoDup (map fst ch).
Proof. destruct t as [|ch]; [contradiction|]. intros [nd _]. eauto. Qed.

Theorem deep_join_distrib_peq h : forall d nk a da b db,
  wf h d a -> wf h d da -> wf h d b -> wf h d db ->
  LenOk h d a -> LenOk h d da -> LenOk h d b -> LenOk h d db ->
  peq h (deep_join h nk (fst (merge h a da)) b)
        (fst (merge h (deep_join h nk a b) (deep_join h nk da b))) = true /\
  peq h (deep_join h nk a (fst (merge h b db)))
        (fst (merge h (deep_join h nk a b) (deep_join h nk a db))) = true.
Proof.
  induction h as [|h IH]; intros d nk a da b db Wa Wda Wb Wdb La Lda Lb Ldb.
  - unfold LenOk in *. cbn [Nat.add] in *. apply (@valtype_product_distrib d nk a da b db Wa Wda Wb Wdb); assumption.
  - destruct (@wf_shape h d _ Wa) as (ca & -> & nda), (@wf_shape h d _ Wda) as (cda & -> & ndda),
             (@wf_shape h d _ Wb) as (cb & -> & ndb), (@wf_shape h d _ Wdb) as (cdb & -> & nddb).
    (* outputs of joins of two well-formed children are weakly well-formed *)
    assert (JW : forall x y, wf h (S d) x -> wf h (S d) y -> LenOk h (S d) x -> LenOk h (S d) y ->
                             peq h (deep_join h nk x y) (deep_join h nk x y) = true).
    { intros x y Wx Wy Lx Ly. destruct (deep_join_spec h (S d) nk x y Wx Wy Lx Ly) as [W _].
      apply (peq_refl h (S d) _ W). }
    split.
    + (* left argument *)
      destruct (@merge_inner_keys h _ _ nda ndda) as (cm & Em & ndm & Cm).
      rewrite Em. cbn [deep_join].
      set (gX := fun kv : N * ght => match cget cm (fst kv) with
                                    | Some va => [(fst kv, deep_join h nk va (snd kv))] | None => [] end).
      set (gA := fun kv : N * ght => match cget ca (fst kv) with
                                    | Some va => [(fst kv, deep_join h nk va (snd kv))] | None => [] end).
      set (gD := fun kv : N * ght => match cget cda (fst kv) with
                                    | Some va => [(fst kv, deep_join h nk va (snd kv))] | None => [] end).
      pose proof (@join_keys_nodup h nk cm _ ndb) as ndX. fold gX in ndX.
      pose proof (@join_keys_nodup h nk ca _ ndb) as ndA. fold gA in ndA.
      pose proof (@join_keys_nodup h nk cda _ ndb) as ndD. fold gD in ndD.
      destruct (@merge_inner_keys h _ _ ndA ndD) as (cy & Ey & ndy & Cy).
      rewrite Ey. apply (@peq_inner_iff h _ _ ndX ndy). intros k.
      unfold gX. rewrite join_cget, Cy, Cm. unfold gA, gD. rewrite !join_cget.
      unfold kw_rel.
      destruct (cget cb k) as [vb|] eqn:Gb; [|exact I].
      destruct (@child_facts h d _ k _ Wb Lb Gb) as [Wvb Lvb].
      destruct (cget ca k) as [x|] eqn:Ga, (cget cda k) as [y|] eqn:Gd; try exact I.
      * destruct (@child_facts h d _ k _ Wa La Ga) as [Wx Lx], (@child_facts h d _ k _ Wda Lda Gd) as [Wy Ly].
        apply (IH (S d) nk x y vb vb); assumption.
      * destruct (@child_facts h d _ k _ Wa La Ga) as [Wx Lx]. apply JW; assumption.
      * destruct (@child_facts h d _ k _ Wda Lda Gd) as [Wy Ly]. apply JW; assumption.
    + (* right argument *)
      destruct (@merge_inner_keys h _ _ ndb nddb) as (cm & Em & ndm & Cm).
      rewrite Em. cbn [deep_join].
      set (gA := fun kv : N * ght => match cget ca (fst kv) with
                                    | Some va => [(fst kv, deep_join h nk va (snd kv))] | None => [] end).
      pose proof (@join_keys_nodup h nk ca _ ndm) as ndX. fold gA in ndX.
      pose proof (@join_keys_nodup h nk ca _ ndb) as ndB. fold gA in ndB.
      pose proof (@join_keys_nodup h nk ca _ nddb) as ndD. fold gA in ndD.
      destruct (@merge_inner_keys h _ _ ndB ndD) as (cy & Ey & ndy & Cy).
      rewrite Ey. apply (@peq_inner_iff h _ _ ndX ndy). intros k.
      unfold gA. rewrite join_cget, Cy, Cm. unfold gA. rewrite !join_cget. unfold kw_rel.
      destruct (cget ca k) as [x|] eqn:Ga.
      * destruct (@child_facts h d _ k _ Wa La Ga) as [Wx Lx].
        destruct (cget cb k) as [vb|] eqn:Gb, (cget cdb k) as [vd|] eqn:Gd; try exact I.
        -- destruct (@child_facts h d _ k _ Wb Lb Gb) as [Wvb Lvb], (@child_facts h d _ k _ Wdb Ldb Gd) as [Wvd Lvd].
           apply (IH (S d) nk x x vb vd); assumption.
        -- destruct (@child_facts h d _ k _ Wb Lb Gb) as [Wvb Lvb]. apply JW; assumption.
        -- destruct (@child_facts h d _ k _ Wdb Ldb Gd) as [Wvd Lvd]. apply JW; assumption.
      * destruct (cget cb k), (cget cdb k); exact I.
Qed.
