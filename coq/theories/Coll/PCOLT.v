(* E2 Coll engine -- the COLT forest (lattices/src/ght/colt.rs, model: ModelGHT2.colt_get_path):
   ColtGet::get along a key path loses nothing and returns a forest holding exactly the rows that
   start with the path.  Multiset leaf storages (the forest uses the column multiset). *)
From HV Require Import Coll.ModelGHT2 Coll.PVC Coll.PGHT Coll.PGHT2.
Local Arguments N.eqb : simpl never.

Section Colt.
  Variables (k : kind) (a : nat).
  Hypothesis multi : k <> KSet.
  Hypothesis apos : 0 < a.

  (* well-formed extended tries: leaves refine a bag of rows of arity a; inner nodes have distinct
     keys and every row below child key carries key in column d (children may be empty) *)
  Definition sokw (h d : nat) (P : sght -> Prop) (kc : N * sght) : Prop :=
    P (snd kc) /\ Forall (fun r => head d r = fst kc) (sriter h (snd kc)).
  Fixpoint swf (h d : nat) (t : sght) : Prop :=
    match h, t with
    | 0, SLeaf st _ => leaf_good k a st
    | S h', SInner ch => NoDup (map fst ch) /\ Forall (sokw h' d (swf h' (S d))) ch
    | _, _ => False
    end.

  Lemma swf_good h : forall d t, swf h d t -> good k a h t.
  Proof.
    induction h as [|h IH]; intros d t W.
    - destruct t; [exact W|contradiction].
    - destruct t as [|ch]; [contradiction|]. destruct W as [_ F]. cbn [good].
      rewrite Forall_forall in *. intros kc i. destruct (F _ i) as [W _]. apply (IH _ _ W).
  Qed.

  Lemma swf_sempty h d : swf h d (sempty k a h).
  Proof. destruct h; cbn; [apply good_new|split; constructor]. Qed.

  Lemma good_rows_len h : forall t x, good k a h t -> In x (sriter h t) -> length x = a.
  Proof.
    induction h as [|h IH]; intros t x G i.
    - destruct t as [st f|]; [|contradiction]. cbn in *.
      destruct (good_rows_arity multi G) as [F _]. rewrite Forall_forall in F. apply F, i.
    - destruct t as [|ch]; [contradiction|]. cbn [good sriter] in *.
      apply in_flat_map in i as [kc [i ix]]. rewrite Forall_forall in G. apply (IH _ _ (G _ i) ix).
  Qed.

  (* ---- children maps of sght *)
  Lemma scget_in ch key c : scget ch key = Some c -> In (key, c) ch.
  Proof.
    induction ch as [|[k' c'] ch IH]; cbn; [discriminate|].
    destruct (N.eqb_spec key k'); [intros [= <-]; subst; left; reflexivity|auto].
  Qed.
  Lemma scget_none ch key : scget ch key = None <-> ~ In key (map fst ch).
  Proof.
    induction ch as [|[k' c'] ch IH]; cbn; [tauto|].
    destruct (N.eqb_spec key k'); [subst; split; [discriminate|tauto]|].
    rewrite IH. split; [intros n' [e|i]; [congruence|tauto]|tauto].
  Qed.
  Lemma screplace_keys ch key c : map fst (screplace ch key c) = map fst ch.
  Proof.
    induction ch as [|[k' c'] ch IH]; [reflexivity|]. cbn.
    destruct (N.eqb_spec key k'); cbn; [subst; reflexivity|]. rewrite IH. reflexivity.
  Qed.
  Lemma screplace_forall (P : N * sght -> Prop) ch key c :
    Forall P ch -> P (key, c) -> Forall P (screplace ch key c).
  Proof.
    induction 1 as [|[k' c'] ch p F IH]; intros Pk; cbn; [constructor|].
    destruct (N.eqb_spec key k'); [subst; constructor; assumption|].
    constructor; [assumption|apply IH, Pk].
  Qed.
  Lemma scupd_keys ch key dflt f y :
    In y (map fst (scupd ch key dflt f)) <-> In y (map fst ch) \/ y = key.
  Proof.
    induction ch as [|[k' c'] ch IH]; cbn; [intuition|].
    destruct (N.eqb_spec key k'); cbn; [subst; intuition|]. rewrite IH. intuition.
  Qed.

  Lemma heads_cnt h d key c :
    Forall (fun r => head d r = key) (sriter h c) <->
    (forall x, 0 < cnt (sriter h c) x -> head d x = key).
  Proof.
    rewrite Forall_forall. split.
    - intros H x p. apply H. apply cnt_pos_in. exact p.
    - intros H x i. apply H. apply cnt_pos_in. exact i.
  Qed.

  (* ---- insert keeps tries well-formed *)
  Lemma sinsert_swf h : forall d t r, swf h d t -> length r = a -> swf h d (sinsert k a h d t r).
  Proof.
    induction h as [|h IH]; intros d t r W Lr.
    - destruct t as [st f|]; [|contradiction].
      destruct (sinsert_cnt multi apos 0 d (SLeaf st f) r W Lr) as [G _]. exact G.
    - destruct t as [|ch]; [contradiction|]. destruct W as [nd F]. cbn [sinsert swf].
      set (key := head d r). set (f := fun c => sinsert k a h (S d) c r).
      assert (OK : forall c, swf h (S d) c -> Forall (fun r0 => head d r0 = key) (sriter h c) ->
                             sokw h d (swf h (S d)) (key, f c)).
      { intros c Wc Hc. split; cbn [fst snd]; [apply IH; assumption|].
        apply heads_cnt. intros x p. unfold f in p.
        destruct (sinsert_cnt multi apos h (S d) c r (swf_good _ _ _ Wc) Lr) as [_ C].
        rewrite C in p. destruct (row_eqb_spec x r) as [e|ne]; [rewrite e; reflexivity|].
        apply (proj1 (heads_cnt h d key c) Hc). lia. }
      induction ch as [|[k' c] ch IHch]; cbn [scupd].
      + split; [repeat constructor; intros []|]. constructor; [|constructor].
        apply OK; [apply swf_sempty|]. apply heads_cnt. intros x p.
        rewrite (sriter_sempty a multi h x) in p. lia.
      + inversion nd as [|? ? n nd']; inversion F as [|? ? P F']; subst.
        destruct (N.eqb_spec key k') as [e|ne].
        * subst k'. destruct P as [Wc Hc]. cbn [fst snd] in *. split; [exact nd|].
          constructor; [apply OK; assumption|assumption].
        * destruct (IHch nd' F') as [nd2 F2]. cbn [map fst]. split.
          -- constructor; [|exact nd2]. rewrite scupd_keys. intros [i|e]; [tauto|congruence].
          -- constructor; assumption.
  Qed.

  Lemma sinsert_all_swf h d rs : forall t,
    swf h d t -> Forall (fun r => length r = a) rs ->
    swf h d (fold_left (fun t r => sinsert k a h d t r) rs t).
  Proof.
    induction rs as [|r rs IH]; intros t W F; cbn [fold_left]; [exact W|].
    inversion F; subst. apply IH; [apply sinsert_swf; assumption|assumption].
  Qed.

  Lemma in_scget ch key c : NoDup (map fst ch) -> In (key, c) ch -> scget ch key = Some c.
  Proof.
    induction ch as [|[k' c'] ch IH]; cbn; intros nd i; [tauto|].
    inversion nd as [|? ? n nd']; subst. destruct i as [e|i].
    - inversion e; subst. rewrite N.eqb_refl. reflexivity.
    - destruct (N.eqb_spec key k'); [|auto]. subst. exfalso. apply n.
      apply (in_map fst) in i. exact i.
  Qed.

  (* ---- merge_node keeps tries well-formed *)
  Lemma smerge_swf h : forall d t u, swf h d t -> swf h d u -> swf h d (fst (smerge h t u)).
  Proof.
    induction h as [|h IH]; intros d t u Wt Wu.
    - destruct t as [sa fa|], u as [sb fb|]; try contradiction.
      destruct (smerge_cnt multi apos 0 (SLeaf sa fa) (SLeaf sb fb) Wt Wu) as [G _].
      cbn [smerge fst] in *. exact G.
    - destruct t as [|ca], u as [|cb]; try contradiction.
      destruct Wt as [nda Fa], Wu as [ndb Fb]. cbn [smerge].
      set (stepf := fun (acc : list (N * sght) * bool) (kv : N * sght) =>
                      let '(ca, changed) := acc in
                      match scget ca (fst kv) with
                      | Some c => let '(c', chg) := smerge h c (snd kv) in
                                  (screplace ca (fst kv) c', changed || chg)
                      | None => (ca ++ [kv], changed || shas_rows h (snd kv))
                      end).
      assert (L : forall rest cur chg,
                    NoDup (map fst cur) -> Forall (sokw h d (swf h (S d))) cur ->
                    NoDup (map fst rest) -> Forall (sokw h d (swf h (S d))) rest ->
                    NoDup (map fst (fst (fold_left stepf rest (cur, chg)))) /\
                    Forall (sokw h d (swf h (S d))) (fst (fold_left stepf rest (cur, chg)))).
      { induction rest as [|[key v] rest IHr]; intros cur chg ndc Fc ndr Fr; cbn [fold_left].
        - cbn [fst]. split; assumption.
        - inversion ndr as [|? ? nk ndr']; inversion Fr as [|? ? okv Fr']; subst.
          destruct okv as [Wv Hv]. cbn [fst snd] in Wv, Hv.
          assert (Estep : stepf (cur, chg) (key, v) =
                          match scget cur key with
                          | Some c => let '(c', g) := smerge h c v in (screplace cur key c', chg || g)
                          | None => (cur ++ [(key, v)], chg || shas_rows h v)
                          end) by reflexivity.
          rewrite Estep. clear Estep. destruct (scget cur key) as [c|] eqn:G.
          + pose proof (scget_in _ _ _ G) as Gin. pose proof Fc as Fc0. rewrite Forall_forall in Fc0.
            destruct (Fc0 _ Gin) as [Wc Hc]. cbn [fst snd] in Wc, Hc.
            pose proof (IH (S d) c v Wc Wv) as W'.
            destruct (smerge_cnt multi apos h c v (swf_good _ _ _ Wc) (swf_good _ _ _ Wv)) as [_ C'].
            destruct (smerge h c v) as [c' g]. cbn [fst] in W', C'.
            apply IHr; [rewrite screplace_keys; assumption| |assumption|assumption].
            apply screplace_forall; [assumption|]. split; [exact W'|]. cbn [fst snd].
            apply heads_cnt. intros x p. rewrite C' in p.
            destruct (Nat.eq_dec (cnt (sriter h c) x) 0) as [z|nz].
            * apply (proj1 (heads_cnt h d key v) Hv). lia.
            * apply (proj1 (heads_cnt h d key c) Hc). lia.
          + apply IHr; [| |assumption|assumption].
            * rewrite map_app. cbn. apply NoDup_snoc; [assumption|]. apply scget_none, G.
            * apply Forall_app. split; [assumption|]. constructor; [|constructor]. split; assumption. }
      destruct (L cb ca false nda Fa ndb Fb) as [nd' F'].
      destruct (fold_left stepf cb (ca, false)) as [ca' changed]. cbn [fst swf] in *.
      split; assumption.
  Qed.

  (* ---- rows of one child among all rows *)
  Lemma srows_not_key h d P ch x :
    Forall (sokw h d P) ch -> ~ In (head d x) (map fst ch) -> cnt (srows h ch) x = 0.
  Proof.
    induction ch as [|[k' c] ch IH]; intros F n; [reflexivity|].
    inversion F as [|? ? [_ Hc] F']; subst. cbn [fst snd map] in *.
    rewrite srows_cons, cnt_app, IH by (try assumption; intros i; apply n; right; exact i).
    destruct (Nat.eq_dec (cnt (sriter h c) x) 0) as [z|nz]; [lia|]. exfalso. apply n. left.
    symmetry. apply (proj1 (heads_cnt h d k' c) Hc). lia.
  Qed.

  Lemma srows_child h d P ch key c x :
    NoDup (map fst ch) -> Forall (sokw h d P) ch -> scget ch key = Some c ->
    cnt (sriter h c) x = if N.eqb (head d x) key then cnt (srows h ch) x else 0.
  Proof.
    intros nd F G. destruct (N.eqb_spec (head d x) key) as [e|ne].
    - revert nd F G. induction ch as [|[k' c0] ch IH]; intros nd F G; [discriminate|].
      inversion nd as [|? ? n nd']; inversion F as [|? ? [_ Hc0] F']; subst. cbn [fst snd] in *.
      cbn [scget] in G. rewrite srows_cons, cnt_app. destruct (N.eqb_spec (head d x) k') as [e|ne].
      + inversion G; subst c0. rewrite (srows_not_key h d P ch x F') by (rewrite e; exact n). lia.
      + rewrite (IH nd' F' G).
        destruct (Nat.eq_dec (cnt (sriter h c0) x) 0) as [z|nz]; [lia|]. exfalso. apply ne.
        apply (proj1 (heads_cnt h d k' c0) Hc0). lia.
    - apply scget_in in G. rewrite Forall_forall in F. destruct (F _ G) as [_ Hc]. cbn [fst snd] in Hc.
      destruct (Nat.eq_dec (cnt (sriter h c) x) 0) as [z|nz]; [exact z|]. exfalso. apply ne.
      apply (proj1 (heads_cnt h d key c) Hc). lia.
  Qed.

  Lemma scget_app_none ch key c : scget ch key = None -> scget (ch ++ [(key, c)]) key = Some c.
  Proof.
    induction ch as [|[k' c'] ch IH]; cbn [app scget]; [rewrite N.eqb_refl; reflexivity|].
    destruct (N.eqb key k'); [discriminate|exact IH].
  Qed.

  (* ---- entry(head).or_default(): one level down *)
  Lemma cod_spec h d t key :
    swf (S h) d t ->
    let t' := fst (child_or_default k a (S h) t key) in
    let c := snd (child_or_default k a (S h) t key) in
    swf (S h) d t' /\ swf h (S d) c /\
    (exists ch', t' = SInner ch' /\ scget ch' key = Some c) /\
    (forall x, cnt (sriter (S h) t') x = cnt (sriter (S h) t) x) /\
    (forall x, cnt (sriter h c) x = if N.eqb (head d x) key then cnt (sriter (S h) t) x else 0).
  Proof.
    intros W. destruct t as [|ch]; [contradiction|]. pose proof W as [nd F]. cbn [child_or_default].
    destruct (scget ch key) as [c|] eqn:G; cbn [fst snd].
    - pose proof (scget_in _ _ _ G) as i. pose proof F as F0. rewrite Forall_forall in F0.
      destruct (F0 _ i) as [Wc _]. split; [exact W|]. split; [exact Wc|]. split; [eauto|].
      split; [reflexivity|]. intros x. cbn [sriter]. fold (srows h ch).
      apply (srows_child h d _ ch key c x nd F G).
    - assert (nin : ~ In key (map fst ch)) by (apply scget_none, G).
      split; [|split; [apply swf_sempty|split; [|split]]].
      + split.
        * rewrite map_app. cbn. apply NoDup_snoc; assumption.
        * apply Forall_app. split; [exact F|]. constructor; [|constructor]. split; [apply swf_sempty|].
          cbn [fst snd]. apply heads_cnt. intros x p. rewrite (sriter_sempty a multi h x) in p. lia.
      + eexists. split; [reflexivity|]. apply scget_app_none, G.
      + intros x. cbn [sriter]. fold (srows h (ch ++ [(key, sempty k a h)])) (srows h ch).
        rewrite srows_app, srows_one, cnt_app, (sriter_sempty a multi h x). lia.
      + intros x. rewrite (sriter_sempty a multi h x). cbn [sriter]. fold (srows h ch).
        destruct (N.eqb_spec (head d x) key) as [e|ne]; [|reflexivity].
        symmetry. apply (srows_not_key h d _ ch x F). rewrite e. exact nin.
  Qed.

  (* ---- writing an updated child back *)
  Lemma set_child_spec h d ch key c c' :
    swf (S h) d (SInner ch) -> scget ch key = Some c -> swf h (S d) c' ->
    (forall x, 0 < cnt (sriter h c') x -> head d x = key) ->
    swf (S h) d (set_child (SInner ch) key c') /\
    forall x, cnt (sriter (S h) (set_child (SInner ch) key c')) x + cnt (sriter h c) x =
              cnt (sriter (S h) (SInner ch)) x + cnt (sriter h c') x.
  Proof.
    intros [nd F] G Wc' Hc'. cbn [set_child]. split.
    - split; [rewrite screplace_keys; exact nd|]. apply screplace_forall; [exact F|].
      split; [exact Wc'|]. cbn [fst snd]. apply heads_cnt, Hc'.
    - intros x. cbn [sriter]. fold (srows h (screplace ch key c')) (srows h ch).
      apply (screplace_cnt apos h ch key c' x G).
  Qed.

  (* ---------------------------------------------------------------- forests *)
  Definition T (fs : list (nat * sght)) : list row :=
    flat_map (fun ht => sriter (fst ht) (snd ht)) fs.
  Definition fswf (d : nat) (fs : list (nat * sght)) : Prop :=
    Forall (fun ht => swf (fst ht) d (snd ht)) fs.
  Definition link (key : N) (g s : nat * sght) : Prop :=
    exists h ch c, g = (S h, SInner ch) /\ s = (h, c) /\ scget ch key = Some c.
  Definition downf (key : N) (ht : nat * sght) : (nat * sght) * (nat * sght) :=
    let '(t', c) := child_or_default k a (fst ht) (snd ht) key in ((fst ht, t'), (pred (fst ht), c)).

  Lemma T_cons ht fs x : cnt (T (ht :: fs)) x = cnt (sriter (fst ht) (snd ht)) x + cnt (T fs) x.
  Proof. unfold T. cbn [flat_map]. apply cnt_app. Qed.

  Lemma down_spec key d going :
    Forall (fun ht : nat * sght => 1 <= fst ht) going -> fswf d going ->
    let dn := map (downf key) going in
    map fst (map fst dn) = map fst going /\ map fst (map snd dn) = map pred (map fst going) /\
    fswf d (map fst dn) /\ fswf (S d) (map snd dn) /\
    (forall x, cnt (T (map fst dn)) x = cnt (T going) x) /\
    (forall x, cnt (T (map snd dn)) x = if N.eqb (head d x) key then cnt (T going) x else 0) /\
    Forall2 (link key) (map fst dn) (map snd dn).
  Proof.
    induction going as [|[hh t] going IH]; intros Hh W; cbn zeta.
    - cbn. repeat split; try constructor. intros x. destruct (N.eqb (head d x) key); reflexivity.
    - inversion Hh as [|? ? L1 Hh']; inversion W as [|? ? Wt W']; subst. cbn [fst snd] in L1, Wt.
      destruct hh as [|h]; [lia|].
      destruct (IH Hh' W') as (E1 & E2 & F1 & F2 & C1 & C2 & Lk). cbn zeta in *.
      pose proof (cod_spec h d t key Wt) as Q. cbn zeta in Q.
      destruct (child_or_default k a (S h) t key) as [t' c] eqn:Ecd. cbn [fst snd] in Q.
      assert (Ed : downf key (S h, t) = ((S h, t'), (h, c)))
        by (unfold downf; cbn [fst snd]; rewrite Ecd; reflexivity).
      cbn [map]. rewrite Ed. cbn [fst snd map].
      destruct Q as (Wt' & Wc & (ch' & Et & Gc) & Ct & Cc).
      split; [cbn; f_equal; exact E1|]. split; [cbn; f_equal; exact E2|].
      split; [constructor; assumption|]. split; [constructor; assumption|].
      split; [intros x; rewrite !T_cons; cbn [fst snd]; rewrite Ct, C1; reflexivity|].
      split.
      + intros x. rewrite !T_cons. cbn [fst snd]. rewrite Cc, C2.
        destruct (N.eqb (head d x) key); reflexivity.
      + constructor; [|exact Lk]. exists h, ch', c. subst t'. auto.
  Qed.

  Lemma writeback key d going1 subs :
    Forall2 (link key) going1 subs -> forall subs',
    fswf d going1 -> map fst subs' = map fst subs -> fswf (S d) subs' ->
    (forall x, 0 < cnt (T subs') x -> head d x = key) ->
    let g2 := map (fun p : (nat * sght) * (nat * sght) =>
                     (fst (fst p), set_child (snd (fst p)) key (snd (snd p))))
                  (combine going1 subs') in
    map fst g2 = map fst going1 /\ fswf d g2 /\
    forall x, cnt (T g2) x + cnt (T subs) x = cnt (T going1) x + cnt (T subs') x.
  Proof.
    induction 1 as [|g s going1 subs Lk F2 IH]; intros subs' W E W' Hd; cbn zeta.
    - destruct subs'; [|discriminate]. cbn. repeat split; try constructor.
    - destruct subs' as [|[h' c'] subs']; [discriminate|]. cbn [map fst] in E. inversion E as [[Eh Et]].
      destruct Lk as (h & ch & c & -> & -> & G). cbn [fst] in Eh. subst h'.
      inversion W as [|? ? Wg Wr]; inversion W' as [|? ? Wc' Wr']; subst. cbn [fst snd] in Wg, Wc'.
      assert (Hd' : forall x, 0 < cnt (T subs') x -> head d x = key).
      { intros x p. apply Hd. rewrite T_cons. lia. }
      destruct (IH subs' Wr Et Wr' Hd') as (E2 & F & C). cbn zeta in *.
      assert (Hc' : forall x, 0 < cnt (sriter h c') x -> head d x = key).
      { intros x p. apply Hd. rewrite T_cons. cbn [fst snd]. lia. }
      destruct (set_child_spec h d ch key c c' Wg G Wc' Hc') as [Ws Cs].
      cbn [combine map fst snd]. split; [f_equal; exact E2|]. split; [constructor; assumption|].
      intros x. rewrite !T_cons. cbn [fst snd]. specialize (C x). specialize (Cs x). lia.
  Qed.

  Lemma st_drain_rows st : fst (st_drain st) = st_iter st.
  Proof. destruct st; reflexivity. Qed.

  Lemma map_pred_seq n : forall s, map pred (seq (S s) n) = seq s n.
  Proof. induction n as [|n IH]; intros s; cbn; [reflexivity|]. rewrite IH. reflexivity. Qed.

  Lemma fswf_rows_len d fs x : fswf d fs -> 0 < cnt (T fs) x -> length x = a.
  Proof.
    intros W p. apply cnt_pos_in in p. unfold T in p. apply in_flat_map in p as [ht [i ix]].
    unfold fswf in W. rewrite Forall_forall in W.
    apply (good_rows_len (fst ht) (snd ht) x (swf_good _ _ _ (W _ i)) ix).
  Qed.

  Lemma has_prefix_cons key p d (x : row) :
    d < length x ->
    has_prefix (key :: p) (skipn d x) = N.eqb (head d x) key && has_prefix p (skipn (S d) x).
  Proof.
    intros L. rewrite (@skipn_head d x L). unfold has_prefix. cbn [length firstn row_eqb].
    rewrite N.eqb_sym. reflexivity.
  Qed.

  (* ColtGet::get along a path: nothing is lost, the forest stays well-formed, and the result
     forest holds exactly the rows whose columns d, d+1, ... start with the path *)
  Theorem colt_get_spec path : forall d fs,
    map fst fs = seq 0 (length fs) -> fswf d fs -> d + length fs <= S a ->
    (path = [] \/ length path < length fs) ->
    let res := colt_get_path k a d fs path in
    map fst (fst res) = map fst fs /\ fswf d (fst res) /\
    (forall x, cnt (T (fst res)) x = cnt (T fs) x) /\
    (forall x, cnt (concat (snd res)) x = if has_prefix path (skipn d x) then cnt (T fs) x else 0).
  Proof.
    induction path as [|key path IH]; intros d fs Sh W Sz Pl; cbn zeta.
    - cbn [colt_get_path fst snd]. split; [reflexivity|]. split; [exact W|]. split; [reflexivity|].
      intros x. unfold T. rewrite flat_map_concat_map. reflexivity.
    - destruct Pl as [e|Pl]; [discriminate|]. cbn [length] in Pl.
      destruct fs as [|[h0 lf] [|[h1 t1] rest]]; cbn [length] in Pl; try lia.
      cbn [map fst length seq] in Sh. inversion Sh as [[E0 E1 Er]]. subst h0 h1.
      inversion W as [|? ? W0 W1r]; subst. inversion W1r as [|? ? W1 Wr]; subst. cbn [fst snd] in W0, W1.
      destruct lf as [st f|]; [|contradiction].
      destruct (sforce_drain_cnt multi apos f d W0) as (st' & t' & Efd & G' & Z' & Gt' & Ct').
      assert (Wt' : swf 1 d t').
      { unfold sforce_drain in Efd. destruct (st_drain st) as [rows st''] eqn:Ed.
        inversion Efd; subst. apply sinsert_all_swf; [apply swf_sempty|].
        pose proof (st_drain_rows st) as Er'. rewrite Ed in Er'. cbn [fst] in Er'. rewrite Er'.
        destruct (good_rows_arity multi W0) as [Fi _]. exact Fi. }
      pose proof (smerge_swf 1 d t1 t' W1 Wt') as Wm.
      destruct (smerge_cnt multi apos 1 t1 t' (swf_good _ _ _ W1) Gt') as [_ Cm].
      cbn [colt_get_path]. unfold colt_force_first. rewrite Efd.
      set (merged := fst (smerge 1 t1 t')) in *.
      set (going := (1, merged) :: rest).
      assert (Hh : Forall (fun ht : nat * sght => 1 <= fst ht) going).
      { apply Forall_forall. intros ht i. assert (j : In (fst ht) (map fst going)) by (apply in_map, i).
        unfold going in j. cbn [map fst] in j. rewrite Er in j. change (1 :: seq 2 (length rest)) with (seq 1 (S (length rest))) in j.
        apply in_seq in j. lia. }
      assert (Wg : fswf d going) by (constructor; assumption).
      pose proof (down_spec key d going Hh Wg) as D. cbn zeta in D.
      change (map (fun ht : nat * sght =>
                     let '(t'0, c) := child_or_default k a (fst ht) (snd ht) key in
                     (fst ht, t'0, (Nat.pred (fst ht), c))) going) with (map (downf key) going).
      set (dn := map (downf key) going) in *.
      destruct D as (E1 & E2 & F1 & F2 & C1 & C2 & Lk).
      assert (Esubs : map fst (map snd dn) = seq 0 (length (map snd dn))).
      { rewrite E2. unfold going. cbn [map fst]. rewrite Er.
        change (1 :: seq 2 (length rest)) with (seq 1 (S (length rest))). rewrite map_pred_seq.
        f_equal. unfold dn. rewrite !map_length. reflexivity. }
      assert (Lsubs : length (map snd dn) = S (length rest)) by (unfold dn; rewrite !map_length; reflexivity).
      specialize (IH (S d) (map snd dn) Esubs F2 ltac:(cbn [length] in Sz; lia)
                     ltac:(destruct path; [left; reflexivity|right; cbn [length] in *; lia])).
      cbn zeta in IH. destruct (colt_get_path k a (S d) (map snd dn) path) as [subs' obs].
      cbn [fst snd] in IH. destruct IH as (Es' & Ws' & Cs' & Co).
      assert (Hd : forall x, 0 < cnt (T subs') x -> head d x = key).
      { intros x p. rewrite Cs', C2 in p. destruct (N.eqb_spec (head d x) key); [assumption|lia]. }
      destruct (writeback key d (map fst dn) (map snd dn) Lk subs' F1 Es' Ws' Hd) as (Eg & Fg & Cg).
      cbn zeta in Eg, Fg, Cg. cbn [fst snd app].
      assert (Cgoing : forall x, cnt (T going) x = cnt (T ((0, SLeaf st f) :: (1, t1) :: rest)) x).
      { intros x. unfold going. rewrite !T_cons. cbn [fst snd]. unfold merged. rewrite Cm, Ct'.
        change (sriter 0 (SLeaf st f)) with (st_iter st). lia. }
      split; [|split; [|split]].
      + cbn [map fst]. rewrite Eg, E1. unfold going. cbn [map fst]. reflexivity.
      + constructor; [exact G'|exact Fg].
      + intros x. rewrite T_cons. cbn [fst snd]. change (sriter 0 (SLeaf st' true)) with (st_iter st').
        rewrite Z'. specialize (Cg x).
        rewrite Cs' in Cg. rewrite <- Cgoing, <- C1. lia.
      + intros x. rewrite Co, C2, Cgoing.
        set (tot := cnt (T ((0, SLeaf st f) :: (1, t1) :: rest)) x).
        destruct (Nat.eq_dec tot 0) as [z|nz].
        * rewrite z. destruct (has_prefix path (skipn (S d) x)), (N.eqb (head d x) key),
            (has_prefix (key :: path) (skipn d x)); reflexivity.
        * assert (Lx : length x = a).
          { apply (fswf_rows_len d ((0, SLeaf st f) :: (1, t1) :: rest) x W). fold tot. lia. }
          rewrite has_prefix_cons by (cbn [length] in Sz; lia).
          destruct (N.eqb (head d x) key), (has_prefix path (skipn (S d) x)); reflexivity.
  Qed.

  (* ---------------------------------------------------------------- COLT histories *)
  Definition cop_ok (o : cop) : Prop :=
    match o with
    | CInsert r => length r = a
    | CGet path => length path <= a
    | CAll => True
    end.
  Definition cinv (fs : list (nat * sght)) (all : bag) : Prop :=
    map fst fs = seq 0 (S a) /\ fswf 0 fs /\ forall x, cnt (T fs) x = cnt all x.

  Lemma cinv_len fs all : cinv fs all -> length fs = S a.
  Proof. intros [E _]. rewrite <- (map_length fst), E, seq_length. reflexivity. Qed.

  Lemma crun_spec ops : forall fs all,
    cinv fs all -> Forall cop_ok ops -> cspec_holds all ops (crun_from k a fs ops) = true.
  Proof.
    induction ops as [|o ops IH]; intros fs all I F; [reflexivity|].
    inversion F as [|? ? Ok F']; subst. pose proof (cinv_len fs all I) as Lf.
    destruct I as (Sh & W & C). cbn [crun_from cspec_holds].
    destruct o as [r|path|]; cbn [cstep cspec_step cop_ok] in *.
    - (* insert into the first (leaf) trie *)
      destruct fs as [|[h0 t0] rest]; [discriminate|]. cbn [map fst seq] in Sh.
      inversion Sh as [[E0 Er]]. subst h0. inversion W as [|? ? W0 Wr]; subst. cbn [fst snd] in W0.
      cbn [cans_holds andb]. apply IH; [|assumption]. split; [|split].
      + cbn [map fst seq]. f_equal. exact Er.
      + constructor; [apply sinsert_swf; assumption|exact Wr].
      + intros x. rewrite T_cons. cbn [fst snd].
        destruct (sinsert_cnt multi apos 0 0 t0 r (swf_good _ _ _ W0) Ok) as [_ Ci].
        rewrite Ci, cnt_app, cnt_one, <- C, T_cons. cbn [fst snd]. lia.
    - (* get along a path *)
      assert (Sh' : map fst fs = seq 0 (length fs)) by (rewrite Lf; exact Sh).
      pose proof (colt_get_spec path 0 fs Sh' W ltac:(lia)
                    ltac:(destruct path; [left; reflexivity|right; cbn [length] in *; lia])) as G.
      cbn zeta in G. destruct (colt_get_path k a 0 fs path) as [fs' obs]. cbn [fst snd] in G.
      destruct G as (E' & W' & C' & Co). cbn [cans_holds].
      assert (B : bag_eqb (concat obs) (filter (has_prefix path) all) = true).
      { apply bag_eqb_spec. intros x. rewrite Co, cnt_filter, C. cbn [skipn]. reflexivity. }
      rewrite B. cbn [andb]. apply IH; [|assumption]. split; [|split].
      + rewrite E'. exact Sh.
      + exact W'.
      + intros x. rewrite C'. apply C.
    - (* all rows *)
      cbn [cans_holds].
      assert (B : bag_eqb (concat (map (fun ht : nat * sght => sriter (fst ht) (snd ht)) fs)) all = true).
      { apply bag_eqb_spec. intros x. rewrite <- flat_map_concat_map. apply C. }
      rewrite B. cbn [andb]. apply IH; [|assumption]. split; [|split]; assumption.
  Qed.

  Lemma colt_new_inv : cinv (colt_new k a (S a)) [].
  Proof.
    unfold colt_new. split; [|split].
    - rewrite map_map. cbn [fst]. apply map_id.
    - apply Forall_forall. intros ht i. apply in_map_iff in i as [h [<- _]]. cbn [fst snd]. apply swf_sempty.
    - intros x. cbn [cnt]. generalize (seq 0 (S a)). intros l. induction l as [|h l IHl]; [reflexivity|].
      cbn [map]. rewrite T_cons. cbn [fst snd]. rewrite (sriter_sempty a multi h x), IHl. reflexivity.
  Qed.

  (* every COLT history (insert / get along any path / all) on the model answers as the plain
     multiset of rows does: get returns exactly the rows with the prefix, nothing is lost *)
  Theorem colt_history ops :
    Forall cop_ok ops -> cspec_holds [] ops (cmodel_run k a (S a) ops) = true.
  Proof. intros F. unfold cmodel_run. apply crun_spec; [apply colt_new_inv|exact F]. Qed.
End Colt.
