(* E2 Coll engine -- proofs about the extended GHT model (ModelGHT2): the two recorded
   deviations, and conservation of the multiset of rows by insert / merge_node / force_drain for
   the multiset leaf storages (counted hash set, column multiset). *)
From HV Require Import Coll.ModelGHT2 Coll.PVC Coll.PGHT.
From Coq Require Import Permutation.

Set Implicit Arguments.
Local Arguments N.eqb : simpl never.
Local Arguments mem : simpl never.
Local Arguments Nat.ltb : simpl never.

(* ------------------------------------------------------------------ recorded findings *)
(* FORMER FINDING, fixed in /repo by beb89003dcf: GhtLeaf's derived PartialEq compared the COLT
   flag `forced`, so after force_drain == said false where the sets are equal (and partial_cmp
   says Equal).  Former theorem C08_forced_eq_refuted: on [forced_ops] the model answered
   [true; Some [[1;1]]; Eq; false] where [true; Some [[1;1]]; Eq; true] is specified.  The
   history is corpus/C08/forced_flag_eq.json (run first on every check); with the fixed ==
   transcribed, model and specification agree: *)
Definition forced_ops : list xop :=
  [XInsert false [1; 1]; XForceDrain false; XCmp false; XEq false]%N.
Lemma forced_eq_now_agrees :
  xmodel_run KSet 2 0 forced_ops = xspec_run KSet 0 forced_ops /\
  xspec_run KSet 0 forced_ops = [XABool true; XAOptRows (Some [[1; 1]%N]); XACmp (PSome Eq); XABool true].
Proof. split; vm_compute; reflexivity. Qed.

(* FORMER FINDING, fixed in /repo by c041ccb5709: an emptied child (get_mut + drain, COLT get)
   stayed in GhtInner::children and counted as content -- on [empty_child_ops] the model answered
   partial_cmp = Greater, == false, merge changed = true where Equal / true / false are
   specified (former theorem C08_empty_child_refuted).  The history is
   corpus/C08/empty_child_cmp.json (run first on every check); with the fixed code transcribed
   (has_rows), model and specification agree: *)
Definition empty_child_ops : list xop :=
  [XInsert false [1; 10]; XChildDrain false 1; XIter false; XIsBot false; XCmp false; XEq false;
   XMerge true]%N.
Lemma empty_child_now_agrees :
  xmodel_run KSet 2 1 empty_child_ops = xspec_run KSet 1 empty_child_ops /\
  xspec_run KSet 1 empty_child_ops =
    [XABool true; XAOptRows (Some [[1; 10]%N]); XARows []; XABool true; XACmp (PSome Eq);
     XABool true; XABool false].
Proof. split; vm_compute; reflexivity. Qed.

(* ------------------------------------------------------------------ leaves: lifting PVC's refinement *)
Section Multiset.
  Variables (k : kind) (a : nat).
  Hypothesis multi : k <> KSet.
  Hypothesis apos : 0 < a.

  (* a leaf storage that refines some bag of rows of arity a *)
  Definition leaf_good (st : cstate) : Prop :=
    exists hist, R k a st hist /\ Forall (fun r => length r = a) hist.

  Lemma good_iter st hist x : R k a st hist -> cnt (st_iter st) x = cnt hist x.
  Proof.
    destruct k, st as [s|s|s]; cbn [R]; try contradiction; try congruence; intros Rs.
    - destruct Rs as (_ & _ & C & _). apply C.
    - destruct Rs as (_ & Z & _). cbn [st_iter]. unfold cm_iter. rewrite Z. reflexivity.
  Qed.

  Lemma good_into_iter st hist x : R k a st hist -> cnt (st_into_iter st) x = cnt hist x.
  Proof.
    destruct k, st as [s|s|s]; cbn [R]; try contradiction; try congruence; intros Rs.
    - cbn [st_into_iter]. rewrite cs_into_iter_expand. destruct Rs as (_ & _ & C & _). apply C.
    - destruct Rs as (_ & Z & _). cbn [st_into_iter]. unfold cm_into_iter. rewrite Z. reflexivity.
  Qed.

  Lemma rows_ok_intro rs : Forall (fun r => length r = a) rs -> rows_ok k a rs.
  Proof. intros F _. split; assumption. Qed.

  Lemma good_insert st r : leaf_good st -> length r = a ->
    leaf_good (st_insert st r) /\
    forall x, cnt (st_iter (st_insert st r)) x = cnt (st_iter st) x + (if row_eqb x r then 1 else 0).
  Proof.
    intros (hist & Rs & F) Lr.
    assert (ok : rows_ok k a (sop_rows (SInsert r))) by (apply rows_ok_intro; repeat constructor; assumption).
    pose proof (@sstep_refines k a st hist (SInsert r) Rs ok) as [R' _].
    assert (E : fst (sstep st (SInsert r)) = st_insert st r).
    { destruct st as [s|s|s]; cbn; [destruct (hs_insert s r)|destruct (cs_insert s r)|destruct (cm_insert s r)];
        reflexivity. }
    rewrite E in R'. cbn [spec_sstep fst] in R'. split.
    - exists (hist ++ [r]). split; [assumption|]. apply Forall_app. split; [assumption|repeat constructor; assumption].
    - intros x. rewrite (@good_iter _ _ x R'), (@good_iter _ _ x Rs), cnt_app, cnt_one. reflexivity.
  Qed.

  Lemma good_extend st rs : leaf_good st -> Forall (fun r => length r = a) rs ->
    leaf_good (st_extend st rs) /\
    forall x, cnt (st_iter (st_extend st rs)) x = cnt (st_iter st) x + cnt rs x.
  Proof.
    intros (hist & Rs & F) Frs.
    pose proof (@sstep_refines k a st hist (SExtend rs) Rs (rows_ok_intro Frs)) as [R' _].
    assert (E : fst (sstep st (SExtend rs)) = st_extend st rs) by (destruct st; reflexivity).
    rewrite E in R'. cbn [spec_sstep fst] in R'. split.
    - exists (hist ++ rs). split; [assumption|]. apply Forall_app. split; assumption.
    - intros x. rewrite (@good_iter _ _ x R'), (@good_iter _ _ x Rs), cnt_app. reflexivity.
  Qed.

  Lemma good_new : leaf_good (new_state k a).
  Proof. exists []. split; [apply new_state_R|constructor]. Qed.

  Lemma good_rows_arity st : leaf_good st ->
    Forall (fun r => length r = a) (st_iter st) /\ Forall (fun r => length r = a) (st_into_iter st).
  Proof.
    intros (hist & Rs & F). rewrite Forall_forall in F.
    split; apply Forall_forall; intros r i; apply F; apply cnt_pos_in; apply cnt_pos_in in i.
    - rewrite <- (@good_iter _ _ r Rs). assumption.
    - rewrite <- (@good_into_iter _ _ r Rs). assumption.
  Qed.

  (* ---------------------------------------------------------------- tries *)
  Fixpoint good (h : nat) (t : sght) : Prop :=
    match h, t with
    | 0, SLeaf st _ => leaf_good st
    | S h', SInner ch => Forall (fun kc => good h' (snd kc)) ch
    | _, _ => False
    end.

  Definition srows (h : nat) (ch : list (N * sght)) : list row :=
    flat_map (fun kc => sriter h (snd kc)) ch.

  Lemma srows_app h x y : srows h (x ++ y) = srows h x ++ srows h y.
  Proof. apply flat_map_app. Qed.
  Lemma srows_cons h key v rest : srows h ((key, v) :: rest) = sriter h v ++ srows h rest.
  Proof. reflexivity. Qed.
  Lemma srows_one h key v : srows h [(key, v)] = sriter h v.
  Proof. unfold srows. cbn. apply app_nil_r. Qed.

  Lemma good_sempty h : good h (sempty k a h).
  Proof. destruct h; cbn; [apply good_new|constructor]. Qed.

  Lemma sriter_sempty h x : cnt (sriter h (sempty k a h)) x = 0.
  Proof.
    destruct h; [|reflexivity]. cbn [sempty sriter].
    rewrite (@good_iter _ [] x (new_state_R k a)). reflexivity.
  Qed.

  (* insert adds exactly one occurrence of the row, whatever the shape *)
  Lemma sinsert_cnt h : forall d t r, good h t -> length r = a ->
    good h (sinsert k a h d t r) /\
    forall x, cnt (sriter h (sinsert k a h d t r)) x = cnt (sriter h t) x + (if row_eqb x r then 1 else 0).
  Proof.
    induction h as [|h IH]; intros d t r G Lr.
    - destruct t as [st f|]; [|contradiction]. cbn in *. apply good_insert; assumption.
    - destruct t as [|ch]; [contradiction|]. cbn [good] in G. cbn [sinsert sriter good].
      fold (srows h ch).
      set (key := head d r). set (f := fun c => sinsert k a h (S d) c r).
      assert (L : Forall (fun kc => good h (snd kc)) (scupd ch key (sempty k a h) f) /\
                  forall x, cnt (srows h (scupd ch key (sempty k a h) f)) x =
                            cnt (srows h ch) x + (if row_eqb x r then 1 else 0)).
      { induction ch as [|[k' c] ch IHch].
        - destruct (IH (S d) (sempty k a h) r (good_sempty h) Lr) as [G' C'].
          cbn [scupd]. split; [repeat constructor; exact G'|].
          intros x. unfold srows. cbn [flat_map snd]. rewrite app_nil_r. unfold f.
          rewrite C', sriter_sempty. reflexivity.
        - inversion G as [|? ? Gc Gch]; subst. cbn [scupd]. destruct (N.eqb key k').
          + destruct (IH (S d) c r Gc Lr) as [G' C']. split; [constructor; assumption|].
            intros x. unfold srows. cbn [flat_map snd]. rewrite !cnt_app. unfold f. rewrite C'. lia.
          + destruct (IHch Gch) as [G' C']. split; [constructor; assumption|].
            intros x. unfold srows in *. cbn [flat_map snd]. rewrite !cnt_app, C'. lia. }
      exact L.
  Qed.

  Lemma sinsert_all h d rs : forall t, good h t -> Forall (fun r => length r = a) rs ->
    good h (fold_left (fun t r => sinsert k a h d t r) rs t) /\
    forall x, cnt (sriter h (fold_left (fun t r => sinsert k a h d t r) rs t)) x =
              cnt (sriter h t) x + cnt rs x.
  Proof.
    induction rs as [|r rs IH]; intros t G F; cbn [fold_left].
    - split; [assumption|]. intros x. cbn. lia.
    - inversion F; subst. destruct (sinsert_cnt h d t r G) as [G1 C1]; [assumption|].
      destruct (IH _ G1) as [G2 C2]; [assumption|]. split; [assumption|].
      intros x. rewrite C2, C1. cbn [cnt]. lia.
  Qed.

  Lemma screplace_cnt h ch key c c' x :
    scget ch key = Some c ->
    cnt (srows h (screplace ch key c')) x + cnt (sriter h c) x = cnt (srows h ch) x + cnt (sriter h c') x.
  Proof.
    induction ch as [|[k' c0] ch IH]; [discriminate|]. cbn [scget screplace].
    destruct (N.eqb key k').
    - intros [= ->]. unfold srows. cbn [flat_map snd]. rewrite !cnt_app. lia.
    - intros G. specialize (IH G). unfold srows in *. cbn [flat_map snd]. rewrite !cnt_app. lia.
  Qed.

  Lemma scget_good h ch key c : Forall (fun kc => good h (snd kc)) ch -> scget ch key = Some c -> good h c.
  Proof.
    induction 1 as [|[k' c0] ch G F IH]; [discriminate|]. cbn [scget].
    destruct (N.eqb key k'); [intros [= <-]; exact G|exact IH].
  Qed.

  Lemma screplace_good h ch key c :
    Forall (fun kc => good h (snd kc)) ch -> good h c -> Forall (fun kc => good h (snd kc)) (screplace ch key c).
  Proof.
    induction 1 as [|[k' c0] ch G F IH]; intros Gc; cbn [screplace]; [constructor|].
    destruct (N.eqb key k'); constructor; auto.
  Qed.

  (* merge_node conserves the multiset: rows(merge a b) = rows a + rows b *)
  Lemma smerge_cnt h : forall t u, good h t -> good h u ->
    good h (fst (smerge h t u)) /\
    forall x, cnt (sriter h (fst (smerge h t u))) x = cnt (sriter h t) x + cnt (sriter h u) x.
  Proof.
    induction h as [|h IH]; intros t u Gt Gu.
    - destruct t as [sa fa|], u as [sb fb|]; try contradiction. cbn [smerge fst sriter good] in *.
      destruct (good_rows_arity Gu) as [_ Fb].
      destruct (good_extend Gt Fb) as [G' C']. split; [exact G'|].
      intros x. rewrite C'. f_equal. destruct Gu as (hb & Rb & _).
      rewrite (@good_into_iter _ _ x Rb), (@good_iter _ _ x Rb). reflexivity.
    - destruct t as [|ca], u as [|cb]; try contradiction. cbn [good] in Gt, Gu. cbn [smerge].
      set (stepf := fun (acc : list (N * sght) * bool) (kv : N * sght) =>
                      let '(ca, changed) := acc in
                      match scget ca (fst kv) with
                      | Some c => let '(c', chg) := smerge h c (snd kv) in
                                  (screplace ca (fst kv) c', changed || chg)
                      | None => (ca ++ [kv], changed || shas_rows h (snd kv))
                      end).
      assert (L : forall rest cur chg, Forall (fun kc => good h (snd kc)) cur ->
                    Forall (fun kc => good h (snd kc)) rest ->
                    Forall (fun kc => good h (snd kc)) (fst (fold_left stepf rest (cur, chg))) /\
                    forall x, cnt (srows h (fst (fold_left stepf rest (cur, chg)))) x =
                              cnt (srows h cur) x + cnt (srows h rest) x).
      { induction rest as [|[key v] rest IHr]; intros cur chg Gc Gr; cbn [fold_left].
        - cbn [fst]. split; [assumption|]. intros x. change (srows h []) with (@nil row). cbn [cnt]. lia.
        - inversion Gr as [|? ? Gv Gr']; subst. cbn [snd] in Gv.
          assert (Estep : stepf (cur, chg) (key, v) =
                          match scget cur key with
                          | Some c => let '(c', g) := smerge h c v in (screplace cur key c', chg || g)
                          | None => (cur ++ [(key, v)], chg || shas_rows h v)
                          end) by reflexivity.
          rewrite Estep. clear Estep. destruct (scget cur key) as [c|] eqn:G.
          + pose proof (@scget_good h cur key c Gc G) as Gcc. destruct (IH c v Gcc Gv) as [G' C'].
            destruct (smerge h c v) as [c' g]. cbn [fst] in G', C'.
            destruct (IHr (screplace cur key c') (chg || g)) as [G2 C2];
              [apply screplace_good; assumption|assumption|].
            split; [exact G2|]. intros x. rewrite C2.
            pose proof (@screplace_cnt h cur key c c' x G) as Q. rewrite C' in Q.
            rewrite srows_cons, cnt_app. lia.
          + destruct (IHr (cur ++ [(key, v)]) (chg || shas_rows h v)) as [G2 C2];
              [apply Forall_app; split; [assumption|repeat constructor; assumption]|assumption|].
            split; [exact G2|]. intros x. rewrite C2, srows_app, srows_one, srows_cons, !cnt_app. lia. }
      destruct (L cb ca false Gt Gu) as [G' C'].
      destruct (fold_left stepf cb (ca, false)) as [ca' changed]. cbn [fst sriter good] in *.
      split; [exact G'|exact C'].
  Qed.

  (* force_drain: the leaf is left empty and forced, the new trie holds exactly its rows *)
  Lemma sforce_drain_cnt st f d :
    leaf_good st ->
    exists st' t', sforce_drain k a 0 d (SLeaf st f) = (SLeaf st' true, Some t') /\
      leaf_good st' /\ (forall x, cnt (st_iter st') x = 0) /\ good 1 t' /\
      forall x, cnt (sriter 1 t') x = cnt (st_iter st) x.
  Proof.
    intros G. pose proof G as (hist & Rs & F).
    assert (ok : rows_ok k a (sop_rows SDrain)) by (apply rows_ok_intro; constructor).
    pose proof (@sstep_refines k a st hist SDrain Rs ok) as [R' A].
    cbn [sforce_drain].
    assert (E : exists rows st', st_drain st = (rows, st') /\ sstep st SDrain = (st', ARows rows)).
    { destruct st as [s|s|s]; cbn; eexists; eexists; split; reflexivity. }
    destruct E as (rows & st' & Ed & Es). rewrite Ed. rewrite Es in R', A. cbn [fst snd spec_sstep] in R', A.
    assert (Crows : forall x, cnt rows x = cnt (st_iter st) x).
    { intros x. rewrite (@good_iter _ _ x Rs). cbn in A. apply bag_eqb_spec with (r := x) in A.
      rewrite A. destruct k; try congruence; reflexivity. }
    assert (Frows : Forall (fun r => length r = a) rows).
    { rewrite Forall_forall in F. apply Forall_forall. intros r i. apply F.
      apply cnt_pos_in. rewrite <- (@good_iter _ _ r Rs), <- Crows. apply cnt_pos_in, i. }
    destruct (@sinsert_all 1 d rows (sempty k a 1) (good_sempty 1) Frows) as [G' C'].
    eexists. eexists. split; [reflexivity|]. split; [|split; [|split]].
    - exists []. split; [exact R'|constructor].
    - intros x. rewrite (@good_iter _ _ x R'). reflexivity.
    - exact G'.
    - intros x. rewrite C', Crows. cbn. reflexivity.
  Qed.
End Multiset.
