(* E2 Coll engine -- variadic collections (variadics/src/variadic_collections.rs).
   Definitions only.  Rows are [list N] of a fixed arity; every Rust operation is transcribed
   as a state-passing function.  The hashbrown table is modelled as what a correct open-addressing
   table is: an association list in insertion order, lookups by the row's own equality
   ([PartialEqVariadic::eq] / [eq_ref], i.e. item-wise [==]).  [reserve] is therefore a no-op
   of the model (the counted set's [reserve] call used to rehash by the wrong key -- C10 finding,
   fixed in /repo by 38aff06f64c). *)
From Coq Require Export List Bool NArith Arith Lia.
Export ListNotations.

Set Implicit Arguments.

Definition row := list N.

(* PartialEqVariadic::eq / eq_ref : item_self == item_other && rest.eq(rest_other) *)
Fixpoint row_eqb (a b : row) : bool :=
  match a, b with
  | [], [] => true
  | x :: a', y :: b' => N.eqb x y && row_eqb a' b'
  | _, _ => false
  end.

Definition is_some {A} (o : option A) : bool := match o with Some _ => true | None => false end.

(* ---------------------------------------------------------------- VariadicHashSet<T, S> *)
(* table: HashTable<T>  |->  duplicate-free list in insertion order *)
Definition hset := list row.

Definition hs_new : hset := [].
(* get: self.table.find(hash, |item| eq_ref(ref_var, item.as_ref_var())) *)
Definition hs_get (s : hset) (r : row) : option row := find (fun item => row_eqb r item) s.
(* insert: entry(hash, eq, hasher) { Occupied => false, Vacant => insert; true } *)
Definition hs_insert (s : hset) (r : row) : hset * bool :=
  match find (fun item => row_eqb r item) s with
  | Some _ => (s, false)
  | None => (s ++ [r], true)
  end.
Definition hs_len (s : hset) : nat := length s.
Definition hs_is_empty (s : hset) : bool := Nat.eqb (length s) 0.
(* drain: yields every element, leaves the table empty *)
Definition hs_drain (s : hset) : list row * hset := (s, []).
Definition hs_contains (s : hset) (r : row) : bool := is_some (hs_get s r).
Definition hs_iter (s : hset) : list row := s.
Definition hs_into_iter (s : hset) : list row := s.
(* extend: reserve(..) (no-op on the abstract table); iter.for_each(|k| { self.insert(k); }) *)
Definition hs_extend (s : hset) (rs : list row) : hset :=
  fold_left (fun s k => fst (hs_insert s k)) rs s.
(* PartialEq: len differs => false; else self.iter().all(|key| other.get(key).is_some()) *)
Definition hs_eq (a b : hset) : bool :=
  if negb (Nat.eqb (hs_len a) (hs_len b)) then false
  else forallb (fun key => is_some (hs_get b key)) (hs_iter a).

(* ---------------------------------------------------------------- VariadicCountedHashSet<K, S> *)
(* table: HashTable<(K, usize)>, len: usize *)
Record cset := { c_tbl : list (row * nat); c_len : nat }.

Definition cs_new : cset := {| c_tbl := []; c_len := 0 |}.
(* get: table.find(hash, |(key, _val)| eq_ref(ref_var, key.as_ref_var())) *)
Definition cs_get (s : cset) (r : row) : option (row * nat) :=
  find (fun e => row_eqb r (fst e)) (c_tbl s).
(* entry(hash, |(item,_)| eq(&element, item), ..).and_modify(|(_, count)| *count += 1)
     .or_insert((element, 1)) *)
Fixpoint tbl_bump (t : list (row * nat)) (r : row) : list (row * nat) :=
  match t with
  | [] => [(r, 1)]
  | (k, c) :: t' => if row_eqb r k then (k, c + 1) :: t' else (k, c) :: tbl_bump t' r
  end.
Definition cs_insert (s : cset) (r : row) : cset * bool :=
  ({| c_tbl := tbl_bump (c_tbl s) r; c_len := c_len s + 1 |}, true).
Definition cs_len (s : cset) : nat := c_len s.
Definition cs_is_empty (s : cset) : bool := Nat.eqb (cs_len s) 0.
(* flat_map(|(k, num)| (0..num).map(move |_i| k.clone())) *)
Definition expand (t : list (row * nat)) : list row :=
  flat_map (fun e => repeat (fst e) (snd e)) t.
(* drain: self.len = 0; self.table.drain().flat_map(..) *)
Definition cs_drain (s : cset) : list row * cset := (expand (c_tbl s), cs_new).
Definition cs_contains (s : cset) (r : row) : bool := is_some (cs_get s r).
Definition cs_iter (s : cset) : list row := expand (c_tbl s).

(* DuplicateCounted { iter, state }::next -- the loop is structural on [iter] *)
Definition dc_state := (list (row * nat) * option (row * nat))%type.
Fixpoint dc_next (iter : list (row * nat)) (st : option (row * nat)) {struct iter}
  : option (row * dc_state) :=
  match st with
  | Some (item, 1) => Some (item, (iter, None))            (* Some((item, 1)) => state = None; return *)
  | Some (item, S (S many')) => Some (item, (iter, Some (item, S many')))   (* clone, many - 1 *)
  | _ =>                                                   (* None | Some((_, 0)) => state = Some(iter.next()?) *)
    match iter with
    | [] => None
    | e :: iter' => dc_next iter' (Some e)
    end
  end.
Fixpoint dc_collect (fuel : nat) (iter : list (row * nat)) (st : option (row * nat)) : list row :=
  match fuel with
  | 0 => []
  | S f => match dc_next iter st with
           | None => []
           | Some (x, (iter', st')) => x :: dc_collect f iter' st'
           end
  end.
Definition tbl_total (t : list (row * nat)) : nat := fold_right (fun e acc => snd e + acc) 0 t.
(* into_iter: DuplicateCounted { iter: self.table.into_iter(), state: None }, run to exhaustion *)
Definition cs_into_iter (s : cset) : list row :=
  dc_collect (S (tbl_total (c_tbl s))) (c_tbl s) None.
Definition cs_extend (s : cset) (rs : list row) : cset :=
  fold_left (fun s k => fst (cs_insert s k)) rs s.
(* PartialEq: len differs => false; table.iter().all(|(key,count)| other.get(key) has == count) *)
Definition cs_eq (a b : cset) : bool :=
  if negb (Nat.eqb (cs_len a) (cs_len b)) then false
  else forallb (fun e => match cs_get b (fst e) with
                         | Some (_, match_val) => Nat.eqb match_val (snd e)
                         | None => false
                         end) (c_tbl a).

(* ---------------------------------------------------------------- VariadicColumnMultiset<Schema> *)
(* columns: Schema::IntoVec (one Vec per column), last_offset: usize *)
Record cmset := { m_cols : list (list N); m_off : nat }.

Definition cm_new (arity : nat) : cmset := {| m_cols := repeat [] arity; m_off := 0 |}.
(* core::iter::zip(this.iter(), rest.zip_vecs()) ; the () base case is an infinite repeat(()),
   so the last real column decides the length.  Arity 0 (an infinite iterator in Rust) is
   outside the model: [] |-> []. *)
Fixpoint zip_cons (c : list N) (rs : list row) : list row :=
  match c, rs with
  | x :: c', r :: rs' => (x :: r) :: zip_cons c' rs'
  | _, _ => []
  end.
Fixpoint zip_cols (cols : list (list N)) : list row :=
  match cols with
  | [] => []
  | [c] => map (fun x => [x]) c
  | c :: rest => zip_cons c (zip_cols rest)
  end.
(* VecVariadic::push: this_vec.push(this_col); rest_vecs.push(rest_cols) *)
Fixpoint push_cols (cols : list (list N)) (r : row) : list (list N) :=
  match cols, r with
  | c :: cols', x :: r' => (c ++ [x]) :: push_cols cols' r'
  | _, _ => []
  end.
(* into_singleton_vec *)
Definition singleton_cols (r : row) : list (list N) := map (fun x => [x]) r.
Definition cm_insert (s : cmset) (r : row) : cmset * bool :=
  ({| m_cols := if Nat.eqb (m_off s) 0 then singleton_cols r else push_cols (m_cols s) r;
      m_off := m_off s + 1 |}, true).
Definition cm_iter (s : cmset) : list row := zip_cols (m_cols s).
Definition cm_len (s : cmset) : nat := m_off s.
Definition cm_is_empty (s : cmset) : bool := Nat.eqb (cm_len s) 0.
(* drain: last_offset = 0; columns.drain(0..) -- every column Vec is emptied *)
Definition cm_drain (s : cmset) : list row * cmset :=
  (zip_cols (m_cols s), {| m_cols := map (fun _ => []) (m_cols s); m_off := 0 |}).
(* contains: self.iter().any(|t| eq_ref(t, value)) *)
Definition cm_contains (s : cmset) (r : row) : bool := existsb (fun t => row_eqb t r) (cm_iter s).
Definition cm_into_iter (s : cmset) : list row := zip_cols (m_cols s).
Definition cm_extend (s : cmset) (rs : list row) : cmset :=
  fold_left (fun s k => fst (cm_insert s k)) rs s.

(* ---------------------------------------------------------------- histories *)
Inductive kind := KSet | KCounted | KColumn.

(* operations on one collection *)
Inductive sop :=
| SInsert (r : row) | SExtend (rs : list row) | SDrain
| SContains (r : row) | SGet (r : row) | SLen | SIsEmpty | SIter | SIntoIter.
(* a history works on two collections (registers [false]/[true]) so that PartialEq is observable *)
Inductive op := On (w : bool) (o : sop) | OEq (w : bool).

(* what an operation returns (the observation); counts/lengths as N *)
Inductive ans :=
| ABool (b : bool) | ANum (n : N) | ARows (l : list row)
| AOptRow (o : option row) | AOptEnt (o : option (row * N)) | AUnit | AUnsupported.

Inductive cstate := SSet (s : hset) | SCnt (s : cset) | SCol (s : cmset).

Definition new_state (k : kind) (arity : nat) : cstate :=
  match k with KSet => SSet hs_new | KCounted => SCnt cs_new | KColumn => SCol (cm_new arity) end.

Definition opt_ent (o : option (row * nat)) : option (row * N) :=
  match o with Some (r, c) => Some (r, N.of_nat c) | None => None end.

Definition sstep (st : cstate) (o : sop) : cstate * ans :=
  match st with
  | SSet s =>
    match o with
    | SInsert r => let '(s', b) := hs_insert s r in (SSet s', ABool b)
    | SExtend rs => (SSet (hs_extend s rs), AUnit)
    | SDrain => let '(l, s') := hs_drain s in (SSet s', ARows l)
    | SContains r => (st, ABool (hs_contains s r))
    | SGet r => (st, AOptRow (hs_get s r))
    | SLen => (st, ANum (N.of_nat (hs_len s)))
    | SIsEmpty => (st, ABool (hs_is_empty s))
    | SIter => (st, ARows (hs_iter s))
    | SIntoIter => (st, ARows (hs_into_iter s))      (* on a clone *)
    end
  | SCnt s =>
    match o with
    | SInsert r => let '(s', b) := cs_insert s r in (SCnt s', ABool b)
    | SExtend rs => (SCnt (cs_extend s rs), AUnit)
    | SDrain => let '(l, s') := cs_drain s in (SCnt s', ARows l)
    | SContains r => (st, ABool (cs_contains s r))
    | SGet r => (st, AOptEnt (opt_ent (cs_get s r)))
    | SLen => (st, ANum (N.of_nat (cs_len s)))
    | SIsEmpty => (st, ABool (cs_is_empty s))
    | SIter => (st, ARows (cs_iter s))
    | SIntoIter => (st, ARows (cs_into_iter s))
    end
  | SCol s =>
    match o with
    | SInsert r => let '(s', b) := cm_insert s r in (SCol s', ABool b)
    | SExtend rs => (SCol (cm_extend s rs), AUnit)
    | SDrain => let '(l, s') := cm_drain s in (SCol s', ARows l)
    | SContains r => (st, ABool (cm_contains s r))
    | SGet r => (st, AUnsupported)                   (* no get on the column multiset *)
    | SLen => (st, ANum (N.of_nat (cm_len s)))
    | SIsEmpty => (st, ABool (cm_is_empty s))
    | SIter => (st, ARows (cm_iter s))
    | SIntoIter => (st, ARows (cm_into_iter s))
    end
  end.

Definition eq_ans (a b : cstate) : ans :=
  match a, b with
  | SSet x, SSet y => ABool (hs_eq x y)
  | SCnt x, SCnt y => ABool (cs_eq x y)
  | _, _ => AUnsupported                             (* VariadicColumnMultiset has no PartialEq *)
  end.

Definition sel {A} (w : bool) (p : A * A) : A := if w then snd p else fst p.
Definition upd {A} (w : bool) (p : A * A) (x : A) : A * A := if w then (fst p, x) else (x, snd p).

Definition step (p : cstate * cstate) (o : op) : (cstate * cstate) * ans :=
  match o with
  | On w so => let '(s', a) := sstep (sel w p) so in (upd w p s', a)
  | OEq w => (p, eq_ans (sel w p) (sel (negb w) p))
  end.

Fixpoint run_from (p : cstate * cstate) (ops : list op) : list ans :=
  match ops with
  | [] => []
  | o :: ops' => let '(p', a) := step p o in a :: run_from p' ops'
  end.
Definition model_run (k : kind) (arity : nat) (ops : list op) : list ans :=
  run_from (new_state k arity, new_state k arity) ops.

(* ---------------------------------------------------------------- the specification
   The abstract object is the bag of rows inserted since the last drain; everything the
   specification answers depends on it only through the count function [cnt h : row -> nat]
   (multiset) resp. the membership predicate [0 < cnt h r] (set). *)
Definition bag := list row.
Fixpoint cnt (h : bag) (r : row) : nat :=
  match h with
  | [] => 0
  | x :: h' => (if row_eqb r x then 1 else 0) + cnt h' r
  end.
Definition mem (h : bag) (r : row) : bool := Nat.ltb 0 (cnt h r).
Fixpoint distinct (h : bag) : list row :=
  match h with
  | [] => []
  | x :: h' => if mem h' x then distinct h' else x :: distinct h'
  end.
(* rows a collection of kind [k] holds, each with its multiplicity *)
Definition contents (k : kind) (h : bag) : list row :=
  match k with KSet => distinct h | _ => h end.

(* multiset equality of two row lists *)
Definition bag_eqb (l1 l2 : list row) : bool :=
  forallb (fun r => Nat.eqb (cnt l1 r) (cnt l2 r)) (l1 ++ l2).
(* same members *)
Definition set_eqb (l1 l2 : list row) : bool :=
  forallb (mem l2) l1 && forallb (mem l1) l2.

Definition spec_sstep (k : kind) (h : bag) (o : sop) : bag * ans :=
  match o with
  | SInsert r => (h ++ [r], ABool (match k with KSet => negb (mem h r) | _ => true end))
  | SExtend rs => (h ++ rs, AUnit)
  | SDrain => ([], ARows (contents k h))
  | SContains r => (h, ABool (mem h r))
  | SGet r => (h, match k with
                  | KSet => AOptRow (if mem h r then Some r else None)
                  | KCounted => AOptEnt (if mem h r then Some (r, N.of_nat (cnt h r)) else None)
                  | KColumn => AUnsupported
                  end)
  | SLen => (h, ANum (N.of_nat (length (contents k h))))
  | SIsEmpty => (h, ABool (Nat.eqb (length h) 0))
  | SIter => (h, ARows (contents k h))
  | SIntoIter => (h, ARows (contents k h))
  end.

Definition spec_eq (k : kind) (ha hb : bag) : ans :=
  match k with
  | KSet => ABool (set_eqb ha hb)
  | KCounted => ABool (bag_eqb ha hb)
  | KColumn => AUnsupported
  end.

Definition spec_step (k : kind) (p : bag * bag) (o : op) : (bag * bag) * ans :=
  match o with
  | On w so => let '(h', a) := spec_sstep k (sel w p) so in (upd w p h', a)
  | OEq w => (p, spec_eq k (sel w p) (sel (negb w) p))
  end.
Fixpoint spec_from (k : kind) (p : bag * bag) (ops : list op) : list ans :=
  match ops with
  | [] => []
  | o :: ops' => let '(p', a) := spec_step k p o in a :: spec_from k p' ops'
  end.
Definition spec_run (k : kind) (ops : list op) : list ans := spec_from k ([], []) ops.

(* ---------------------------------------------------------------- comparing observations
   Row lists are compared as multisets (hash iteration order is not part of the contract;
   the harness sorts, the model keeps insertion order). *)
Definition opt_eqb {A} (e : A -> A -> bool) (x y : option A) : bool :=
  match x, y with
  | Some a, Some b => e a b
  | None, None => true
  | _, _ => false
  end.
Definition ans_eqb (x y : ans) : bool :=
  match x, y with
  | ABool a, ABool b => Bool.eqb a b
  | ANum a, ANum b => N.eqb a b
  | ARows a, ARows b => bag_eqb a b
  | AOptRow a, AOptRow b => opt_eqb row_eqb a b
  | AOptEnt a, AOptEnt b => opt_eqb (fun p q => row_eqb (fst p) (fst q) && N.eqb (snd p) (snd q)) a b
  | AUnit, AUnit => true
  | AUnsupported, AUnsupported => true
  | _, _ => false
  end.
Fixpoint answers_eqb (xs ys : list ans) : bool :=
  match xs, ys with
  | [], [] => true
  | x :: xs', y :: ys' => ans_eqb x y && answers_eqb xs' ys'
  | _, _ => false
  end.

(* rows of the right arity (the column multiset's zip needs arity >= 1) *)
Definition sop_rows (o : sop) : list row :=
  match o with
  | SInsert r | SContains r | SGet r => [r]
  | SExtend rs => rs
  | _ => []
  end.
Definition op_rows (o : op) : list row := match o with On _ so => sop_rows so | OEq _ => [] end.
Definition ops_arity_b (arity : nat) (ops : list op) : bool :=
  Nat.ltb 0 arity &&
  forallb (fun o => forallb (fun r => Nat.eqb (length r) arity) (op_rows o)) ops.

(* executable form of C10 on a history and the implementation's answers: every answer is the
   one the abstract set/multiset (computed from the history alone) gives *)
Definition C10_holds_b (k : kind) (ops : list op) (impl : list ans) : bool :=
  answers_eqb impl (spec_run k ops).

Definition verdict (agree holds : bool) : N :=
  ((if agree then 0 else 1) + (if holds then 0 else 2))%N.

(* per-case verdict: bit0 = implementation differs from the model, bit1 = C10 fails on the
   implementation's answers *)
Definition c10_chk (k : kind) (arity : nat) (ops : list op) (impl : list ans) : N :=
  verdict (answers_eqb impl (model_run k arity ops)) (C10_holds_b k ops impl).

Fixpoint bad_from (n : N) (l : list N) : list (N * N) :=
  match l with
  | [] => []
  | v :: r => if N.eqb v 0 then bad_from (n + 1) r else (n, v) :: bad_from (n + 1) r
  end.
Definition bad (l : list N) : list (N * N) := bad_from 0 l.
