(* E2 Coll engine -- generalized hash tries (lattices/src/ght/{mod,lattice}.rs).
   Definitions only.  A trie of height [h] over rows [list N]: the node at depth [d] is keyed on
   column [d]; leaves store whole rows in a VariadicHashSet (ModelVC.hset).  GhtInner's
   HashMap<Head, Node> is an association list in insertion order.  Rust's type-level height is the
   [h] argument of every function (recursion on [h]); [d] is the index of the node's head column. *)
From HV Require Export Coll.ModelVC.

Set Implicit Arguments.

Inductive ght := Leaf (rows : list row) | Inner (children : list (N * ght)).

(* Default::default() of the node type of height h *)
Definition empty (h : nat) : ght := match h with 0 => Leaf [] | S _ => Inner [] end.

(* HashMap::get *)
Fixpoint cget (ch : list (N * ght)) (k : N) : option ght :=
  match ch with
  | [] => None
  | (k', c) :: ch' => if N.eqb k k' then Some c else cget ch' k
  end.
(* HashMap::entry(k).or_default() / Occupied.get_mut(), then update the child in place;
   Vacant => the (updated) default is appended *)
Fixpoint cupd (ch : list (N * ght)) (k : N) (dflt : ght) (f : ght -> ght) : list (N * ght) :=
  match ch with
  | [] => [(k, f dflt)]
  | (k', c) :: ch' => if N.eqb k k' then (k', f c) :: ch' else (k', c) :: cupd ch' k dflt f
  end.

Definition head (d : nat) (r : row) : N := nth d r 0%N.

(* GeneralizedHashTrieNode::insert -- the returned bool is [true] on every path
   (leaf: `self.elements.insert(row); true`) *)
Fixpoint insert (h d : nat) (t : ght) (r : row) : ght :=
  match h, t with
  | 0, Leaf rows => Leaf (fst (hs_insert rows r))
  | S h', Inner ch => Inner (cupd ch (head d r) (empty h') (fun c => insert h' (S d) c r))
  | _, _ => t
  end.

(* contains: leaf `elements.iter().any(|r| eq_ref(r, row))`; inner: child by head, else false *)
Fixpoint contains (h d : nat) (t : ght) (r : row) : bool :=
  match h, t with
  | 0, Leaf rows => existsb (fun x => row_eqb x r) rows
  | S h', Inner ch => match cget ch (head d r) with
                      | Some c => contains h' (S d) c r
                      | None => false
                      end
  | _, _ => false
  end.

(* recursive_iter: children.values().flat_map(|vs| vs.recursive_iter()); leaf: elements.iter() *)
Fixpoint riter (h : nat) (t : ght) : list row :=
  match h, t with
  | 0, Leaf rows => rows
  | S h', Inner ch => flat_map (fun kc => riter h' (snd kc)) ch
  | _, _ => []
  end.

(* has_rows (repo commit c041ccb5709): node.recursive_iter().next().is_some() -- a child left
   without rows by drain / COLT get is not content; merge, partial_cmp and == skip it *)
Definition is_nil {A} (l : list A) : bool := match l with [] => true | _ => false end.
Definition has_rows (h : nat) (t : ght) : bool := negb (is_nil (riter h t)).

(* merge_node / Merge::merge (same code).  Leaf: old_len; extend; len > old_len.
   Inner: for (k, v) in other.children { Occupied => changed |= child.merge_node(v);
                                          Vacant => changed |= has_rows(&v); insert v } *)
Fixpoint creplace (ch : list (N * ght)) (k : N) (c : ght) : list (N * ght) :=
  match ch with
  | [] => []
  | (k', c') :: ch' => if N.eqb k k' then (k', c) :: ch' else (k', c') :: creplace ch' k c
  end.
Fixpoint merge (h : nat) (a b : ght) : ght * bool :=
  match h, a, b with
  | 0, Leaf ra, Leaf rb =>
      let s := hs_extend ra rb in (Leaf s, Nat.ltb (hs_len ra) (hs_len s))
  | S h', Inner ca, Inner cb =>
      let '(ca', changed) :=
        fold_left (fun (acc : list (N * ght) * bool) (kv : N * ght) =>
                     let '(ca, changed) := acc in
                     match cget ca (fst kv) with
                     | Some c => let '(c', chg) := merge h' c (snd kv) in
                                 (creplace ca (fst kv) c', changed || chg)
                     | None => (ca ++ [kv], changed || has_rows h' (snd kv))
                     end) cb (ca, false) in
      (Inner ca', changed)
  | _, _, _ => (a, false)
  end.

(* partial_cmp can panic: unreachable!() *)
Inductive pres := PSome (c : comparison) | PNone | PPanic.

(* the for loop of GhtInner::partial_cmp over self.keys().chain(other.keys()), with the flags;
   after each key: `if self_any_greater && other_any_greater { return None; }`
   (added by repo commit 40ab16e7935; before it the loop ran on and the final match reached
   unreachable!() on incomparable tries) *)
Fixpoint pcmp_loop (hr : ght -> bool) (f : ght -> ght -> pres) (ca cb : list (N * ght)) (ks : list N)
         (self_any_greater other_any_greater : bool) : pres :=
  match ks with
  | [] => match self_any_greater, other_any_greater with
          | true, false => PSome Gt
          | false, true => PSome Lt
          | false, false => PSome Eq
          | true, true => PPanic                      (* (true, true) => unreachable!() *)
          end
  | k :: ks' =>
    let next := fun sag oag => if sag && oag then PNone else pcmp_loop hr f ca cb ks' sag oag in
    match cget ca k, cget cb k with
    | Some x, Some y =>
      match f x y with                                (* self_value.partial_cmp(other_value)? *)
      | PSome Gt => next true other_any_greater
      | PSome Lt => next self_any_greater true
      | PSome Eq => next self_any_greater other_any_greater
      | PNone => PNone                                (* `?` : early return None *)
      | PPanic => PPanic
      end
    | Some x, None => next (self_any_greater || hr x) other_any_greater       (* |= has_rows(self_value) *)
    | None, Some y => next self_any_greater (other_any_greater || hr y)
    | None, None => PPanic                            (* unreachable!() *)
    end
  end.

Fixpoint pcmp (h : nat) (a b : ght) : pres :=
  match h, a, b with
  | 0, Leaf ra, Leaf rb =>
    match Nat.compare (hs_len ra) (hs_len rb) with
    | Gt => if forallb (fun tup => hs_contains ra tup) (hs_iter rb) then PSome Gt else PNone
    | Eq => if forallb (fun hd => hs_contains rb hd) (hs_iter ra) then PSome Eq else PNone
    | Lt => if forallb (fun hd => hs_contains rb hd) (hs_iter ra) then PSome Lt else PNone
    end
  | S h', Inner ca, Inner cb =>
    if is_nil ca && is_nil cb then PSome Eq
    else pcmp_loop (has_rows h') (pcmp h') ca cb (map fst ca ++ map fst cb) false false
  | _, _, _ => PPanic
  end.

(* PartialEq: leaf: elements == (the `forced` flag is ignored since beb89003dcf; not modelled
   here); inner (since c041ccb5709): children without rows are not content --
     live(t) = t.iter().filter(|head| t.get(head).is_some_and(has_rows)).count();
     live(self) == live(other), and every child of self that has rows == other's child *)
Definition live (h : nat) (ch : list (N * ght)) : nat :=
  length (filter (fun kc => match cget ch (fst kc) with Some c => has_rows h c | None => false end) ch).
Fixpoint peq (h : nat) (a b : ght) : bool :=
  match h, a, b with
  | 0, Leaf ra, Leaf rb => hs_eq ra rb
  | S h', Inner ca, Inner cb =>
    if negb (Nat.eqb (live h' ca) (live h' cb)) then false
    else forallb (fun kc => match cget ca (fst kc) with
                            | None => false
                            | Some t => if negb (has_rows h' t) then true
                                        else match cget cb (fst kc) with
                                             | Some o => peq h' t o
                                             | None => false
                                             end
                            end) ca
  | _, _, _ => false
  end.

(* IsBot *)
Fixpoint is_bot (h : nat) (t : ght) : bool :=
  match h, t with
  | 0, Leaf rows => hs_is_empty rows
  | S h', Inner ch => forallb (fun kc => is_bot h' (snd kc)) ch
  | _, _ => true
  end.

(* GhtPrefixIter::prefix_iter: inner + (head, ...rest) => child, recurse; inner + () =>
   recursive_iter; leaf => filter rows whose columns from [d] on start with the prefix *)
Fixpoint prefix_iter (h d : nat) (t : ght) (p : list N) : list row :=
  match h, t with
  | 0, Leaf rows => filter (fun r => row_eqb p (firstn (length p) (skipn d r))) rows
  | S h', Inner ch =>
    match p with
    | [] => riter (S h') t
    | x :: p' => match cget ch x with
                 | Some c => prefix_iter h' (S d) c p'
                 | None => []
                 end
    end
  | _, _ => []
  end.

(* find_containing_leaf: the elements of the leaf that holds the row *)
Fixpoint find_leaf (h d : nat) (t : ght) (r : row) : option (list row) :=
  match h, t with
  | 0, Leaf rows => if existsb (fun x => row_eqb r x) rows then Some rows else None
  | S h', Inner ch => match cget ch (head d r) with
                      | Some c => find_leaf h' (S d) c r
                      | None => None
                      end
  | _, _ => None
  end.

(* ---- the join bimorphisms (lattice.rs) ----
   GhtValTypeProductBimorphism on two leaves: every pair (a, b) gives  a ++ ValType-part-of-b,
   collected (FromIterator -> extend) into the output leaf's set storage.
   GhtNodeKeyedBimorphism: for head in ght_b.iter() { if let Some(get_a) = ght_a.get(&head)
     { children.insert(head, inner.call(get_a, ght_b.get(&head).unwrap())) } }.
   DeepJoinLatticeBimorphism = NodeKeyed nested once per key column over ValTypeProduct;
   [nk] is the number of key columns of the (common) input schema. *)
Fixpoint deep_join (h nk : nat) (a b : ght) : ght :=
  match h, a, b with
  | 0, Leaf ra, Leaf rb =>
      Leaf (hs_extend hs_new (flat_map (fun x => map (fun y => x ++ skipn nk y) rb) ra))
  | S h', Inner ca, Inner cb =>
      Inner (flat_map (fun kv : N * ght =>
                         match cget ca (fst kv) with
                         | Some va => [(fst kv, deep_join h' nk va (snd kv))]
                         | None => []
                         end) cb)
  | _, _, _ => empty h
  end.

(* GhtCartesianProductBimorphism applied at the two roots: all pairs a ++ b, collected with
   FromIterator (= insert one by one) into an output trie with [nko] key columns *)
Definition cart_product (h nko : nat) (a b : ght) : ght :=
  fold_left (fun t r => insert nko 0 t r)
            (flat_map (fun x => map (fun y => x ++ y) (riter h b)) (riter h a)) (empty nko).

(* ColtForestNode::force (colt.rs): only a leaf is forced -- a new GhtInner keyed on the first
   ValType column (column [d], the leaf's depth) over leaves with the remaining columns, filled
   with `for row in self.into_iter().unwrap() { retval.insert(row) }`; inner nodes give None.
   (force_drain and the `forced` flag are not modelled.) *)
Definition force (h d : nat) (t : ght) : option ght :=
  match h, t with
  | 0, Leaf rows => Some (fold_left (fun t r => insert 1 d t r) (hs_into_iter rows) (empty 1))
  | _, _ => None
  end.

(* ---------------------------------------------------------------- histories on two tries *)
Inductive gop :=
| GInsert (w : bool) (r : row)
| GMerge (w : bool)                 (* reg[w].merge_node(reg[!w].clone()) *)
| GContains (w : bool) (r : row)
| GIter (w : bool)
| GPrefix (w : bool) (p : list N)
| GLeaf (w : bool) (r : row)
| GCmp (w : bool)                   (* reg[w].partial_cmp(&reg[!w]) *)
| GEq (w : bool)
| GHeight (w : bool)
| GIsBot (w : bool)
| GJoin (w : bool)                  (* deep join of reg[w] with reg[!w]; rows of the output trie *)
| GCart (w : bool) (nko : nat)      (* cartesian product into a trie with nko key columns *)
| GForce (w : bool).                (* COLT force of (a clone of) reg[w]: rows of the forced trie *)

Inductive gans :=
| GABool (b : bool) | GANum (n : N) | GARows (l : list row) | GAOptRows (o : option (list row))
| GACmp (c : pres).

Definition gstep (nk : nat) (p : ght * ght) (o : gop) : (ght * ght) * gans :=
  match o with
  | GInsert w r => (upd w p (insert nk 0 (sel w p) r), GABool true)
  | GMerge w => let '(t, ch) := merge nk (sel w p) (sel (negb w) p) in (upd w p t, GABool ch)
  | GContains w r => (p, GABool (contains nk 0 (sel w p) r))
  | GIter w => (p, GARows (riter nk (sel w p)))
  | GPrefix w q => (p, GARows (prefix_iter nk 0 (sel w p) q))
  | GLeaf w r => (p, GAOptRows (find_leaf nk 0 (sel w p) r))
  | GCmp w => (p, GACmp (pcmp nk (sel w p) (sel (negb w) p)))
  | GEq w => (p, GABool (peq nk (sel w p) (sel (negb w) p)))
  | GHeight w => (p, GANum (N.of_nat nk))
  | GIsBot w => (p, GABool (is_bot nk (sel w p)))
  | GJoin w => (p, GARows (riter nk (deep_join nk nk (sel w p) (sel (negb w) p))))
  | GCart w nko => (p, GARows (riter nko (cart_product nk nko (sel w p) (sel (negb w) p))))
  | GForce w => (p, GAOptRows (option_map (riter 1) (force nk 0 (sel w p))))
  end.

Fixpoint grun_from (nk : nat) (p : ght * ght) (ops : list gop) : list gans :=
  match ops with
  | [] => []
  | o :: ops' => let '(p', a) := gstep nk p o in a :: grun_from nk p' ops'
  end.
Definition gmodel_run (nk : nat) (ops : list gop) : list gans :=
  grun_from nk (empty nk, empty nk) ops.

(* ---------------------------------------------------------------- the specification: a set of rows
   (the list of all rows inserted/merged so far, observed only through membership) *)
Definition subset_b (a b : bag) : bool := forallb (mem b) a.
Definition subset_cmp (a b : bag) : pres :=
  match subset_b a b, subset_b b a with
  | true, true => PSome Eq
  | true, false => PSome Lt
  | false, true => PSome Gt
  | false, false => PNone
  end.
Definition has_prefix (p : list N) (r : row) : bool := row_eqb p (firstn (length p) r).
(* relational natural join on the first nk columns: a ++ (value columns of b) *)
Definition join_spec (nk : nat) (a b : bag) : list row :=
  flat_map (fun x => map (fun y => x ++ skipn nk y)
                         (filter (fun y => row_eqb (firstn nk x) (firstn nk y)) b)) a.
Definition cart_spec (a b : bag) : list row :=
  flat_map (fun x => map (fun y => x ++ y) b) a.

Definition gspec_step (nk : nat) (p : bag * bag) (o : gop) : (bag * bag) * gans :=
  match o with
  | GInsert w r => (upd w p (sel w p ++ [r]), GABool true)
  | GMerge w => (upd w p (sel w p ++ sel (negb w) p),
                 GABool (negb (subset_b (sel (negb w) p) (sel w p))))
  | GContains w r => (p, GABool (mem (sel w p) r))
  | GIter w => (p, GARows (distinct (sel w p)))
  | GPrefix w q => (p, GARows (filter (has_prefix q) (distinct (sel w p))))
  | GLeaf w r => (p, GAOptRows (if mem (sel w p) r
                                then Some (filter (has_prefix (firstn nk r)) (distinct (sel w p)))
                                else None))
  | GCmp w => (p, GACmp (subset_cmp (sel w p) (sel (negb w) p)))
  | GEq w => (p, GABool (set_eqb (sel w p) (sel (negb w) p)))
  | GHeight w => (p, GANum (N.of_nat nk))
  | GIsBot w => (p, GABool (Nat.eqb (length (sel w p)) 0))
  | GJoin w => (p, GARows (distinct (join_spec nk (sel w p) (sel (negb w) p))))
  | GCart w nko => (p, GARows (distinct (cart_spec (sel w p) (sel (negb w) p))))
  | GForce w => (p, GAOptRows (match nk with 0 => Some (distinct (sel w p)) | S _ => None end))
  end.
Fixpoint gspec_from (nk : nat) (p : bag * bag) (ops : list gop) : list gans :=
  match ops with
  | [] => []
  | o :: ops' => let '(p', a) := gspec_step nk p o in a :: gspec_from nk p' ops'
  end.
Definition gspec_run (nk : nat) (ops : list gop) : list gans := gspec_from nk ([], []) ops.

(* ---------------------------------------------------------------- comparing observations *)
Definition pres_eqb (x y : pres) : bool :=
  match x, y with
  | PSome Lt, PSome Lt | PSome Eq, PSome Eq | PSome Gt, PSome Gt => true
  | PNone, PNone | PPanic, PPanic => true
  | _, _ => false
  end.
Definition gans_eqb (x y : gans) : bool :=
  match x, y with
  | GABool a, GABool b => Bool.eqb a b
  | GANum a, GANum b => N.eqb a b
  | GARows a, GARows b => bag_eqb a b
  | GAOptRows a, GAOptRows b => opt_eqb bag_eqb a b
  | GACmp a, GACmp b => pres_eqb a b
  | _, _ => false
  end.
Fixpoint ganswers_eqb (xs ys : list gans) : bool :=
  match xs, ys with
  | [], [] => true
  | x :: xs', y :: ys' => gans_eqb x y && ganswers_eqb xs' ys'
  | _, _ => false
  end.

(* rows and prefixes of the right arity (arity > nk or arity = nk, at least 1) *)
Definition gop_ok (arity : nat) (o : gop) : bool :=
  match o with
  | GInsert _ r | GContains _ r | GLeaf _ r => Nat.eqb (length r) arity
  | GPrefix _ q => Nat.leb (length q) arity
  | GCart _ nko => Nat.leb nko (arity + arity)
  | _ => true
  end.
Definition gops_ok (nk arity : nat) (ops : list gop) : bool :=
  Nat.leb nk arity && Nat.ltb 0 arity && forallb (gop_ok arity) ops.

(* executable form of C08 on a history and the implementation's answers *)
Definition C08_holds_b (nk : nat) (ops : list gop) (impl : list gans) : bool :=
  ganswers_eqb impl (gspec_run nk ops).

Definition c08_chk (nk : nat) (ops : list gop) (impl : list gans) : N :=
  verdict (ganswers_eqb impl (gmodel_run nk ops)) (C08_holds_b nk ops impl).
