(* E2 Coll engine -- proofs about the generalized hash trie model (C08). *)
From HV Require Import Coll.ModelGHT Coll.PVC.
From Coq Require Import Permutation.

Set Implicit Arguments.
Local Arguments N.eqb : simpl never.
Local Arguments mem : simpl never.
Local Arguments Nat.ltb : simpl never.

(* ------------------------------------------------------------------ the recorded finding *)
(* {(1,10)} vs {(2,20)} in a trie keyed on the first column: one child only on each side, so
   both flags are set and the final match reaches unreachable!().  The two row sets are
   incomparable: the specified answer is None. *)
Definition pcmp_wit_a : ght := insert 1 0 (empty 1) [1; 10]%N.
Definition pcmp_wit_b : ght := insert 1 0 (empty 1) [2; 20]%N.

Lemma pcmp_refuted :
  exists h a b,
    a = insert h 0 (empty h) [1; 10]%N /\ b = insert h 0 (empty h) [2; 20]%N /\
    pcmp h a b = PPanic /\ subset_cmp (riter h a) (riter h b) = PNone.
Proof. exists 1, pcmp_wit_a, pcmp_wit_b. repeat split; vm_compute; reflexivity. Qed.

(* ------------------------------------------------------------------ well-formed tries
   [wf h d t]: t has the shape of a trie of height h whose root is keyed on column d; children
   keys are distinct (HashMap), no child is empty (children only come into being by an insert
   or by merging a non-empty child), every row below child k has k in column d; leaves are
   duplicate-free (hash set). *)
Definition child_ok (P : ght -> Prop) (rows_of : ght -> list row) (d : nat) (kc : N * ght) : Prop :=
  P (snd kc) /\ rows_of (snd kc) <> [] /\ Forall (fun r => head d r = fst kc) (rows_of (snd kc)).

Fixpoint wf (h d : nat) (t : ght) : Prop :=
  match h, t with
  | 0, Leaf rows => NoDup rows
  | S h', Inner ch =>
      NoDup (map fst ch) /\ Forall (child_ok (wf h' (S d)) (riter h') d) ch
  | _, _ => False
  end.

Lemma wf_empty h d : wf h d (empty h).
Proof. destruct h; cbn; [constructor|split; constructor]. Qed.

Lemma riter_empty h : riter h (empty h) = [].
Proof. destruct h; reflexivity. Qed.

(* ---- leaves: the hash set of ModelVC *)
Lemma nodup_Rset s : NoDup s -> Rset s s.
Proof.
  intros nd r. pose proof (proj1 (NoDup_count_occ row_eq_dec s) nd r) as C.
  rewrite <- cnt_count_occ in C. unfold mem. destruct (Nat.ltb_spec 0 (cnt s r)); lia.
Qed.

Lemma leaf_insert_spec s r :
  NoDup s -> NoDup (fst (hs_insert s r)) /\
             forall x, In x (fst (hs_insert s r)) <-> In x s \/ x = r.
Proof.
  intros nd. pose proof (hs_insert_spec r (nodup_Rset nd)) as [R _]. split.
  - exact (Rset_nodup R).
  - intros x. rewrite (Rset_in x R), mem_in, in_app_iff. cbn. intuition.
Qed.

Lemma leaf_extend_spec b : forall a,
  NoDup a -> NoDup (hs_extend a b) /\ forall x, In x (hs_extend a b) <-> In x a \/ In x b.
Proof.
  intros a nd. pose proof (hs_extend_spec b (nodup_Rset nd)) as R. split.
  - exact (Rset_nodup R).
  - intros x. rewrite (Rset_in x R), mem_in, in_app_iff. tauto.
Qed.

(* ---- children maps *)
Lemma cget_in ch k c : cget ch k = Some c -> In (k, c) ch.
Proof.
  induction ch as [|[k' c'] ch IH]; cbn; [discriminate|].
  destruct (N.eqb_spec k k'); [intros [= <-]; subst; left; reflexivity|auto].
Qed.

Lemma in_cget ch k c : NoDup (map fst ch) -> In (k, c) ch -> cget ch k = Some c.
Proof.
  induction ch as [|[k' c'] ch IH]; cbn; intros nd i; [tauto|].
  inversion nd as [|? ? n nd']; subst. destruct i as [e|i].
  - inversion e; subst. rewrite N.eqb_refl. reflexivity.
  - destruct (N.eqb_spec k k'); [|auto]. subst. exfalso. apply n.
    apply (in_map fst) in i. exact i.
Qed.

Lemma cget_none ch k : cget ch k = None <-> ~ In k (map fst ch).
Proof.
  induction ch as [|[k' c'] ch IH]; cbn; [tauto|].
  destruct (N.eqb_spec k k'); [subst; split; [discriminate|tauto]|].
  rewrite IH. split; [intros n' [e|i]; [congruence|tauto]|tauto].
Qed.

Lemma cupd_keys ch k dflt f y :
  In y (map fst (cupd ch k dflt f)) <-> In y (map fst ch) \/ y = k.
Proof.
  induction ch as [|[k' c'] ch IH]; cbn; [intuition|].
  destruct (N.eqb_spec k k'); cbn; [subst; intuition|]. rewrite IH. intuition.
Qed.

Lemma in_riter_inner h ch x :
  In x (riter (S h) (Inner ch)) <-> exists k c, In (k, c) ch /\ In x (riter h c).
Proof.
  cbn. rewrite in_flat_map. split.
  - intros [[k c] [i ix]]. exists k, c. tauto.
  - intros (k & c & i & ix). exists (k, c). tauto.
Qed.

(* ------------------------------------------------------------------ insert *)
Definition insert_ok (h : nat) : Prop :=
  forall d t r, wf h d t ->
    wf h d (insert h d t r) /\
    forall x, In x (riter h (insert h d t r)) <-> In x (riter h t) \/ x = r.

Lemma insert_children h d r :
  insert_ok h ->
  let k := head d r in
  let f := fun c => insert h (S d) c r in
  forall ch, NoDup (map fst ch) -> Forall (child_ok (wf h (S d)) (riter h) d) ch ->
    NoDup (map fst (cupd ch k (empty h) f)) /\
    Forall (child_ok (wf h (S d)) (riter h) d) (cupd ch k (empty h) f) /\
    forall x, In x (flat_map (fun kc => riter h (snd kc)) (cupd ch k (empty h) f)) <->
              In x (flat_map (fun kc => riter h (snd kc)) ch) \/ x = r.
Proof.
  intros IH k f.
  assert (OK : forall c, wf h (S d) c -> Forall (fun r0 => head d r0 = k) (riter h c) ->
                         child_ok (wf h (S d)) (riter h) d (k, f c)).
  { intros c W F. destruct (IH (S d) c r W) as [W' M]. unfold child_ok, f. cbn [fst snd].
    split; [assumption|split].
    - intros E. assert (i : In r (riter h (insert h (S d) c r))) by (apply M; tauto).
      rewrite E in i. exact i.
    - apply Forall_forall. intros x i. apply M in i as [i| ->]; [|reflexivity].
      rewrite Forall_forall in F. apply F, i. }
  induction ch as [|[k' c'] ch IHch]; intros nd F.
  - cbn [cupd map fst flat_map snd]. split; [|split].
    + repeat constructor. intros [].
    + constructor; [|constructor]. apply OK; [apply wf_empty|]. rewrite riter_empty. constructor.
    + intros x. rewrite app_nil_r. unfold f.
      destruct (IH (S d) (empty h) r (wf_empty h (S d))) as [_ M]. rewrite M, riter_empty.
      cbn. tauto.
  - inversion nd as [|? ? n nd']; inversion F as [|? ? P F']; subst. cbn [cupd].
    destruct (N.eqb_spec k k') as [e|ne].
    + subst k'. cbn [map fst flat_map snd]. destruct P as (W & NE & H). cbn [fst snd] in *. split; [|split].
      * assumption.
      * constructor; [apply OK; assumption|assumption].
      * intros x. rewrite !in_app_iff. unfold f.
        destruct (IH (S d) c' r W) as [_ M]. rewrite M. tauto.
    + destruct (IHch nd' F') as (nd2 & F2 & M2). cbn [map fst flat_map snd]. split; [|split].
      * constructor; [|assumption]. rewrite cupd_keys. intros [i|e]; [tauto|congruence].
      * constructor; assumption.
      * intros x. rewrite !in_app_iff, M2. tauto.
Qed.

Lemma insert_spec h : insert_ok h.
Proof.
  induction h as [|h IH]; intros d t r W.
  - destruct t as [rows|]; [|contradiction]. cbn in *. apply leaf_insert_spec, W.
  - destruct t as [|ch]; [contradiction|]. destruct W as [nd F]. cbn [insert wf riter].
    destruct (@insert_children h d r IH ch nd F) as (nd' & F' & M). split; [split|]; assumption.
Qed.

(* ------------------------------------------------------------------ contains *)
Lemma contains_spec h : forall d t r, wf h d t -> (contains h d t r = true <-> In r (riter h t)).
Proof.
  induction h as [|h IH]; intros d t r W.
  - destruct t as [rows|]; [|contradiction]. cbn. rewrite existsb_exists. split.
    + intros [x [i e]]. destruct (row_eqb_spec x r); [subst; assumption|discriminate].
    + intros i. exists r. split; [assumption|apply row_eqb_refl].
  - destruct t as [|ch]; [contradiction|]. destruct W as [nd F]. cbn [contains].
    rewrite in_riter_inner. rewrite Forall_forall in F. destruct (cget ch (head d r)) as [c|] eqn:G.
    + apply cget_in in G. destruct (F _ G) as (W & _ & _). cbn in W. rewrite (IH _ _ r W). split.
      * intros i. exists (head d r), c. tauto.
      * intros (k & c' & i & ix). destruct (F _ i) as (_ & _ & H). cbn in H.
        rewrite Forall_forall in H. specialize (H _ ix). subst k.
        apply (in_cget _ _ _ nd) in i, G. congruence.
    + split; [discriminate|]. intros (k & c' & i & ix). exfalso.
      destruct (F _ i) as (_ & _ & H). cbn in H. rewrite Forall_forall in H. specialize (H _ ix).
      subst k. apply cget_none in G. apply G. apply (in_map fst) in i. exact i.
Qed.

(* ------------------------------------------------------------------ recursive_iter *)
Lemma NoDup_app_disjoint (A : Type) (l1 l2 : list A) :
  NoDup l1 -> NoDup l2 -> (forall x, In x l1 -> ~ In x l2) -> NoDup (l1 ++ l2).
Proof.
  induction l1 as [|a l1 IH]; intros n1 n2 D; [assumption|]. inversion n1; subst. cbn.
  constructor.
  - rewrite in_app_iff. intros [i|i]; [tauto|]. apply (D a); [left; reflexivity|assumption].
  - apply IH; [assumption|assumption|]. intros x i. apply D. right. assumption.
Qed.

Lemma riter_nodup h : forall d t, wf h d t -> NoDup (riter h t).
Proof.
  induction h as [|h IH]; intros d t W.
  - destruct t; [assumption|contradiction].
  - destruct t as [|ch]; [contradiction|]. destruct W as [nd F]. cbn [riter].
    induction ch as [|[k c] ch IHch]; [constructor|].
    inversion nd as [|? ? n nd']; inversion F as [|? ? P F']; subst. cbn [flat_map snd].
    destruct P as (W & _ & H). cbn [fst snd] in *. apply NoDup_app_disjoint.
    + apply (IH _ _ W).
    + apply IHch; assumption.
    + intros x ix iy. apply in_flat_map in iy as [[k' c'] [i ix']]. cbn in ix'.
      rewrite Forall_forall in H, F'. specialize (H _ ix).
      destruct (F' _ i) as (_ & _ & H'). cbn in H'. rewrite Forall_forall in H'.
      specialize (H' _ ix'). apply n. apply (in_map fst) in i. cbn in i. congruence.
Qed.

(* ------------------------------------------------------------------ partial_cmp *)
(* what a comparison result says about the two row sets; a panic only ever happens on
   incomparable sets, where the specified answer is None *)
Definition cmp_rel (A B : list row) (p : pres) : Prop :=
  match p with
  | PSome Eq => incl A B /\ incl B A
  | PSome Lt => incl A B /\ ~ incl B A
  | PSome Gt => incl B A /\ ~ incl A B
  | PNone => ~ incl A B /\ ~ incl B A
  | PPanic => ~ incl A B /\ ~ incl B A
  end.

Lemma hs_contains_in s r : hs_contains s r = true <-> In r s.
Proof.
  unfold hs_contains, hs_get. destruct (find _ s) eqn:F; cbn.
  - apply find_row_some in F as [_ p]. apply cnt_pos_in in p. tauto.
  - apply find_row_none, cnt_zero_notin in F. split; [discriminate|tauto].
Qed.

Lemma forallb_contains_incl a b : forallb (fun x => hs_contains b x) a = true <-> incl a b.
Proof.
  rewrite forallb_forall. unfold incl. split; intros H x i; apply hs_contains_in, H, i.
Qed.

Lemma pcmp_leaf ra rb : NoDup ra -> NoDup rb -> cmp_rel ra rb (pcmp 0 (Leaf ra) (Leaf rb)).
Proof.
  intros na nb. cbn [pcmp]. unfold hs_len, hs_iter.
  destruct (Nat.compare_spec (length ra) (length rb)) as [E|L|G].
  - destruct (forallb _ ra) eqn:F.
    + apply forallb_contains_incl in F. cbn. split; [assumption|].
      apply NoDup_length_incl; [assumption|lia|assumption].
    + cbn. assert (nab : ~ incl ra rb).
      { intros i. apply forallb_contains_incl in i. congruence. }
      split; [assumption|]. intros i. apply nab. apply NoDup_length_incl; [assumption|lia|assumption].
  - destruct (forallb _ ra) eqn:F.
    + apply forallb_contains_incl in F. cbn. split; [assumption|].
      intros i. pose proof (NoDup_incl_length nb i). lia.
    + cbn. split.
      * intros i. apply forallb_contains_incl in i. congruence.
      * intros i. pose proof (NoDup_incl_length nb i). lia.
  - destruct (forallb _ rb) eqn:F.
    + apply forallb_contains_incl in F. cbn. split; [assumption|].
      intros i. pose proof (NoDup_incl_length na i). lia.
    + cbn. split.
      * intros i. pose proof (NoDup_incl_length na i). lia.
      * intros i. apply forallb_contains_incl in i. congruence.
Qed.

(* rows below the child with key k (none if there is no such child) *)
Definition crows (h : nat) (ch : list (N * ght)) (k : N) : list row :=
  match cget ch k with Some c => riter h c | None => [] end.

Lemma crows_head h d ch k x :
  Forall (child_ok (wf h (S d)) (riter h) d) ch -> In x (crows h ch k) -> head d x = k.
Proof.
  intros F i. unfold crows in i. destruct (cget ch k) as [c|] eqn:G; [|contradiction].
  apply cget_in in G. rewrite Forall_forall in F. destruct (F _ G) as (_ & _ & H).
  cbn in H. rewrite Forall_forall in H. apply H, i.
Qed.

Lemma in_rows_crows h d ch x :
  NoDup (map fst ch) -> Forall (child_ok (wf h (S d)) (riter h) d) ch ->
  (In x (riter (S h) (Inner ch)) <-> In x (crows h ch (head d x))).
Proof.
  intros nd F. rewrite in_riter_inner. split.
  - intros (k & c & i & ix). pose proof F as F0. rewrite Forall_forall in F0.
    destruct (F0 _ i) as (_ & _ & H). cbn in H. rewrite Forall_forall in H. specialize (H _ ix).
    subst k. unfold crows. rewrite (in_cget _ _ _ nd i). assumption.
  - unfold crows. destruct (cget ch (head d x)) as [c|] eqn:G; [|contradiction].
    intros ix. exists (head d x), c. split; [apply cget_in, G|assumption].
Qed.

Lemma incl_rows_crows h d ca cb :
  NoDup (map fst ca) -> Forall (child_ok (wf h (S d)) (riter h) d) ca ->
  NoDup (map fst cb) -> Forall (child_ok (wf h (S d)) (riter h) d) cb ->
  (incl (riter (S h) (Inner ca)) (riter (S h) (Inner cb)) <->
   forall k, incl (crows h ca k) (crows h cb k)).
Proof.
  intros nda Fa ndb Fb. split.
  - intros I k x i. pose proof (@crows_head h d ca k x Fa i) as Hk. subst k.
    apply (@in_rows_crows h d cb x ndb Fb), I, (@in_rows_crows h d ca x nda Fa), i.
  - intros H x i. apply (@in_rows_crows h d cb x ndb Fb), H, (@in_rows_crows h d ca x nda Fa), i.
Qed.

Definition flagres (sag oag : bool) : pres :=
  match sag, oag with
  | true, false => PSome Gt
  | false, true => PSome Lt
  | false, false => PSome Eq
  | true, true => PPanic
  end.

Section Loop.
  Variables (h d : nat) (ca cb : list (N * ght)).
  Hypothesis IH : forall a b, wf h (S d) a -> wf h (S d) b ->
                    cmp_rel (riter h a) (riter h b) (pcmp h a b).
  Hypothesis Fa : Forall (child_ok (wf h (S d)) (riter h) d) ca.
  Hypothesis Fb : Forall (child_ok (wf h (S d)) (riter h) d) cb.

  Let AB k := incl (crows h ca k) (crows h cb k).
  Let BA k := incl (crows h cb k) (crows h ca k).
  Let EG := exists k, ~ AB k.
  Let EL := exists k, ~ BA k.

  Lemma child_wf ch k c :
    Forall (child_ok (wf h (S d)) (riter h) d) ch -> cget ch k = Some c ->
    wf h (S d) c /\ riter h c <> [].
  Proof.
    intros F G. apply cget_in in G. rewrite Forall_forall in F.
    destruct (F _ G) as (W & NE & _). split; assumption.
  Qed.

  Lemma pcmp_loop_spec ks : forall sag oag,
    (forall k, In k ks -> In k (map fst ca) \/ In k (map fst cb)) ->
    (sag = true -> EG) -> (oag = true -> EL) ->
    let res := pcmp_loop (pcmp h) ca cb ks sag oag in
    (exists sag' oag', res = flagres sag' oag' /\
       (sag' = true -> EG) /\ (oag' = true -> EL) /\
       (sag' = false -> sag = false /\ forall k, In k ks -> AB k) /\
       (oag' = false -> oag = false /\ forall k, In k ks -> BA k))
    \/ ((res = PNone \/ res = PPanic) /\ EG /\ EL).
  Proof.
    induction ks as [|k ks IHks]; intros sag oag K Hs Ho; cbn zeta.
    - left. exists sag, oag. cbn. repeat split; try assumption; intros ? [].
    - cbn [pcmp_loop].
      assert (K' : forall k0, In k0 ks -> In k0 (map fst ca) \/ In k0 (map fst cb))
        by (intros k0 i; apply K; right; assumption).
      (* what the rest of the loop gives, once this key is accounted for *)
      assert (Step : forall sag1 oag1,
                 (sag1 = true -> EG) -> (oag1 = true -> EL) ->
                 (sag1 = false -> sag = false /\ AB k) -> (oag1 = false -> oag = false /\ BA k) ->
                 let res := pcmp_loop (pcmp h) ca cb ks sag1 oag1 in
                 (exists sag' oag', res = flagres sag' oag' /\
                    (sag' = true -> EG) /\ (oag' = true -> EL) /\
                    (sag' = false -> sag = false /\ forall k0, In k0 (k :: ks) -> AB k0) /\
                    (oag' = false -> oag = false /\ forall k0, In k0 (k :: ks) -> BA k0))
                 \/ ((res = PNone \/ res = PPanic) /\ EG /\ EL)).
      { intros sag1 oag1 Hs1 Ho1 Bs Bo. cbn zeta.
        destruct (IHks sag1 oag1 K' Hs1 Ho1) as [(s' & o' & E & Gs & Go & Ps & Po)|R]; [left|right; exact R].
        exists s', o'. split; [exact E|]. split; [exact Gs|]. split; [exact Go|]. split.
        - intros e. destruct (Ps e) as [e1 A]. destruct (Bs e1) as [e0 Ak]. split; [exact e0|].
          intros k0 [<-|i]; [exact Ak|apply A, i].
        - intros e. destruct (Po e) as [e1 A]. destruct (Bo e1) as [e0 Bk]. split; [exact e0|].
          intros k0 [<-|i]; [exact Bk|apply A, i]. }
      destruct (cget ca k) as [x|] eqn:Ga, (cget cb k) as [y|] eqn:Gb.
      + destruct (@child_wf ca k x Fa Ga) as [Wx _], (@child_wf cb k y Fb Gb) as [Wy _].
        pose proof (IH x y Wx Wy) as C.
        assert (Ea : crows h ca k = riter h x) by (unfold crows; rewrite Ga; reflexivity).
        assert (Eb : crows h cb k = riter h y) by (unfold crows; rewrite Gb; reflexivity).
        destruct (pcmp h x y) as [[| |]| |]; cbn [cmp_rel] in C; destruct C as [C1 C2].
        * (* Equal *) apply Step; try assumption.
          -- intros e. split; [exact e|]. unfold AB. rewrite Ea, Eb. exact C1.
          -- intros e. split; [exact e|]. unfold BA. rewrite Ea, Eb. exact C2.
        * (* Less *) apply Step; try assumption.
          -- intros _. exists k. unfold BA. rewrite Ea, Eb. exact C2.
          -- intros e. split; [exact e|]. unfold AB. rewrite Ea, Eb. exact C1.
          -- discriminate.
        * (* Greater *) apply Step; try assumption.
          -- intros _. exists k. unfold AB. rewrite Ea, Eb. exact C2.
          -- discriminate.
          -- intros e. split; [exact e|]. unfold BA. rewrite Ea, Eb. exact C1.
        * right. split; [left; reflexivity|]. split; exists k; [unfold AB|unfold BA]; rewrite Ea, Eb; assumption.
        * right. split; [right; reflexivity|]. split; exists k; [unfold AB|unfold BA]; rewrite Ea, Eb; assumption.
      + (* only self has the key *)
        destruct (@child_wf ca k x Fa Ga) as [_ NE].
        assert (Ea : crows h ca k = riter h x) by (unfold crows; rewrite Ga; reflexivity).
        assert (Eb : crows h cb k = []) by (unfold crows; rewrite Gb; reflexivity).
        apply Step; try assumption.
        * intros _. exists k. unfold AB. rewrite Ea, Eb. intros I.
          destruct (riter h x) as [|r0 l]; [congruence|]. apply (I r0). left. reflexivity.
        * discriminate.
        * intros e. split; [exact e|]. unfold BA. rewrite Eb. intros r0 [].
      + (* only other has the key *)
        destruct (@child_wf cb k y Fb Gb) as [_ NE].
        assert (Ea : crows h ca k = []) by (unfold crows; rewrite Ga; reflexivity).
        assert (Eb : crows h cb k = riter h y) by (unfold crows; rewrite Gb; reflexivity).
        apply Step; try assumption.
        * intros _. exists k. unfold BA. rewrite Ea, Eb. intros I.
          destruct (riter h y) as [|r0 l]; [congruence|]. apply (I r0). left. reflexivity.
        * intros e. split; [exact e|]. unfold AB. rewrite Ea. intros r0 [].
        * discriminate.
      + (* (None, None) => unreachable!(): indeed unreachable *)
        exfalso. apply cget_none in Ga, Gb. destruct (K k (or_introl eq_refl)); tauto.
  Qed.
End Loop.

Theorem pcmp_spec h : forall d a b, wf h d a -> wf h d b ->
  cmp_rel (riter h a) (riter h b) (pcmp h a b).
Proof.
  induction h as [|h IH]; intros d a b Wa Wb.
  - destruct a as [ra|], b as [rb|]; try contradiction. apply pcmp_leaf; assumption.
  - destruct a as [|ca], b as [|cb]; try contradiction.
    destruct Wa as [nda Fa], Wb as [ndb Fb]. cbn [pcmp].
    destruct (is_nil ca && is_nil cb) eqn:Nil.
    + destruct ca, cb; try discriminate. cbn. split; intros x [].
    + pose proof (@pcmp_loop_spec h d ca cb (IH (S d)) Fa Fb (map fst ca ++ map fst cb) false false) as L.
      assert (Kall : forall k, In k (map fst ca ++ map fst cb) -> In k (map fst ca) \/ In k (map fst cb))
        by (intros k i; apply in_app_iff in i; exact i).
      specialize (L Kall ltac:(discriminate) ltac:(discriminate)). cbn zeta beta in L.
      pose proof (@incl_rows_crows h d ca cb nda Fa ndb Fb) as IAB.
      pose proof (@incl_rows_crows h d cb ca ndb Fb nda Fa) as IBA.
      assert (Out : forall ch k, ~ In k (map fst ch) -> crows h ch k = []).
      { intros ch k n. unfold crows. apply cget_none in n. rewrite n. reflexivity. }
      assert (EGn : (exists k, ~ incl (crows h ca k) (crows h cb k)) ->
                    ~ incl (riter (S h) (Inner ca)) (riter (S h) (Inner cb))).
      { intros [k n] I. apply n. apply IAB, I. }
      assert (ELn : (exists k, ~ incl (crows h cb k) (crows h ca k)) ->
                    ~ incl (riter (S h) (Inner cb)) (riter (S h) (Inner ca))).
      { intros [k n] I. apply n. apply IBA, I. }
      destruct L as [(s' & o' & E & Gs & Go & Ps & Po)|[[E|E] [G1 G2]]].
      * rewrite E.
        assert (AllA : s' = false -> incl (riter (S h) (Inner ca)) (riter (S h) (Inner cb))).
        { intros e. apply IAB. intros k. destruct (Ps e) as [_ A].
          destruct (in_dec N.eq_dec k (map fst ca ++ map fst cb)) as [i|n]; [apply A, i|].
          rewrite in_app_iff in n. rewrite (Out ca k) by tauto. intros r0 []. }
        assert (AllB : o' = false -> incl (riter (S h) (Inner cb)) (riter (S h) (Inner ca))).
        { intros e. apply IBA. intros k. destruct (Po e) as [_ A].
          destruct (in_dec N.eq_dec k (map fst ca ++ map fst cb)) as [i|n]; [apply A, i|].
          rewrite in_app_iff in n. rewrite (Out cb k) by tauto. intros r0 []. }
        destruct s', o'; cbn [flagres cmp_rel]; auto.
      * rewrite E. cbn. auto.
      * rewrite E. cbn. auto.
Qed.
