(* E2 Coll engine -- proofs about the generalized hash trie model (C08). *)
From HV Require Import Coll.ModelGHT Coll.PVC.
From Coq Require Import Permutation.

Set Implicit Arguments.
Local Arguments N.eqb : simpl never.
Local Arguments mem : simpl never.
Local Arguments Nat.ltb : simpl never.

(* ------------------------------------------------------------------ the recorded finding *)
(* {(1,10)} vs {(2,20)} in a trie keyed on the first column: one child only on each side, so
   both flags are set and the final match reaches unreachable!().  The two row sets are
   incomparable: the specified answer is None. *)
Definition pcmp_wit_a : ght := insert 1 0 (empty 1) [1; 10]%N.
Definition pcmp_wit_b : ght := insert 1 0 (empty 1) [2; 20]%N.

Lemma pcmp_refuted :
  exists h a b,
    a = insert h 0 (empty h) [1; 10]%N /\ b = insert h 0 (empty h) [2; 20]%N /\
    pcmp h a b = PPanic /\ subset_cmp (riter h a) (riter h b) = PNone.
Proof. exists 1, pcmp_wit_a, pcmp_wit_b. repeat split; vm_compute; reflexivity. Qed.
