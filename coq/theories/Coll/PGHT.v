(* E2 Coll engine -- proofs about the generalized hash trie model (C08). *)
From HV Require Import Coll.ModelGHT Coll.PVC.
From Coq Require Import Permutation.

Set Implicit Arguments.
Local Arguments N.eqb : simpl never.
Local Arguments mem : simpl never.
Local Arguments Nat.ltb : simpl never.

(* ------------------------------------------------------------------ former finding (fixed)
   Before repo commit 40ab16e7935 GhtInner::partial_cmp had no early `return None`: on
   {(1,10)} vs {(2,20)} in a trie keyed on the first column (one child only on each side) both
   flags were set and the final match reached unreachable!().  The former witness
     a = insert 1 0 (empty 1) [1; 10],  b = insert 1 0 (empty 1) [2; 20],
     pcmp 1 a b = PPanic  while  subset_cmp (riter 1 a) (riter 1 b) = PNone
   was the theorem C08_pcmp_refuted; it is kept as corpus/C08/pcmp_incomparable.json and
   re-checked first on every run.  With the fix transcribed, [pcmp_spec] below holds for all
   well-formed tries and never yields PPanic. *)
Definition pcmp_wit_a : ght := insert 1 0 (empty 1) [1; 10]%N.
Definition pcmp_wit_b : ght := insert 1 0 (empty 1) [2; 20]%N.
Lemma pcmp_former_witness : pcmp 1 pcmp_wit_a pcmp_wit_b = PNone.
Proof. vm_compute. reflexivity. Qed.

(* ------------------------------------------------------------------ well-formed tries
   [wf h d t]: t has the shape of a trie of height h whose root is keyed on column d; children
   keys are distinct (HashMap), no child is empty (children only come into being by an insert
   or by merging a non-empty child), every row below child k has k in column d; leaves are
   duplicate-free (hash set). *)
Definition child_ok (P : ght -> Prop) (rows_of : ght -> list row) (d : nat) (kc : N * ght) : Prop :=
  P (snd kc) /\ rows_of (snd kc) <> [] /\ Forall (fun r => head d r = fst kc) (rows_of (snd kc)).

Fixpoint wf (h d : nat) (t : ght) : Prop :=
  match h, t with
  | 0, Leaf rows => NoDup rows
  | S h', Inner ch =>
      NoDup (map fst ch) /\ Forall (child_ok (wf h' (S d)) (riter h') d) ch
  | _, _ => False
  end.

Lemma wf_empty h d : wf h d (empty h).
Proof. destruct h; cbn; [constructor|split; constructor]. Qed.

Lemma riter_empty h : riter h (empty h) = [].
Proof. destruct h; reflexivity. Qed.

(* ---- leaves: the hash set of ModelVC *)
Lemma nodup_Rset s : NoDup s -> Rset s s.
Proof.
  intros nd r. pose proof (proj1 (NoDup_count_occ row_eq_dec s) nd r) as C.
  rewrite <- cnt_count_occ in C. unfold mem. destruct (Nat.ltb_spec 0 (cnt s r)); lia.
Qed.

Lemma leaf_insert_spec s r :
  NoDup s -> NoDup (fst (hs_insert s r)) /\
             forall x, In x (fst (hs_insert s r)) <-> In x s \/ x = r.
Proof.
  intros nd. pose proof (hs_insert_spec r (nodup_Rset nd)) as [R _]. split.
  - exact (Rset_nodup R).
  - intros x. rewrite (Rset_in x R), mem_in, in_app_iff. cbn. intuition.
Qed.

Lemma leaf_extend_spec b : forall a,
  NoDup a -> NoDup (hs_extend a b) /\ forall x, In x (hs_extend a b) <-> In x a \/ In x b.
Proof.
  intros a nd. pose proof (hs_extend_spec b (nodup_Rset nd)) as R. split.
  - exact (Rset_nodup R).
  - intros x. rewrite (Rset_in x R), mem_in, in_app_iff. tauto.
Qed.

(* ---- children maps *)
Lemma cget_in ch k c : cget ch k = Some c -> In (k, c) ch.
Proof.
  induction ch as [|[k' c'] ch IH]; cbn; [discriminate|].
  destruct (N.eqb_spec k k'); [intros [= <-]; subst; left; reflexivity|auto].
Qed.

Lemma in_cget ch k c : NoDup (map fst ch) -> In (k, c) ch -> cget ch k = Some c.
Proof.
  induction ch as [|[k' c'] ch IH]; cbn; intros nd i; [tauto|].
  inversion nd as [|? ? n nd']; subst. destruct i as [e|i].
  - inversion e; subst. rewrite N.eqb_refl. reflexivity.
  - destruct (N.eqb_spec k k'); [|auto]. subst. exfalso. apply n.
    apply (in_map fst) in i. exact i.
Qed.

Lemma cget_none ch k : cget ch k = None <-> ~ In k (map fst ch).
Proof.
  induction ch as [|[k' c'] ch IH]; cbn; [tauto|].
  destruct (N.eqb_spec k k'); [subst; split; [discriminate|tauto]|].
  rewrite IH. split; [intros n' [e|i]; [congruence|tauto]|tauto].
Qed.

Lemma cupd_keys ch k dflt f y :
  In y (map fst (cupd ch k dflt f)) <-> In y (map fst ch) \/ y = k.
Proof.
  induction ch as [|[k' c'] ch IH]; cbn; [intuition|].
  destruct (N.eqb_spec k k'); cbn; [subst; intuition|]. rewrite IH. intuition.
Qed.

Lemma in_riter_inner h ch x :
  In x (riter (S h) (Inner ch)) <-> exists k c, In (k, c) ch /\ In x (riter h c).
Proof.
  cbn. rewrite in_flat_map. split.
  - intros [[k c] [i ix]]. exists k, c. tauto.
  - intros (k & c & i & ix). exists (k, c). tauto.
Qed.

(* ------------------------------------------------------------------ insert *)
Definition insert_ok (h : nat) : Prop :=
  forall d t r, wf h d t ->
    wf h d (insert h d t r) /\
    forall x, In x (riter h (insert h d t r)) <-> In x (riter h t) \/ x = r.

Lemma insert_children h d r :
  insert_ok h ->
  let k := head d r in
  let f := fun c => insert h (S d) c r in
  forall ch, NoDup (map fst ch) -> Forall (child_ok (wf h (S d)) (riter h) d) ch ->
    NoDup (map fst (cupd ch k (empty h) f)) /\
    Forall (child_ok (wf h (S d)) (riter h) d) (cupd ch k (empty h) f) /\
    forall x, In x (flat_map (fun kc => riter h (snd kc)) (cupd ch k (empty h) f)) <->
              In x (flat_map (fun kc => riter h (snd kc)) ch) \/ x = r.
Proof.
  intros IH k f.
  assert (OK : forall c, wf h (S d) c -> Forall (fun r0 => head d r0 = k) (riter h c) ->
                         child_ok (wf h (S d)) (riter h) d (k, f c)).
  { intros c W F. destruct (IH (S d) c r W) as [W' M]. unfold child_ok, f. cbn [fst snd].
    split; [assumption|split].
    - intros E. assert (i : In r (riter h (insert h (S d) c r))) by (apply M; tauto).
      rewrite E in i. exact i.
    - apply Forall_forall. intros x i. apply M in i as [i| ->]; [|reflexivity].
      rewrite Forall_forall in F. apply F, i. }
  induction ch as [|[k' c'] ch IHch]; intros nd F.
  - cbn [cupd map fst flat_map snd]. split; [|split].
    + repeat constructor. intros [].
    + constructor; [|constructor]. apply OK; [apply wf_empty|]. rewrite riter_empty. constructor.
    + intros x. rewrite app_nil_r. unfold f.
      destruct (IH (S d) (empty h) r (wf_empty h (S d))) as [_ M]. rewrite M, riter_empty.
      cbn. tauto.
  - inversion nd as [|? ? n nd']; inversion F as [|? ? P F']; subst. cbn [cupd].
    destruct (N.eqb_spec k k') as [e|ne].
    + subst k'. cbn [map fst flat_map snd]. destruct P as (W & NE & H). cbn [fst snd] in *. split; [|split].
      * assumption.
      * constructor; [apply OK; assumption|assumption].
      * intros x. rewrite !in_app_iff. unfold f.
        destruct (IH (S d) c' r W) as [_ M]. rewrite M. tauto.
    + destruct (IHch nd' F') as (nd2 & F2 & M2). cbn [map fst flat_map snd]. split; [|split].
      * constructor; [|assumption]. rewrite cupd_keys. intros [i|e]; [tauto|congruence].
      * constructor; assumption.
      * intros x. rewrite !in_app_iff, M2. tauto.
Qed.

Lemma insert_spec h : insert_ok h.
Proof.
  induction h as [|h IH]; intros d t r W.
  - destruct t as [rows|]; [|contradiction]. cbn in *. apply leaf_insert_spec, W.
  - destruct t as [|ch]; [contradiction|]. destruct W as [nd F]. cbn [insert wf riter].
    destruct (@insert_children h d r IH ch nd F) as (nd' & F' & M). split; [split|]; assumption.
Qed.

(* ------------------------------------------------------------------ contains *)
Lemma contains_spec h : forall d t r, wf h d t -> (contains h d t r = true <-> In r (riter h t)).
Proof.
  induction h as [|h IH]; intros d t r W.
  - destruct t as [rows|]; [|contradiction]. cbn. rewrite existsb_exists. split.
    + intros [x [i e]]. destruct (row_eqb_spec x r); [subst; assumption|discriminate].
    + intros i. exists r. split; [assumption|apply row_eqb_refl].
  - destruct t as [|ch]; [contradiction|]. destruct W as [nd F]. cbn [contains].
    rewrite in_riter_inner. rewrite Forall_forall in F. destruct (cget ch (head d r)) as [c|] eqn:G.
    + apply cget_in in G. destruct (F _ G) as (W & _ & _). cbn in W. rewrite (IH _ _ r W). split.
      * intros i. exists (head d r), c. tauto.
      * intros (k & c' & i & ix). destruct (F _ i) as (_ & _ & H). cbn in H.
        rewrite Forall_forall in H. specialize (H _ ix). subst k.
        apply (in_cget _ _ _ nd) in i, G. congruence.
    + split; [discriminate|]. intros (k & c' & i & ix). exfalso.
      destruct (F _ i) as (_ & _ & H). cbn in H. rewrite Forall_forall in H. specialize (H _ ix).
      subst k. apply cget_none in G. apply G. apply (in_map fst) in i. exact i.
Qed.

(* ------------------------------------------------------------------ recursive_iter *)
Lemma NoDup_app_disjoint (A : Type) (l1 l2 : list A) :
  NoDup l1 -> NoDup l2 -> (forall x, In x l1 -> ~ In x l2) -> NoDup (l1 ++ l2).
Proof.
  induction l1 as [|a l1 IH]; intros n1 n2 D; [assumption|]. inversion n1; subst. cbn.
  constructor.
  - rewrite in_app_iff. intros [i|i]; [tauto|]. apply (D a); [left; reflexivity|assumption].
  - apply IH; [assumption|assumption|]. intros x i. apply D. right. assumption.
Qed.

Lemma riter_nodup h : forall d t, wf h d t -> NoDup (riter h t).
Proof.
  induction h as [|h IH]; intros d t W.
  - destruct t; [assumption|contradiction].
  - destruct t as [|ch]; [contradiction|]. destruct W as [nd F]. cbn [riter].
    induction ch as [|[k c] ch IHch]; [constructor|].
    inversion nd as [|? ? n nd']; inversion F as [|? ? P F']; subst. cbn [flat_map snd].
    destruct P as (W & _ & H). cbn [fst snd] in *. apply NoDup_app_disjoint.
    + apply (IH _ _ W).
    + apply IHch; assumption.
    + intros x ix iy. apply in_flat_map in iy as [[k' c'] [i ix']]. cbn in ix'.
      rewrite Forall_forall in H, F'. specialize (H _ ix).
      destruct (F' _ i) as (_ & _ & H'). cbn in H'. rewrite Forall_forall in H'.
      specialize (H' _ ix'). apply n. apply (in_map fst) in i. cbn in i. congruence.
Qed.

(* ------------------------------------------------------------------ partial_cmp *)
(* what a comparison result says about the two row sets; a panic never happens *)
Definition cmp_rel (A B : list row) (p : pres) : Prop :=
  match p with
  | PSome Eq => incl A B /\ incl B A
  | PSome Lt => incl A B /\ ~ incl B A
  | PSome Gt => incl B A /\ ~ incl A B
  | PNone => ~ incl A B /\ ~ incl B A
  | PPanic => False
  end.

Lemma hs_contains_in s r : hs_contains s r = true <-> In r s.
Proof.
  unfold hs_contains, hs_get. destruct (find _ s) eqn:F; cbn.
  - apply find_row_some in F as [_ p]. apply cnt_pos_in in p. tauto.
  - apply find_row_none, cnt_zero_notin in F. split; [discriminate|tauto].
Qed.

Lemma forallb_contains_incl a b : forallb (fun x => hs_contains b x) a = true <-> incl a b.
Proof.
  rewrite forallb_forall. unfold incl. split; intros H x i; apply hs_contains_in, H, i.
Qed.

Lemma pcmp_leaf ra rb : NoDup ra -> NoDup rb -> cmp_rel ra rb (pcmp 0 (Leaf ra) (Leaf rb)).
Proof.
  intros na nb. cbn [pcmp]. unfold hs_len, hs_iter.
  destruct (Nat.compare_spec (length ra) (length rb)) as [E|L|G].
  - destruct (forallb _ ra) eqn:F.
    + apply forallb_contains_incl in F. cbn. split; [assumption|].
      apply NoDup_length_incl; [assumption|lia|assumption].
    + cbn. assert (nab : ~ incl ra rb).
      { intros i. apply forallb_contains_incl in i. congruence. }
      split; [assumption|]. intros i. apply nab. apply NoDup_length_incl; [assumption|lia|assumption].
  - destruct (forallb _ ra) eqn:F.
    + apply forallb_contains_incl in F. cbn. split; [assumption|].
      intros i. pose proof (NoDup_incl_length nb i). lia.
    + cbn. split.
      * intros i. apply forallb_contains_incl in i. congruence.
      * intros i. pose proof (NoDup_incl_length nb i). lia.
  - destruct (forallb _ rb) eqn:F.
    + apply forallb_contains_incl in F. cbn. split; [assumption|].
      intros i. pose proof (NoDup_incl_length na i). lia.
    + cbn. split.
      * intros i. pose proof (NoDup_incl_length na i). lia.
      * intros i. apply forallb_contains_incl in i. congruence.
Qed.

(* rows below the child with key k (none if there is no such child) *)
Definition crows (h : nat) (ch : list (N * ght)) (k : N) : list row :=
  match cget ch k with Some c => riter h c | None => [] end.

Lemma crows_head h d ch k x :
  Forall (child_ok (wf h (S d)) (riter h) d) ch -> In x (crows h ch k) -> head d x = k.
Proof.
  intros F i. unfold crows in i. destruct (cget ch k) as [c|] eqn:G; [|contradiction].
  apply cget_in in G. rewrite Forall_forall in F. destruct (F _ G) as (_ & _ & H).
  cbn in H. rewrite Forall_forall in H. apply H, i.
Qed.

Lemma in_rows_crows h d ch x :
  NoDup (map fst ch) -> Forall (child_ok (wf h (S d)) (riter h) d) ch ->
  (In x (riter (S h) (Inner ch)) <-> In x (crows h ch (head d x))).
Proof.
  intros nd F. rewrite in_riter_inner. split.
  - intros (k & c & i & ix). pose proof F as F0. rewrite Forall_forall in F0.
    destruct (F0 _ i) as (_ & _ & H). cbn in H. rewrite Forall_forall in H. specialize (H _ ix).
    subst k. unfold crows. rewrite (in_cget _ _ _ nd i). assumption.
  - unfold crows. destruct (cget ch (head d x)) as [c|] eqn:G; [|contradiction].
    intros ix. exists (head d x), c. split; [apply cget_in, G|assumption].
Qed.

Lemma incl_rows_crows h d ca cb :
  NoDup (map fst ca) -> Forall (child_ok (wf h (S d)) (riter h) d) ca ->
  NoDup (map fst cb) -> Forall (child_ok (wf h (S d)) (riter h) d) cb ->
  (incl (riter (S h) (Inner ca)) (riter (S h) (Inner cb)) <->
   forall k, incl (crows h ca k) (crows h cb k)).
Proof.
  intros nda Fa ndb Fb. split.
  - intros I k x i. pose proof (@crows_head h d ca k x Fa i) as Hk. subst k.
    apply (@in_rows_crows h d cb x ndb Fb), I, (@in_rows_crows h d ca x nda Fa), i.
  - intros H x i. apply (@in_rows_crows h d cb x ndb Fb), H, (@in_rows_crows h d ca x nda Fa), i.
Qed.

(* the join output may contain empty children (keys match at one level, nothing joins below):
   well-formedness without the non-emptiness clause *)
Fixpoint wfw (h d : nat) (t : ght) : Prop :=
  match h, t with
  | 0, Leaf rows => NoDup rows
  | S h', Inner ch =>
      NoDup (map fst ch) /\
      Forall (fun kc => wfw h' (S d) (snd kc) /\
                        Forall (fun r => head d r = fst kc) (riter h' (snd kc))) ch
  | _, _ => False
  end.

Lemma riter_nodup_w h : forall d t, wfw h d t -> NoDup (riter h t).
Proof.
  induction h as [|h IH]; intros d t W.
  - destruct t; [assumption|contradiction].
  - destruct t as [|ch]; [contradiction|]. destruct W as [nd F]. cbn [riter].
    induction ch as [|[k c] ch IHch]; [constructor|].
    inversion nd as [|? ? n nd']; inversion F as [|? ? P F']; subst. cbn [flat_map snd].
    destruct P as (W & H). cbn [fst snd] in *. apply NoDup_app_disjoint.
    + apply (IH _ _ W).
    + apply IHch; assumption.
    + intros x ix iy. apply in_flat_map in iy as [[k' c'] [i ix']]. cbn in ix'.
      rewrite Forall_forall in H, F'. specialize (H _ ix).
      destruct (F' _ i) as (_ & H'). cbn in H'. rewrite Forall_forall in H'.
      specialize (H' _ ix'). apply n. apply (in_map fst) in i. cbn in i. congruence.
Qed.


Lemma wf_wfw h : forall d t, wf h d t -> wfw h d t.
Proof.
  induction h as [|h IH]; intros d t W.
  - destruct t; [assumption|contradiction].
  - destruct t as [|ch]; [contradiction|]. destruct W as [nd F]. split; [assumption|].
    rewrite Forall_forall in *. intros kc i. destruct (F _ i) as (W & _ & H). split; [apply IH, W|exact H].
Qed.

(* children of a weakly well-formed inner node; only the head clause *)
Definition okw (h d : nat) (kc : N * ght) : Prop :=
  wfw h (S d) (snd kc) /\ Forall (fun r => head d r = fst kc) (riter h (snd kc)).

Lemma crows_head_w h d ch k x :
  Forall (okw h d) ch -> In x (crows h ch k) -> head d x = k.
Proof.
  intros F i. unfold crows in i. destruct (cget ch k) as [c|] eqn:G; [|contradiction].
  apply cget_in in G. rewrite Forall_forall in F. destruct (F _ G) as (_ & H).
  cbn in H. rewrite Forall_forall in H. apply H, i.
Qed.

Lemma in_rows_crows_w h d ch x :
  NoDup (map fst ch) -> Forall (okw h d) ch ->
  (In x (riter (S h) (Inner ch)) <-> In x (crows h ch (head d x))).
Proof.
  intros nd F. rewrite in_riter_inner. split.
  - intros (k & c & i & ix). pose proof F as F0. rewrite Forall_forall in F0.
    destruct (F0 _ i) as (_ & H). cbn in H. rewrite Forall_forall in H. specialize (H _ ix).
    subst k. unfold crows. rewrite (in_cget _ _ _ nd i). assumption.
  - unfold crows. destruct (cget ch (head d x)) as [c|] eqn:G; [|contradiction].
    intros ix. exists (head d x), c. split; [apply cget_in, G|assumption].
Qed.

Lemma incl_rows_crows_w h d ca cb :
  NoDup (map fst ca) -> Forall (okw h d) ca -> NoDup (map fst cb) -> Forall (okw h d) cb ->
  (incl (riter (S h) (Inner ca)) (riter (S h) (Inner cb)) <->
   forall k, incl (crows h ca k) (crows h cb k)).
Proof.
  intros nda Fa ndb Fb. split.
  - intros I k x i. pose proof (@crows_head_w h d ca k x Fa i) as Hk. subst k.
    apply (@in_rows_crows_w h d cb x ndb Fb), I, (@in_rows_crows_w h d ca x nda Fa), i.
  - intros H x i. apply (@in_rows_crows_w h d cb x ndb Fb), H, (@in_rows_crows_w h d ca x nda Fa), i.
Qed.

Lemma has_rows_false h t : has_rows h t = false <-> riter h t = [].
Proof. unfold has_rows. destruct (riter h t); cbn; split; congruence. Qed.

Definition flagres (sag oag : bool) : pres :=
  match sag, oag with
  | true, false => PSome Gt
  | false, true => PSome Lt
  | false, false => PSome Eq
  | true, true => PPanic
  end.

Section Loop.
  Variables (h d : nat) (ca cb : list (N * ght)).
  Hypothesis IH : forall a b, wfw h (S d) a -> wfw h (S d) b ->
                    cmp_rel (riter h a) (riter h b) (pcmp h a b).
  Hypothesis Fa : Forall (okw h d) ca.
  Hypothesis Fb : Forall (okw h d) cb.

  Let AB k := incl (crows h ca k) (crows h cb k).
  Let BA k := incl (crows h cb k) (crows h ca k).
  Let EG := exists k, ~ AB k.
  Let EL := exists k, ~ BA k.

  Lemma child_w ch k c : Forall (okw h d) ch -> cget ch k = Some c -> wfw h (S d) c.
  Proof.
    intros F G. apply cget_in in G. rewrite Forall_forall in F. destruct (F _ G) as (W & _). exact W.
  Qed.

  Lemma pcmp_loop_spec ks : forall sag oag,
    (forall k, In k ks -> In k (map fst ca) \/ In k (map fst cb)) ->
    (sag = true -> EG) -> (oag = true -> EL) -> ~ (sag = true /\ oag = true) ->
    let res := pcmp_loop (has_rows h) (pcmp h) ca cb ks sag oag in
    (exists sag' oag', res = flagres sag' oag' /\ ~ (sag' = true /\ oag' = true) /\
       (sag' = true -> EG) /\ (oag' = true -> EL) /\
       (sag' = false -> sag = false /\ forall k, In k ks -> AB k) /\
       (oag' = false -> oag = false /\ forall k, In k ks -> BA k))
    \/ (res = PNone /\ EG /\ EL).
  Proof.
    induction ks as [|k ks IHks]; intros sag oag K Hs Ho Nb; cbn zeta.
    - left. exists sag, oag. cbn. repeat split; try assumption; intros ? [].
    - cbn [pcmp_loop]. cbn zeta.
      assert (K' : forall k0, In k0 ks -> In k0 (map fst ca) \/ In k0 (map fst cb))
        by (intros k0 i; apply K; right; assumption).
      assert (Step : forall sag1 oag1,
                 (sag1 = true -> EG) -> (oag1 = true -> EL) ->
                 (sag1 = false -> sag = false /\ AB k) -> (oag1 = false -> oag = false /\ BA k) ->
                 let res := if sag1 && oag1 then PNone
                            else pcmp_loop (has_rows h) (pcmp h) ca cb ks sag1 oag1 in
                 (exists sag' oag', res = flagres sag' oag' /\ ~ (sag' = true /\ oag' = true) /\
                    (sag' = true -> EG) /\ (oag' = true -> EL) /\
                    (sag' = false -> sag = false /\ forall k0, In k0 (k :: ks) -> AB k0) /\
                    (oag' = false -> oag = false /\ forall k0, In k0 (k :: ks) -> BA k0))
                 \/ (res = PNone /\ EG /\ EL)).
      { intros sag1 oag1 Hs1 Ho1 Bs Bo. cbn zeta.
        destruct (sag1 && oag1) eqn:Both.
        - apply andb_true_iff in Both as [e1 e2]. right. auto.
        - assert (Nb1 : ~ (sag1 = true /\ oag1 = true)).
          { intros [e1 e2]. rewrite e1, e2 in Both. discriminate. }
          destruct (IHks sag1 oag1 K' Hs1 Ho1 Nb1) as [(s' & o' & E & Nb' & Gs & Go & Ps & Po)|R];
            [left|right; exact R].
          exists s', o'. split; [exact E|]. split; [exact Nb'|]. split; [exact Gs|]. split; [exact Go|]. split.
          + intros e. destruct (Ps e) as [e1 A]. destruct (Bs e1) as [e0 Ak]. split; [exact e0|].
            intros k0 [<-|i]; [exact Ak|apply A, i].
          + intros e. destruct (Po e) as [e1 A]. destruct (Bo e1) as [e0 Bk]. split; [exact e0|].
            intros k0 [<-|i]; [exact Bk|apply A, i]. }
      destruct (cget ca k) as [x|] eqn:Ga, (cget cb k) as [y|] eqn:Gb.
      + pose proof (@child_w ca k x Fa Ga) as Wx. pose proof (@child_w cb k y Fb Gb) as Wy.
        pose proof (IH x y Wx Wy) as C.
        assert (Ea : crows h ca k = riter h x) by (unfold crows; rewrite Ga; reflexivity).
        assert (Eb : crows h cb k = riter h y) by (unfold crows; rewrite Gb; reflexivity).
        destruct (pcmp h x y) as [[| |]| |]; cbn [cmp_rel] in C; [| | | |contradiction];
          destruct C as [C1 C2].
        * apply Step; try assumption.
          -- intros e. split; [exact e|]. unfold AB. rewrite Ea, Eb. exact C1.
          -- intros e. split; [exact e|]. unfold BA. rewrite Ea, Eb. exact C2.
        * apply Step; try assumption.
          -- intros _. exists k. unfold BA. rewrite Ea, Eb. exact C2.
          -- intros e. split; [exact e|]. unfold AB. rewrite Ea, Eb. exact C1.
          -- discriminate.
        * apply Step; try assumption.
          -- intros _. exists k. unfold AB. rewrite Ea, Eb. exact C2.
          -- discriminate.
          -- intros e. split; [exact e|]. unfold BA. rewrite Ea, Eb. exact C1.
        * right. split; [reflexivity|]. split; exists k; [unfold AB|unfold BA]; rewrite Ea, Eb; assumption.
      + (* only self has the key: it counts only if the child has rows *)
        assert (Ea : crows h ca k = riter h x) by (unfold crows; rewrite Ga; reflexivity).
        assert (Eb : crows h cb k = []) by (unfold crows; rewrite Gb; reflexivity).
        destruct (has_rows h x) eqn:Hx.
        * rewrite orb_true_r. apply Step; try assumption.
          -- intros _. exists k. unfold AB. rewrite Ea, Eb. intros I.
             unfold has_rows in Hx. destruct (riter h x) as [|r0 l]; [discriminate|].
             apply (I r0). left. reflexivity.
          -- discriminate.
          -- intros e. split; [exact e|]. unfold BA. rewrite Eb. intros r0 [].
        * rewrite orb_false_r. apply has_rows_false in Hx. apply Step; try assumption.
          -- intros e. split; [exact e|]. unfold AB. rewrite Ea, Hx. intros r0 [].
          -- intros e. split; [exact e|]. unfold BA. rewrite Eb. intros r0 [].
      + (* only other has the key *)
        assert (Ea : crows h ca k = []) by (unfold crows; rewrite Ga; reflexivity).
        assert (Eb : crows h cb k = riter h y) by (unfold crows; rewrite Gb; reflexivity).
        destruct (has_rows h y) eqn:Hy.
        * rewrite orb_true_r. apply Step; try assumption.
          -- intros _. exists k. unfold BA. rewrite Ea, Eb. intros I.
             unfold has_rows in Hy. destruct (riter h y) as [|r0 l]; [discriminate|].
             apply (I r0). left. reflexivity.
          -- intros e. split; [exact e|]. unfold AB. rewrite Ea. intros r0 [].
          -- discriminate.
        * rewrite orb_false_r. apply has_rows_false in Hy. apply Step; try assumption.
          -- intros e. split; [exact e|]. unfold AB. rewrite Ea. intros r0 [].
          -- intros e. split; [exact e|]. unfold BA. rewrite Eb, Hy. intros r0 [].
      + exfalso. apply cget_none in Ga, Gb. destruct (K k (or_introl eq_refl)); tauto.
  Qed.
End Loop.

(* partial_cmp relates the row sets correctly for ALL weakly well-formed tries: children
   without rows (left by drain / COLT get / a join) do not count *)
Theorem pcmp_spec_w h : forall d a b, wfw h d a -> wfw h d b ->
  cmp_rel (riter h a) (riter h b) (pcmp h a b).
Proof.
  induction h as [|h IH]; intros d a b Wa Wb.
  - destruct a as [ra|], b as [rb|]; try contradiction. apply pcmp_leaf; assumption.
  - destruct a as [|ca], b as [|cb]; try contradiction.
    destruct Wa as [nda Fa], Wb as [ndb Fb]. cbn [pcmp].
    destruct (is_nil ca && is_nil cb) eqn:Nil.
    + destruct ca, cb; try discriminate. cbn. split; intros x [].
    + pose proof (@pcmp_loop_spec h d ca cb (IH (S d)) Fa Fb (map fst ca ++ map fst cb) false false) as L.
      assert (Kall : forall k, In k (map fst ca ++ map fst cb) -> In k (map fst ca) \/ In k (map fst cb))
        by (intros k i; apply in_app_iff in i; exact i).
      specialize (L Kall ltac:(discriminate) ltac:(discriminate) ltac:(intros [? ?]; discriminate)). cbn zeta beta in L.
      pose proof (@incl_rows_crows_w h d ca cb nda Fa ndb Fb) as IAB.
      pose proof (@incl_rows_crows_w h d cb ca ndb Fb nda Fa) as IBA.
      assert (Out : forall ch k, ~ In k (map fst ch) -> crows h ch k = []).
      { intros ch k n. unfold crows. apply cget_none in n. rewrite n. reflexivity. }
      assert (EGn : (exists k, ~ incl (crows h ca k) (crows h cb k)) ->
                    ~ incl (riter (S h) (Inner ca)) (riter (S h) (Inner cb))).
      { intros [k n] I. apply n. apply IAB, I. }
      assert (ELn : (exists k, ~ incl (crows h cb k) (crows h ca k)) ->
                    ~ incl (riter (S h) (Inner cb)) (riter (S h) (Inner ca))).
      { intros [k n] I. apply n. apply IBA, I. }
      destruct L as [(s' & o' & E & Nb & Gs & Go & Ps & Po)|[E [G1 G2]]].
      * rewrite E.
        assert (AllA : s' = false -> incl (riter (S h) (Inner ca)) (riter (S h) (Inner cb))).
        { intros e. apply IAB. intros k. destruct (Ps e) as [_ A].
          destruct (in_dec N.eq_dec k (map fst ca ++ map fst cb)) as [i|n]; [apply A, i|].
          rewrite in_app_iff in n. rewrite (Out ca k) by tauto. intros r0 []. }
        assert (AllB : o' = false -> incl (riter (S h) (Inner cb)) (riter (S h) (Inner ca))).
        { intros e. apply IBA. intros k. destruct (Po e) as [_ A].
          destruct (in_dec N.eq_dec k (map fst ca ++ map fst cb)) as [i|n]; [apply A, i|].
          rewrite in_app_iff in n. rewrite (Out cb k) by tauto. intros r0 []. }
        destruct s', o'; cbn [flagres cmp_rel]; auto.
      * rewrite E. cbn. auto.
Qed.

Theorem pcmp_spec h : forall d a b, wf h d a -> wf h d b ->
  cmp_rel (riter h a) (riter h b) (pcmp h a b).
Proof. intros d a b Wa Wb. apply (pcmp_spec_w h d); apply wf_wfw; assumption. Qed.

(* ------------------------------------------------------------------ merge_node / Merge::merge *)
Definition chrows (h : nat) (ch : list (N * ght)) : list row :=
  flat_map (fun kc => riter h (snd kc)) ch.

Lemma chrows_app h a b : chrows h (a ++ b) = chrows h a ++ chrows h b.
Proof. apply flat_map_app. Qed.
Lemma chrows_cons h k v rest : chrows h ((k, v) :: rest) = riter h v ++ chrows h rest.
Proof. reflexivity. Qed.
Lemma chrows_one h k v : chrows h [(k, v)] = riter h v.
Proof. unfold chrows. cbn. apply app_nil_r. Qed.

Lemma subset_b_spec a b : subset_b a b = true <-> incl a b.
Proof.
  unfold subset_b. rewrite forallb_forall. unfold incl.
  split; intros H x i; [apply mem_in, H, i|apply mem_in, H, i].
Qed.

Lemma subset_b_app l1 l2 m : subset_b (l1 ++ l2) m = subset_b l1 m && subset_b l2 m.
Proof. apply forallb_app. Qed.

Lemma mem_ext l1 l2 x : (In x l1 <-> In x l2) -> mem l1 x = mem l2 x.
Proof.
  intros H. destruct (mem l1 x) eqn:E1, (mem l2 x) eqn:E2; try reflexivity.
  - apply mem_in, H, mem_in in E1. congruence.
  - apply mem_in, H, mem_in in E2. congruence.
Qed.

Lemma subset_b_ext l m1 m2 :
  (forall x, In x l -> (In x m1 <-> In x m2)) -> subset_b l m1 = subset_b l m2.
Proof.
  intros H. unfold subset_b. induction l as [|x l IH]; [reflexivity|]. cbn.
  rewrite (mem_ext m1 m2 x) by (apply H; left; reflexivity).
  rewrite IH; [reflexivity|]. intros y i. apply H. right. assumption.
Qed.

Lemma subset_b_false l m x : In x l -> ~ In x m -> subset_b l m = false.
Proof.
  intros i n. apply not_true_is_false. intros S. apply subset_b_spec in S. apply n, S, i.
Qed.

Lemma creplace_keys ch k c : map fst (creplace ch k c) = map fst ch.
Proof.
  induction ch as [|[k' c'] ch IH]; [reflexivity|]. cbn.
  destruct (N.eqb_spec k k'); cbn; [subst; reflexivity|]. rewrite IH. reflexivity.
Qed.

Lemma creplace_forall (P : N * ght -> Prop) ch k c :
  Forall P ch -> P (k, c) -> Forall P (creplace ch k c).
Proof.
  induction 1 as [|[k' c'] ch p F IH]; intros Pk; cbn; [constructor|].
  destruct (N.eqb_spec k k'); [subst; constructor; assumption|].
  constructor; [assumption|apply IH, Pk].
Qed.

Lemma creplace_rows h ch k c c' (V : list row) x :
  cget ch k = Some c ->
  (In x (riter h c') <-> In x (riter h c) \/ In x V) ->
  (In x (chrows h (creplace ch k c')) <-> In x (chrows h ch) \/ In x V).
Proof.
  intros G M. induction ch as [|[k' c0] ch IH]; [discriminate|]. cbn in G. cbn [creplace].
  destruct (N.eqb_spec k k').
  - inversion G; subst. unfold chrows. cbn [flat_map snd]. rewrite !in_app_iff, M. tauto.
  - unfold chrows in *. cbn [flat_map snd]. rewrite !in_app_iff, (IH G). tauto.
Qed.

Lemma chrows_head h d ch x :
  Forall (child_ok (wf h (S d)) (riter h) d) ch -> In x (chrows h ch) -> In (head d x) (map fst ch).
Proof.
  intros F i. apply in_flat_map in i as [[k c] [i ix]]. rewrite Forall_forall in F.
  destruct (F _ i) as (_ & _ & H). cbn in *. rewrite Forall_forall in H. rewrite (H _ ix).
  apply (in_map fst) in i. exact i.
Qed.

Definition merge_ok (h : nat) : Prop :=
  forall d a b, wf h d a -> wf h d b ->
    wf h d (fst (merge h a b)) /\
    (forall x, In x (riter h (fst (merge h a b))) <-> In x (riter h a) \/ In x (riter h b)) /\
    snd (merge h a b) = negb (subset_b (riter h b) (riter h a)).

Lemma merge_leaf ra rb : NoDup ra -> NoDup rb ->
  let s := hs_extend ra rb in
  NoDup s /\ (forall x, In x s <-> In x ra \/ In x rb) /\
  Nat.ltb (hs_len ra) (hs_len s) = negb (subset_b rb ra).
Proof.
  intros na nb s. destruct (leaf_extend_spec rb na) as [ns M]. fold s in ns, M.
  split; [assumption|split; [assumption|]]. unfold hs_len.
  destruct (subset_b rb ra) eqn:S; cbn.
  - apply subset_b_spec in S. apply Nat.ltb_ge.
    apply NoDup_incl_length; [assumption|]. intros x i. apply M in i as [i|i]; [assumption|apply S, i].
  - apply Nat.ltb_lt. destruct (Nat.lt_ge_cases (length ra) (length s)) as [l|g]; [assumption|].
    exfalso. assert (I : incl s ra).
    { apply NoDup_length_incl; [assumption|assumption|]. intros x i. apply M. tauto. }
    assert (subset_b rb ra = true); [|congruence]. apply subset_b_spec. intros x i.
    apply I, M. tauto.
Qed.

Section MergeFold.
  Variables (h d : nat).
  Hypothesis IH : merge_ok h.
  Let ok := child_ok (wf h (S d)) (riter h) d.
  Let stepf := fun (acc : list (N * ght) * bool) (kv : N * ght) =>
                 let '(ca, changed) := acc in
                 match cget ca (fst kv) with
                 | Some c => let '(c', chg) := merge h c (snd kv) in
                             (creplace ca (fst kv) c', changed || chg)
                 | None => (ca ++ [kv], changed || has_rows h (snd kv))
                 end.

  Lemma merge_fold rest : forall cur chg,
    NoDup (map fst cur) -> Forall ok cur -> NoDup (map fst rest) -> Forall ok rest ->
    let res := fold_left stepf rest (cur, chg) in
    NoDup (map fst (fst res)) /\ Forall ok (fst res) /\
    (forall x, In x (chrows h (fst res)) <-> In x (chrows h cur) \/ In x (chrows h rest)) /\
    snd res = chg || negb (subset_b (chrows h rest) (chrows h cur)).
  Proof.
    induction rest as [|[k v] rest IHr]; intros cur chg ndc Fc ndr Fr; cbn zeta.
    - cbn. split; [assumption|split; [assumption|split]].
      + intros x. tauto.
      + rewrite orb_false_r. reflexivity.
    - inversion ndr as [|? ? nk ndr']; inversion Fr as [|? ? okv Fr']; subst.
      destruct okv as (Wv & NEv & Hv). cbn [fst snd] in Wv, NEv, Hv.
      rewrite Forall_forall in Hv.
      cbn [fold_left].
      assert (Estep : stepf (cur, chg) (k, v) =
                      match cget cur k with
                      | Some c => let '(c', g) := merge h c v in (creplace cur k c', chg || g)
                      | None => (cur ++ [(k, v)], chg || has_rows h v)
                      end) by reflexivity.
      rewrite Estep. clear Estep.
      (* rows of the remaining children never have head k *)
      assert (RestHead : forall x, In x (chrows h rest) -> head d x <> k).
      { intros x i e. apply (@chrows_head h d rest x Fr') in i. rewrite e in i. tauto. }
      destruct (cget cur k) as [c|] eqn:G.
      + (* Occupied: merge into the existing child *)
        pose proof G as Gin. apply cget_in in Gin.
        pose proof Fc as Fc0. rewrite Forall_forall in Fc0.
        destruct (Fc0 _ Gin) as (Wc & NEc & Hc). cbn [fst snd] in Wc, NEc, Hc.
        rewrite Forall_forall in Hc.
        destruct (IH (S d) c v Wc Wv) as (W' & M' & Fl').
        destruct (merge h c v) as [c' g]. cbn [fst snd] in W', M', Fl'.
        assert (okc' : ok (k, c')).
        { split; [exact W'|split]; cbn [fst snd].
          - destruct (riter h c) as [|r0 l] eqn:E; [congruence|]. intros E'.
            assert (i : In r0 (riter h c')) by (apply M'; left; left; reflexivity).
            rewrite E' in i. exact i.
          - apply Forall_forall. intros x i. apply M' in i as [i|i]; [apply Hc, i|apply Hv, i]. }
        assert (Rows1 : forall x, In x (chrows h (creplace cur k c')) <->
                                  In x (chrows h cur) \/ In x (riter h v)).
        { intros x. apply (@creplace_rows h cur k c c' (riter h v) x G), M'. }
        destruct (IHr (creplace cur k c') (chg || g)) as (nd2 & F2 & M2 & Fl2);
          [rewrite creplace_keys; assumption|apply creplace_forall; assumption|assumption|assumption|].
        split; [exact nd2|split; [exact F2|split]].
        * intros x. rewrite M2, Rows1, chrows_cons, in_app_iff. tauto.
        * rewrite Fl2, Fl', chrows_cons, subset_b_app.
          (* rows of v are compared with child c only; the rest never meets v's rows *)
          assert (S1 : subset_b (riter h v) (riter h c) = subset_b (riter h v) (chrows h cur)).
          { apply subset_b_ext. intros x i. specialize (Hv _ i).
            pose proof (@in_rows_crows h d cur x ndc Fc) as Q. cbn [riter] in Q. fold (chrows h cur) in Q.
            rewrite Q. unfold crows. rewrite Hv, G. tauto. }
          assert (S2 : subset_b (chrows h rest) (chrows h (creplace cur k c')) =
                       subset_b (chrows h rest) (chrows h cur)).
          { apply subset_b_ext. intros x i. rewrite Rows1. split; [|tauto].
            intros [j|j]; [assumption|]. exfalso. apply (RestHead x i), Hv, j. }
          rewrite S1, S2.
          destruct chg, (subset_b (riter h v) (chrows h cur)), (subset_b (chrows h rest) (chrows h cur));
            reflexivity.
      + (* Vacant: the child is moved in *)
        assert (nin : ~ In k (map fst cur)) by (apply cget_none, G).
        assert (Hv1 : has_rows h v = true).
        { unfold has_rows. destruct (riter h v); [congruence|reflexivity]. }
        rewrite Hv1, orb_true_r.
        destruct (IHr (cur ++ [(k, v)]) true) as (nd2 & F2 & M2 & Fl2).
        * rewrite map_app. cbn. apply NoDup_snoc; assumption.
        * apply Forall_app. split; [assumption|]. constructor; [|constructor].
          split; [exact Wv|split; [exact NEv|]]. cbn [fst snd]. apply Forall_forall, Hv.
        * assumption.
        * assumption.
        * split; [exact nd2|split; [exact F2|split]].
          -- intros x. rewrite M2, chrows_app, chrows_one, chrows_cons, !in_app_iff. tauto.
          -- rewrite Fl2. cbn [orb]. rewrite chrows_cons, subset_b_app.
             destruct (riter h v) as [|r0 l] eqn:E; [congruence|].
             rewrite (@subset_b_false (r0 :: l) (chrows h cur) r0); [destruct chg; reflexivity|left; reflexivity|].
             intros i. apply (@chrows_head h d cur r0 Fc) in i. rewrite (Hv r0) in i; [tauto|left; reflexivity].
  Qed.
End MergeFold.

Theorem merge_spec h : merge_ok h.
Proof.
  induction h as [|h IH]; intros d a b Wa Wb.
  - destruct a as [ra|], b as [rb|]; try contradiction. cbn [merge fst snd wf riter].
    apply merge_leaf; assumption.
  - destruct a as [|ca], b as [|cb]; try contradiction.
    destruct Wa as [nda Fa], Wb as [ndb Fb].
    pose proof (@merge_fold h d IH cb ca false nda Fa ndb Fb) as L. cbn zeta in L.
    cbn [merge]. 
    match goal with |- context [fold_left ?f cb (ca, false)] => set (res := fold_left f cb (ca, false)) in * end.
    destruct res as [ca' changed]. cbn [fst snd] in *. destruct L as (nd' & F' & M' & Fl').
    cbn [wf riter]. fold (chrows h ca') (chrows h ca) (chrows h cb).
    split; [split; assumption|split; [exact M'|exact Fl']].
Qed.

(* ---- merge on weakly well-formed tries: children without rows are moved/merged like any
   other, but the changed flag is exactly "the row set grew" *)
Lemma chrows_head_w h d ch x :
  Forall (okw h d) ch -> In x (chrows h ch) -> In (head d x) (map fst ch).
Proof.
  intros F i. apply in_flat_map in i as [[k c] [i ix]]. rewrite Forall_forall in F.
  destruct (F _ i) as (_ & H). cbn in *. rewrite Forall_forall in H. rewrite (H _ ix).
  apply (in_map fst) in i. exact i.
Qed.

Definition merge_okw (h : nat) : Prop :=
  forall d a b, wfw h d a -> wfw h d b ->
    wfw h d (fst (merge h a b)) /\
    (forall x, In x (riter h (fst (merge h a b))) <-> In x (riter h a) \/ In x (riter h b)) /\
    snd (merge h a b) = negb (subset_b (riter h b) (riter h a)).

Section MergeFoldW.
  Variables (h d : nat).
  Hypothesis IH : merge_okw h.
  Let stepf := fun (acc : list (N * ght) * bool) (kv : N * ght) =>
                 let '(ca, changed) := acc in
                 match cget ca (fst kv) with
                 | Some c => let '(c', chg) := merge h c (snd kv) in
                             (creplace ca (fst kv) c', changed || chg)
                 | None => (ca ++ [kv], changed || has_rows h (snd kv))
                 end.

  Lemma merge_fold_flag rest : forall cur chg,
    NoDup (map fst cur) -> Forall (okw h d) cur -> NoDup (map fst rest) -> Forall (okw h d) rest ->
    let res := fold_left stepf rest (cur, chg) in
    NoDup (map fst (fst res)) /\ Forall (okw h d) (fst res) /\
    (forall x, In x (chrows h (fst res)) <-> In x (chrows h cur) \/ In x (chrows h rest)) /\
    snd res = chg || negb (subset_b (chrows h rest) (chrows h cur)).
  Proof.
    induction rest as [|[k v] rest IHr]; intros cur chg ndc Fc ndr Fr; cbn zeta.
    - cbn. split; [assumption|split; [assumption|split]].
      + intros x. tauto.
      + rewrite orb_false_r. reflexivity.
    - inversion ndr as [|? ? nk ndr']; inversion Fr as [|? ? okv Fr']; subst.
      destruct okv as (Wv & Hv). cbn [fst snd] in Wv, Hv. rewrite Forall_forall in Hv.
      cbn [fold_left].
      assert (Estep : stepf (cur, chg) (k, v) =
                      match cget cur k with
                      | Some c => let '(c', g) := merge h c v in (creplace cur k c', chg || g)
                      | None => (cur ++ [(k, v)], chg || has_rows h v)
                      end) by reflexivity.
      rewrite Estep. clear Estep.
      assert (RestHead : forall x, In x (chrows h rest) -> head d x <> k).
      { intros x i e. apply (@chrows_head_w h d rest x Fr') in i. rewrite e in i. tauto. }
      destruct (cget cur k) as [c|] eqn:G.
      + pose proof G as Gin. apply cget_in in Gin.
        pose proof Fc as Fc0. rewrite Forall_forall in Fc0.
        destruct (Fc0 _ Gin) as (Wc & Hc). cbn [fst snd] in Wc, Hc. rewrite Forall_forall in Hc.
        destruct (IH (S d) c v Wc Wv) as (W' & M' & Fl').
        destruct (merge h c v) as [c' g]. cbn [fst snd] in W', M', Fl'.
        assert (okc' : okw h d (k, c')).
        { split; [exact W'|]. cbn [fst snd]. apply Forall_forall. intros x i.
          apply M' in i as [i|i]; [apply Hc, i|apply Hv, i]. }
        assert (Rows1 : forall x, In x (chrows h (creplace cur k c')) <->
                                  In x (chrows h cur) \/ In x (riter h v)).
        { intros x. apply (@creplace_rows h cur k c c' (riter h v) x G), M'. }
        destruct (IHr (creplace cur k c') (chg || g)) as (nd2 & F2 & M2 & Fl2);
          [rewrite creplace_keys; assumption|apply creplace_forall; assumption|assumption|assumption|].
        split; [exact nd2|split; [exact F2|split]].
        * intros x. rewrite M2, Rows1, chrows_cons, in_app_iff. tauto.
        * rewrite Fl2, Fl', chrows_cons, subset_b_app.
          assert (S1 : subset_b (riter h v) (riter h c) = subset_b (riter h v) (chrows h cur)).
          { apply subset_b_ext. intros x i. specialize (Hv _ i).
            pose proof (@in_rows_crows_w h d cur x ndc Fc) as Q. cbn [riter] in Q. fold (chrows h cur) in Q.
            rewrite Q. unfold crows. rewrite Hv, G. tauto. }
          assert (S2 : subset_b (chrows h rest) (chrows h (creplace cur k c')) =
                       subset_b (chrows h rest) (chrows h cur)).
          { apply subset_b_ext. intros x i. rewrite Rows1. split; [|tauto].
            intros [j|j]; [assumption|]. exfalso. apply (RestHead x i), Hv, j. }
          rewrite S1, S2.
          destruct chg, (subset_b (riter h v) (chrows h cur)), (subset_b (chrows h rest) (chrows h cur));
            reflexivity.
      + assert (nin : ~ In k (map fst cur)) by (apply cget_none, G).
        destruct (IHr (cur ++ [(k, v)]) (chg || has_rows h v)) as (nd2 & F2 & M2 & Fl2).
        * rewrite map_app. cbn. apply NoDup_snoc; assumption.
        * apply Forall_app. split; [assumption|]. constructor; [|constructor].
          split; [exact Wv|]. cbn [fst snd]. apply Forall_forall, Hv.
        * assumption.
        * assumption.
        * split; [exact nd2|split; [exact F2|split]].
          -- intros x. rewrite M2, chrows_app, chrows_one, chrows_cons, !in_app_iff. tauto.
          -- rewrite Fl2, chrows_cons, subset_b_app.
             assert (S2 : subset_b (chrows h rest) (chrows h (cur ++ [(k, v)])) =
                          subset_b (chrows h rest) (chrows h cur)).
             { apply subset_b_ext. intros x i. rewrite chrows_app, chrows_one, in_app_iff.
               split; [|tauto]. intros [j|j]; [assumption|]. exfalso. apply (RestHead x i), Hv, j. }
             rewrite S2.
             assert (S1 : subset_b (riter h v) (chrows h cur) = negb (has_rows h v)).
             { unfold has_rows. destruct (riter h v) as [|r0 l] eqn:E; [reflexivity|]. cbn [is_nil negb].
               apply (@subset_b_false (r0 :: l) (chrows h cur) r0); [left; reflexivity|].
               intros i. apply (@chrows_head_w h d cur r0 Fc) in i.
               rewrite (Hv r0) in i; [tauto|first [left; reflexivity|rewrite E; left; reflexivity]]. }
             rewrite S1.
             destruct chg, (has_rows h v), (subset_b (chrows h rest) (chrows h cur)); reflexivity.
  Qed.
End MergeFoldW.

Theorem merge_spec_w h : merge_okw h.
Proof.
  induction h as [|h IH]; intros d a b Wa Wb.
  - destruct a as [ra|], b as [rb|]; try contradiction. cbn [merge fst snd wfw riter].
    apply merge_leaf; assumption.
  - destruct a as [|ca], b as [|cb]; try contradiction.
    destruct Wa as [nda Fa], Wb as [ndb Fb].
    pose proof (@merge_fold_flag h d IH cb ca false nda Fa ndb Fb) as L. cbn zeta in L.
    cbn [merge].
    match goal with |- context [fold_left ?f cb (ca, false)] => set (res := fold_left f cb (ca, false)) in * end.
    destruct res as [ca' changed]. cbn [fst snd] in *. destruct L as (nd' & F' & M' & Fl').
    cbn [wfw riter]. fold (chrows h ca') (chrows h ca) (chrows h cb).
    split; [split; assumption|split; [exact M'|exact Fl']].
Qed.

(* ------------------------------------------------------------------ is_bot, PartialEq *)
Lemma is_bot_spec h : forall d t, wf h d t -> (is_bot h t = true <-> riter h t = []).
Proof.
  induction h as [|h IH]; intros d t W.
  - destruct t as [rows|]; [|contradiction]. cbn. unfold hs_is_empty.
    destruct rows; cbn; split; congruence.
  - destruct t as [|ch]; [contradiction|]. destruct W as [nd F]. cbn [is_bot riter].
    destruct ch as [|[k c] ch]; [cbn; tauto|]. inversion F as [|? ? (W & NE & _) F']; subst.
    cbn [forallb flat_map snd fst] in *. split.
    + intros B. apply andb_true_iff in B as [B _]. apply (IH _ _ W) in B. congruence.
    + intros E. apply app_eq_nil in E as [E _]. congruence.
Qed.

Lemma keys_heads h d ch k :
  Forall (child_ok (wf h (S d)) (riter h) d) ch ->
  (In k (map fst ch) <-> exists x, In x (chrows h ch) /\ head d x = k).
Proof.
  intros F. split.
  - intros i. apply in_map_iff in i as [[k' c] [e i]]. cbn in e. subst k'.
    pose proof F as F0. rewrite Forall_forall in F0. destruct (F0 _ i) as (_ & NE & H).
    cbn [fst snd] in *. destruct (riter h c) as [|x l] eqn:E; [congruence|].
    exists x. split.
    + apply in_flat_map. exists (k, c). split; [assumption|]. cbn. rewrite E. left. reflexivity.
    + rewrite Forall_forall in H. apply H. left. reflexivity.
  - intros [x [i e]]. subst k. apply (@chrows_head h d ch x F i).
Qed.

(* the children that hold rows *)
Definition livekeys (h : nat) (ch : list (N * ght)) : list N :=
  map fst (filter (fun kc => has_rows h (snd kc)) ch).

Lemma live_livekeys h ch : NoDup (map fst ch) -> live h ch = length (livekeys h ch).
Proof.
  intros nd. unfold live, livekeys. rewrite map_length. f_equal. apply filter_ext_in.
  intros [k c] i. cbn [fst snd]. rewrite (in_cget _ _ _ nd i). reflexivity.
Qed.

Lemma livekeys_nodup h ch : NoDup (map fst ch) -> NoDup (livekeys h ch).
Proof.
  unfold livekeys. induction ch as [|[k c] ch IH]; intros nd; [constructor|].
  inversion nd as [|? ? n nd']; subst. cbn [filter snd]. destruct (has_rows h c); cbn [map fst].
  - constructor; [|apply IH, nd']. intros i. apply n. apply in_map_iff in i as [[k' c'] [e i]].
    cbn in e. subst k'. apply filter_In in i as [i _]. apply (in_map fst) in i. exact i.
  - apply IH, nd'.
Qed.

Lemma in_livekeys h ch k : In k (livekeys h ch) <-> exists c, In (k, c) ch /\ has_rows h c = true.
Proof.
  unfold livekeys. rewrite in_map_iff. split.
  - intros [[k' c] [e i]]. cbn in e. subst k'. apply filter_In in i as [i H]. eauto.
  - intros [c [i H]]. exists (k, c). split; [reflexivity|]. apply filter_In. auto.
Qed.

Lemma livekeys_heads h d ch k :
  Forall (okw h d) ch ->
  (In k (livekeys h ch) <-> exists x, In x (chrows h ch) /\ head d x = k).
Proof.
  intros F. rewrite in_livekeys. pose proof F as F0. rewrite Forall_forall in F0. split.
  - intros [c [i H]]. destruct (F0 _ i) as (_ & Hd). cbn [fst snd] in Hd.
    unfold has_rows in H. destruct (riter h c) as [|x l] eqn:E; [discriminate|].
    exists x. split.
    + apply in_flat_map. exists (k, c). split; [assumption|]. cbn. rewrite E. left. reflexivity.
    + rewrite Forall_forall in Hd. apply Hd. left. reflexivity.
  - intros [x [i e]]. apply in_flat_map in i as [[k' c] [i ix]]. cbn [snd] in ix.
    destruct (F0 _ i) as (_ & Hd). cbn [fst snd] in Hd. rewrite Forall_forall in Hd.
    rewrite (Hd _ ix) in e. subst k'. exists c. split; [assumption|].
    unfold has_rows. destruct (riter h c); [contradiction|reflexivity].
Qed.

(* == is equality of the row sets, for ALL weakly well-formed tries (children without rows
   are ignored) *)
Lemma peq_spec_w h : forall d a b, wfw h d a -> wfw h d b ->
  (peq h a b = true <-> incl (riter h a) (riter h b) /\ incl (riter h b) (riter h a)).
Proof.
  induction h as [|h IH]; intros d a b Wa Wb.
  - destruct a as [ra|], b as [rb|]; try contradiction. cbn in *.
    rewrite (hs_eq_spec (nodup_Rset Wa) (nodup_Rset Wb)), set_eqb_spec. split.
    + intros H. split; intros x i; apply mem_in; [rewrite <- H|rewrite H]; apply mem_in, i.
    + intros [I J] r. apply mem_ext. split; [apply I|apply J].
  - destruct a as [|ca], b as [|cb]; try contradiction.
    destruct Wa as [nda Fa], Wb as [ndb Fb]. cbn [peq].
    rewrite (@live_livekeys h ca nda), (@live_livekeys h cb ndb).
    pose proof (@incl_rows_crows_w h d ca cb nda Fa ndb Fb) as IAB.
    pose proof (@incl_rows_crows_w h d cb ca ndb Fb nda Fa) as IBA.
    pose proof Fa as Fa0. pose proof Fb as Fb0. rewrite Forall_forall in Fa0, Fb0.
    cbn [riter] in *. fold (chrows h ca) (chrows h cb) in *.
    split.
    + (* matching live children => equal row sets *)
      destruct (Nat.eqb_spec (length (livekeys h ca)) (length (livekeys h cb))) as [L|]; [cbn [negb]|discriminate].
      rewrite forallb_forall. intros H.
      assert (Each : forall k c, In (k, c) ca -> has_rows h c = true ->
                       exists o, cget cb k = Some o /\
                         incl (riter h c) (riter h o) /\ incl (riter h o) (riter h c)).
      { intros k c i Hc. specialize (H _ i). cbn [fst] in H. rewrite (in_cget _ _ _ nda i), Hc in H.
        cbn [negb] in H. destruct (cget cb k) as [o|] eqn:Gb; [|discriminate].
        exists o. split; [reflexivity|]. destruct (Fa0 _ i) as (Wc & _).
        pose proof (cget_in _ _ Gb) as ib. destruct (Fb0 _ ib) as (Wo & _).
        apply (IH _ _ _ Wc Wo), H. }
      assert (KI : incl (livekeys h ca) (livekeys h cb)).
      { intros k i. apply in_livekeys in i as [c [i Hc]]. destruct (Each _ _ i Hc) as (o & G & I & _).
        apply in_livekeys. exists o. split; [apply cget_in, G|].
        unfold has_rows in *. destruct (riter h c) as [|x l]; [discriminate|].
        destruct (riter h o); [exfalso; apply (I x); left; reflexivity|reflexivity]. }
      assert (KJ : incl (livekeys h cb) (livekeys h ca)).
      { apply NoDup_length_incl; [apply (@livekeys_nodup h ca nda)|lia|assumption]. }
      split.
      * intros x i. apply in_flat_map in i as [[k c] [i ix]]. cbn [snd] in ix.
        assert (Hc : has_rows h c = true) by (unfold has_rows; destruct (riter h c); [contradiction|reflexivity]).
        destruct (Each _ _ i Hc) as (o & G & I & _). apply in_flat_map. exists (k, o).
        split; [apply cget_in, G|apply I, ix].
      * intros x i. apply in_flat_map in i as [[k o] [i ix]]. cbn [snd] in ix.
        assert (Ho : has_rows h o = true) by (unfold has_rows; destruct (riter h o); [contradiction|reflexivity]).
        assert (lk : In k (livekeys h ca)) by (apply KJ, in_livekeys; eauto).
        apply in_livekeys in lk as [c [ic Hc]]. destruct (Each _ _ ic Hc) as (o' & G & _ & J).
        rewrite (in_cget _ _ _ ndb i) in G. inversion G; subst o'.
        apply in_flat_map. exists (k, c). split; [assumption|apply J, ix].
    + (* equal row sets => matching live children *)
      intros [I J].
      assert (KK : forall k, In k (livekeys h ca) <-> In k (livekeys h cb)).
      { intros k. rewrite (@livekeys_heads h d ca k Fa), (@livekeys_heads h d cb k Fb).
        split; intros [x [i e]]; exists x; (split; [|assumption]); [apply I|apply J]; assumption. }
      assert (L : length (livekeys h ca) = length (livekeys h cb)).
      { apply Nat.le_antisymm; apply NoDup_incl_length; try (apply livekeys_nodup; assumption);
          intros k i; apply KK; assumption. }
      rewrite L, Nat.eqb_refl. cbn [negb]. apply forallb_forall. intros [k c] i. cbn [fst].
      rewrite (in_cget _ _ _ nda i). destruct (has_rows h c) eqn:Hc; [cbn [negb]|reflexivity].
      assert (lk : In k (livekeys h cb)) by (apply KK, in_livekeys; eauto).
      apply in_livekeys in lk as [o [io Ho]]. rewrite (in_cget _ _ _ ndb io).
      destruct (Fa0 _ i) as (Wc & _), (Fb0 _ io) as (Wo & _). cbn [snd] in *.
      apply (IH _ _ _ Wc Wo).
      pose proof (proj1 IAB I k) as Ik. pose proof (proj1 IBA J k) as Jk. unfold crows in Ik, Jk.
      rewrite (in_cget _ _ _ nda i), (in_cget _ _ _ ndb io) in Ik, Jk. tauto.
Qed.

Lemma peq_spec h : forall d a b, wf h d a -> wf h d b ->
  (peq h a b = true <-> incl (riter h a) (riter h b) /\ incl (riter h b) (riter h a)).
Proof. intros d a b Wa Wb. apply (peq_spec_w h d); apply wf_wfw; assumption. Qed.

(* ------------------------------------------------------------------ prefix lookups *)
Lemma skipn_head d : forall (x : row), d < length x -> skipn d x = head d x :: skipn (S d) x.
Proof.
  unfold head. induction d as [|d IH]; intros [|y x] L; cbn in L; try lia; [reflexivity|].
  cbn [skipn nth]. rewrite IH by lia. reflexivity.
Qed.

Lemma row_eqb_eq a b : row_eqb a b = true <-> a = b.
Proof. destruct (row_eqb_spec a b); split; congruence. Qed.

(* prefix_iter h d t p = the rows of t whose columns d, d+1, ... start with p, without repetition *)
Lemma prefix_iter_spec h : forall d t p, wf h d t ->
  Forall (fun x => h + d <= length x) (riter h t) ->
  NoDup (prefix_iter h d t p) /\
  forall x, In x (prefix_iter h d t p) <->
            In x (riter h t) /\ has_prefix p (skipn d x) = true.
Proof.
  induction h as [|h IH]; intros d t p W Len.
  - destruct t as [rows|]; [|contradiction]. cbn [prefix_iter riter] in *. split.
    + apply NoDup_filter, W.
    + intros x. rewrite filter_In. unfold has_prefix. tauto.
  - destruct t as [|ch]; [contradiction|]. pose proof W as [nd F]. cbn [prefix_iter].
    destruct p as [|y p].
    + split; [apply (riter_nodup _ _ _ W)|]. intros x. unfold has_prefix. cbn. tauto.
    + rewrite Forall_forall in Len.
      assert (HP : forall x, In x (riter (S h) (Inner ch)) ->
                 (has_prefix (y :: p) (skipn d x) = true <->
                  head d x = y /\ has_prefix p (skipn (S d) x) = true)).
      { intros x i. specialize (Len _ i). rewrite skipn_head by lia. unfold has_prefix.
        cbn [length firstn row_eqb]. rewrite andb_true_iff, N.eqb_eq. intuition. }
      destruct (cget ch y) as [c|] eqn:G.
      * pose proof (cget_in _ _ G) as ic. pose proof F as F0. rewrite Forall_forall in F0.
        destruct (F0 _ ic) as (Wc & _ & Hc). cbn [fst snd] in Wc, Hc. rewrite Forall_forall in Hc.
        assert (Lenc : Forall (fun x => h + S d <= length x) (riter h c)).
        { apply Forall_forall. intros x i. assert (j : In x (riter (S h) (Inner ch))).
          { apply in_riter_inner. exists y, c. tauto. }
          specialize (Len _ j). lia. }
        destruct (IH (S d) c p Wc Lenc) as [ndp M]. split; [assumption|].
        intros x. rewrite M. split.
        -- intros [i P]. assert (j : In x (riter (S h) (Inner ch))).
           { apply in_riter_inner. exists y, c. tauto. }
           split; [assumption|]. apply (HP x j). split; [apply Hc, i|assumption].
        -- intros [j P]. apply (HP x j) in P as [e P]. split; [|assumption].
           apply (@in_rows_crows h d ch x nd F) in j. unfold crows in j. rewrite e, G in j. exact j.
      * split; [constructor|]. intros x. split; [intros []|]. intros [j P].
        apply (HP x j) in P as [e _]. apply (@chrows_head h d ch x F) in j. rewrite e in j.
        apply cget_none in G. tauto.
Qed.

(* find_containing_leaf: the leaf holding r holds exactly the rows that agree with r on the
   key columns d .. d+h-1 *)
Lemma find_leaf_spec h : forall d t r, wf h d t ->
  Forall (fun x => h + d <= length x) (riter h t) -> h + d <= length r ->
  match find_leaf h d t r with
  | Some L => In r (riter h t) /\ NoDup L /\
              forall x, In x L <-> In x (riter h t) /\ firstn h (skipn d x) = firstn h (skipn d r)
  | None => ~ In r (riter h t)
  end.
Proof.
  induction h as [|h IH]; intros d t r W Len Lr.
  - destruct t as [rows|]; [|contradiction]. cbn [find_leaf riter] in *.
    destruct (existsb _ rows) eqn:E.
    + apply existsb_exists in E as [x [i e]]. apply row_eqb_eq in e. subst x.
      split; [assumption|split; [assumption|]]. intros x. cbn. tauto.
    + intros i. assert (existsb (fun x => row_eqb r x) rows = true); [|congruence].
      apply existsb_exists. exists r. split; [assumption|apply row_eqb_refl].
  - destruct t as [|ch]; [contradiction|]. pose proof W as [nd F]. cbn [find_leaf].
    rewrite Forall_forall in Len.
    destruct (cget ch (head d r)) as [c|] eqn:G.
    + pose proof (cget_in _ _ G) as ic. pose proof F as F0. rewrite Forall_forall in F0.
      destruct (F0 _ ic) as (Wc & _ & Hc). cbn [fst snd] in Wc, Hc. rewrite Forall_forall in Hc.
      assert (Sub : forall x, In x (riter h c) -> In x (riter (S h) (Inner ch))).
      { intros x i. apply in_riter_inner. exists (head d r), c. tauto. }
      assert (Lenc : Forall (fun x => h + S d <= length x) (riter h c)).
      { apply Forall_forall. intros x i. specialize (Len _ (Sub _ i)). lia. }
      specialize (IH (S d) c r Wc Lenc ltac:(lia)).
      destruct (find_leaf h (S d) c r) as [L|].
      * destruct IH as (ir & ndL & M). split; [apply Sub, ir|split; [assumption|]].
        intros x. rewrite M. split.
        -- intros [i e]. split; [apply Sub, i|]. specialize (Len _ (Sub _ i)).
           rewrite (@skipn_head d x), (@skipn_head d r) by lia. cbn [firstn].
           rewrite (Hc _ i), e. reflexivity.
        -- intros [j e]. specialize (Len _ j).
           rewrite (@skipn_head d x), (@skipn_head d r) in e by lia. cbn [firstn] in e.
           inversion e as [[e1 e2]]. split; [|assumption].
           apply (@in_rows_crows h d ch x nd F) in j. unfold crows in j. rewrite e1, G in j. exact j.
      * intros j. apply IH. apply (@in_rows_crows h d ch r nd F) in j. unfold crows in j.
        rewrite G in j. exact j.
    + intros j. apply (@chrows_head h d ch r F) in j. apply cget_none in G. tauto.
Qed.

(* ------------------------------------------------------------------ joins *)
Definition join_rel (h d nk : nat) (A B : list row) (z : row) : Prop :=
  exists x y, In x A /\ In y B /\ firstn h (skipn d x) = firstn h (skipn d y) /\ z = x ++ skipn nk y.

Definition join_ok (h : nat) : Prop :=
  forall d nk a b, wf h d a -> wf h d b ->
    Forall (fun x => h + d <= length x) (riter h a) ->
    Forall (fun x => h + d <= length x) (riter h b) ->
    wfw h d (deep_join h nk a b) /\
    forall z, In z (riter h (deep_join h nk a b)) <-> join_rel h d nk (riter h a) (riter h b) z.

Lemma head_app d (x l : row) : d < length x -> head d (x ++ l) = head d x.
Proof. intros L. unfold head. apply app_nth1, L. Qed.

Section JoinChildren.
  Variables (h d nk : nat) (ca cb : list (N * ght)).
  Hypothesis IH : join_ok h.
  Hypothesis nda : NoDup (map fst ca).
  Hypothesis Fa : Forall (child_ok (wf h (S d)) (riter h) d) ca.
  Hypothesis La : Forall (fun x => S h + d <= length x) (chrows h ca).

  Let g := fun kv : N * ght =>
             match cget ca (fst kv) with
             | Some va => [(fst kv, deep_join h nk va (snd kv))]
             | None => []
             end.

  Lemma join_children_in rest k c :
    In (k, c) (flat_map g rest) <->
    exists va vb, In (k, vb) rest /\ cget ca k = Some va /\ c = deep_join h nk va vb.
  Proof.
    rewrite in_flat_map. split.
    - intros [[k' vb] [i j]]. unfold g in j. cbn [fst snd] in j.
      destruct (cget ca k') as [va|] eqn:G; [|contradiction]. destruct j as [e|[]].
      inversion e; subst. exists va, vb. tauto.
    - intros (va & vb & i & G & e). exists (k, vb). split; [assumption|]. unfold g. cbn [fst snd].
      rewrite G. left. congruence.
  Qed.

  Lemma join_children_keys rest : NoDup (map fst rest) -> NoDup (map fst (flat_map g rest)).
  Proof.
    induction rest as [|[k vb] rest IHr]; intros nd; [constructor|].
    inversion nd as [|? ? n nd']; subst. cbn [flat_map]. unfold g at 1. cbn [fst snd].
    destruct (cget ca k) as [va|]; cbn [app map fst]; [|apply IHr, nd'].
    constructor; [|apply IHr, nd']. intros i. apply n. apply in_map_iff in i as [[k' c'] [e i]].
    cbn in e. subst k'. apply join_children_in in i as (va' & vb' & i & _). apply (in_map fst) in i. exact i.
  Qed.
End JoinChildren.

Lemma deep_join_spec h : join_ok h.
Proof.
  induction h as [|h IH]; intros d nk a b Wa Wb La Lb.
  - destruct a as [ra|], b as [rb|]; try contradiction. cbn [deep_join wfw riter].
    destruct (leaf_extend_spec (flat_map (fun x => map (fun y => x ++ skipn nk y) rb) ra)
                (NoDup_nil row)) as [nd M].
    split; [exact nd|]. intros z. unfold hs_new. rewrite M, in_flat_map. unfold join_rel. split.
    + intros [[]|[x [ix iz]]]. apply in_map_iff in iz as [y [e iy]]. exists x, y. cbn. auto.
    + intros (x & y & ix & iy & _ & e). right. exists x. split; [assumption|].
      apply in_map_iff. exists y. auto.
  - destruct a as [|ca], b as [|cb]; try contradiction.
    destruct Wa as [nda Fa], Wb as [ndb Fb]. cbn [deep_join wfw riter] in *.
    fold (chrows h ca) (chrows h cb) in *.
    pose proof Fa as Fa0. pose proof Fb as Fb0. rewrite Forall_forall in Fa0, Fb0, La, Lb.
    set (g := fun kv : N * ght =>
                match cget ca (fst kv) with
                | Some va => [(fst kv, deep_join h nk va (snd kv))]
                | None => []
                end).
    (* facts about one joined pair of children *)
    assert (Pair : forall k va vb, In (k, vb) cb -> cget ca k = Some va ->
              wfw h (S d) (deep_join h nk va vb) /\
              (forall z, In z (riter h (deep_join h nk va vb)) <->
                         join_rel h (S d) nk (riter h va) (riter h vb) z) /\
              (forall x, In x (riter h va) -> In x (chrows h ca) /\ head d x = k) /\
              (forall y, In y (riter h vb) -> In y (chrows h cb) /\ head d y = k)).
    { intros k va vb ib G. pose proof (cget_in _ _ G) as ia.
      destruct (Fa0 _ ia) as (Wva & _ & Hva), (Fb0 _ ib) as (Wvb & _ & Hvb). cbn [fst snd] in *.
      rewrite Forall_forall in Hva, Hvb.
      assert (Sa : forall x, In x (riter h va) -> In x (chrows h ca)).
      { intros x i. apply in_flat_map. exists (k, va). tauto. }
      assert (Sb : forall y, In y (riter h vb) -> In y (chrows h cb)).
      { intros y i. apply in_flat_map. exists (k, vb). tauto. }
      destruct (IH (S d) nk va vb Wva Wvb) as [W M].
      - apply Forall_forall. intros x i. specialize (La _ (Sa _ i)). lia.
      - apply Forall_forall. intros y i. specialize (Lb _ (Sb _ i)). lia.
      - split; [exact W|split; [exact M|split]]; intros x i; split; auto. }
    split; [split|].
    + apply join_children_keys, ndb.
    + apply Forall_forall. intros [k c] i. apply (join_children_in h nk ca) in i as (va & vb & ib & G & ->).
      destruct (Pair _ _ _ ib G) as (W & M & Ha & _). cbn [fst snd]. split; [exact W|].
      apply Forall_forall. intros z iz. apply M in iz as (x & y & ix & _ & _ & ->).
      destruct (Ha _ ix) as [ixa e]. specialize (La _ ixa). rewrite head_app by lia. exact e.
    + intros z. rewrite in_flat_map. unfold join_rel. split.
      * intros [[k c] [i iz]]. apply (join_children_in h nk ca) in i as (va & vb & ib & G & ->).
        cbn [snd] in iz. destruct (Pair _ _ _ ib G) as (_ & M & Ha & Hb).
        apply M in iz as (x & y & ix & iy & e & ->).
        destruct (Ha _ ix) as [ixa ea], (Hb _ iy) as [iyb eb].
        exists x, y. split; [exact ixa|split; [exact iyb|split; [|reflexivity]]].
        specialize (La _ ixa). specialize (Lb _ iyb).
        rewrite (@skipn_head d x), (@skipn_head d y) by lia. cbn [firstn]. congruence.
      * intros (x & y & ix & iy & e & ->). pose proof (La _ ix) as Lx. pose proof (Lb _ iy) as Ly.
        rewrite (@skipn_head d x), (@skipn_head d y) in e by lia. cbn [firstn] in e.
        inversion e as [[e1 e2]].
        pose proof (proj1 (@in_rows_crows h d ca x nda Fa) ix) as jx.
        pose proof (proj1 (@in_rows_crows h d cb y ndb Fb) iy) as jy. unfold crows in jx, jy.
        destruct (cget ca (head d x)) as [va|] eqn:Ga; [|contradiction].
        destruct (cget cb (head d y)) as [vb|] eqn:Gb; [|contradiction].
        apply cget_in in Gb. rewrite <- e1 in Gb.
        exists (head d x, deep_join h nk va vb). split.
        -- apply (join_children_in h nk ca). exists va, vb. auto.
        -- cbn [snd]. destruct (Pair _ _ _ Gb Ga) as (_ & M & _). apply M.
           exists x, y. auto.
Qed.

(* the output of the cartesian product: all rows inserted one by one *)
Lemma insert_all h rs : forall t, wf h 0 t ->
  wf h 0 (fold_left (fun t r => insert h 0 t r) rs t) /\
  forall x, In x (riter h (fold_left (fun t r => insert h 0 t r) rs t)) <-> In x (riter h t) \/ In x rs.
Proof.
  induction rs as [|r rs IH]; intros t W; cbn [fold_left].
  - split; [assumption|]. intros x. cbn. tauto.
  - destruct (insert_spec h 0 t r W) as [W' M']. destruct (IH _ W') as [W2 M2].
    split; [assumption|]. intros x. rewrite M2, M'. cbn. intuition.
Qed.

Lemma in_join_spec nk ha hb z :
  In z (join_spec nk ha hb) <-> join_rel nk 0 nk ha hb z.
Proof.
  unfold join_spec, join_rel. rewrite in_flat_map. cbn [skipn]. split.
  - intros [x [ix iz]]. apply in_map_iff in iz as [y [e iy]]. apply filter_In in iy as [iy k].
    apply row_eqb_eq in k. exists x, y. auto.
  - intros (x & y & ix & iy & k & e). exists x. split; [assumption|]. apply in_map_iff.
    exists y. split; [auto|]. apply filter_In. split; [assumption|]. apply row_eqb_eq, k.
Qed.

Lemma in_cart_spec ha hb z :
  In z (cart_spec ha hb) <-> exists x y, In x ha /\ In y hb /\ z = x ++ y.
Proof.
  unfold cart_spec. rewrite in_flat_map. split.
  - intros [x [ix iz]]. apply in_map_iff in iz as [y [e iy]]. exists x, y. auto.
  - intros (x & y & ix & iy & e). exists x. split; [assumption|]. apply in_map_iff. exists y. auto.
Qed.

(* COLT force: a leaf becomes a trie of height 1 with the same rows; inner nodes give None *)
Lemma force_spec h d t : wf h d t ->
  (h = 0 /\ exists t', force h d t = Some t' /\ wf 1 d t' /\
             forall x, In x (riter 1 t') <-> In x (riter h t)) \/
  (exists k, h = S k /\ force h d t = None).
Proof.
  intros W. destruct h as [|k].
  - left. split; [reflexivity|]. destruct t as [rows|]; [|contradiction]. cbn [force].
    eexists. split; [reflexivity|]. unfold hs_into_iter. cbn [riter].
    assert (G : forall rs t0, wf 1 d t0 ->
              wf 1 d (fold_left (fun t r => insert 1 d t r) rs t0) /\
              forall x, In x (riter 1 (fold_left (fun t r => insert 1 d t r) rs t0)) <->
                        In x (riter 1 t0) \/ In x rs).
    { induction rs as [|r rs IHrs]; intros t0 W0; cbn [fold_left].
      - split; [assumption|]. intros x. cbn. tauto.
      - destruct (insert_spec 1 d t0 r W0) as [W1 M1]. destruct (IHrs _ W1) as [W2 M2].
        split; [assumption|]. intros x. rewrite M2, M1. cbn. intuition. }
    destruct (G rows (empty 1) (wf_empty 1 d)) as [W' M']. split; [exact W'|].
    intros x. rewrite M', riter_empty. cbn. tauto.
  - right. exists k. split; [reflexivity|]. destruct t; reflexivity.
Qed.

(* ------------------------------------------------------------------ histories *)
Lemma nodup_bag_eqb l1 l2 :
  NoDup l1 -> NoDup l2 -> (forall x, In x l1 <-> In x l2) -> bag_eqb l1 l2 = true.
Proof.
  intros n1 n2 H. apply bag_eqb_spec, cnt_perm, NoDup_Permutation; assumption.
Qed.

Lemma distinct_nodup h : NoDup (distinct h).
Proof.
  apply (NoDup_count_occ row_eq_dec). intros r. rewrite <- cnt_count_occ, cnt_distinct.
  destruct (mem h r); lia.
Qed.

Lemma in_distinct h x : In x (distinct h) <-> In x h.
Proof.
  rewrite <- cnt_pos_in, cnt_distinct, <- mem_in. destruct (mem h x); split; try lia; try discriminate; auto.
Qed.

Lemma subset_b_equiv l l' m m' :
  (forall x, In x l <-> In x l') -> (forall x, In x m <-> In x m') -> subset_b l m = subset_b l' m'.
Proof.
  intros Hl Hm. apply eq_iff_eq_true. rewrite !subset_b_spec. unfold incl.
  split; intros I x i; apply Hm, I, Hl, i.
Qed.

(* refinement relation: the trie holds exactly the rows of the abstract history, all of the
   shape's arity *)
Definition Rg (nk arity : nat) (t : ght) (hist : bag) : Prop :=
  wf nk 0 t /\ (forall x, In x (riter nk t) <-> In x hist) /\
  Forall (fun x => length x = arity) hist.
Definition Rg2 nk arity (p : ght * ght) (q : bag * bag) : Prop :=
  Rg nk arity (fst p) (fst q) /\ Rg nk arity (snd p) (snd q).

(* an answer of the model is the specified one (row lists up to permutation) *)
Definition gans_ok (m s : gans) : Prop := gans_eqb m s = true.

Lemma Rg_sel nk a w p q : Rg2 nk a p q -> Rg nk a (sel w p) (sel w q).
Proof. intros [R0 R1]. destruct w; assumption. Qed.

Lemma Rg_upd nk a w p q t h : Rg2 nk a p q -> Rg nk a t h -> Rg2 nk a (upd w p t) (upd w q h).
Proof. intros [R0 R1] R. destruct w; split; assumption. Qed.

Lemma Rg_len nk a t hist : nk <= a -> Rg nk a t hist ->
  Forall (fun x => nk + 0 <= length x) (riter nk t).
Proof.
  intros L (_ & M & F). apply Forall_forall. intros x i. apply M in i.
  rewrite Forall_forall in F. rewrite (F _ i). lia.
Qed.

Lemma has_prefix_firstn n (r x : row) :
  n <= length r -> (has_prefix (firstn n r) x = true <-> firstn n x = firstn n r).
Proof.
  intros L. unfold has_prefix. rewrite row_eqb_eq, firstn_length, Nat.min_l by assumption.
  split; congruence.
Qed.

Lemma gstep_refines nk a p q o :
  nk <= a -> gop_ok a o = true -> Rg2 nk a p q ->
  Rg2 nk a (fst (gstep nk p o)) (fst (gspec_step nk q o)) /\
  gans_ok (snd (gstep nk p o)) (snd (gspec_step nk q o)).
Proof.
  intros Lnk ok R2.
  destruct o as [w r|w|w r|w|w pr|w r|w|w|w|w|w|w nko|w]; cbn [gstep gspec_step gop_ok] in *;
    pose proof (@Rg_sel nk a w p q R2) as Rw; pose proof (@Rg_sel nk a (negb w) p q R2) as Ro;
    pose proof Rw as (Ww & Mw & Fw); pose proof Ro as (Wo & Mo & Fo).
  - (* insert *)
    cbn [fst snd]. split; [|reflexivity]. apply Rg_upd; [assumption|].
    destruct (insert_spec nk 0 (sel w p) r Ww) as [W' M']. split; [assumption|split].
    + intros x. rewrite M', in_app_iff, Mw. cbn. intuition.
    + apply Forall_app. split; [assumption|]. constructor; [apply Nat.eqb_eq, ok|constructor].
  - (* merge *)
    destruct (merge_spec nk 0 (sel w p) (sel (negb w) p) Ww Wo) as (W' & M' & Fl').
    destruct (merge nk (sel w p) (sel (negb w) p)) as [t chg]. cbn [fst snd] in *. split.
    + apply Rg_upd; [assumption|]. split; [assumption|split].
      * intros x. rewrite M', in_app_iff, Mw, Mo. tauto.
      * apply Forall_app. split; assumption.
    + unfold gans_ok. cbn. rewrite Fl', (@subset_b_equiv _ _ _ _ Mo Mw). apply eqb_reflx.
  - (* contains *)
    cbn [fst snd]. split; [assumption|]. unfold gans_ok. cbn. apply eqb_true_of_eq, eq_iff_eq_true.
    rewrite (contains_spec nk 0 (sel w p) r Ww), Mw, mem_in. tauto.
  - (* recursive_iter *)
    cbn [fst snd]. split; [assumption|]. unfold gans_ok. cbn. apply nodup_bag_eqb.
    + apply (riter_nodup nk 0 _ Ww).
    + apply distinct_nodup.
    + intros x. rewrite in_distinct. apply Mw.
  - (* prefix_iter *)
    cbn [fst snd]. split; [assumption|]. unfold gans_ok. cbn.
    destruct (prefix_iter_spec nk 0 (sel w p) pr Ww (@Rg_len nk a _ _ Lnk Rw)) as [ndp M]. apply nodup_bag_eqb.
    + assumption.
    + apply NoDup_filter, distinct_nodup.
    + intros x. rewrite M, filter_In, in_distinct, Mw. cbn [skipn]. tauto.
  - (* find_containing_leaf *)
    cbn [fst snd]. split; [assumption|]. unfold gans_ok. cbn.
    assert (Lr : length r = a) by (apply Nat.eqb_eq, ok).
    pose proof (find_leaf_spec nk 0 (sel w p) r Ww (@Rg_len nk a _ _ Lnk Rw) ltac:(lia)) as S.
    destruct (find_leaf nk 0 (sel w p) r) as [L|].
    + destruct S as (ir & ndL & M). apply Mw in ir. apply mem_in in ir. rewrite ir. cbn.
      apply nodup_bag_eqb; [assumption|apply NoDup_filter, distinct_nodup|].
      intros x. rewrite M, filter_In, in_distinct, Mw, has_prefix_firstn by lia. cbn [skipn]. tauto.
    + destruct (mem (sel w q) r) eqn:E; [|reflexivity]. apply mem_in, Mw in E. tauto.
  - (* partial_cmp *)
    cbn [fst snd]. split; [assumption|].
    pose proof (pcmp_spec nk 0 _ _ Ww Wo) as C. unfold subset_cmp.
    rewrite <- (@subset_b_equiv _ _ _ _ Mw Mo), <- (@subset_b_equiv _ _ _ _ Mo Mw).
    destruct (subset_b (riter nk (sel w p)) (riter nk (sel (negb w) p))) eqn:S1,
             (subset_b (riter nk (sel (negb w) p)) (riter nk (sel w p))) eqn:S2;
      try apply subset_b_spec in S1; try apply subset_b_spec in S2;
      try (assert (N1 : ~ incl (riter nk (sel w p)) (riter nk (sel (negb w) p)))
             by (intros I; apply subset_b_spec in I; congruence));
      try (assert (N2 : ~ incl (riter nk (sel (negb w) p)) (riter nk (sel w p)))
             by (intros I; apply subset_b_spec in I; congruence));
      destruct (pcmp nk (sel w p) (sel (negb w) p)) as [[| |]| |]; cbn [cmp_rel] in C;
      unfold gans_ok; try reflexivity; exfalso; tauto.
  - (* == *)
    cbn [fst snd]. split; [assumption|]. unfold gans_ok. cbn. apply eqb_true_of_eq, eq_iff_eq_true.
    rewrite (peq_spec nk 0 _ _ Ww Wo), set_eqb_spec. split.
    + intros [I J] r. apply mem_ext. rewrite <- Mw, <- Mo. split; [apply I|apply J].
    + intros H. split; intros x i; [apply Mo|apply Mw]; apply mem_in;
        [rewrite <- H|rewrite H]; apply mem_in; [apply Mw|apply Mo]; assumption.
  - (* height *)
    cbn [fst snd]. split; [assumption|]. unfold gans_ok. cbn. apply N.eqb_refl.
  - (* is_bot *)
    cbn [fst snd]. split; [assumption|]. unfold gans_ok. cbn. apply eqb_true_of_eq, eq_iff_eq_true.
    rewrite (is_bot_spec nk 0 _ Ww), Nat.eqb_eq, length_zero_iff_nil. split.
    + intros E. destruct (sel w q) as [|x l]; [reflexivity|]. exfalso.
      assert (i : In x (riter nk (sel w p))) by (apply Mw; left; reflexivity). rewrite E in i. exact i.
    + intros E. destruct (riter nk (sel w p)) as [|x l] eqn:E'; [reflexivity|]. exfalso.
      assert (i : In x (sel w q)) by (apply Mw; left; reflexivity). rewrite E in i. exact i.
  - (* deep join *)
    cbn [fst snd]. split; [assumption|]. unfold gans_ok. cbn.
    destruct (deep_join_spec nk 0 nk (sel w p) (sel (negb w) p) Ww Wo
                (@Rg_len nk a _ _ Lnk Rw) (@Rg_len nk a _ _ Lnk Ro)) as [W' M'].
    apply nodup_bag_eqb; [apply (riter_nodup_w nk 0 _ W')|apply distinct_nodup|].
    intros z. rewrite in_distinct, in_join_spec, M'. unfold join_rel.
    split; intros (x & y & ix & iy & e & ->); exists x, y;
      (split; [apply Mw, ix|split; [apply Mo, iy|auto]]).
  - (* cartesian product *)
    cbn [fst snd]. split; [assumption|]. unfold gans_ok. cbn. unfold cart_product.
    destruct (insert_all nko (flat_map (fun x => map (fun y => x ++ y) (riter nk (sel (negb w) p)))
                                       (riter nk (sel w p))) (empty nko) (wf_empty nko 0)) as [W' M'].
    apply nodup_bag_eqb; [apply (riter_nodup nko 0 _ W')|apply distinct_nodup|].
    intros z. rewrite in_distinct, M', riter_empty.
    change (flat_map (fun x => map (fun y => x ++ y) (riter nk (sel (negb w) p))) (riter nk (sel w p)))
      with (cart_spec (riter nk (sel w p)) (riter nk (sel (negb w) p))).
    rewrite !in_cart_spec. split.
    + intros [[]|(x & y & ix & iy & ->)]. exists x, y. split; [apply Mw, ix|split; [apply Mo, iy|reflexivity]].
    + intros (x & y & ix & iy & ->). right. exists x, y. split; [apply Mw, ix|split; [apply Mo, iy|reflexivity]].
  - (* COLT force *)
    cbn [fst snd]. split; [assumption|]. unfold gans_ok.
    destruct (force_spec nk 0 (sel w p) Ww) as [F|F].
    + destruct F as (e & t' & E & W' & M'). subst nk. rewrite E. cbn.
      apply nodup_bag_eqb; [apply (riter_nodup 1 0 _ W')|apply distinct_nodup|].
      intros x. rewrite in_distinct, M'. apply Mw.
    + destruct F as (k & e & E). subst nk. rewrite E. reflexivity.
Qed.

Lemma grun_refines nk a ops : nk <= a ->
  (forall o, In o ops -> gop_ok a o = true) ->
  forall p q, Rg2 nk a p q -> Forall2 gans_ok (grun_from nk p ops) (gspec_from nk q ops).
Proof.
  intros Lnk. induction ops as [|o ops IH]; intros F p q R2; [constructor|].
  cbn [grun_from gspec_from].
  pose proof (@gstep_refines nk a p q o Lnk (F o (or_introl eq_refl)) R2) as [R' A].
  destruct (gstep nk p o) as [p' am], (gspec_step nk q o) as [q' asp]. cbn [fst snd] in *.
  constructor; [assumption|]. apply IH; [|assumption]. intros o' i. apply F. right. assumption.
Qed.

(* Every answer of every insert/merge/lookup/compare/join history on two tries of any height is
   the answer of the plain set of rows. *)
Theorem ght_history_refines nk a ops :
  gops_ok nk a ops = true ->
  Forall2 gans_ok (gmodel_run nk ops) (gspec_run nk ops).
Proof.
  unfold gops_ok. rewrite !andb_true_iff, Nat.leb_le, forallb_forall. intros [[Lnk _] F].
  unfold gmodel_run, gspec_run. apply (@grun_refines nk a ops Lnk F).
  assert (R : Rg nk a (empty nk) []).
  { split; [apply wf_empty|split; [|constructor]]. intros x. rewrite riter_empty. tauto. }
  split; exact R.
Qed.

(* ------------------------------------------------------------------ what the executable comparison means *)
Definition gans_equiv (x y : gans) : Prop :=
  match x, y with
  | GARows a, GARows b => Permutation a b
  | GAOptRows (Some a), GAOptRows (Some b) => Permutation a b
  | GAOptRows None, GAOptRows None => True
  | GARows _, _ | _, GARows _ | GAOptRows _, _ | _, GAOptRows _ => False
  | _, _ => x = y
  end.

Lemma gans_eqb_spec x y : gans_eqb x y = true <-> gans_equiv x y.
Proof.
  destruct x as [b|n|l|[l|]|c], y as [b'|n'|l'|[l'|]|c']; cbn;
    try (split; [discriminate|congruence]); try tauto;
    try (split; [discriminate|intros []]).
  - rewrite eqb_true_iff. split; congruence.
  - rewrite N.eqb_eq. split; congruence.
  - rewrite bag_eqb_spec. apply cnt_perm.
  - rewrite bag_eqb_spec. apply cnt_perm.
  - destruct c as [[| |]| |], c' as [[| |]| |]; cbn;
      split; try discriminate; try reflexivity; try congruence.
Qed.

Lemma ganswers_eqb_spec xs : forall ys,
  ganswers_eqb xs ys = true <-> Forall2 gans_equiv xs ys.
Proof.
  induction xs as [|x xs IH]; intros [|y ys]; cbn.
  - split; [constructor|reflexivity].
  - split; [discriminate|intros H; inversion H].
  - split; [discriminate|intros H; inversion H].
  - rewrite andb_true_iff, IH, gans_eqb_spec. split.
    + intros [? ?]. constructor; assumption.
    + intros H. inversion H; subst. tauto.
Qed.

Lemma c08_holds_b_spec nk ops impl :
  C08_holds_b nk ops impl = true <-> Forall2 gans_equiv impl (gspec_run nk ops).
Proof. apply ganswers_eqb_spec. Qed.

Lemma cart_product_spec h nko a b :
  wf nko 0 (cart_product h nko a b) /\
  forall z, In z (riter nko (cart_product h nko a b)) <->
            exists x y, In x (riter h a) /\ In y (riter h b) /\ z = x ++ y.
Proof.
  unfold cart_product.
  destruct (insert_all nko (flat_map (fun x => map (fun y => x ++ y) (riter h b)) (riter h a))
                       (empty nko) (wf_empty nko 0)) as [W M].
  split; [exact W|]. intros z. rewrite M, riter_empty.
  change (flat_map (fun x => map (fun y => x ++ y) (riter h b)) (riter h a))
    with (cart_spec (riter h a) (riter h b)).
  rewrite in_cart_spec. cbn. tauto.
Qed.

Lemma ght_history_equiv nk a ops :
  gops_ok nk a ops = true -> Forall2 gans_equiv (gmodel_run nk ops) (gspec_run nk ops).
Proof.
  intros ok. pose proof (ght_history_refines nk a ops ok) as H.
  induction H; constructor; [apply gans_eqb_spec; assumption|assumption].
Qed.

(* partial_cmp IS the subset comparison of the row sets, for all well-formed tries *)
Theorem pcmp_is_subset_cmp h d a b :
  wf h d a -> wf h d b -> pcmp h a b = subset_cmp (riter h a) (riter h b).
Proof.
  intros Wa Wb. pose proof (pcmp_spec h d a b Wa Wb) as C. unfold subset_cmp.
  destruct (subset_b (riter h a) (riter h b)) eqn:S1, (subset_b (riter h b) (riter h a)) eqn:S2;
    try apply subset_b_spec in S1; try apply subset_b_spec in S2;
    try (assert (N1 : ~ incl (riter h a) (riter h b)) by (intros I; apply subset_b_spec in I; congruence));
    try (assert (N2 : ~ incl (riter h b) (riter h a)) by (intros I; apply subset_b_spec in I; congruence));
    destruct (pcmp h a b) as [[| |]| |]; cbn [cmp_rel] in C; try reflexivity; exfalso; tauto.
Qed.
