(* E2 Coll engine -- generalized hash tries, extended model (definitions only):
     * any leaf storage (VariadicHashSet / VariadicCountedHashSet / VariadicColumnMultiset,
       reusing ModelVC.cstate and its operations),
     * the leaf's `forced` flag, ColtForestNode::force_drain, GeneralizedHashTrieNode::drain on a
       child obtained with GhtGet::get_mut (both can leave EMPTY leaves / children behind),
     * the COLT forest and ColtGet::get (colt.rs).
   ModelGHT.v (set storage, no flag) stays as it is; other engines import it. *)
From HV Require Export Coll.ModelGHT.

Set Implicit Arguments.

(* ---------------------------------------------------------------- leaf storage = ModelVC.cstate *)
Definition st_insert (st : cstate) (r : row) : cstate :=
  match st with
  | SSet s => SSet (fst (hs_insert s r))
  | SCnt s => SCnt (fst (cs_insert s r))
  | SCol s => SCol (fst (cm_insert s r))
  end.
Definition st_iter (st : cstate) : list row :=
  match st with SSet s => hs_iter s | SCnt s => cs_iter s | SCol s => cm_iter s end.
Definition st_into_iter (st : cstate) : list row :=
  match st with SSet s => hs_into_iter s | SCnt s => cs_into_iter s | SCol s => cm_into_iter s end.
Definition st_len (st : cstate) : nat :=
  match st with SSet s => hs_len s | SCnt s => cs_len s | SCol s => cm_len s end.
Definition st_is_empty (st : cstate) : bool :=
  match st with SSet s => hs_is_empty s | SCnt s => cs_is_empty s | SCol s => cm_is_empty s end.
Definition st_extend (st : cstate) (rs : list row) : cstate :=
  match st with
  | SSet s => SSet (hs_extend s rs)
  | SCnt s => SCnt (cs_extend s rs)
  | SCol s => SCol (cm_extend s rs)
  end.
Definition st_drain (st : cstate) : list row * cstate :=
  match st with
  | SSet s => let '(l, s') := hs_drain s in (l, SSet s')
  | SCnt s => let '(l, s') := cs_drain s in (l, SCnt s')
  | SCol s => let '(l, s') := cm_drain s in (l, SCol s')
  end.
(* Storage: PartialEq (none for the column multiset) *)
Definition st_eq (a b : cstate) : option bool :=
  match a, b with
  | SSet x, SSet y => Some (hs_eq x y)
  | SCnt x, SCnt y => Some (cs_eq x y)
  | _, _ => None
  end.

(* ---------------------------------------------------------------- tries *)
Inductive sght := SLeaf (st : cstate) (forced : bool) | SInner (children : list (N * sght)).

Section Storage.
  Variables (k : kind) (arity : nat).

  Definition sempty (h : nat) : sght :=
    match h with 0 => SLeaf (new_state k arity) false | S _ => SInner [] end.

  Fixpoint scget (ch : list (N * sght)) (key : N) : option sght :=
    match ch with
    | [] => None
    | (k', c) :: ch' => if N.eqb key k' then Some c else scget ch' key
    end.
  Fixpoint scupd (ch : list (N * sght)) (key : N) (dflt : sght) (f : sght -> sght) : list (N * sght) :=
    match ch with
    | [] => [(key, f dflt)]
    | (k', c) :: ch' => if N.eqb key k' then (k', f c) :: ch' else (k', c) :: scupd ch' key dflt f
    end.
  Fixpoint screplace (ch : list (N * sght)) (key : N) (c : sght) : list (N * sght) :=
    match ch with
    | [] => []
    | (k', c') :: ch' => if N.eqb key k' then (k', c) :: ch' else (k', c') :: screplace ch' key c
    end.

  Fixpoint sinsert (h d : nat) (t : sght) (r : row) : sght :=
    match h, t with
    | 0, SLeaf st f => SLeaf (st_insert st r) f
    | S h', SInner ch => SInner (scupd ch (head d r) (sempty h') (fun c => sinsert h' (S d) c r))
    | _, _ => t
    end.

  Fixpoint scontains (h d : nat) (t : sght) (r : row) : bool :=
    match h, t with
    | 0, SLeaf st _ => existsb (fun x => row_eqb x r) (st_iter st)
    | S h', SInner ch => match scget ch (head d r) with
                         | Some c => scontains h' (S d) c r
                         | None => false
                         end
    | _, _ => false
    end.

  Fixpoint sriter (h : nat) (t : sght) : list row :=
    match h, t with
    | 0, SLeaf st _ => st_iter st
    | S h', SInner ch => flat_map (fun kc => sriter h' (snd kc)) ch
    | _, _ => []
    end.

  (* has_rows (c041ccb5709): recursive_iter().next().is_some() *)
  Definition shas_rows (h : nat) (t : sght) : bool := negb (is_nil (sriter h t)).

  (* merge_node: leaf keeps its own `forced`; `extend(other.elements)` = extend(into_iter);
     Vacant => changed |= has_rows(&v) *)
  Fixpoint smerge (h : nat) (a b : sght) : sght * bool :=
    match h, a, b with
    | 0, SLeaf sa fa, SLeaf sb _ =>
        let s := st_extend sa (st_into_iter sb) in (SLeaf s fa, Nat.ltb (st_len sa) (st_len s))
    | S h', SInner ca, SInner cb =>
        let '(ca', changed) :=
          fold_left (fun (acc : list (N * sght) * bool) (kv : N * sght) =>
                       let '(ca, changed) := acc in
                       match scget ca (fst kv) with
                       | Some c => let '(c', chg) := smerge h' c (snd kv) in
                                   (screplace ca (fst kv) c', changed || chg)
                       | None => (ca ++ [kv], changed || shas_rows h' (snd kv))
                       end) cb (ca, false) in
        (SInner ca', changed)
    | _, _, _ => (a, false)
    end.

  (* PartialOrd (and IsBot, Merge): leaves need Storage: VariadicSet, i.e. the hash set only *)
  Fixpoint spcmp_loop (hr : sght -> bool) (f : sght -> sght -> pres) (ca cb : list (N * sght)) (ks : list N)
           (sag oag : bool) : pres :=
    match ks with
    | [] => match sag, oag with
            | true, false => PSome Gt | false, true => PSome Lt
            | false, false => PSome Eq | true, true => PPanic
            end
    | key :: ks' =>
      let next := fun s o => if s && o then PNone else spcmp_loop hr f ca cb ks' s o in
      match scget ca key, scget cb key with
      | Some x, Some y =>
        match f x y with
        | PSome Gt => next true oag
        | PSome Lt => next sag true
        | PSome Eq => next sag oag
        | PNone => PNone
        | PPanic => PPanic
        end
      | Some x, None => next (sag || hr x) oag
      | None, Some y => next sag (oag || hr y)
      | None, None => PPanic
      end
    end.
  Fixpoint spcmp (h : nat) (a b : sght) : pres :=
    match h, a, b with
    | 0, SLeaf (SSet ra) _, SLeaf (SSet rb) _ => pcmp 0 (Leaf ra) (Leaf rb)
    | S h', SInner ca, SInner cb =>
      if is_nil ca && is_nil cb then PSome Eq
      else spcmp_loop (shas_rows h') (spcmp h') ca cb (map fst ca ++ map fst cb) false false
    | _, _, _ => PPanic
    end.

  (* PartialEq: the leaf compares `elements` only (manual impl since repo commit beb89003dcf;
     before it the impl was derived and also compared the COLT flag `forced`) *)
  Fixpoint speq (h : nat) (a b : sght) : bool :=
    match h, a, b with
    | 0, SLeaf sa fa, SLeaf sb fb =>
        match st_eq sa sb with Some e => e | None => false end
    | S h', SInner ca, SInner cb =>
      let live := fun ch : list (N * sght) =>
        length (filter (fun kc => match scget ch (fst kc) with
                                  | Some c => shas_rows h' c | None => false end) ch) in
      if negb (Nat.eqb (live ca) (live cb)) then false
      else forallb (fun kc => match scget ca (fst kc) with
                              | None => false
                              | Some t => if negb (shas_rows h' t) then true
                                          else match scget cb (fst kc) with
                                               | Some o => speq h' t o
                                               | None => false
                                               end
                              end) ca
    | _, _, _ => false
    end.

  Fixpoint sis_bot (h : nat) (t : sght) : bool :=
    match h, t with
    | 0, SLeaf st _ => st_is_empty st
    | S h', SInner ch => forallb (fun kc => sis_bot h' (snd kc)) ch
    | _, _ => true
    end.

  (* ColtForestNode::force_drain on a leaf at depth d: forced = true; every drained row is
     inserted into a fresh GhtInner<Head, GhtLeaf<Schema, Rest, Storage>> keyed on column d;
     inner nodes: None *)
  Definition sforce_drain (h d : nat) (t : sght) : sght * option sght :=
    match h, t with
    | 0, SLeaf st _ =>
        let '(rows, st') := st_drain st in
        (SLeaf st' true, Some (fold_left (fun t r => sinsert 1 d t r) rows (sempty 1)))
    | _, _ => (t, None)
    end.

  (* GhtGet::get_mut(&key) then GeneralizedHashTrieNode::drain() on the child:
     None = no such child; Some None = the child is an inner node (drain gives None);
     Some (Some rows) = the child leaf's rows; the emptied leaf STAYS in the map *)
  Definition schild_drain (h : nat) (t : sght) (key : N) : sght * option (option (list row)) :=
    match h, t with
    | S _, SInner ch =>
        match scget ch key with
        | None => (t, None)
        | Some (SLeaf st f) =>
            let '(rows, st') := st_drain st in
            (SInner (screplace ch key (SLeaf st' f)), Some (Some rows))
        | Some (SInner _) => (t, Some None)
        end
    | _, _ => (t, None)
    end.

  (* state predicates used to classify deviations from the set/multiset reading *)
  Fixpoint has_forced (h : nat) (t : sght) : bool :=
    match h, t with
    | 0, SLeaf _ f => f
    | S h', SInner ch => existsb (fun kc => has_forced h' (snd kc)) ch
    | _, _ => false
    end.
  Fixpoint has_empty_child (h : nat) (t : sght) : bool :=
    match h, t with
    | S h', SInner ch =>
        existsb (fun kc => is_nil (sriter h' (snd kc)) || has_empty_child h' (snd kc)) ch
    | _, _ => false
    end.

  (* ---------------------------------------------------------------- COLT forest (colt.rs)
     forest = tries of heights 0, 1, 2, ...; element i is keyed on columns d .. d+i-1.
     ColtGet::get(forest, head):
       first is a leaf  => forced = first.force_drain().unwrap(); rest.head.merge_node(forced);
                           then Rest::get(rest, head)
       first is inner   => child = first.children.entry(head).or_default();
                           (child, ...Rest::get(rest, head))
     The result is the forest of the children (one level down); [colt_get] returns the updated
     forest and the rows of every element of the result forest; [colt_get_path] chains gets
     (the result of one get is the receiver of the next) and writes the children back. *)
  Definition child_or_default (h : nat) (t : sght) (key : N) : sght * sght :=
    match h, t with
    | S h', SInner ch =>
        match scget ch key with
        | Some c => (t, c)
        | None => (SInner (ch ++ [(key, sempty h')]), sempty h')
        end
    | _, _ => (t, t)
    end.
  Definition set_child (t : sght) (key : N) (c : sght) : sght :=
    match t with SInner ch => SInner (screplace ch key c) | _ => t end.

  (* forest elements are (height, trie); a get on a forest whose first element is a leaf first
     forces it into the second element *)
  Definition colt_force_first (d : nat) (fs : list (nat * sght)) : list (nat * sght) :=
    match fs with
    | (0, lf) :: (h1, t1) :: rest =>
        match sforce_drain 0 d lf with
        | (lf', Some forced) => (0, lf') :: (h1, fst (smerge h1 t1 forced)) :: rest
        | (lf', None) => fs
        end
    | _ => fs
    end.

  Fixpoint colt_get_path (d : nat) (fs : list (nat * sght)) (path : list N)
    : list (nat * sght) * list (list row) :=
    match path with
    | [] => (fs, map (fun ht => sriter (fst ht) (snd ht)) fs)
    | key :: path' =>
      let fs1 := colt_force_first d fs in
      (* a leading leaf is not part of the result (Get = Rest::Get); every inner trie goes
         one level down (entry(head).or_default()) *)
      let '(keep, going) := match fs1 with
                            | (0, lf) :: rest => ([(0, lf)], rest)
                            | _ => ([], fs1)
                            end in
      let down := map (fun ht => let '(t', c) := child_or_default (fst ht) (snd ht) key in
                                 ((fst ht, t'), (pred (fst ht), c))) going in
      let going1 := map fst down in
      let subs := map snd down in
      let '(subs', obs) := colt_get_path (S d) subs path' in
      let going2 := map (fun p => (fst (fst p), set_child (snd (fst p)) key (snd (snd p))))
                        (combine going1 subs') in
      (keep ++ going2, obs)
    end.
End Storage.

(* ---------------------------------------------------------------- histories on two tries *)
Inductive xop :=
| XInsert (w : bool) (r : row) | XMerge (w : bool) | XContains (w : bool) (r : row) | XIter (w : bool)
| XCmp (w : bool) | XEq (w : bool) | XIsBot (w : bool)
| XForceDrain (w : bool) | XChildDrain (w : bool) (key : N).

Inductive xans :=
| XABool (b : bool) | XARows (l : list row) | XAOptRows (o : option (list row))
| XACmp (c : pres) | XAInner | XAUnsupported.

Definition has_peq (k : kind) (nk : nat) : bool :=
  match k, nk with KSet, _ => true | KCounted, 0 => true | _, _ => false end.
Definition has_pcmp (k : kind) : bool := match k with KSet => true | _ => false end.

Definition xstep (k : kind) (a nk : nat) (p : sght * sght) (o : xop) : (sght * sght) * xans :=
  match o with
  | XInsert w r => (upd w p (sinsert k a nk 0 (sel w p) r), XABool true)
  | XMerge w => let '(t, ch) := smerge nk (sel w p) (sel (negb w) p) in (upd w p t, XABool ch)
  | XContains w r => (p, XABool (scontains nk 0 (sel w p) r))
  | XIter w => (p, XARows (sriter nk (sel w p)))
  | XCmp w => (p, if has_pcmp k then XACmp (spcmp nk (sel w p) (sel (negb w) p)) else XAUnsupported)
  | XEq w => (p, if has_peq k nk then XABool (speq nk (sel w p) (sel (negb w) p)) else XAUnsupported)
  | XIsBot w => (p, if has_pcmp k then XABool (sis_bot nk (sel w p)) else XAUnsupported)
  | XForceDrain w =>
      let '(t, f) := sforce_drain k a nk 0 (sel w p) in
      (upd w p t, XAOptRows (option_map (sriter 1) f))
  | XChildDrain w key =>
      let '(t, r) := schild_drain nk (sel w p) key in
      (upd w p t, match r with
                  | None => XAOptRows None
                  | Some None => XAInner
                  | Some (Some rows) => XAOptRows (Some rows)
                  end)
  end.

(* the specification: a set (KSet) or multiset (other kinds) of rows per register *)
Definition xspec_step (k : kind) (nk : nat) (p : bag * bag) (o : xop) : (bag * bag) * xans :=
  let self w := sel w p in
  let other w := sel (negb w) p in
  match o with
  | XInsert w r => (upd w p (self w ++ [r]), XABool true)
  | XMerge w => (upd w p (self w ++ other w),
                 XABool (match k with
                         | KSet => negb (subset_b (other w) (self w))
                         | _ => negb (is_nil (other w))
                         end))
  | XContains w r => (p, XABool (mem (self w) r))
  | XIter w => (p, XARows (contents k (self w)))
  | XCmp w => (p, if has_pcmp k then XACmp (subset_cmp (self w) (other w)) else XAUnsupported)
  | XEq w => (p, if has_peq k nk
                 then XABool (match k with KSet => set_eqb (self w) (other w)
                                         | _ => bag_eqb (self w) (other w) end)
                 else XAUnsupported)
  | XIsBot w => (p, if has_pcmp k then XABool (is_nil (self w)) else XAUnsupported)
  | XForceDrain w =>
      match nk with
      | 0 => (upd w p [], XAOptRows (Some (contents k (self w))))
      | S _ => (p, XAOptRows None)
      end
  | XChildDrain w key =>
      match nk with
      | 0 => (p, XAOptRows None)
      | 1 => let mine := filter (fun r => N.eqb (head 0 r) key) (self w) in
             if is_nil mine then (p, XAOptRows None)
             else (upd w p (filter (fun r => negb (N.eqb (head 0 r) key)) (self w)),
                   XAOptRows (Some (contents k mine)))
      | _ => (p, if existsb (fun r => N.eqb (head 0 r) key) (self w) then XAInner else XAOptRows None)
      end
  end.

Definition xans_eqb (x y : xans) : bool :=
  match x, y with
  | XABool a, XABool b => Bool.eqb a b
  | XARows a, XARows b => bag_eqb a b
  | XAOptRows a, XAOptRows b => opt_eqb bag_eqb a b
  | XACmp a, XACmp b => pres_eqb a b
  | XAInner, XAInner => true
  | XAUnsupported, XAUnsupported => true
  | _, _ => false
  end.

(* cause of a deviation of the implementation from the specification, read off the MODEL's
   state: no class of deviations is known any more (class 1 "forced flag in ==" fixed by
   beb89003dcf, class 2 "empty child counts as content" fixed by c041ccb5709): 3 = unexplained *)
Definition cause (nk : nat) (p : sght * sght) (o : xop) : N := 3%N.

(* get_mut(&k) + drain() observes whether a child EXISTS, which is structure, not content: an
   existing child without rows (Some []) and no child (None) are the same answer at the level of
   rows, so they are identified when answers are compared. *)
Definition norm_ans (o : xop) (x : xans) : xans :=
  match o, x with
  | XChildDrain _ _, XAOptRows (Some []) => XAOptRows None
  | _, _ => x
  end.

(* run model and specification side by side against the implementation's answers:
   (all answers equal the model's, all equal the spec's, class of the deviations) where class is
   0 = there is no deviation, 2 = all explained by an empty child, 3 = some deviation
   unexplained *)
Fixpoint xrun (k : kind) (a nk : nat) (p : sght * sght) (q : bag * bag) (ops : list xop)
         (impl : list xans) : bool * bool * N :=
  match ops, impl with
  | [], [] => (true, true, 0%N)
  | o :: ops', i :: impl' =>
      let '(p', am) := xstep k a nk p o in
      let '(q', asp) := xspec_step k nk q o in
      let '(agree, holds, cls) := xrun k a nk p' q' ops' impl' in
      let i := norm_ans o i in
      let am := norm_ans o am in
      let ok := xans_eqb i asp in
      let c := if ok then 0%N else cause nk p o in
      (xans_eqb i am && agree, ok && holds, N.max c cls)
  | _, _ => (false, false, 3%N)
  end.

Definition xmodel_run (k : kind) (a nk : nat) (ops : list xop) : list xans :=
  (fix go p ops := match ops with
                   | [] => []
                   | o :: ops' => let '(p', am) := xstep k a nk p o in am :: go p' ops'
                   end) (sempty k a nk, sempty k a nk) ops.
Definition xspec_run (k : kind) (nk : nat) (ops : list xop) : list xans :=
  (fix go q ops := match ops with
                   | [] => []
                   | o :: ops' => let '(q', asp) := xspec_step k nk q o in asp :: go q' ops'
                   end) (([] : bag), ([] : bag)) ops.

(* verdict: bit0 model mismatch, bit1 property fails on the implementation,
   bits 2-3: class of the deviations (see xrun) *)
Definition c08x_chk (k : kind) (a nk : nat) (ops : list xop) (impl : list xans) : N :=
  let '(agree, holds, cls) := xrun k a nk (sempty k a nk, sempty k a nk) ([], []) ops impl in
  (verdict agree holds + 4 * cls)%N.

(* ---------------------------------------------------------------- COLT histories
   one forest (heights 0..n-1, column storage in production); ops: insert into the first
   (leaf) trie, get along a key path, total contents *)
Inductive cop := CInsert (r : row) | CGet (path : list N) | CAll.
Inductive cans := CAUnit | CAForest (elems : list (list row)).

Definition colt_new (k : kind) (a n : nat) : list (nat * sght) :=
  map (fun h => (h, sempty k a h)) (seq 0 n).

Definition cstep (k : kind) (a : nat) (fs : list (nat * sght)) (o : cop) : list (nat * sght) * cans :=
  match o with
  | CInsert r =>
      match fs with
      | (h0, t0) :: rest => ((h0, sinsert k a h0 0 t0 r) :: rest, CAUnit)
      | [] => (fs, CAUnit)
      end
  | CGet path => let '(fs', obs) := colt_get_path k a 0 fs path in (fs', CAForest obs)
  | CAll => (fs, CAForest (map (fun ht => sriter (fst ht) (snd ht)) fs))
  end.
Fixpoint crun_from k a fs (ops : list cop) : list cans :=
  match ops with
  | [] => []
  | o :: ops' => let '(fs', an) := cstep k a fs o in an :: crun_from k a fs' ops'
  end.
Definition cmodel_run (k : kind) (a n : nat) (ops : list cop) : list cans :=
  crun_from k a (colt_new k a n) ops.

(* specification: the forest is one multiset of rows; a get along [path] returns a forest whose
   elements together hold exactly the rows that start with [path]; nothing is ever lost *)
Definition cspec_step (all : bag) (o : cop) : bag * option (list row) :=
  match o with
  | CInsert r => (all ++ [r], None)
  | CGet path => (all, Some (filter (has_prefix path) all))
  | CAll => (all, Some all)
  end.
Definition cans_holds (an : cans) (expect : option (list row)) : bool :=
  match an, expect with
  | CAUnit, None => true
  | CAForest elems, Some rows => bag_eqb (concat elems) rows
  | _, _ => false
  end.
Fixpoint cspec_holds (all : bag) (ops : list cop) (impl : list cans) : bool :=
  match ops, impl with
  | [], [] => true
  | o :: ops', i :: impl' =>
      let '(all', e) := cspec_step all o in cans_holds i e && cspec_holds all' ops' impl'
  | _, _ => false
  end.
Definition cans_eqb (x y : cans) : bool :=
  match x, y with
  | CAUnit, CAUnit => true
  | CAForest a, CAForest b =>
      (fix go a b := match a, b with
                     | [], [] => true
                     | x :: a', y :: b' => bag_eqb x y && go a' b'
                     | _, _ => false
                     end) a b
  | _, _ => false
  end.
Fixpoint canswers_eqb (xs ys : list cans) : bool :=
  match xs, ys with
  | [], [] => true
  | x :: xs', y :: ys' => cans_eqb x y && canswers_eqb xs' ys'
  | _, _ => false
  end.
Definition colt_chk (k : kind) (a n : nat) (ops : list cop) (impl : list cans) : N :=
  verdict (canswers_eqb impl (cmodel_run k a n ops)) (cspec_holds [] ops impl).
