(* E2 Coll engine -- proofs about the variadic collections model (C10). *)
From HV Require Import Coll.ModelVC.
From Coq Require Import Permutation.

Set Implicit Arguments.
Local Arguments N.eqb : simpl never.
Local Arguments mem : simpl never.
Local Arguments Nat.ltb : simpl never.

(* ------------------------------------------------------------------ rows, counts *)
Lemma row_eqb_spec a b : reflect (a = b) (row_eqb a b).
Proof.
  revert b; induction a as [|x a IH]; intros [|y b]; cbn; try (constructor; congruence).
  destruct (N.eqb_spec x y); cbn.
  - destruct (IH b); constructor; congruence.
  - constructor; congruence.
Qed.

Lemma row_eqb_refl a : row_eqb a a = true.
Proof. destruct (row_eqb_spec a a); congruence. Qed.

Lemma row_eqb_sym a b : row_eqb a b = row_eqb b a.
Proof. destruct (row_eqb_spec a b), (row_eqb_spec b a); congruence. Qed.

Definition row_eq_dec (a b : row) : {a = b} + {a <> b}.
Proof. destruct (row_eqb_spec a b); [left|right]; assumption. Defined.

Lemma cnt_count_occ l r : cnt l r = count_occ row_eq_dec l r.
Proof.
  induction l as [|x l IH]; cbn; [reflexivity|].
  destruct (row_eq_dec x r) as [->|n].
  - rewrite row_eqb_refl, IH. reflexivity.
  - destruct (row_eqb_spec r x); [congruence|]. rewrite IH. reflexivity.
Qed.

Lemma cnt_app a b r : cnt (a ++ b) r = cnt a r + cnt b r.
Proof. induction a; cbn; [reflexivity|]. rewrite IHa. lia. Qed.

Lemma cnt_one x r : cnt [x] r = if row_eqb r x then 1 else 0.
Proof. cbn. destruct (row_eqb r x); reflexivity. Qed.

Lemma cnt_pos_in l r : 0 < cnt l r <-> In r l.
Proof.
  rewrite cnt_count_occ. symmetry. apply (count_occ_In row_eq_dec).
Qed.

Lemma cnt_zero_notin l r : cnt l r = 0 <-> ~ In r l.
Proof. rewrite <- cnt_pos_in. lia. Qed.

Lemma mem_in h r : mem h r = true <-> In r h.
Proof. unfold mem. rewrite Nat.ltb_lt. apply cnt_pos_in. Qed.

Lemma mem_false h r : mem h r = false <-> cnt h r = 0.
Proof. unfold mem. rewrite Nat.ltb_ge. lia. Qed.

Lemma mem_app a b r : mem (a ++ b) r = mem a r || mem b r.
Proof.
  unfold mem. rewrite cnt_app.
  destruct (Nat.ltb_spec 0 (cnt a r)), (Nat.ltb_spec 0 (cnt b r)), (Nat.ltb_spec 0 (cnt a r + cnt b r));
    cbn; try reflexivity; lia.
Qed.

Lemma mem_one x r : mem [x] r = row_eqb r x.
Proof. unfold mem. rewrite cnt_one. destruct (row_eqb r x); reflexivity. Qed.

(* multiset equality = equal count functions = Permutation *)
Lemma cnt_perm l1 l2 : (forall r, cnt l1 r = cnt l2 r) <-> Permutation l1 l2.
Proof.
  rewrite (Permutation_count_occ row_eq_dec).
  split; intros H r; specialize (H r); rewrite ?cnt_count_occ in *; assumption.
Qed.

Lemma cnt_eq_length l1 l2 : (forall r, cnt l1 r = cnt l2 r) -> length l1 = length l2.
Proof. intros H. apply Permutation_length, cnt_perm, H. Qed.

Lemma bag_eqb_spec l1 l2 : bag_eqb l1 l2 = true <-> forall r, cnt l1 r = cnt l2 r.
Proof.
  unfold bag_eqb. rewrite forallb_forall. split.
  - intros H r. destruct (in_dec row_eq_dec r (l1 ++ l2)) as [i|n].
    + apply Nat.eqb_eq, H, i.
    + assert (~ In r l1 /\ ~ In r l2) as [n1 n2] by (rewrite in_app_iff in n; tauto).
      apply cnt_zero_notin in n1, n2. congruence.
  - intros H r _. apply Nat.eqb_eq, H.
Qed.

Lemma bag_eqb_refl l : bag_eqb l l = true.
Proof. apply bag_eqb_spec. reflexivity. Qed.

Lemma set_eqb_spec l1 l2 : set_eqb l1 l2 = true <-> forall r, mem l1 r = mem l2 r.
Proof.
  unfold set_eqb. rewrite andb_true_iff, !forallb_forall. split.
  - intros [H1 H2] r. destruct (mem l1 r) eqn:E1, (mem l2 r) eqn:E2; try reflexivity.
    + apply mem_in, H1 in E1. congruence.
    + apply mem_in, H2 in E2. congruence.
  - intros H. split; intros r i; apply mem_in in i; [rewrite <- H|rewrite H]; assumption.
Qed.

Lemma cnt_distinct h r : cnt (distinct h) r = if mem h r then 1 else 0.
Proof.
  induction h as [|x h IH]; [reflexivity|].
  cbn [distinct]. destruct (mem h x) eqn:Ex.
  - rewrite IH. change (x :: h) with ([x] ++ h). rewrite mem_app.
    destruct (mem h r) eqn:Er; [rewrite orb_true_r; reflexivity|]. rewrite orb_false_r.
    rewrite mem_one. destruct (row_eqb_spec r x) as [->|ne]; [congruence|reflexivity].
  - change (x :: distinct h) with ([x] ++ distinct h). rewrite cnt_app, cnt_one, IH.
    change (x :: h) with ([x] ++ h). rewrite mem_app, mem_one.
    destruct (row_eqb_spec r x) as [->|ne]; cbn.
    + rewrite Ex. reflexivity.
    + reflexivity.
Qed.

Lemma cnt_repeat x n r : cnt (repeat x n) r = if row_eqb r x then n else 0.
Proof.
  induction n; cbn; [destruct (row_eqb r x); reflexivity|].
  rewrite IHn. destruct (row_eqb r x); reflexivity.
Qed.

Lemma cnt_filter (p : row -> bool) l r : cnt (filter p l) r = if p r then cnt l r else 0.
Proof.
  induction l as [|x l IH]; cbn; [destruct (p r); reflexivity|].
  destruct (row_eqb_spec r x) as [->|n].
  - destruct (p x); cbn; rewrite ?row_eqb_refl, IH; [reflexivity|]. destruct (p x); congruence.
  - destruct (p x); cbn; rewrite IH; [|reflexivity].
    destruct (row_eqb_spec r x); [congruence|]. reflexivity.
Qed.

(* ------------------------------------------------------------------ VariadicHashSet *)
(* the table holds exactly the members of the history, once each *)
Definition Rset (s : hset) (h : bag) : Prop :=
  forall r, cnt s r = if mem h r then 1 else 0.

Lemma find_row_none s r : find (fun item => row_eqb r item) s = None <-> cnt s r = 0.
Proof.
  induction s as [|x s IH]; cbn; [tauto|].
  destruct (row_eqb r x); [split; [discriminate|lia]|]. rewrite IH. tauto.
Qed.

Lemma find_row_some s r x : find (fun item => row_eqb r item) s = Some x -> x = r /\ 0 < cnt s r.
Proof.
  intros H. apply find_some in H as [i e]. destruct (row_eqb_spec r x); [|discriminate].
  subst. split; [reflexivity|]. apply cnt_pos_in, i.
Qed.

Lemma hs_get_spec s h r : Rset s h -> hs_get s r = if mem h r then Some r else None.
Proof.
  intros R. unfold hs_get. destruct (find _ s) as [x|] eqn:F.
  - apply find_row_some in F as [-> p]. rewrite R in p. destruct (mem h r); [reflexivity|lia].
  - apply find_row_none in F. rewrite R in F. destruct (mem h r); [discriminate|reflexivity].
Qed.

Lemma hs_insert_spec s h r :
  Rset s h -> Rset (fst (hs_insert s r)) (h ++ [r]) /\ snd (hs_insert s r) = negb (mem h r).
Proof.
  intros R. unfold hs_insert. fold (hs_get s r). rewrite (hs_get_spec r R).
  destruct (mem h r) eqn:M; cbn; (split; [|reflexivity]); intros r'; rewrite mem_app.
  - rewrite R, mem_one.
    destruct (row_eqb_spec r' r) as [->|ne]; [rewrite M; reflexivity|]. rewrite orb_false_r. reflexivity.
  - rewrite cnt_app, R, cnt_one, mem_one.
    destruct (row_eqb_spec r' r) as [->|ne]; cbn.
    + rewrite M. reflexivity.
    + rewrite orb_false_r. destruct (mem h r'); reflexivity.
Qed.

Lemma hs_extend_spec rs : forall s h, Rset s h -> Rset (hs_extend s rs) (h ++ rs).
Proof.
  induction rs as [|r rs IH]; intros s h R; cbn.
  - rewrite app_nil_r. assumption.
  - change (h ++ r :: rs) with (h ++ [r] ++ rs). rewrite app_assoc.
    apply IH, hs_insert_spec, R.
Qed.

Lemma Rset_distinct s h : Rset s h -> forall r, cnt s r = cnt (distinct h) r.
Proof. intros R r. rewrite cnt_distinct. apply R. Qed.

Lemma Rset_empty s h : Rset s h -> Nat.eqb (length s) 0 = Nat.eqb (length h) 0.
Proof.
  intros R. destruct s as [|x s], h as [|y h]; try reflexivity; exfalso.
  - specialize (R y). cbn in R. unfold mem in R. cbn in R. rewrite row_eqb_refl in R. discriminate.
  - specialize (R x). cbn in R. rewrite row_eqb_refl in R. discriminate.
Qed.

Lemma Rset_nodup s h : Rset s h -> NoDup s.
Proof.
  intros R. apply (NoDup_count_occ row_eq_dec). intros r. rewrite <- cnt_count_occ, R.
  destruct (mem h r); lia.
Qed.

Lemma Rset_in s h r : Rset s h -> (In r s <-> mem h r = true).
Proof.
  intros R. rewrite <- cnt_pos_in, R. destruct (mem h r); split; try lia; try discriminate; auto.
Qed.

Lemma hs_eq_spec a b ha hb : Rset a ha -> Rset b hb -> hs_eq a b = set_eqb ha hb.
Proof.
  intros Ra Rb. unfold hs_eq, hs_len, hs_iter.
  destruct (set_eqb ha hb) eqn:S.
  - rewrite set_eqb_spec in S.
    assert (L : length a = length b).
    { apply cnt_eq_length. intros r. rewrite Ra, Rb, S. reflexivity. }
    rewrite L, Nat.eqb_refl. cbn. apply forallb_forall. intros r i.
    rewrite (hs_get_spec r Rb). apply (Rset_in r Ra) in i. rewrite <- S, i. reflexivity.
  - destruct (Nat.eqb_spec (length a) (length b)) as [L|]; [cbn|reflexivity].
    apply not_true_is_false. intros F. rewrite forallb_forall in F.
    assert (I : incl a b).
    { intros r i. specialize (F r i). rewrite (hs_get_spec r Rb) in F.
      apply (Rset_in r Rb). destruct (mem hb r); [reflexivity|discriminate]. }
    assert (I' : incl b a).
    { apply NoDup_length_incl; [apply (Rset_nodup Ra)|lia|assumption]. }
    assert (set_eqb ha hb = true); [|congruence].
    apply set_eqb_spec. intros r.
    destruct (mem ha r) eqn:E1, (mem hb r) eqn:E2; try reflexivity.
    + apply (Rset_in r Ra), I, (Rset_in r Rb) in E1. congruence.
    + apply (Rset_in r Rb), I', (Rset_in r Ra) in E2. congruence.
Qed.

Lemma NoDup_snoc (A : Type) (l : list A) x : NoDup l -> ~ In x l -> NoDup (l ++ [x]).
Proof.
  intros nd n. apply (Permutation_NoDup (l := x :: l)).
  - apply Permutation_cons_append.
  - constructor; assumption.
Qed.

(* ------------------------------------------------------------------ VariadicCountedHashSet *)
Definition keys (t : list (row * nat)) : list row := map fst t.
Definition Rcnt (s : cset) (h : bag) : Prop :=
  NoDup (keys (c_tbl s)) /\ Forall (fun e => 0 < snd e) (c_tbl s) /\
  (forall r, cnt (expand (c_tbl s)) r = cnt h r) /\ c_len s = length h.

Lemma expand_cons k c t : expand ((k, c) :: t) = repeat k c ++ expand t.
Proof. reflexivity. Qed.

Lemma cnt_expand_notin t r : ~ In r (keys t) -> cnt (expand t) r = 0.
Proof.
  induction t as [|[k c] t IH]; cbn [keys map fst In]; intros n; [reflexivity|].
  rewrite expand_cons, cnt_app, cnt_repeat, IH by tauto.
  destruct (row_eqb_spec r k); [subst; tauto|reflexivity].
Qed.

Lemma cnt_expand_in t k c : NoDup (keys t) -> In (k, c) t -> cnt (expand t) k = c.
Proof.
  induction t as [|[k' c'] t IH]; cbn [keys map fst In]; intros nd i; [tauto|].
  inversion nd as [|? ? n nd']; subst. rewrite expand_cons, cnt_app, cnt_repeat.
  destruct i as [e|i].
  - inversion e; subst. rewrite row_eqb_refl, cnt_expand_notin by assumption. lia.
  - destruct (row_eqb_spec k k').
    + subst. exfalso. apply n. apply (in_map fst) in i. exact i.
    + apply IH; assumption.
Qed.

Lemma find_key_some t r k c :
  find (fun e : row * nat => row_eqb r (fst e)) t = Some (k, c) -> k = r /\ In (r, c) t.
Proof.
  intros H. apply find_some in H as [i e]. cbn in e.
  destruct (row_eqb_spec r k); [|discriminate]. subst. tauto.
Qed.

Lemma find_key_none t r :
  find (fun e : row * nat => row_eqb r (fst e)) t = None -> ~ In r (keys t).
Proof.
  intros H i. apply in_map_iff in i as [[k c] [e i]]. cbn in e. subst.
  apply (find_none _ _ H) in i. cbn in i. rewrite row_eqb_refl in i. discriminate.
Qed.

Lemma cs_get_spec s h r :
  Rcnt s h -> opt_ent (cs_get s r) = if mem h r then Some (r, N.of_nat (cnt h r)) else None.
Proof.
  intros (nd & pos & C & _). unfold cs_get. destruct (find _ _) as [[k c]|] eqn:F; cbn.
  - apply find_key_some in F as [-> i].
    assert (c = cnt h r) by (rewrite <- C; symmetry; apply cnt_expand_in; assumption).
    rewrite Forall_forall in pos. specialize (pos _ i). cbn in pos.
    unfold mem. subst c. destruct (Nat.ltb_spec 0 (cnt h r)); [reflexivity|lia].
  - apply find_key_none, cnt_expand_notin in F. rewrite C in F.
    unfold mem. rewrite F. reflexivity.
Qed.

Lemma tbl_bump_cnt t r r' :
  cnt (expand (tbl_bump t r)) r' = cnt (expand t) r' + (if row_eqb r' r then 1 else 0).
Proof.
  induction t as [|[k c] t IH]; cbn [tbl_bump].
  - cbn. destruct (row_eqb r' r); reflexivity.
  - destruct (row_eqb_spec r k).
    + subst. rewrite !expand_cons, !cnt_app, !cnt_repeat. destruct (row_eqb r' k); lia.
    + rewrite !expand_cons, !cnt_app, IH. lia.
Qed.

Lemma tbl_bump_keys t r :
  keys (tbl_bump t r) = if existsb (row_eqb r) (keys t) then keys t else keys t ++ [r].
Proof.
  induction t as [|[k c] t IH]; cbn [tbl_bump keys map fst existsb]; [reflexivity|].
  destruct (row_eqb r k); cbn [keys map fst orb]; [reflexivity|].
  fold (keys t). fold (keys (tbl_bump t r)). rewrite IH.
  destruct (existsb (row_eqb r) (keys t)); reflexivity.
Qed.

Lemma tbl_bump_pos t r : Forall (fun e => 0 < snd e) t -> Forall (fun e => 0 < snd e) (tbl_bump t r).
Proof.
  induction 1 as [|[k c] t p F IH]; cbn [tbl_bump].
  - repeat constructor.
  - destruct (row_eqb r k); constructor; cbn in *; try assumption; lia.
Qed.

Lemma cs_insert_spec s h r : Rcnt s h -> Rcnt (fst (cs_insert s r)) (h ++ [r]).
Proof.
  intros (nd & pos & C & L). unfold cs_insert, Rcnt. cbn [fst c_tbl c_len]. repeat split.
  - rewrite tbl_bump_keys. destruct (existsb (row_eqb r) (keys (c_tbl s))) eqn:E; [assumption|].
    apply NoDup_snoc; [assumption|].
    intros i. assert (existsb (row_eqb r) (keys (c_tbl s)) = true); [|congruence].
    apply existsb_exists. exists r. split; [assumption|apply row_eqb_refl].
  - apply tbl_bump_pos, pos.
  - intros r'. rewrite tbl_bump_cnt, cnt_app, cnt_one, C. reflexivity.
  - rewrite app_length, L. reflexivity.
Qed.

Lemma cs_extend_spec rs : forall s h, Rcnt s h -> Rcnt (cs_extend s rs) (h ++ rs).
Proof.
  induction rs as [|r rs IH]; intros s h R; cbn.
  - rewrite app_nil_r. assumption.
  - change (h ++ r :: rs) with (h ++ [r] ++ rs). rewrite app_assoc.
    apply IH, cs_insert_spec, R.
Qed.

Lemma Rcnt_empty s h : Rcnt s h -> cs_is_empty s = Nat.eqb (length h) 0.
Proof. intros (_ & _ & _ & L). unfold cs_is_empty, cs_len. rewrite L. reflexivity. Qed.

(* DuplicateCounted: the rows still to come from a state *)
Definition st_rows (st : option (row * nat)) : list row :=
  match st with Some (item, n) => repeat item n | None => [] end.
Definition st_size (st : option (row * nat)) : nat :=
  match st with Some (_, n) => n | None => 0 end.

Lemma tbl_total_length t : length (expand t) = tbl_total t.
Proof.
  induction t as [|[k c] t IH]; [reflexivity|].
  rewrite expand_cons, app_length, repeat_length, IH. reflexivity.
Qed.

Lemma dc_next_spec iter : forall st,
  match dc_next iter st with
  | None => st_rows st ++ expand iter = []
  | Some (x, (iter', st')) =>
      st_rows st ++ expand iter = x :: (st_rows st' ++ expand iter')
  end.
Proof.
  induction iter as [|[k c] iter IH]; intros [[item [|[|n]]]|]; cbn [dc_next st_rows repeat app];
    try reflexivity.
  - specialize (IH (Some (k, c))). destruct (dc_next iter (Some (k, c))) as [[x [i' s']]|];
      cbn [st_rows] in IH; rewrite expand_cons; assumption.
  - specialize (IH (Some (k, c))). destruct (dc_next iter (Some (k, c))) as [[x [i' s']]|];
      cbn [st_rows] in IH; rewrite expand_cons; assumption.
Qed.

Lemma dc_collect_spec fuel : forall iter st,
  length (st_rows st ++ expand iter) < fuel ->
  dc_collect fuel iter st = st_rows st ++ expand iter.
Proof.
  induction fuel as [|f IH]; intros iter st L; [lia|].
  cbn [dc_collect]. pose proof (dc_next_spec iter st) as N.
  destruct (dc_next iter st) as [[x [i' s']]|].
  - rewrite N. f_equal. apply IH. rewrite N in L. cbn in L. lia.
  - symmetry. assumption.
Qed.

(* the counted iterator yields every row exactly [count] times (zero-count entries included) *)
Lemma cs_into_iter_expand s : cs_into_iter s = expand (c_tbl s).
Proof.
  unfold cs_into_iter. rewrite dc_collect_spec; [reflexivity|].
  cbn. rewrite tbl_total_length. lia.
Qed.

Lemma cnt_expand_pos t r : 0 < cnt (expand t) r -> exists c, In (r, c) t.
Proof.
  induction t as [|[k c] t IH]; cbn; [lia|]. fold (expand t).
  rewrite cnt_app, cnt_repeat. destruct (row_eqb_spec r k) as [->|ne].
  - intros _. exists c. left. reflexivity.
  - intros p. destruct IH as [c' i]; [lia|]. exists c'. right. assumption.
Qed.

Lemma filter_split_length (A : Type) (p : A -> bool) l :
  length l = length (filter p l) + length (filter (fun x => negb (p x)) l).
Proof. induction l as [|x l IH]; cbn; [reflexivity|]. destruct (p x); cbn; lia. Qed.

Lemma cs_eq_spec a b ha hb : Rcnt a ha -> Rcnt b hb -> cs_eq a b = bag_eqb ha hb.
Proof.
  intros (nda & posa & Ca & La) (ndb & posb & Cb & Lb). unfold cs_eq, cs_len.
  destruct (bag_eqb ha hb) eqn:S.
  - rewrite bag_eqb_spec in S. rewrite La, Lb, (cnt_eq_length _ _ S), Nat.eqb_refl. cbn.
    apply forallb_forall. intros [k c] i. cbn [fst snd].
    assert (c = cnt hb k) by (rewrite <- S, <- Ca; symmetry; apply cnt_expand_in; assumption).
    rewrite Forall_forall in posa. specialize (posa _ i). cbn in posa.
    unfold cs_get. destruct (find _ (c_tbl b)) as [[k' c']|] eqn:F.
    + apply find_key_some in F as [-> i']. apply Nat.eqb_eq.
      rewrite <- (cnt_expand_in _ _ _ ndb i'), Cb. congruence.
    + apply find_key_none, cnt_expand_notin in F. rewrite Cb in F. lia.
  - destruct (Nat.eqb_spec (c_len a) (c_len b)) as [L|]; [cbn|reflexivity].
    apply not_true_is_false. intros F. rewrite forallb_forall in F.
    assert (bag_eqb ha hb = true); [|congruence]. apply bag_eqb_spec.
    set (A := expand (c_tbl a)) in *. set (B := expand (c_tbl b)) in *.
    (* every row of A has the same count in B *)
    assert (In_eq : forall r, mem A r = true -> cnt B r = cnt A r).
    { intros r m. apply mem_in, cnt_pos_in, cnt_expand_pos in m as [c i].
      specialize (F _ i). cbn [fst snd] in F. unfold cs_get in F.
      destruct (find _ (c_tbl b)) as [[k' c']|] eqn:Fb; [|discriminate].
      apply find_key_some in Fb as [-> i']. apply Nat.eqb_eq in F. subst c'.
      unfold A, B. rewrite (cnt_expand_in _ _ _ nda i), (cnt_expand_in _ _ _ ndb i'). reflexivity. }
    (* the rows of B that are in A are a permutation of A; lengths are equal, so nothing is left *)
    assert (LA : length A = length (filter (mem A) B)).
    { apply cnt_eq_length. intros r. rewrite cnt_filter. destruct (mem A r) eqn:m.
      - symmetry. apply In_eq, m.
      - apply mem_false, m. }
    assert (LAB : length A = length B).
    { rewrite (cnt_eq_length _ _ Ca), (cnt_eq_length _ _ Cb). lia. }
    pose proof (filter_split_length (mem A) B) as Sp.
    assert (Out : filter (fun x => negb (mem A x)) B = []) by (apply length_zero_iff_nil; lia).
    intros r. rewrite <- Ca, <- Cb. fold A B. destruct (mem A r) eqn:m.
    + symmetry. apply In_eq, m.
    + pose proof (cnt_filter (fun x => negb (mem A x)) B r) as Cf. rewrite Out, m in Cf. cbn in Cf.
      apply mem_false in m. lia.
Qed.

(* ------------------------------------------------------------------ VariadicColumnMultiset *)
Definition rect (n : nat) (cols : list (list N)) : Prop := Forall (fun c => length c = n) cols.
Definition Rcol (arity : nat) (s : cmset) (h : bag) : Prop :=
  m_off s = length h /\ zip_cols (m_cols s) = h /\
  (h <> [] -> length (m_cols s) = arity /\ rect (length h) (m_cols s)).

Lemma zip_cols_cons c c2 rest : zip_cols (c :: c2 :: rest) = zip_cons c (zip_cols (c2 :: rest)).
Proof. reflexivity. Qed.

Lemma zip_singleton r : r <> [] -> zip_cols (singleton_cols r) = [r].
Proof.
  induction r as [|x [|y r] IH]; intros ne; [congruence|reflexivity|].
  unfold singleton_cols in *. cbn [map]. rewrite zip_cols_cons.
  cbn [map] in IH. rewrite IH by discriminate. reflexivity.
Qed.

Lemma zip_cols_length cols n : cols <> [] -> rect n cols -> length (zip_cols cols) = n.
Proof.
  induction cols as [|c [|c2 rest] IH]; intros ne R; [congruence| |].
  - inversion R; subst. cbn. apply map_length.
  - inversion R as [|? ? Lc R']; subst. rewrite zip_cols_cons.
    specialize (IH ltac:(discriminate) R'). revert IH. generalize (zip_cols (c2 :: rest)).
    clear. induction c as [|x c IHc]; intros [|r l] E; cbn in *; try congruence.
    f_equal. apply IHc. lia.
Qed.

Lemma zip_cons_snoc c x : forall l r, length c = length l ->
  zip_cons (c ++ [x]) (l ++ [r]) = zip_cons c l ++ [x :: r].
Proof.
  induction c as [|y c IH]; intros [|r0 l] r E; cbn in *; try lia; [reflexivity|].
  rewrite IH by lia. reflexivity.
Qed.

Lemma zip_push cols : forall r n, cols <> [] -> length r = length cols -> rect n cols ->
  zip_cols (push_cols cols r) = zip_cols cols ++ [r].
Proof.
  induction cols as [|c [|c2 rest] IH]; intros r n ne L R; [congruence| |].
  - destruct r as [|x [|y r]]; cbn in L; try lia. cbn. rewrite map_app. reflexivity.
  - destruct r as [|x r]; cbn in L; [lia|]. inversion R as [|? ? Lc R']; subst.
    cbn [push_cols]. destruct r as [|y r]; [cbn in L; lia|].
    cbn [push_cols]. rewrite zip_cols_cons. cbn [push_cols] in IH.
    rewrite (IH (y :: r) (length c)) by (try discriminate; try assumption; cbn in *; lia).
    rewrite zip_cols_cons. apply zip_cons_snoc.
    symmetry. apply zip_cols_length; [discriminate|assumption].
Qed.

Lemma push_cols_rect cols : forall r n, length r = length cols -> rect n cols ->
  length (push_cols cols r) = length cols /\ rect (n + 1) (push_cols cols r).
Proof.
  induction cols as [|c cols IH]; intros [|x r] n L R; cbn in *; try lia.
  - split; [reflexivity|constructor].
  - inversion R; subst. destruct (IH r (length c)) as [L' R']; [lia|assumption|].
    split; [lia|]. constructor; [rewrite app_length; cbn; lia|assumption].
Qed.

Lemma zip_all_empty cols : Forall (fun c => c = []) cols -> zip_cols cols = [].
Proof.
  induction cols as [|c [|c2 rest] IH]; intros F; [reflexivity| |]; inversion F; subst; reflexivity.
Qed.

Lemma cm_insert_spec a s h r :
  0 < a -> length r = a -> Rcol a s h -> Rcol a (fst (cm_insert s r)) (h ++ [r]).
Proof.
  intros pa Lr (O & Z & W). unfold cm_insert, Rcol. cbn [fst m_cols m_off].
  rewrite O. destruct h as [|x h].
  - cbn [length Nat.eqb app]. repeat split.
    + apply zip_singleton. intros ->. cbn in Lr. lia.
    + unfold singleton_cols. rewrite map_length. assumption.
    + unfold singleton_cols, rect. apply Forall_forall. intros c i.
      apply in_map_iff in i as [y [<- _]]. reflexivity.
  - destruct (W ltac:(discriminate)) as [Lc R]. cbn [length Nat.eqb].
    assert (ne : m_cols s <> []) by (intros e; rewrite e in Lc; cbn in Lc; lia).
    destruct (@push_cols_rect (m_cols s) r (length (x :: h))) as [L' R']; [lia|assumption|].
    repeat split.
    + rewrite app_length. cbn. lia.
    + rewrite (@zip_push (m_cols s) r (length (x :: h))); [rewrite Z; reflexivity|assumption|lia|assumption].
    + lia.
    + rewrite app_length. cbn [length] in *. assumption.
Qed.

Lemma cm_extend_spec a rs : forall s h,
  0 < a -> Forall (fun r => length r = a) rs -> Rcol a s h -> Rcol a (cm_extend s rs) (h ++ rs).
Proof.
  induction rs as [|r rs IH]; intros s h pa F R; cbn.
  - rewrite app_nil_r. assumption.
  - inversion F; subst. change (h ++ r :: rs) with (h ++ [r] ++ rs). rewrite app_assoc.
    apply IH; [assumption|assumption|]. apply cm_insert_spec; auto.
Qed.

Lemma cm_drain_spec a s h : Rcol a s h -> Rcol a (snd (cm_drain s)) [].
Proof.
  intros _. unfold cm_drain, Rcol. cbn [snd m_cols m_off length]. repeat split; try congruence.
  apply zip_all_empty, Forall_forall. intros c i. apply in_map_iff in i as [y [<- _]]. reflexivity.
Qed.

Lemma cm_new_spec a : Rcol a (cm_new a) [].
Proof.
  unfold cm_new, Rcol. cbn [m_cols m_off length]. repeat split; try congruence.
  apply zip_all_empty, Forall_forall. intros c i. apply repeat_spec in i. assumption.
Qed.

Lemma existsb_mem h r : existsb (fun t => row_eqb t r) h = mem h r.
Proof.
  induction h as [|x h IH]; [reflexivity|]. cbn [existsb]. rewrite IH.
  change (x :: h) with ([x] ++ h). rewrite mem_app, mem_one, row_eqb_sym. reflexivity.
Qed.

(* ------------------------------------------------------------------ refinement of every operation *)
Definition R (k : kind) (a : nat) (st : cstate) (h : bag) : Prop :=
  match k, st with
  | KSet, SSet s => Rset s h
  | KCounted, SCnt s => Rcnt s h
  | KColumn, SCol s => Rcol a s h
  | _, _ => False
  end.

(* rows must have the collection's arity (>= 1); only the column multiset depends on it *)
Definition rows_ok (k : kind) (a : nat) (rs : list row) : Prop :=
  k = KColumn -> 0 < a /\ Forall (fun r => length r = a) rs.

Lemma new_state_R k a : R k a (new_state k a) [].
Proof.
  destruct k; cbn.
  - intros r. reflexivity.
  - repeat split; try constructor. 
  - apply cm_new_spec.
Qed.

Lemma eqb_true_of_eq (b c : bool) : b = c -> Bool.eqb b c = true.
Proof. intros ->. apply eqb_reflx. Qed.

Lemma sstep_refines k a st h o :
  R k a st h -> rows_ok k a (sop_rows o) ->
  R k a (fst (sstep st o)) (fst (spec_sstep k h o)) /\
  ans_eqb (snd (sstep st o)) (snd (spec_sstep k h o)) = true.
Proof.
  intros Rst ok. destruct k, st as [s|s|s]; cbn [R] in Rst; try contradiction.
  - (* VariadicHashSet *)
    destruct o; cbn [sstep spec_sstep fst snd contents].
    + pose proof (hs_insert_spec r Rst) as [R' B]. destruct (hs_insert s r) as [s' b]. cbn in *.
      split; [assumption|]. apply eqb_true_of_eq, B.
    + split; [apply hs_extend_spec, Rst|reflexivity].
    + cbn. split; [intros r; reflexivity|]. apply bag_eqb_spec, Rset_distinct, Rst.
    + split; [assumption|]. cbn. apply eqb_true_of_eq. unfold hs_contains.
      rewrite (hs_get_spec r Rst). destruct (mem h r); reflexivity.
    + split; [assumption|]. cbn. rewrite (hs_get_spec r Rst).
      destruct (mem h r); cbn; [apply row_eqb_refl|reflexivity].
    + split; [assumption|]. cbn. apply N.eqb_eq. f_equal. unfold hs_len.
      apply cnt_eq_length, Rset_distinct, Rst.
    + split; [assumption|]. cbn. apply eqb_true_of_eq, Rset_empty, Rst.
    + split; [assumption|]. cbn. apply bag_eqb_spec, Rset_distinct, Rst.
    + split; [assumption|]. cbn. apply bag_eqb_spec, Rset_distinct, Rst.
  - (* VariadicCountedHashSet *)
    destruct o; cbn [sstep spec_sstep fst snd contents].
    + pose proof (cs_insert_spec r Rst) as R'. unfold cs_insert in *. cbn in *.
      split; [assumption|reflexivity].
    + split; [apply cs_extend_spec, Rst|reflexivity].
    + cbn. split.
      * repeat split; try constructor.
      * apply bag_eqb_spec. apply Rst.
    + split; [assumption|]. cbn. apply eqb_true_of_eq. unfold cs_contains.
      pose proof (cs_get_spec r Rst) as G. destruct (cs_get s r) as [[k c]|], (mem h r);
        cbn in G; try discriminate; reflexivity.
    + split; [assumption|]. cbn. rewrite (cs_get_spec r Rst).
      destruct (mem h r); cbn; [rewrite row_eqb_refl, N.eqb_refl|]; reflexivity.
    + split; [assumption|]. cbn. apply N.eqb_eq. f_equal. apply Rst.
    + split; [assumption|]. cbn. apply eqb_true_of_eq, Rcnt_empty, Rst.
    + split; [assumption|]. cbn. apply bag_eqb_spec, Rst.
    + split; [assumption|]. rewrite cs_into_iter_expand. cbn. apply bag_eqb_spec, Rst.
  - (* VariadicColumnMultiset *)
    destruct (ok eq_refl) as [pa F].
    destruct o; cbn [sstep spec_sstep fst snd contents sop_rows] in *.
    + inversion F; subst. pose proof (cm_insert_spec r pa eq_refl Rst) as R'.
      unfold cm_insert in *. cbn in *. split; [assumption|reflexivity].
    + split; [apply cm_extend_spec; assumption|reflexivity].
    + pose proof (cm_drain_spec Rst) as R'. unfold cm_drain in *. cbn in *.
      split; [assumption|]. destruct Rst as (_ & Z & _). rewrite Z. apply bag_eqb_refl.
    + split; [assumption|]. cbn. apply eqb_true_of_eq. unfold cm_contains, cm_iter.
      destruct Rst as (_ & Z & _). rewrite Z. apply existsb_mem.
    + split; [assumption|reflexivity].
    + split; [assumption|]. cbn. apply N.eqb_eq. f_equal. apply Rst.
    + split; [assumption|]. cbn. apply eqb_true_of_eq. unfold cm_is_empty, cm_len.
      destruct Rst as (O & _). rewrite O. reflexivity.
    + split; [assumption|]. cbn. unfold cm_iter. destruct Rst as (_ & Z & _). rewrite Z.
      apply bag_eqb_refl.
    + split; [assumption|]. cbn. unfold cm_into_iter. destruct Rst as (_ & Z & _). rewrite Z.
      apply bag_eqb_refl.
Qed.

Lemma eq_refines k a sa sb ha hb :
  R k a sa ha -> R k a sb hb -> ans_eqb (eq_ans sa sb) (spec_eq k ha hb) = true.
Proof.
  intros Ra Rb. destruct k, sa as [x|x|x], sb as [y|y|y]; cbn [R] in *; try contradiction; cbn.
  - apply eqb_true_of_eq, hs_eq_spec; assumption.
  - apply eqb_true_of_eq, cs_eq_spec; assumption.
  - reflexivity.
Qed.

Definition ops_ok (k : kind) (a : nat) (ops : list op) : Prop :=
  Forall (fun o => rows_ok k a (op_rows o)) ops.

Definition R2 k a (p : cstate * cstate) (q : bag * bag) : Prop :=
  R k a (fst p) (fst q) /\ R k a (snd p) (snd q).

Lemma step_refines k a p q o :
  R2 k a p q -> rows_ok k a (op_rows o) ->
  R2 k a (fst (step p o)) (fst (spec_step k q o)) /\
  ans_eqb (snd (step p o)) (snd (spec_step k q o)) = true.
Proof.
  intros [R0 R1] ok. destruct o as [w so|w]; cbn [step spec_step op_rows] in *.
  - assert (Rw : R k a (sel w p) (sel w q)) by (destruct w; assumption).
    pose proof (@sstep_refines k a _ _ so Rw ok) as [R' A].
    destruct (sstep (sel w p) so) as [s' an], (spec_sstep k (sel w q) so) as [h' an'].
    cbn [fst snd] in *. split; [|assumption].
    destruct w; cbn; split; assumption.
  - cbn [fst snd]. split; [split; assumption|].
    destruct w; cbn [sel negb]; apply (@eq_refines k a); assumption.
Qed.

Lemma run_refines k a ops : forall p q,
  R2 k a p q -> ops_ok k a ops -> answers_eqb (run_from p ops) (spec_from k q ops) = true.
Proof.
  induction ops as [|o ops IH]; intros p q Rpq ok; [reflexivity|].
  inversion ok; subst. pose proof (@step_refines k a p q o Rpq H1) as [R' A].
  cbn [run_from spec_from]. destruct (step p o) as [p' an], (spec_step k q o) as [q' an'].
  cbn [fst snd answers_eqb] in *. rewrite A. cbn. apply IH; assumption.
Qed.

Lemma ops_arity_ok k a ops : ops_arity_b a ops = true -> ops_ok k a ops.
Proof.
  unfold ops_arity_b. rewrite andb_true_iff, forallb_forall. intros [pa F].
  apply Forall_forall. intros o i _. split; [apply Nat.ltb_lt, pa|].
  apply Forall_forall. intros r ir. specialize (F o i). rewrite forallb_forall in F.
  apply Nat.eqb_eq, F, ir.
Qed.

(* every answer of every history equals the abstract set's / multiset's answer *)
Theorem history_refines k a ops :
  (k = KColumn -> ops_arity_b a ops = true) ->
  answers_eqb (model_run k a ops) (spec_run k ops) = true.
Proof.
  intros ok. unfold model_run, spec_run. apply (@run_refines k a).
  - split; apply new_state_R.
  - destruct k; try (apply Forall_forall; intros o _ e; discriminate).
    apply ops_arity_ok, ok. reflexivity.
Qed.

(* ------------------------------------------------------------------ what [answers_eqb] means *)
Definition ans_equiv (x y : ans) : Prop :=
  match x, y with
  | ARows a, ARows b => Permutation a b
  | ARows _, _ | _, ARows _ => False
  | _, _ => x = y
  end.

Lemma ans_eqb_spec x y : ans_eqb x y = true <-> ans_equiv x y.
Proof.
  destruct x as [b|n|l|[r|]|[[r c]|]| |], y as [b'|n'|l'|[r'|]|[[r' c']|]| |]; cbn;
    try (split; [discriminate|congruence]); try tauto;
    try (split; [discriminate|intros []]).
  - rewrite eqb_true_iff. split; congruence.
  - rewrite N.eqb_eq. split; congruence.
  - rewrite bag_eqb_spec. apply cnt_perm.
  - destruct (row_eqb_spec r r'); split; congruence.
  - rewrite andb_true_iff, N.eqb_eq. destruct (row_eqb_spec r r'); split; intros H; try congruence.
    + destruct H; congruence.
    + split; congruence.
    + destruct H; discriminate.
Qed.

Lemma answers_eqb_spec xs : forall ys, answers_eqb xs ys = true <-> Forall2 ans_equiv xs ys.
Proof.
  induction xs as [|x xs IH]; intros [|y ys]; cbn.
  - split; [constructor|reflexivity].
  - split; [discriminate|intros H; inversion H].
  - split; [discriminate|intros H; inversion H].
  - rewrite andb_true_iff, IH, ans_eqb_spec. split.
    + intros [? ?]. constructor; assumption.
    + intros H. inversion H; subst. tauto.
Qed.

(* the specification is a function of the multiset [cnt h] only *)
Lemma distinct_perm h1 h2 :
  (forall r, cnt h1 r = cnt h2 r) -> Permutation (distinct h1) (distinct h2).
Proof.
  intros H. apply cnt_perm. intros r. rewrite !cnt_distinct. unfold mem. rewrite H. reflexivity.
Qed.

(* ------------------------------------------------------------------ statements used by Props/C10.v *)
Definition C10_history_stmt : Prop :=
  forall k a ops, (k = KColumn -> ops_arity_b a ops = true) ->
    Forall2 ans_equiv (model_run k a ops) (spec_run k ops).

Lemma history_refines_equiv : C10_history_stmt.
Proof. intros k a ops ok. apply answers_eqb_spec, history_refines, ok. Qed.

Lemma holds_b_spec k ops impl :
  C10_holds_b k ops impl = true <-> Forall2 ans_equiv impl (spec_run k ops).
Proof. apply answers_eqb_spec. Qed.

Lemma set_equality a b ha hb :
  Rset a ha -> Rset b hb -> (hs_eq a b = true <-> forall r, mem ha r = mem hb r).
Proof. intros Ra Rb. rewrite (hs_eq_spec Ra Rb). apply set_eqb_spec. Qed.

Lemma counted_equality a b ha hb :
  Rcnt a ha -> Rcnt b hb -> (cs_eq a b = true <-> forall r, cnt ha r = cnt hb r).
Proof. intros Ra Rb. rewrite (cs_eq_spec Ra Rb). apply bag_eqb_spec. Qed.

Lemma duplicate_counted t :
  let out := dc_collect (S (tbl_total t)) t None in
  out = expand t /\
  (NoDup (keys t) -> forall k c, In (k, c) t -> cnt out k = c) /\
  (forall r, ~ In r (keys t) -> cnt out r = 0).
Proof.
  cbn zeta. pose proof (cs_into_iter_expand {| c_tbl := t; c_len := 0 |}) as E.
  unfold cs_into_iter in E. cbn [c_tbl] in E. rewrite E. repeat split.
  - intros nd k c i. apply cnt_expand_in; assumption.
  - intros r n. apply cnt_expand_notin, n.
Qed.

(* The specification's answers depend on the history only through its count function. *)
Lemma spec_sstep_multiset k h1 h2 o :
  (forall r, cnt h1 r = cnt h2 r) ->
  (forall r, cnt (fst (spec_sstep k h1 o)) r = cnt (fst (spec_sstep k h2 o)) r) /\
  ans_equiv (snd (spec_sstep k h1 o)) (snd (spec_sstep k h2 o)).
Proof.
  intros H.
  assert (M : forall r, mem h1 r = mem h2 r) by (intros r; unfold mem; rewrite H; reflexivity).
  assert (P : Permutation (contents k h1) (contents k h2)).
  { destruct k; cbn; [apply distinct_perm, H|apply cnt_perm, H|apply cnt_perm, H]. }
  assert (L : length h1 = length h2) by (apply cnt_eq_length, H).
  destruct o; cbn [spec_sstep fst snd ans_equiv].
  - split; [intros r'; rewrite !cnt_app, H; reflexivity|]. rewrite M. reflexivity.
  - split; [intros r'; rewrite !cnt_app, H; reflexivity|reflexivity].
  - split; [reflexivity|assumption].
  - split; [assumption|]. rewrite M. reflexivity.
  - split; [assumption|]. destruct k; rewrite ?M, ?H; reflexivity.
  - split; [assumption|]. rewrite (Permutation_length P). reflexivity.
  - split; [assumption|]. rewrite L. reflexivity.
  - split; assumption.
  - split; assumption.
Qed.

(* FORMER FINDING, fixed in /repo by commit 38aff06f64c.  On the history
     insert (1,1),(2,2),(3,3); extend 10 fresh rows; contains (1,1)
   the real VariadicCountedHashSet used to answer [true; true; true; unit; false]: extend called
   hashbrown's [reserve] with a rehash closure hashing the whole (row, count) entry, so the
   resized table lost the old rows.  The history is corpus/C10/counted_extend.json and is
   re-checked first on every run.  The former theorem (C10_counted_extend_trace_refuted) stated
   that those recorded answers fail C10_holds_b; what remains is the expected answer: *)
Definition counted_extend_ops : list op :=
  [On false (SInsert [1; 1]); On false (SInsert [2; 2]); On false (SInsert [3; 3]);
   On false (SExtend [[4; 0]; [4; 1]; [4; 2]; [4; 3]; [4; 4]; [4; 5]; [4; 6]; [4; 7]; [4; 8]; [4; 9]]);
   On false (SContains [1; 1])]%N.

Lemma counted_extend_expected :
  model_run KCounted 2 counted_extend_ops = [ABool true; ABool true; ABool true; AUnit; ABool true] /\
  C10_holds_b KCounted counted_extend_ops [ABool true; ABool true; ABool true; AUnit; ABool true] = true /\
  C10_holds_b KCounted counted_extend_ops [ABool true; ABool true; ABool true; AUnit; ABool false] = false.
Proof. repeat split; vm_compute; reflexivity. Qed.
