(* E2 Coll engine -- variadics/src/lib.rs: the tuple-list operations the collections and the
   GHTs rely on, transcribed with the recursion structure of the Rust impls (a variadic of
   u32 items is a [list N]).  Definitions only; proofs in PVar.v. *)
From HV Require Export Coll.ModelVC.

Set Implicit Arguments.

(* VariadicExt::extend: (item, rest.extend(suffix)) *)
Fixpoint vextend (l suffix : row) : row :=
  match l with
  | [] => suffix
  | item :: rest => item :: vextend rest suffix
  end.
(* VariadicExt::reverse / reverse_ref: rest.reverse().extend((item, ())) *)
Fixpoint vreverse (l : row) : row :=
  match l with
  | [] => []
  | item :: rest => vextend (vreverse rest) [item]
  end.
(* LEN = 1 + Rest::LEN *)
Fixpoint vlen (l : row) : nat := match l with [] => 0 | _ :: rest => 1 + vlen rest end.

(* Split<Prefix>: by recursion on the prefix TYPE (here its length n):
   Split<()>: ((), self);  Split<(Item, PrefixRest)>: ((item, prefix_rest), suffix).
   A prefix longer than the variadic does not type-check: None. *)
Fixpoint vsplit (n : nat) (l : row) : option (row * row) :=
  match n, l with
  | 0, _ => Some ([], l)
  | S n', item :: rest =>
      match vsplit n' rest with
      | Some (prefix_rest, suffix) => Some (item :: prefix_rest, suffix)
      | None => None
      end
  | S _, [] => None
  end.
(* SplitBySuffix<Suffix>: let (rsuffix, rprefix) = self.reverse().split();
                          (rprefix.reverse(), rsuffix.reverse()) *)
Definition vsplit_by_suffix (m : nat) (l : row) : option (row * row) :=
  match vsplit m (vreverse l) with
  | Some (rsuffix, rprefix) => Some (vreverse rprefix, vreverse rsuffix)
  | None => None
  end.

(* HomogenousVariadic::get: if i == 0 { Some(item) } else { rest.get(i - 1) } *)
Fixpoint hget (l : row) (i : nat) : option N :=
  match l with
  | [] => None
  | item :: rest => match i with 0 => Some item | S i' => hget rest i' end
  end.
(* HomogenousVariadic::into_iter: once(item).chain(rest.into_iter()) *)
Fixpoint hinto_iter (l : row) : list N :=
  match l with [] => [] | item :: rest => [item] ++ hinto_iter rest end.

(* into_option: (Some(item), ...rest.into_option()) *)
Fixpoint vinto_option (l : row) : list (option N) :=
  match l with [] => [] | item :: rest => Some item :: vinto_option rest end.

(* VecVariadic::get(index): `if let Some(rest) = rest_vecs.get(index)
     { this_vec.get(index).map(|item| (item, ...rest)) } else { None }`; () => Some(()) *)
Fixpoint vec_get (cols : list (list N)) (index : nat) : option row :=
  match cols with
  | [] => Some []
  | this_vec :: rest_vecs =>
      match vec_get rest_vecs index with
      | Some rest => match nth_error this_vec index with
                     | Some item => Some (item :: rest)
                     | None => None
                     end
      | None => None
      end
  end.
(* VecVariadic::drain(range): zip(this.drain(range), rest.drain(range)); every column loses the
   range lo..hi (Vec::drain panics if lo > hi or hi > len: None) *)
Definition col_drain (lo hi : nat) (c : list N) : option (list N * list N) :=
  if Nat.leb lo hi && Nat.leb hi (length c)
  then Some (firstn (hi - lo) (skipn lo c), firstn lo c ++ skipn hi c)
  else None.
Fixpoint vec_drain (lo hi : nat) (cols : list (list N)) : option (list (list N) * list (list N)) :=
  match cols with
  | [] => Some ([], [])
  | c :: rest =>
      match col_drain lo hi c, vec_drain lo hi rest with
      | Some (d, c'), Some (ds, rest') => Some (d :: ds, c' :: rest')
      | _, _ => None
      end
  end.

(* ---------------------------------------------------------------- observation of one case *)
Record vobs := {
  o_reverse : row; o_extend : row; o_len : N;
  o_splits : list (option (row * row));          (* prefix length 0 .. arity *)
  o_suffix_splits : list (option (row * row));   (* suffix length 0 .. arity *)
  o_hget : list (option N);                      (* index 0 .. arity *)
  o_into_iter : list N;
  o_into_option : list (option N);
  o_eq : bool;
  o_vec_zip : list row;                          (* zip_vecs after pushing all rows *)
  o_vec_get : option row;
  o_vec_drained : option (list row * list row);  (* drained rows, remaining rows *)
}.

Definition cols_of (arity : nat) (rows : list row) : list (list N) :=
  fold_left (fun cols r => push_cols cols r) rows (repeat [] arity).

Definition model_vobs (r r2 : row) (rows : list row) (idx lo hi : nat) : vobs :=
  let n := length r in
  let cols := cols_of n rows in
  {| o_reverse := vreverse r; o_extend := vextend r r2; o_len := N.of_nat (vlen r);
     o_splits := map (fun k => vsplit k r) (seq 0 (S n));
     o_suffix_splits := map (fun k => vsplit_by_suffix k r) (seq 0 (S n));
     o_hget := map (hget r) (seq 0 (S n));
     o_into_iter := hinto_iter r;
     o_into_option := vinto_option r;
     o_eq := row_eqb r r2;
     o_vec_zip := zip_cols cols;
     o_vec_get := vec_get cols idx;
     o_vec_drained := match vec_drain lo hi cols with
                      | Some (d, c') => Some (zip_cols d, zip_cols c')
                      | None => None
                      end |}.

(* the specification: plain list functions *)
Definition spec_vobs (r r2 : row) (rows : list row) (idx lo hi : nat) : vobs :=
  let n := length r in
  {| o_reverse := rev r; o_extend := r ++ r2; o_len := N.of_nat n;
     o_splits := map (fun k => Some (firstn k r, skipn k r)) (seq 0 (S n));
     o_suffix_splits := map (fun k => Some (firstn (n - k) r, skipn (n - k) r)) (seq 0 (S n));
     o_hget := map (nth_error r) (seq 0 (S n));
     o_into_iter := r;
     o_into_option := map Some r;
     o_eq := if list_eq_dec N.eq_dec r r2 then true else false;
     o_vec_zip := rows;
     o_vec_get := nth_error rows idx;
     o_vec_drained := if Nat.leb lo hi && Nat.leb hi (length rows)
                      then Some (firstn (hi - lo) (skipn lo rows), firstn lo rows ++ skipn hi rows)
                      else None |}.

Definition list_eqb {A} (e : A -> A -> bool) : list A -> list A -> bool :=
  fix go a b := match a, b with
                | [], [] => true
                | x :: a', y :: b' => e x y && go a' b'
                | _, _ => false
                end.
Definition pair_eqb (p q : row * row) : bool := row_eqb (fst p) (fst q) && row_eqb (snd p) (snd q).
Definition rows_eqb := list_eqb row_eqb.
Definition vobs_eqb (x y : vobs) : bool :=
  row_eqb (o_reverse x) (o_reverse y) && row_eqb (o_extend x) (o_extend y) &&
  N.eqb (o_len x) (o_len y) &&
  list_eqb (opt_eqb pair_eqb) (o_splits x) (o_splits y) &&
  list_eqb (opt_eqb pair_eqb) (o_suffix_splits x) (o_suffix_splits y) &&
  list_eqb (opt_eqb N.eqb) (o_hget x) (o_hget y) &&
  row_eqb (o_into_iter x) (o_into_iter y) &&
  list_eqb (opt_eqb N.eqb) (o_into_option x) (o_into_option y) &&
  Bool.eqb (o_eq x) (o_eq y) &&
  rows_eqb (o_vec_zip x) (o_vec_zip y) &&
  opt_eqb row_eqb (o_vec_get x) (o_vec_get y) &&
  opt_eqb (fun p q => rows_eqb (fst p) (fst q) && rows_eqb (snd p) (snd q))
          (o_vec_drained x) (o_vec_drained y).

(* bit0: implementation differs from the transcription; bit1: differs from the list functions *)
Definition var_chk (r r2 : row) (rows : list row) (idx lo hi : nat) (impl : vobs) : N :=
  verdict (vobs_eqb impl (model_vobs r r2 rows idx lo hi))
          (vobs_eqb impl (spec_vobs r r2 rows idx lo hi)).
