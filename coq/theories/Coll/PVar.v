(* E2 Coll engine -- the tuple-list operations of variadics/src/lib.rs are the plain list
   functions (C10). *)
From HV Require Import Coll.ModelVar.

Set Implicit Arguments.

Lemma vextend_app l s : vextend l s = l ++ s.
Proof. induction l; cbn; congruence. Qed.

Lemma vreverse_rev l : vreverse l = rev l.
Proof. induction l as [|x l IH]; cbn; [reflexivity|]. rewrite vextend_app, IH. reflexivity. Qed.

Lemma vlen_length l : vlen l = length l.
Proof. induction l; cbn; congruence. Qed.

Lemma vsplit_spec n : forall l,
  vsplit n l = if Nat.leb n (length l) then Some (firstn n l, skipn n l) else None.
Proof.
  induction n as [|n IH]; intros l; [reflexivity|].
  destruct l as [|x l]; [reflexivity|]. cbn [vsplit length firstn skipn]. rewrite IH.
  change (Nat.leb (S n) (S (length l))) with (Nat.leb n (length l)).
  destruct (Nat.leb n (length l)); reflexivity.
Qed.

Lemma vsplit_by_suffix_spec m l :
  vsplit_by_suffix m l =
  if Nat.leb m (length l) then Some (firstn (length l - m) l, skipn (length l - m) l) else None.
Proof.
  unfold vsplit_by_suffix. rewrite vsplit_spec, vreverse_rev, rev_length.
  destruct (Nat.leb_spec m (length l)) as [L|L]; [|reflexivity].
  cbv beta iota. rewrite (vreverse_rev (skipn m (rev l))), (vreverse_rev (firstn m (rev l))).
  rewrite skipn_rev, firstn_rev, !rev_involutive. reflexivity.
Qed.

(* splitting and re-extending gives the variadic back *)
Lemma vsplit_by_suffix_roundtrip m l p s :
  vsplit_by_suffix m l = Some (p, s) -> vextend p s = l /\ length s = m.
Proof.
  rewrite vsplit_by_suffix_spec, vextend_app. destruct (Nat.leb_spec m (length l)) as [L|L]; [|discriminate].
  intros [= <- <-]. split; [apply firstn_skipn|]. rewrite skipn_length. lia.
Qed.

Lemma hget_nth l : forall i, hget l i = nth_error l i.
Proof. induction l as [|x l IH]; intros [|i]; cbn; auto. Qed.

Lemma hinto_iter_id l : hinto_iter l = l.
Proof. induction l; cbn; congruence. Qed.

Lemma vinto_option_map l : vinto_option l = map Some l.
Proof. induction l; cbn; congruence. Qed.

Lemma row_eqb_dec (r r2 : row) : row_eqb r r2 = if list_eq_dec N.eq_dec r r2 then true else false.
Proof.
  destruct (list_eq_dec N.eq_dec r r2) as [->|n].
  - revert r2. intros r2. induction r2 as [|x r2 IH]; cbn; [reflexivity|]. rewrite N.eqb_refl. exact IH.
  - revert r2 n. induction r as [|x r IH]; intros [|y r2] n; cbn; try reflexivity; try congruence.
    destruct (N.eqb_spec x y); cbn; [|reflexivity]. apply IH. congruence.
Qed.

(* the tuple part of the model observation equals the specification's *)
Theorem variadic_tuple_ops r r2 rows idx lo hi :
  let m := model_vobs r r2 rows idx lo hi in
  let s := spec_vobs r r2 rows idx lo hi in
  o_reverse m = o_reverse s /\ o_extend m = o_extend s /\ o_len m = o_len s /\
  o_splits m = o_splits s /\ o_suffix_splits m = o_suffix_splits s /\ o_hget m = o_hget s /\
  o_into_iter m = o_into_iter s /\ o_into_option m = o_into_option s /\ o_eq m = o_eq s.
Proof.
  cbv zeta. unfold model_vobs, spec_vobs.
  cbn [o_reverse o_extend o_len o_splits o_suffix_splits o_hget o_into_iter o_into_option o_eq].
  refine (conj _ (conj _ (conj _ (conj _ (conj _ (conj _ (conj _ (conj _ _)))))))).
  - apply vreverse_rev.
  - apply vextend_app.
  - rewrite vlen_length. reflexivity.
  - apply map_ext_in. intros k i. apply in_seq in i. rewrite vsplit_spec.
    destruct (Nat.leb_spec k (length r)); [reflexivity|lia].
  - apply map_ext_in. intros k i. apply in_seq in i. rewrite vsplit_by_suffix_spec.
    destruct (Nat.leb_spec k (length r)); [reflexivity|lia].
  - apply map_ext. intros i. apply hget_nth.
  - apply hinto_iter_id.
  - apply vinto_option_map.
  - apply row_eqb_dec.
Qed.
