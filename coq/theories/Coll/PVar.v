(* E2 Coll engine -- the tuple-list operations of variadics/src/lib.rs are the plain list
   functions (C10). *)
From HV Require Import Coll.ModelVar.

Set Implicit Arguments.

Lemma vextend_app l s : vextend l s = l ++ s.
Proof. induction l; cbn; congruence. Qed.

Lemma vreverse_rev l : vreverse l = rev l.
Proof. induction l as [|x l IH]; cbn; [reflexivity|]. rewrite vextend_app, IH. reflexivity. Qed.

Lemma vlen_length l : vlen l = length l.
Proof. induction l; cbn; congruence. Qed.

Lemma vsplit_spec n : forall l,
  vsplit n l = if Nat.leb n (length l) then Some (firstn n l, skipn n l) else None.
Proof.
  induction n as [|n IH]; intros l; [reflexivity|].
  destruct l as [|x l]; [reflexivity|]. cbn [vsplit length firstn skipn]. rewrite IH.
  change (Nat.leb (S n) (S (length l))) with (Nat.leb n (length l)).
  destruct (Nat.leb n (length l)); reflexivity.
Qed.

Lemma vsplit_by_suffix_spec m l :
  vsplit_by_suffix m l =
  if Nat.leb m (length l) then Some (firstn (length l - m) l, skipn (length l - m) l) else None.
Proof.
  unfold vsplit_by_suffix. rewrite vsplit_spec, vreverse_rev, rev_length.
  destruct (Nat.leb_spec m (length l)) as [L|L]; [|reflexivity].
  cbv beta iota. rewrite (vreverse_rev (skipn m (rev l))), (vreverse_rev (firstn m (rev l))).
  rewrite skipn_rev, firstn_rev, !rev_involutive. reflexivity.
Qed.

(* splitting and re-extending gives the variadic back *)
Lemma vsplit_by_suffix_roundtrip m l p s :
  vsplit_by_suffix m l = Some (p, s) -> vextend p s = l /\ length s = m.
Proof.
  rewrite vsplit_by_suffix_spec, vextend_app. destruct (Nat.leb_spec m (length l)) as [L|L]; [|discriminate].
  intros [= <- <-]. split; [apply firstn_skipn|]. rewrite skipn_length. lia.
Qed.

Lemma hget_nth l : forall i, hget l i = nth_error l i.
Proof. induction l as [|x l IH]; intros [|i]; cbn; auto. Qed.

Lemma hinto_iter_id l : hinto_iter l = l.
Proof. induction l; cbn; congruence. Qed.

Lemma vinto_option_map l : vinto_option l = map Some l.
Proof. induction l; cbn; congruence. Qed.

Lemma row_eqb_dec (r r2 : row) : row_eqb r r2 = if list_eq_dec N.eq_dec r r2 then true else false.
Proof.
  destruct (list_eq_dec N.eq_dec r r2) as [->|n].
  - revert r2. intros r2. induction r2 as [|x r2 IH]; cbn; [reflexivity|]. rewrite N.eqb_refl. exact IH.
  - revert r2 n. induction r as [|x r IH]; intros [|y r2] n; cbn; try reflexivity; try congruence.
    destruct (N.eqb_spec x y); cbn; [|reflexivity]. apply IH. congruence.
Qed.

(* the tuple part of the model observation equals the specification's *)
Theorem variadic_tuple_ops r r2 rows idx lo hi :
  let m := model_vobs r r2 rows idx lo hi in
  let s := spec_vobs r r2 rows idx lo hi in
  o_reverse m = o_reverse s /\ o_extend m = o_extend s /\ o_len m = o_len s /\
  o_splits m = o_splits s /\ o_suffix_splits m = o_suffix_splits s /\ o_hget m = o_hget s /\
  o_into_iter m = o_into_iter s /\ o_into_option m = o_into_option s /\ o_eq m = o_eq s.
Proof.
  cbv zeta. unfold model_vobs, spec_vobs.
  cbn [o_reverse o_extend o_len o_splits o_suffix_splits o_hget o_into_iter o_into_option o_eq].
  refine (conj _ (conj _ (conj _ (conj _ (conj _ (conj _ (conj _ (conj _ _)))))))).
  - apply vreverse_rev.
  - apply vextend_app.
  - rewrite vlen_length. reflexivity.
  - apply map_ext_in. intros k i. apply in_seq in i. rewrite vsplit_spec.
    destruct (Nat.leb_spec k (length r)); [reflexivity|lia].
  - apply map_ext_in. intros k i. apply in_seq in i. rewrite vsplit_by_suffix_spec.
    destruct (Nat.leb_spec k (length r)); [reflexivity|lia].
  - apply map_ext. intros i. apply hget_nth.
  - apply hinto_iter_id.
  - apply vinto_option_map.
  - apply row_eqb_dec.
Qed.

(* ------------------------------------------------------------------ VecVariadic: get / drain / push *)
From HV Require Import Coll.PVC.

Lemma nth_error_zip_cons c : forall l i,
  nth_error (zip_cons c l) i =
  match nth_error l i, nth_error c i with
  | Some r, Some x => Some (x :: r)
  | _, _ => None
  end.
Proof.
  induction c as [|x c IH]; intros l i.
  - destruct l as [|r l], i as [|i]; cbn; try reflexivity. destruct (nth_error l i); reflexivity.
  - destruct l as [|r l]; [destruct i; reflexivity|]. destruct i as [|i]; cbn; [reflexivity|apply IH].
Qed.

(* VecVariadic::get(index) is the index-th row of zip_vecs *)
Lemma vec_get_zip cols i : cols <> [] -> vec_get cols i = nth_error (zip_cols cols) i.
Proof.
  induction cols as [|c [|c2 rest] IH]; intros ne; [congruence| |].
  - cbn. rewrite nth_error_map. destruct (nth_error c i); reflexivity.
  - rewrite zip_cols_cons, nth_error_zip_cons. cbn [vec_get] in *.
    rewrite IH by discriminate. reflexivity.
Qed.

Lemma zip_cons_nil_r c : zip_cons c [] = [].
Proof. destruct c; reflexivity. Qed.

Lemma zip_cons_firstn n : forall c l, firstn n (zip_cons c l) = zip_cons (firstn n c) (firstn n l).
Proof.
  induction n as [|n IH]; intros c l; [reflexivity|].
  destruct c as [|x c], l as [|r l]; cbn; try reflexivity;
    try (rewrite zip_cons_nil_r; reflexivity). f_equal. apply IH.
Qed.

Lemma zip_cons_skipn n : forall c l, skipn n (zip_cons c l) = zip_cons (skipn n c) (skipn n l).
Proof.
  induction n as [|n IH]; intros c l; [reflexivity|].
  destruct c as [|x c], l as [|r l]; cbn; try reflexivity;
    try (rewrite zip_cons_nil_r; reflexivity). apply IH.
Qed.

Lemma zip_cons_app a : forall b l1 l2, length a = length l1 ->
  zip_cons (a ++ b) (l1 ++ l2) = zip_cons a l1 ++ zip_cons b l2.
Proof.
  induction a as [|x a IH]; intros b [|r l1] l2 L; cbn in *; try lia; [reflexivity|].
  rewrite IH by lia. reflexivity.
Qed.

Lemma map_single_firstn n (c : list N) :
  firstn n (map (fun x => [x]) c) = map (fun x => [x]) (firstn n c).
Proof. apply firstn_map. Qed.

(* VecVariadic::drain(lo..hi): the drained rows are rows lo..hi of zip_vecs, the rest stays *)
Lemma vec_drain_zip lo hi cols n :
  cols <> [] -> rect n cols ->
  let rows := zip_cols cols in
  match vec_drain lo hi cols with
  | Some (d, c') =>
      lo <= hi /\ hi <= n /\
      zip_cols d = firstn (hi - lo) (skipn lo rows) /\
      zip_cols c' = firstn lo rows ++ skipn hi rows /\
      d <> [] /\ c' <> [] /\ rect (hi - lo) d /\ rect (n - (hi - lo)) c'
  | None => ~ (lo <= hi /\ hi <= n)
  end.
Proof.
  induction cols as [|c [|c2 rest] IH]; intros ne R; [congruence| |]; cbn zeta.
  - inversion R as [|? ? Lc _]; subst. cbn [vec_drain]. unfold col_drain.
    destruct (Nat.leb_spec lo hi) as [L1|L1]; cbn [andb]; [|intros [? ?]; lia].
    destruct (Nat.leb_spec hi (length c)) as [L2|L2]; [|intros [? ?]; lia].
    cbn [zip_cols]. rewrite map_app, <- !firstn_map, <- !skipn_map.
    repeat split; try lia; try discriminate.
    + constructor; [|constructor]. rewrite firstn_length, skipn_length. lia.
    + constructor; [|constructor]. rewrite app_length, firstn_length, skipn_length. lia.
  - inversion R as [|? ? Lc R']; subst.
    specialize (IH ltac:(discriminate) R'). cbn zeta in IH.
    change (vec_drain lo hi (c :: c2 :: rest)) with
      (match col_drain lo hi c, vec_drain lo hi (c2 :: rest) with
       | Some (d, c'), Some (ds, rest') => Some (d :: ds, c' :: rest')
       | _, _ => None
       end).
    unfold col_drain.
    destruct (Nat.leb_spec lo hi) as [L1|L1]; cbn [andb];
      [|destruct (vec_drain lo hi (c2 :: rest)) as [[? ?]|]; intros [? ?]; lia].
    destruct (Nat.leb_spec hi (length c)) as [L2|L2];
      [|destruct (vec_drain lo hi (c2 :: rest)) as [[? ?]|]; intros [? ?]; lia].
    destruct (vec_drain lo hi (c2 :: rest)) as [[ds rest']|]; [|exfalso; apply IH; lia].
    destruct IH as (_ & _ & Zd & Zc & ned & nec & Rd & Rc).
    assert (LZ : length (zip_cols (c2 :: rest)) = length c)
      by (apply zip_cols_length; [discriminate|assumption]).
    destruct ds as [|d0 ds]; [congruence|]. destruct rest' as [|r0 rest']; [congruence|].
    rewrite !zip_cols_cons, Zd, Zc.
    rewrite zip_cons_skipn, zip_cons_firstn, zip_cons_firstn, zip_cons_skipn.
    rewrite zip_cons_app by (rewrite !firstn_length; lia).
    repeat split; try lia; try discriminate.
    + constructor; [rewrite firstn_length, skipn_length; lia|assumption].
    + constructor; [rewrite app_length, firstn_length, skipn_length; lia|assumption].
Qed.

(* the column store built by into_singleton_vec + push holds the rows, in order *)
Lemma push_cols_repeat r : push_cols (repeat [] (length r)) r = singleton_cols r.
Proof. induction r as [|x r IH]; cbn; [reflexivity|]. rewrite IH. reflexivity. Qed.

Lemma cols_of_spec a rows :
  0 < a -> Forall (fun r => length r = a) rows ->
  zip_cols (cols_of a rows) = rows /\
  (rows <> [] -> cols_of a rows <> [] /\ rect (length rows) (cols_of a rows)) /\
  (rows = [] -> cols_of a rows = repeat [] a).
Proof.
  intros pa F. unfold cols_of.
  assert (G : forall rs cols h, Forall (fun r => length r = a) rs ->
              zip_cols cols = h /\ length cols = a /\ rect (length h) cols ->
              let cols' := fold_left (fun cols r => push_cols cols r) rs cols in
              zip_cols cols' = h ++ rs /\ length cols' = a /\ rect (length (h ++ rs)) cols').
  { induction rs as [|r rs IH]; intros cols h Fr (Z & L & R); cbn zeta; cbn [fold_left].
    - rewrite app_nil_r. auto.
    - apply Forall_cons_iff in Fr as [Lr Fr'].
      assert (ne : cols <> []) by (intros e; rewrite e in L; cbn in L; lia).
      destruct (@push_cols_rect cols r (length h)) as [L' R']; [lia|assumption|].
      change (h ++ r :: rs) with (h ++ [r] ++ rs). rewrite app_assoc. apply IH; [assumption|].
      split; [|split].
      + rewrite (@zip_push cols r (length h)); [rewrite Z; reflexivity|assumption|lia|assumption].
      + lia.
      + rewrite app_length. cbn [length]. exact R'. }
  destruct (G rows (repeat [] a) [] F) as (Z & L & R).
  { split; [|split].
    - apply zip_all_empty, Forall_forall. intros c i. apply repeat_spec in i. exact i.
    - apply repeat_length.
    - apply Forall_forall. intros c i. apply repeat_spec in i. subst. reflexivity. }
  cbn [app] in *. split; [exact Z|split].
  - intros ne. split; [|exact R]. intros e. rewrite e in L. cbn in L. lia.
  - intros ->. reflexivity.
Qed.

(* the VecVariadic part of the model observation equals the specification's *)
Theorem variadic_vec_ops r r2 rows idx lo hi :
  r <> [] -> Forall (fun x => length x = length r) rows ->
  let m := model_vobs r r2 rows idx lo hi in
  let s := spec_vobs r r2 rows idx lo hi in
  o_vec_zip m = o_vec_zip s /\ o_vec_get m = o_vec_get s /\ o_vec_drained m = o_vec_drained s.
Proof.
  intros ne F. cbv zeta. unfold model_vobs, spec_vobs. cbn [o_vec_zip o_vec_get o_vec_drained].
  assert (pa : 0 < length r) by (destruct r; [congruence|cbn; lia]).
  destruct (cols_of_spec pa F) as (Z & NE & E).
  split; [exact Z|].
  assert (cne : cols_of (length r) rows <> []).
  { destruct rows as [|x rows]; [rewrite E by reflexivity; destruct r; [congruence|discriminate]|].
    apply NE. discriminate. }
  split; [rewrite vec_get_zip by exact cne; rewrite Z; reflexivity|].
  destruct rows as [|x rows].
  - (* no rows: all columns empty *)
    rewrite E by reflexivity. cbn [length].
    assert (R0 : rect 0 (repeat [] (length r) : list (list N))).
    { apply Forall_forall. intros c i. apply repeat_spec in i. subst. reflexivity. }
    assert (ne0 : (repeat [] (length r) : list (list N)) <> []) by (destruct r; [congruence|discriminate]).
    pose proof (@vec_drain_zip lo hi _ 0 ne0 R0) as D. cbn zeta in D.
    assert (Z0 : zip_cols (repeat [] (length r) : list (list N)) = []).
    { apply zip_all_empty, Forall_forall. intros c i. apply repeat_spec in i. exact i. }
    rewrite Z0 in D.
    destruct (vec_drain lo hi (repeat [] (length r))) as [[d c']|].
    + destruct D as (L1 & L2 & Zd & Zc & _). rewrite Zd, Zc.
      rewrite (proj2 (Nat.leb_le lo hi) L1), (proj2 (Nat.leb_le hi 0) L2). reflexivity.
    + destruct (Nat.leb lo hi) eqn:E1; [|reflexivity]. destruct (Nat.leb hi 0) eqn:E2; [|reflexivity].
      apply Nat.leb_le in E1, E2. exfalso. apply D. lia.
  - destruct (NE ltac:(discriminate)) as [_ R].
    pose proof (@vec_drain_zip lo hi _ _ cne R) as D. cbn zeta in D. rewrite Z in D.
    destruct (vec_drain lo hi (cols_of (length r) (x :: rows))) as [[d c']|].
    + destruct D as (L1 & L2 & Zd & Zc & _). rewrite Zd, Zc.
      rewrite (proj2 (Nat.leb_le lo hi) L1). cbn [andb].
      match goal with |- context [Nat.leb hi ?m] => destruct (Nat.leb_spec hi m) as [L3|L3] end;
        [reflexivity|unfold row in *; cbn [length] in *; lia].
    + destruct (Nat.leb lo hi) eqn:E1; [|reflexivity]. cbn [andb].
      match goal with |- context [Nat.leb hi ?m] => destruct (Nat.leb_spec hi m) as [L3|L3] end;
        [|reflexivity].
      apply Nat.leb_le in E1. exfalso. apply D. unfold row in *. cbn [length] in *. lia.
Qed.
