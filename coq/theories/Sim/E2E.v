(* Engine E9 "Sim": model of a whole compiled simulation without feedback -- the scheduler
   loop of LaunchedSim::step (choice among the ticks that can run) around run_hooks and the
   in-tick shuffle of unordered batches -- for comparison with real compiled Hydro programs run
   under the real exhaustive driver (harness/h_sim/e2e).  Definitions only.

   A program is a list of ticks (each a hook list); all input is pending at the start and no
   tick feeds another.  An outcome is, per tick, the sequence of its runs, each run being the
   values each hook released. *)
From Coq Require Import List Arith Bool NArith.
From HV Require Import Sim.Model Sim.Run Sim.Exh Sim.ModelTop.
Import ListNotations.
Open Scope N_scope.

Definition outcome2 : Type := list (list (list (list N))).

Fixpoint ready_idx (i : nat) (ts : list (list hook)) : list nat :=
  match ts with
  | [] => []
  | t :: r => (if can_run t then [i] else []) ++ ready_idx (S i) r
  end.

Fixpoint set_nth {X} (i : nat) (x : X) (l : list X) : list X :=
  match l, i with
  | [], _ => []
  | _ :: r, O => x :: r
  | y :: r, S i' => y :: set_nth i' x r
  end.

(* the in-tick fold over an unordered batch first observes an order (inline StreamOrderHook):
   decisions are consumed, the (sorted) result does not depend on them *)
Fixpoint shuffles (outs : list (list N)) (ds : script) : res script :=
  match outs with
  | [] => Ok ds
  | o :: r => bind (decide_shuffle o ds) (fun '(_, ds1) => shuffles r ds1)
  end.

Fixpoint sim_run (fuel : nat) (sh : bool) (ts : list (list hook)) (ds : script)
  : res (list (nat * list (list N)) * script) :=
  match fuel with
  | O => Ok ([], ds)
  | S f =>
    let rd := ready_idx 0 ts in
    if is_nil rd then Ok ([], ds) else
    bind (ask_excl 0 (length rd) ds) (fun '(d, ds1) =>
      let i := nth d rd O in
      bind (run_hooks (nth i ts []) ds1) (fun '(hs', outs, ds2) =>
        let vals := map (fun o => map snd (fst o)) outs in
        bind (if sh then shuffles vals ds2 else Ok ds2) (fun ds3 =>
          bind (sim_run f sh (set_nth i hs' ts) ds3) (fun '(tr, ds4) =>
            Ok ((i, vals) :: tr, ds4)))))
  end.

Definition project (n : nat) (tr : list (nat * list (list N))) : outcome2 :=
  map (fun i => map snd (filter (fun e => Nat.eqb (fst e) i) tr)) (seq 0 n).

Definition lln_eqb := list_eqb (list_eqb ln_eqb).
Definition o2_eqb : outcome2 -> outcome2 -> bool := list_eqb lln_eqb.
Definition o2mem (o : outcome2) (l : list outcome2) : bool := existsb (o2_eqb o) l.
Fixpoint o2dedup (l : list outcome2) : list outcome2 :=
  match l with
  | [] => []
  | o :: l' => if o2mem o l' then o2dedup l' else o :: o2dedup l'
  end.
Definition o2subset (a b : list outcome2) : bool := forallb (fun o => o2mem o b) a.

Definition script_eqb := list_eqb Nat.eqb.
Fixpoint scripts_distinct (l : list script) : bool :=
  match l with
  | [] => true
  | s :: l' => negb (existsb (script_eqb s) l') && scripts_distinct l'
  end.

(* ------------------------------------------------------------------ demanded outcomes *)
(* every way to cut q into consecutive non-empty batches *)
Fixpoint compositions (q : list N) : list (list (list N)) :=
  match q with
  | [] => [[]]
  | x :: q' =>
    flat_map (fun c => match c with
                       | [] => [[[x]]]
                       | b :: c' => [[x] :: c; (x :: b) :: c']
                       end) (compositions q')
  end.

(* every sequence of non-empty complementary sub-sequences (ordered set partitions) *)
Fixpoint ordered_partitions (fuel : nat) (q : list N) : list (list (list N)) :=
  match fuel with
  | O => [[]]
  | S f =>
    if is_nil q then [[]] else
    flat_map (fun p => if is_nil (fst p) then []
                       else map (cons (fst p)) (ordered_partitions f (snd p))) (splits q)
  end.

Definition one_hook_runs (c : list (list N)) : list (list (list N)) := map (fun b => [b]) c.

(* P1 batch_total / P2 batch_noorder: one tick, one hook; P3: two ticks, one hook each *)
Definition spec_total (q : list N) : list outcome2 := map (fun c => [one_hook_runs c]) (compositions q).
Definition spec_noorder (q : list N) : list outcome2 :=
  map (fun c => [one_hook_runs c]) (ordered_partitions (length q) q).
Definition spec_two_ticks (a b : list N) : list outcome2 :=
  flat_map (fun ca => map (fun cb => [one_hook_runs ca; one_hook_runs cb]) (compositions b)) (compositions a).

(* [scripts]: candidate decision strings (the model keeps the complete valid ones);
   bit 1: the real outcome set or the real number of executions differs from the model's;
   bit 2: a demanded outcome is missing from the real set *)
Definition e2e_verdict (fuel : nat) (sh : bool) (ts : list (list hook)) (scripts : list script)
           (impl : list outcome2) (execs : nat) (spec : list outcome2) : N :=
  let runs := filter_map (fun ds => match sim_run fuel sh ts ds with
                                    | Ok (tr, []) => Some (project (length ts) tr)
                                    | _ => None
                                    end) scripts in
  let mo := o2dedup runs in
  (if o2subset mo impl && o2subset impl mo && Nat.eqb (length runs) execs && scripts_distinct scripts
   then 0 else 1)
  + (if o2subset spec impl then 0 else 2).
