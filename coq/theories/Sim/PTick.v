(* Engine E9 "Sim": keyed singleton hook, and run_hooks (two passes, forced non-trivial rule). *)
From Coq Require Import List Arith Bool NArith Lia Permutation.
From HV Require Import Sim.Model Sim.PHooks.
Import ListNotations.
Close Scope N_scope.
Open Scope nat_scope.

Tactic Notation "inv_bind" hyp(H) "as" simple_intropattern(pat) :=
  match type of H with
  | bind ?r _ = Ok _ =>
    let E := fresh "E" in
    destruct r as [pat | | ?] eqn:E; cbn [bind] in H; [ | discriminate H | discriminate H]
  end.

(* ------------------------------------------------------------------ keyed singleton *)
Section KSingle.
  Context {A K : Type} (keq : K -> K -> bool).

  (* per map entry: unchanged re-release of the last value (queue untouched), no release for a
     key not yet in the snapshot, or a new value with older ones dropped and newer ones kept *)
  Inductive KSplit : list (K * A) -> list (K * list A) -> list (K * A * bool) -> list (K * list A) -> Prop :=
  | KSp_nil last : KSplit last [] [] []
  | KSp_old last k q l m rel m' :
      lookup keq k last = Some l -> KSplit last m rel m' ->
      KSplit last ((k, q) :: m) ((k, l, false) :: rel) ((k, q) :: m')
  | KSp_null last k q m rel m' :
      q <> [] -> lookup keq k last = None -> KSplit last m rel m' ->
      KSplit last ((k, q) :: m) rel ((k, q) :: m')
  | KSp_new last k q skipped x q' m rel m' :
      q = skipped ++ x :: q' -> KSplit (insert keq k x last) m rel m' ->
      KSplit last ((k, q) :: m) ((k, x, true) :: rel) ((k, q') :: m').

  Lemma ksingle_sound : forall (m : list (K * list A)) force r last ds rel m' last' rest nt,
    ksingle_loop keq force r m last ds = Ok (rel, m', last', rest, nt) ->
    KSplit last m rel m' /\ nt = existsb (fun e => snd e) rel.
  Proof.
    induction m as [|[k q] m IH]; intros force r last ds rel m' last' rest nt H;
      cbn [ksingle_loop] in H.
    - inversion H; subst. split; [constructor|reflexivity].
    - destruct (is_nil q) eqn:En.
      + destruct (lookup keq k last) as [l|] eqn:El; [|discriminate].
        inv_bind H as [[[[rel1 m1] last1] rest1] nt1]. inversion H; subst; clear H.
        apply IH in E. destruct E as [HS ->]. split; [|reflexivity]. constructor; auto.
      + inv_bind H as [re ds1]. destruct re as [l|].
        * inv_bind H as [[[[rel1 m1] last1] rest1] nt1]. inversion H; subst; clear H.
          apply IH in E0. destruct E0 as [HS ->]. split; [|reflexivity]. constructor; auto.
          destruct (lookup keq k last) as [l0|]; [|inversion E; fail].
          destruct (force && (r - 1 =? 0)); [inversion E|].
          inv_bind E as [b ds2]. destruct b; inversion E; subst. reflexivity.
        * inv_bind H as [null ds2]. destruct null.
          -- inv_bind H as [[[[rel1 m1] last1] rest1] nt1]. inversion H; subst; clear H.
             apply IH in E1. destruct E1 as [HS ->]. split; [|reflexivity].
             apply KSp_null; auto. apply is_nil_false; auto.
             destruct (lookup keq k last) as [l0|] eqn:El; [|reflexivity].
             exfalso. cbn [is_some negb andb] in E0. rewrite andb_false_r in E0.
             inversion E0.
          -- inv_bind H as [idx ds3]. destruct (skipn idx q) as [|x qrest] eqn:Es; [discriminate|].
             inv_bind H as [[[[rel1 m1] last1] rest1] nt1]. inversion H; subst; clear H.
             apply IH in E2. destruct E2 as [HS _]. split; [|reflexivity].
             eapply KSp_new; eauto. rewrite <- Es. symmetry. apply firstn_skipn.
  Qed.

  Lemma ksingle_forced : forall (m : list (K * list A)) r last ds rel m' last' rest nt,
    ksingle_loop keq true r m last ds = Ok (rel, m', last', rest, nt) ->
    r = count_nonempty m -> r <> 0 -> nt = true.
  Proof.
    induction m as [|[k q] m IH]; intros r last ds rel m' last' rest nt H Hr Hc.
    - cbn in Hr. congruence.
    - rewrite count_nonempty_cons in Hr. cbn [ksingle_loop] in H. destruct (is_nil q) eqn:En.
      + destruct (lookup keq k last) as [l|] eqn:El; [|discriminate].
        inv_bind H as [[[[rel1 m1] last1] rest1] nt1]. inversion H; subst; clear H.
        eapply IH; eauto.
      + assert (Hr' : r - 1 = count_nonempty m) by (subst r; cbn; lia).
        destruct (r - 1 =? 0) eqn:Ez.
        * (* the last non-empty key: forced *)
          cbn [andb] in H.
          assert (E : (match lookup keq k last with
                       | Some l => Ok (@None A, ds)
                       | None => Ok (None, ds) end) = Ok (@None A, ds))
            by (destruct (lookup keq k last); reflexivity).
          rewrite E in H. cbn [bind negb andb] in H.
          inv_bind H as [idx ds3]. destruct (skipn idx q) as [|x qrest]; [discriminate|].
          inv_bind H as [[[[rel1 m1] last1] rest1] nt1]. inversion H; subst. reflexivity.
        * cbn [andb] in H. apply Nat.eqb_neq in Ez.
          inv_bind H as [re ds1]. destruct re as [l|].
          -- inv_bind H as [[[[rel1 m1] last1] rest1] nt1]. inversion H; subst; clear H.
             eapply IH; eauto.
          -- inv_bind H as [null ds2]. destruct null.
             ++ inv_bind H as [[[[rel1 m1] last1] rest1] nt1]. inversion H; subst; clear H.
                eapply IH; eauto.
             ++ inv_bind H as [idx ds3]. destruct (skipn idx q) as [|x qrest]; [discriminate|].
                inv_bind H as [[[[rel1 m1] last1] rest1] nt1]. inversion H; subst. reflexivity.
  Qed.

  Theorem ksingle_per_key force (m : list (K * list A)) last ds rel m' last' rest nt :
    decide_ksingle keq force m last ds = Ok (rel, m', last', rest, nt) ->
    KSplit last m rel m' /\ nt = existsb (fun e => snd e) rel
    /\ (force = true -> count_nonempty m <> 0 -> nt = true).
  Proof.
    unfold decide_ksingle. intro H. pose proof (ksingle_sound _ _ _ _ _ _ _ _ _ _ H) as [HS Hn].
    repeat split; auto. intros -> Hc. eapply ksingle_forced; eauto.
  Qed.
End KSingle.

(* ------------------------------------------------------------------ per-hook facts *)
Lemma idle_none h : idle h = true <-> current_decision h = None.
Proof. unfold idle. destruct (current_decision h); cbn; split; congruence. Qed.

Lemma all_empty_count (m : list (N * list N)) :
  all_empty m = false -> count_nonempty m <> 0.
Proof.
  induction m as [|[k q] m IH]; [cbn; discriminate|].
  rewrite count_nonempty_cons. unfold all_empty in *. cbn [forallb snd].
  destruct (is_nil q); cbn [andb Nat.add]; [auto|lia].
Qed.

(* a forced decision on a hook that can make a non-trivial one is non-trivial *)
Lemma auto_forced h ds h1 nt rest :
  can_nontrivial h = true -> auto h true ds = Ok (h1, nt, rest) -> nt = true.
Proof.
  destruct h; cbn [can_nontrivial auto]; intros Hc H.
  - inv_bind H as [[[rel q'] ds'] nt']. inversion H; subst. apply total_prefix in E.
    destruct E as (_ & -> & Hf & _). destruct rel; [exfalso; apply Hf; auto|reflexivity].
  - inv_bind H as [[[rel q'] ds'] nt']. inversion H; subst. apply noorder_merge in E.
    destruct E as (_ & -> & Hf). destruct rel; [|reflexivity]. exfalso. apply Hf; auto.
    apply is_nil_false. apply negb_true_iff. exact Hc.
  - inv_bind H as [[[rel q'] ds'] nt']. inversion H; subst. apply keyed_total_per_key in E.
    destruct E as (_ & -> & Hf). destruct rel; [|reflexivity]. exfalso. apply Hf; auto.
    apply all_empty_count. apply negb_true_iff. exact Hc.
  - inv_bind H as [[[rel q'] ds'] nt']. inversion H; subst. apply keyed_noorder_per_key in E.
    destruct E as (_ & -> & Hf). destruct rel; [|reflexivity]. exfalso. apply Hf; auto.
    apply all_empty_count. apply negb_true_iff. exact Hc.
  - inv_bind H as [[[[x is_new] sk] q'] ds']. inversion H; subst. eapply single_forced; eauto.
  - destruct q as [|a q]; [discriminate|]. unfold decide_pass in H.
    destruct (rev (a :: q)) eqn:Er.
    + exfalso. apply (f_equal (@length N)) in Er. rewrite rev_length in Er. discriminate.
    + inversion H; reflexivity.
  - inv_bind H as [[[[rel q'] last'] ds'] nt']. inversion H; subst.
    apply ksingle_per_key in E. destruct E as (_ & _ & Hf). apply Hf; auto.
    apply all_empty_count. apply negb_true_iff. exact Hc.
Qed.

(* after autonomous_decision the hook holds a decision whose flag is the return value (since
   fix 3c81bfcb4b9 this also holds for the passthrough hook with nothing pending) *)
Lemma auto_decided h f ds h1 nt rest :
  auto h f ds = Ok (h1, nt, rest) -> current_decision h1 = Some nt.
Proof.
  destruct h; cbn [auto]; intro H.
  - inv_bind H as [[[rel q'] ds'] nt']. inversion H; subst.
    apply total_prefix in E. destruct E as (_ & -> & _). reflexivity.
  - inv_bind H as [[[rel q'] ds'] nt']. inversion H; subst.
    apply noorder_merge in E. destruct E as (_ & -> & _). reflexivity.
  - inv_bind H as [[[rel q'] ds'] nt']. inversion H; subst.
    apply keyed_total_per_key in E. destruct E as (_ & -> & _). reflexivity.
  - inv_bind H as [[[rel q'] ds'] nt']. inversion H; subst.
    apply keyed_noorder_per_key in E. destruct E as (_ & -> & _). reflexivity.
  - inv_bind H as [[[[x is_new] sk] q'] ds']. inversion H; subst. reflexivity.
  - destruct (decide_pass q) as [[x|] q'].
    + inversion H; subst. reflexivity.
    + destruct last; inversion H; subst. reflexivity.
  - inv_bind H as [[[[rel q'] last'] ds'] nt']. inversion H; subst.
    apply ksingle_per_key in E. destruct E as (_ & -> & _). reflexivity.
Qed.

Lemma release_flag h h2 out flag :
  release h = Ok (h2, out, flag) -> current_decision h = Some flag.
Proof.
  unfold release. destruct (current_decision h) as [b|]; [|discriminate].
  destruct h as [q tr|q tr|m tr|m tr|q tr last|q tr last|m tr last]; destruct tr as [t|];
    try discriminate; try (destruct t); intro H; inversion H; reflexivity.
Qed.

Lemma release_undecided_panics h :
  current_decision h = None -> release h = Panic 1.
Proof. unfold release. intros ->. reflexivity. Qed.

(* ------------------------------------------------------------------ run_hooks *)
Definition undecided (h : hook) : bool := negb (is_some (current_decision h)).
Definition pend (l : list hook) : nat := length (filter undecided l).

Lemma undecided_none h : undecided h = true <-> current_decision h = None.
Proof. apply idle_none. Qed.

Lemma pend_cons h l : pend (h :: l) = (if undecided h then 1 else 0) + pend l.
Proof. unfold pend. cbn. destruct (undecided h); reflexivity. Qed.

(* the two-pass argument, second pass: with no non-trivial decision so far, the count equal
   to the number of undecided hooks, every undecided hook able to decide non-trivially, and at
   least one of them: some released decision is non-trivial *)
Lemma pass2_new : forall l rc ds hs' outs rest,
  pass2 l false rc ds = Ok (hs', outs, rest) ->
  rc = pend l ->
  (forall h, In h l -> current_decision h = None -> can_nontrivial h = true) ->
  pend l <> 0 ->
  existsb snd outs = true.
Proof.
  induction l as [|h l IH]; intros rc ds hs' outs rest H Hrc Hcan Hp; [cbn in Hp; congruence|].
  cbn [pass2] in H. inv_bind H as [[[h1 made'] rc'] ds']. inv_bind H as [[h2 out] flag].
  inv_bind H as [[hs'' outs'] ds'']. inversion H; subst; clear H. cbn [existsb snd].
  rewrite pend_cons in *.
  destruct (current_decision h) as [b|] eqn:Ed.
  - inversion E; subst; clear E.
    assert (Hu : undecided h1 = false) by (unfold undecided; rewrite Ed; reflexivity).
    rewrite Hu in *. cbn [Nat.add] in *.
    apply orb_true_iff. right. eapply IH; eauto. intros; apply Hcan; auto. right; auto.
  - assert (Hu : undecided h = true) by (unfold undecided; rewrite Ed; reflexivity).
    rewrite Hu in *. cbn [negb andb] in E.
    inv_bind E as [[h1' nt] ds1]. inv_bind E as rc1. inversion E; subst; clear E.
    assert (Hc : can_nontrivial h = true) by (apply Hcan; [left; reflexivity|exact Ed]).
    pose proof (auto_decided _ _ _ _ _ _ E2) as Hd.
    apply release_flag in E0. rewrite Hd in E0. injection E0 as <-.
    destruct made'.
    + reflexivity.
    + cbn [orb]. destruct (1 + pend l =? 1) eqn:Eq1.
      * apply auto_forced in E2; [discriminate|exact Hc].
      * apply Nat.eqb_neq in Eq1. cbn in E3. inversion E3; subst rc'.
        eapply IH; eauto. intros; apply Hcan; auto. right; auto.
Qed.

(* first pass on idle hooks: nothing non-trivial is recorded; hooks that can decide
   non-trivially are left alone, the others get a trivial autonomous decision *)
Definition P1rel (h h1 : hook) : Prop :=
  (can_nontrivial h = true /\ h1 = h)
  \/ (can_nontrivial h = false /\ exists d nt d', auto h false d = Ok (h1, nt, d')).

Definition count_can (l : list hook) : nat := length (filter can_nontrivial l).

Lemma pass1_idle : forall hs made rc ds hs1 made1 rc1 ds1,
  pass1 hs made rc ds = Ok (hs1, made1, rc1, ds1) ->
  forallb idle hs = true ->
  made1 = made /\ rc1 + length hs = rc + count_can hs /\ Forall2 P1rel hs hs1.
Proof.
  induction hs as [|h hs IH]; intros made rc ds hs1 made1 rc1 ds1 H Hidle; cbn [pass1] in H.
  - inversion H; subst. repeat split; auto.
  - cbn [forallb] in Hidle. apply andb_true_iff in Hidle. destruct Hidle as [Hi Hidle].
    apply idle_none in Hi. rewrite Hi in H.
    inv_bind H as [[[h1 made'] rc'] ds']. inv_bind H as [[[hs'' made''] rc''] ds''].
    inversion H; subst; clear H. apply IH in E0; auto. destruct E0 as (-> & Hrc & HF).
    unfold count_can in *. cbn [filter length].
    destruct (can_nontrivial h) eqn:Hc; cbn [negb] in E.
    + inversion E; subst; clear E. repeat split; auto. cbn [length]. lia.
      constructor; auto. left. auto.
    + inv_bind E as [[h1' nt] d']. inv_bind E as rc2. inversion E; subst; clear E.
      destruct rc; cbn in E1; [discriminate|]. inversion E1; subst.
      repeat split; auto. cbn [length]. lia.
      constructor; auto. right. split; auto. eauto.
Qed.

Lemma Forall2_len {X Y} (R : X -> Y -> Prop) a b : Forall2 R a b -> length a = length b.
Proof. induction 1; cbn; auto. Qed.

Theorem run_hooks_releases_new hs ds hs' outs rest :
  run_hooks hs ds = Ok (hs', outs, rest) ->
  forallb idle hs = true ->
  existsb can_nontrivial hs = true ->
  existsb snd outs = true.
Proof.
  unfold run_hooks. intros H Hidle Hex. inv_bind H as [[[hs1 made] rc] ds1].
  pose proof (pass1_idle _ _ _ _ _ _ _ _ E Hidle) as (-> & Hrc & HF).
  (* shape of every hook after the first pass *)
  assert (Hshape : forall h h1, P1rel h h1 -> idle h = true -> In h1 hs1 ->
            (can_nontrivial h = true /\ h1 = h /\ undecided h1 = true)
            \/ (can_nontrivial h = false /\ undecided h1 = false)).
  { intros h h1 [[Hc ->]|[Hc (d & nt & d' & Ha)]] Hi Hin.
    - left. repeat split; auto.
    - right. split; auto. apply auto_decided in Ha. unfold undecided. rewrite Ha. reflexivity. }
  assert (Hall : pend hs1 = count_can hs
                 /\ (forall h1, In h1 hs1 -> current_decision h1 = None -> can_nontrivial h1 = true)).
  { clear H Hrc E Hex. revert Hidle Hshape. induction HF as [|h h1 l l1 HR HF IH]; intros Hidle Hshape.
    - split; [reflexivity|intros ? []].
    - cbn [forallb] in Hidle. apply andb_true_iff in Hidle. destruct Hidle as [Hi Hidle].
      destruct IH as [IH1 IH2]; auto.
      { intros. apply Hshape; auto. right; auto. }
      rewrite pend_cons. unfold count_can in *. cbn [filter].
      destruct (Hshape h h1 HR Hi (or_introl eq_refl)) as [(Hc & -> & Hu)|(Hc & Hu)];
        rewrite Hc, Hu; cbn [length]; split; try lia.
      + intros x [<-|Hin] Hn; auto.
      + intros x [<-|Hin] Hn; auto. apply undecided_none in Hn. congruence. }
  destruct Hall as [Hp Hcan].
  assert (Hlen : length hs1 = length hs) by (symmetry; eapply Forall2_len; eauto).
  eapply pass2_new; eauto.
  - lia.
  - rewrite Hp. unfold count_can. apply existsb_exists in Hex. destruct Hex as (x & Hin & Hx).
    assert (In x (filter can_nontrivial hs)) by (apply filter_In; auto).
    destruct (filter can_nontrivial hs); [contradiction|discriminate].
Qed.

(* ------------------------------------------------------------------ SimTick::can_run *)
Theorem can_run_iff hs :
  can_run hs = true <->
  (forall h, In h hs -> is_ready h = true) /\ (exists h, In h hs /\ hook_can_release h = true).
Proof.
  unfold can_run. rewrite andb_true_iff, forallb_forall, existsb_exists. reflexivity.
Qed.
