(* Engine E9 "Sim": no duplicate schedule for the keyed stream hooks (C37): two valid decision
   strings with the same outcome (released pairs and remaining map) are equal. *)
From Coq Require Import List Arith Bool NArith Lia Permutation.
From HV Require Import Sim.Model Sim.PHooks Sim.PComplete Sim.PFrame.
Import ListNotations.
Close Scope N_scope.
Open Scope nat_scope.

Tactic Notation "inv_bind" hyp(H) "as" simple_intropattern(pat) :=
  match type of H with
  | bind ?r _ = Ok _ =>
    let E := fresh "E" in
    destruct r as [pat | | ?] eqn:E; cbn [bind] in H; [ | discriminate H | discriminate H]
  end.

Section UniqueK.
  Context {A K : Type}.

  (* the decisions a loop consumed, run alone, give the same result with nothing left *)
  Lemma no_loop_unframe f : forall must (q : list A) mi ds s k rest,
    no_loop f must q mi ds = Ok (s, k, rest) ->
    exists u, ds = u ++ rest /\ no_loop f must q mi u = Ok (s, k, []).
  Proof.
    induction f; intros must q mi ds s k rest H.
    - cbn in *. inversion H; subst. exists []. auto.
    - cbn [no_loop] in *. destruct (is_nil q) eqn:En. { inversion H; subst. exists []. auto. }
      assert (Hcont : forall d1,
        bind (ask_excl mi (length q) d1) (fun '(idx, ds2) =>
          match remove_at idx q with
          | None => Panic 6
          | Some (item, q') =>
            if idx =? length q' then Ok ([item], q', ds2)
            else bind (no_loop f false q' idx ds2) (fun '(rel, q'', ds3) =>
                   Ok (item :: rel, q'', ds3))
          end) = Ok (s, k, rest) ->
        exists u, d1 = u ++ rest /\
          bind (ask_excl mi (length q) u) (fun '(idx, ds2) =>
            match remove_at idx q with
            | None => Panic 6
            | Some (item, q') =>
              if idx =? length q' then Ok ([item], q', ds2)
              else bind (no_loop f false q' idx ds2) (fun '(rel, q'', ds3) =>
                     Ok (item :: rel, q'', ds3))
            end) = Ok (s, k, [])).
      { intros d1 H1. inv_bind H1 as [idx ds2]. pose proof E as E'. apply ask_excl_ok in E'.
        destruct E' as [-> Hr].
        destruct (remove_at idx q) as [[item q1]|] eqn:R; [|discriminate].
        destruct (idx =? length q1) eqn:El.
        - inversion H1; subst. exists [idx]. split; [reflexivity|].
          rewrite ask_excl_complete by lia. cbn [bind]. rewrite R, El. reflexivity.
        - inv_bind H1 as [[rel1 q2] ds3]. inversion H1; subst.
          apply IHf in E0. destruct E0 as (u & -> & Hu).
          exists (idx :: u). split; [reflexivity|].
          rewrite ask_excl_complete by lia. cbn [bind]. rewrite R, El, Hu. reflexivity. }
      destruct must; cbn [bind] in *.
      + apply Hcont; exact H.
      + inv_bind H as [stop ds1]. apply ask_bool_ok in E. destruct E as (b & -> & Hb & ->).
        destruct (b =? 1) eqn:Eb.
        * inversion H; subst. exists [b]. split; [reflexivity|].
          unfold ask_bool, ask. destruct b as [|[|]]; try discriminate. reflexivity.
        * destruct (Hcont _ H) as (u & -> & Hu). exists (b :: u). split; [reflexivity|].
          assert (b = 0) by (destruct b as [|[|]]; [reflexivity|discriminate|lia]). subst b.
          cbn [ask_bool ask bind Nat.leb andb Nat.eqb]. exact Hu.
  Qed.

  Lemma no_loop_prefix_unique f must (q : list A) mi d1 d2 s k1 k2 e1 e2 :
    NoDup q ->
    no_loop f must q mi d1 = Ok (s, k1, e1) ->
    no_loop f must q mi d2 = Ok (s, k2, e2) ->
    exists u, d1 = u ++ e1 /\ d2 = u ++ e2.
  Proof.
    intros Hnd H1 H2. apply no_loop_unframe in H1. apply no_loop_unframe in H2.
    destruct H1 as (u1 & -> & H1). destruct H2 as (u2 & -> & H2).
    assert (u1 = u2) by (eapply no_loop_unique; eauto). subst. eauto.
  Qed.

  Lemma map_pair_inj (k : K) (a b : list A) : map (pair k) a = map (pair k) b -> a = b.
  Proof.
    revert b. induction a; destruct b; cbn; intro H; try discriminate; auto.
    inversion H; subst. f_equal. auto.
  Qed.

  Lemma app_eq_len {X} (a b c d : list X) : a ++ c = b ++ d -> length a = length b -> a = b /\ c = d.
  Proof.
    revert b. induction a; destruct b; cbn; intros H L; try discriminate; auto.
    inversion H; subst. destruct (IHa b H2) as [-> ->]; auto.
  Qed.

  (* keyed TotalOrder: the remaining map alone determines every count *)
  Theorem keyed_total_unique : forall (m : list (K * list A)) force r d1 d2 rel1 rel2 m',
    keyed_total_loop force r m d1 = Ok (rel1, m', []) ->
    keyed_total_loop force r m d2 = Ok (rel2, m', []) -> d1 = d2.
  Proof.
    induction m as [|[k q] m IH]; intros force r d1 d2 rel1 rel2 m' H1 H2;
      cbn [keyed_total_loop] in *.
    - inversion H1; inversion H2; subst. reflexivity.
    - destruct (is_nil q).
      + inv_bind H1 as [[ra ma] ea]. inv_bind H2 as [[rb mb] eb].
        inversion H1; inversion H2; subst. inversion H6; subst. eapply IH; eauto.
      + inv_bind H1 as [c1 s1]. inv_bind H2 as [c2 s2].
        inv_bind H1 as [[ra ma] ea]. inv_bind H2 as [[rb mb] eb].
        inversion H1; inversion H2; subst. inversion H6; subst.
        apply ask_ok in E. apply ask_ok in E0. destruct E as [-> L1]. destruct E0 as [-> L2].
        assert (c1 = c2).
        { apply (f_equal (@length A)) in H0. rewrite !skipn_length in H0. lia. }
        subst c2. f_equal. eapply IH; eauto.
  Qed.

  (* keyed NoOrder: distinguishable items per queue *)
  Theorem keyed_no_unique : forall (m : list (K * list A)) force r d1 d2 rel m',
    Forall (fun e => NoDup (snd e)) m ->
    keyed_no_loop force r m d1 = Ok (rel, m', []) ->
    keyed_no_loop force r m d2 = Ok (rel, m', []) -> d1 = d2.
  Proof.
    induction m as [|[k q] m IH]; intros force r d1 d2 rel m' Hnd H1 H2;
      cbn [keyed_no_loop] in *.
    - inversion H1; inversion H2; subst. reflexivity.
    - inversion Hnd as [|? ? Hq Hm]; subst. cbn in Hq. destruct (is_nil q).
      + inv_bind H1 as [[ra ma] ea]. inv_bind H2 as [[rb mb] eb].
        inversion H1; inversion H2; subst. inversion H6; subst. eapply IH; eauto.
      + inv_bind H1 as [[o1 q1] s1]. inv_bind H2 as [[o2 q2] s2].
        inv_bind H1 as [[ra ma] ea]. inv_bind H2 as [[rb mb] eb].
        assert (Ha : map (pair k) o1 ++ ra = rel /\ (k, q1) :: ma = m' /\ ea = [])
          by (inversion H1; auto).
        assert (Hb : map (pair k) o2 ++ rb = rel /\ (k, q2) :: mb = m' /\ eb = [])
          by (inversion H2; auto).
        destruct Ha as (Ha1 & Ha2 & ->). destruct Hb as (Hb1 & Hb2 & ->). clear H1 H2.
        rewrite <- Hb2 in Ha2. inversion Ha2; subst q2 mb. clear Ha2.
        rewrite <- Hb1 in Ha1. clear Hb1 Hb2.
        pose proof (no_loop_sound _ _ _ _ _ _ _ _ E (Nat.le_0_l _)) as (ka & Hka & HMa).
        pose proof (no_loop_sound _ _ _ _ _ _ _ _ E0 (Nat.le_0_l _)) as (kb & Hkb & HMb).
        cbn in Hka, Hkb, HMa, HMb. subst ka kb.
        apply Merge_length in HMa. apply Merge_length in HMb.
        assert (Hl : length (map (pair k) o1) = length (map (pair k) o2)).
        { rewrite !map_length. lia. }
        destruct (app_eq_len _ _ _ _ Ha1 Hl) as [Ho Hr]. apply map_pair_inj in Ho. subst o2 rb.
        destruct (no_loop_prefix_unique _ _ _ _ _ _ _ _ _ _ _ Hq E E0) as (u & -> & ->).
        f_equal. eapply IH; eauto.
  Qed.
End UniqueK.
