(* Engine E9 "Sim": the decision log text of run_hooks (what release_decision writes to the
   log writer, colours off), as a function of the hooks before/after and the released items;
   and the full-log correspondence used by C38: every component of the implementation's log
   (readiness, decisions consumed, released items, remaining queues, panics AND the log text)
   is compared with the model's.  Definitions only. *)
From Coq Require Import List Arith Bool NArith String DecimalString.
From HV Require Import Sim.Model Sim.Run.
Import ListNotations.
Open Scope N_scope.

Definition show_N (n : N) : string := NilZero.string_of_uint (N.to_uint n).
Definition show_nat (n : nat) : string := show_N (N.of_nat n).

Fixpoint join (sep : string) (l : list string) : string :=
  match l with
  | [] => EmptyString
  | [x] => x
  | x :: r => (x ++ sep ++ join sep r)%string
  end.

Definition show_list (l : list string) : string := ("[" ++ join ", " l ++ "]")%string.

(* TruncatedVecDebug(_, 8, _) *)
Definition show_trunc (l : list string) : string :=
  if Nat.ltb 8 (List.length l)
  then ("[" ++ join ", " (firstn 8 l) ++ ", ..] (" ++ show_nat (List.length l) ++ " total)")%string
  else show_list l.

Definition show_kv (e : N * N) : string := ("(" ++ show_N (fst e) ++ ", " ++ show_N (snd e) ++ ")")%string.


(* the note line of one hook's release; [sk]: the hook's `skipped_states` field (it is only
   overwritten by a NEW snapshot, so an unchanged re-release still prints the old list) *)
Definition hook_note (h h' : hook) (out : list (N * N)) (flag : bool) (sk : list N) : string * list N :=
  match h with
  | HStreamT _ _ =>
    (if is_nil out then "^ releasing no items"
     else "^ releasing items: " ++ show_trunc (map (fun e => show_N (snd e)) out), sk)%string
  | HStreamN _ _ =>
    (if is_nil out then "^ releasing no items"
     else "^ releasing unordered items: " ++ show_trunc (map (fun e => show_N (snd e)) out), sk)%string
  | HKeyedT _ _ =>
    (if is_nil out then "^ releasing no items"
     else "^ releasing items: " ++ show_trunc (map show_kv out), sk)%string
  | HKeyedN _ _ =>
    (if is_nil out then "^ releasing no items"
     else "^ releasing unordered items: " ++ show_trunc (map show_kv out), sk)%string
  | HSingle q _ _ =>
    let x := match out with (_, v) :: _ => v | [] => 0 end in
    let q' := q0 (queues_of h') in
    let sk' := if flag then firstn (List.length q - List.length q' - 1) q else sk in
    ((if is_nil sk' then
        (if flag then "^ releasing snapshot: " else "^ releasing unchanged snapshot: ") ++ show_N x
      else "^ releasing snapshot: " ++ show_N x ++ " (skipping earlier states: "
           ++ show_list (map show_N sk') ++ ")")%string, sk')
  | HPass _ _ _ =>
    let x := match out with (_, v) :: _ => v | [] => 0 end in
    (("^ releasing snapshot: " ++ show_N x)%string, sk)
  | HKSingle m _ _ =>
    let m' := queues_of h' in
    let entry (e : N * N) :=
        let shrunk := match qlookup (fst e) m, qlookup (fst e) m' with
                      | Some a, Some b => negb (Nat.eqb (List.length a) (List.length b))
                      | _, _ => false
                      end in
        (show_N (fst e) ++ ": " ++ show_N (snd e) ++ (if shrunk then "" else " (unchanged)"))%string in
    (if is_nil out then "^ releasing no items"
     else "^ releasing items: { " ++ join ", " (map entry out) ++ " }", sk)%string
  end.

Definition nl : string := String (Ascii.ascii_of_nat 10) EmptyString.

(* release_decision's three lines for the harness' location ("loc", "line", "  ") *)
Definition hook_block (note : string) : string :=
  ("--> loc" ++ nl ++ " |line" ++ nl ++ " |  " ++ note ++ nl)%string.

Fixpoint tick_log (hs hs' : list hook) (outs : list (list (N * N) * bool)) (sks : list (list N))
  : string * list (list N) :=
  match hs, hs', outs, sks with
  | h :: r, h' :: r', o :: ro, sk :: rs =>
    let '(note, sk') := hook_note h h' (fst o) (snd o) sk in
    let '(rest, sks') := tick_log r r' ro rs in
    ((hook_block note ++ rest)%string, sk' :: sks')
  | _, _, _, _ => (EmptyString, sks)
  end.

(* a round with the implementation's log text (None: the round ended in a panic / bad script,
   the partial log is not compared) *)
Record lround := { l_round : tround; l_log : option string }.

Fixpoint run_trounds_log (hs : list hook) (sks : list (list N)) (rs : list lround) : N :=
  match rs with
  | [] => 0
  | lr :: rs' =>
    let r := lr.(l_round) in
    let hs1 := fold_left (fun a p => push_nth a (fst p) (snd p)) r.(t_push) hs in
    match apply_orders hs1 r.(t_order) with
    | None => 1
    | Some hs2 =>
      let '(o, next) := model_tick hs2 r.(t_ds) in
      if negb (tobs_eqb o r.(t_obs)) then 1 else
      match next, run_hooks hs2 r.(t_ds) with
      | Some hs3, Ok (_, outs, _) =>
        let '(text, sks') := tick_log hs2 hs3 outs sks in
        match lr.(l_log) with
        | Some impl_text => if String.eqb text impl_text then run_trounds_log hs3 sks' rs' else 1
        | None => 1
        end
      | _, _ => 0
      end
    end
  end.

Definition run_log (hs : list hook) (rs : list lround) : N :=
  run_trounds_log hs (map (fun _ => []) hs) rs.
