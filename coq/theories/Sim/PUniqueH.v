(* Engine E9 "Sim": no duplicate schedule, per hook, for every modelled batch hook kind (C37):
   two decision strings under which a hook releases the same items and keeps the same pending
   input consumed the same decisions. *)
From Coq Require Import List Arith Bool NArith Lia.
From HV Require Import Sim.Model Sim.PHooks Sim.PTick Sim.PComplete Sim.PFrame Sim.PUniqueK.
Import ListNotations.
Close Scope N_scope.
Open Scope nat_scope.

Tactic Notation "inv_bind" hyp(H) "as" simple_intropattern(pat) :=
  match type of H with
  | bind ?r _ = Ok _ =>
    let E := fresh "E" in
    destruct r as [pat | | ?] eqn:E; cbn [bind] in H; [ | discriminate H | discriminate H]
  end.

Lemma ask_bool_split ds b r : ask_bool ds = Ok (b, r) -> ds = (if b then 1 else 0) :: r.
Proof.
  intro H. apply ask_bool_ok in H. destruct H as (d & -> & Hd & ->).
  destruct d as [|[|]]; try lia; reflexivity.
Qed.

Section Typed.
  Context {A K : Type}.

  Lemma skipn_len_inj (q : list A) c1 c2 :
    c1 <= length q -> c2 <= length q -> skipn c1 q = skipn c2 q -> c1 = c2.
  Proof.
    intros H1 H2 E. apply (f_equal (@length A)) in E. rewrite !skipn_length in E. lia.
  Qed.

  Lemma keyed_total_prefix_unique : forall (m : list (K * list A)) force r d1 d2 rel1 rel2 m' e1 e2,
    keyed_total_loop force r m d1 = Ok (rel1, m', e1) ->
    keyed_total_loop force r m d2 = Ok (rel2, m', e2) ->
    exists u, d1 = u ++ e1 /\ d2 = u ++ e2 /\ rel1 = rel2.
  Proof.
    induction m as [|[k q] m IH]; intros force r d1 d2 rel1 rel2 m' e1 e2 H1 H2;
      cbn [keyed_total_loop] in *.
    - inversion H1; inversion H2; subst. exists []. auto.
    - destruct (is_nil q).
      + inv_bind H1 as [[ra ma] ea]. inv_bind H2 as [[rb mb] eb].
        assert (Ha : ra = rel1 /\ (k, q) :: ma = m' /\ ea = e1) by (inversion H1; auto).
        assert (Hb : rb = rel2 /\ (k, q) :: mb = m' /\ eb = e2) by (inversion H2; auto).
        destruct Ha as (-> & Ha & ->). destruct Hb as (-> & Hb & ->).
        rewrite <- Hb in Ha. inversion Ha; subst mb. eapply IH; eauto.
      + inv_bind H1 as [c1 s1]. inv_bind H2 as [c2 s2].
        inv_bind H1 as [[ra ma] ea]. inv_bind H2 as [[rb mb] eb].
        assert (Ha : map (pair k) (firstn c1 q) ++ ra = rel1 /\ (k, skipn c1 q) :: ma = m' /\ ea = e1)
          by (inversion H1; auto).
        assert (Hb : map (pair k) (firstn c2 q) ++ rb = rel2 /\ (k, skipn c2 q) :: mb = m' /\ eb = e2)
          by (inversion H2; auto).
        destruct Ha as (<- & Ha & ->). destruct Hb as (<- & Hb & ->).
        rewrite <- Hb in Ha. inversion Ha as [[Hs Hm]]. subst mb.
        apply ask_ok in E. apply ask_ok in E0. destruct E as [-> L1]. destruct E0 as [-> L2].
        assert (c1 = c2) by (eapply skipn_len_inj; eauto; lia). subst c2.
        destruct (IH _ _ _ _ _ _ _ _ _ E1 E2) as (u & -> & -> & ->).
        exists (c1 :: u). auto.
  Qed.

  Lemma keyed_no_prefix_unique : forall (m : list (K * list A)) force r d1 d2 rel m' e1 e2,
    Forall (fun e => NoDup (snd e)) m ->
    keyed_no_loop force r m d1 = Ok (rel, m', e1) ->
    keyed_no_loop force r m d2 = Ok (rel, m', e2) ->
    exists u, d1 = u ++ e1 /\ d2 = u ++ e2.
  Proof.
    induction m as [|[k q] m IH]; intros force r d1 d2 rel m' e1 e2 Hnd H1 H2;
      cbn [keyed_no_loop] in *.
    - inversion H1; inversion H2; subst. exists []. auto.
    - inversion Hnd as [|? ? Hq Hm]; subst. cbn in Hq. destruct (is_nil q).
      + inv_bind H1 as [[ra ma] ea]. inv_bind H2 as [[rb mb] eb].
        assert (Ha : ra = rel /\ (k, q) :: ma = m' /\ ea = e1) by (inversion H1; auto).
        assert (Hb : rb = rel /\ (k, q) :: mb = m' /\ eb = e2) by (inversion H2; auto).
        destruct Ha as (-> & Ha & ->). destruct Hb as (-> & Hb & ->).
        rewrite <- Hb in Ha. inversion Ha; subst mb. eapply IH; eauto.
      + inv_bind H1 as [[o1 q1] s1]. inv_bind H2 as [[o2 q2] s2].
        inv_bind H1 as [[ra ma] ea]. inv_bind H2 as [[rb mb] eb].
        assert (Ha : map (pair k) o1 ++ ra = rel /\ (k, q1) :: ma = m' /\ ea = e1)
          by (inversion H1; auto).
        assert (Hb : map (pair k) o2 ++ rb = rel /\ (k, q2) :: mb = m' /\ eb = e2)
          by (inversion H2; auto).
        destruct Ha as (Ha1 & Ha2 & ->). destruct Hb as (Hb1 & Hb2 & ->). clear H1 H2.
        rewrite <- Hb2 in Ha2. inversion Ha2; subst q2 mb. clear Ha2.
        rewrite <- Hb1 in Ha1. clear Hb1 Hb2.
        pose proof (no_loop_sound _ _ _ _ _ _ _ _ E (Nat.le_0_l _)) as (ka & Hka & HMa).
        pose proof (no_loop_sound _ _ _ _ _ _ _ _ E0 (Nat.le_0_l _)) as (kb & Hkb & HMb).
        cbn in Hka, Hkb, HMa, HMb. subst ka kb.
        apply Merge_length in HMa. apply Merge_length in HMb.
        assert (Hl : length (map (pair k) o1) = length (map (pair k) o2)).
        { rewrite !map_length. lia. }
        destruct (app_eq_len _ _ _ _ Ha1 Hl) as [Ho Hr]. apply map_pair_inj in Ho. subst o2 rb.
        destruct (no_loop_prefix_unique _ _ _ _ _ _ _ _ _ _ _ Hq E E0) as (u & -> & ->).
        destruct (IH _ _ _ _ _ _ _ _ Hm E1 E2) as (u' & -> & ->).
        exists (u ++ u'). rewrite <- !app_assoc. auto.
  Qed.

  (* singleton: the flag and the remaining queue determine the decisions *)
  Lemma single_prefix_unique force (q : list A) last d1 d2 x1 x2 b sk1 sk2 rem e1 e2 :
    decide_single force q last d1 = Ok (x1, b, sk1, rem, e1) ->
    decide_single force q last d2 = Ok (x2, b, sk2, rem, e2) ->
    exists u, d1 = u ++ e1 /\ d2 = u ++ e2 /\ x1 = x2.
  Proof.
    unfold decide_single. destruct q as [|a q0].
    - destruct force; [discriminate|]. destruct last; [|discriminate].
      intros H1 H2. inversion H1; inversion H2; subst. exists []. auto.
    - remember (a :: q0) as q eqn:Eq.
      assert (Hnew : forall s1 s2,
        bind (ask_excl 0 (length q) s1) (fun '(idx, ds2) =>
          match skipn idx q with
          | x :: rest => Ok (x, true, firstn idx q, rest, ds2)
          | [] => Panic 6
          end) = Ok (x1, b, sk1, rem, e1) ->
        bind (ask_excl 0 (length q) s2) (fun '(idx, ds2) =>
          match skipn idx q with
          | x :: rest => Ok (x, true, firstn idx q, rest, ds2)
          | [] => Panic 6
          end) = Ok (x2, b, sk2, rem, e2) ->
        exists u, s1 = u ++ e1 /\ s2 = u ++ e2 /\ x1 = x2).
      { intros s1 s2 H1 H2. inv_bind H1 as [i1 t1]. inv_bind H2 as [i2 t2].
        apply ask_excl_ok in E. apply ask_excl_ok in E0.
        destruct E as [-> L1]. destruct E0 as [-> L2].
        destruct (skipn i1 q) as [|y1 r1] eqn:S1; [discriminate|].
        destruct (skipn i2 q) as [|y2 r2] eqn:S2; [discriminate|].
        inversion H1; inversion H2; subst.
        assert (i1 = i2).
        { apply (f_equal (@length A)) in S1. apply (f_equal (@length A)) in S2.
          rewrite skipn_length in S1, S2. cbn [length] in S1, S2, L1, L2. lia. }
        subst i2. rewrite S1 in S2. inversion S2; subst. exists [i1]. auto. }
      destruct last as [l|]; [destruct force|]; cbn [bind]; intros H1 H2.
      + eapply Hnew; eauto.
      + inv_bind H1 as [re1 s1]. inv_bind H2 as [re2 s2].
        inv_bind E as [b1 t1]. inv_bind E0 as [b2 t2].
        apply ask_bool_split in E1. apply ask_bool_split in E2. subst d1 d2.
        inversion E; inversion E0; subst. clear E E0.
        destruct b1, b2.
        * inversion H1; inversion H2; subst. exists [1]. auto.
        * exfalso. inversion H1; subst. inv_bind H2 as [i2 u2].
          destruct (skipn i2 _); [discriminate|]. inversion H2.
        * exfalso. inversion H2; subst. inv_bind H1 as [i1 u1].
          destruct (skipn i1 _); [discriminate|]. inversion H1.
        * destruct (Hnew _ _ H1 H2) as (u & -> & -> & ->). exists (0 :: u). auto.
      + eapply Hnew; eauto.
  Qed.
End Typed.

(* ------------------------------------------------------------------ keyed singleton:
   the remaining map alone determines every decision *)
Section KS.
  Context {A K : Type} (keq : K -> K -> bool).

  Lemma ksingle_prefix_unique : forall (m : list (K * list A)) force r last d1 d2
      rel1 rel2 m' l1 l2 e1 e2 n1 n2,
    ksingle_loop keq force r m last d1 = Ok (rel1, m', l1, e1, n1) ->
    ksingle_loop keq force r m last d2 = Ok (rel2, m', l2, e2, n2) ->
    exists u, d1 = u ++ e1 /\ d2 = u ++ e2 /\ rel1 = rel2 /\ l1 = l2 /\ n1 = n2.
  Proof.
    induction m as [|[k q] m IH]; intros force r last d1 d2 rel1 rel2 m' l1 l2 e1 e2 n1 n2 H1 H2;
      cbn [ksingle_loop] in *.
    - inversion H1; inversion H2; subst. exists []. auto.
    - destruct (is_nil q) eqn:En.
      + destruct (lookup keq k last) as [l|]; [|discriminate].
        inv_bind H1 as [[[[ra ma] la] ea] na]. inv_bind H2 as [[[[rb mb] lb] eb] nb].
        assert (Hm : ma = mb) by (inversion H1; inversion H2; congruence).
        subst mb.
        assert (Ha : rel1 = (k, l, false) :: ra /\ l1 = la /\ e1 = ea /\ n1 = na) by (inversion H1; auto).
        assert (Hb : rel2 = (k, l, false) :: rb /\ l2 = lb /\ e2 = eb /\ n2 = nb) by (inversion H2; auto).
        destruct Ha as (-> & -> & -> & ->). destruct Hb as (-> & -> & -> & ->).
        assert (Hm' : m' = (k, q) :: ma) by (inversion H1; auto).
        destruct (IH _ _ _ _ _ _ _ _ _ _ _ _ _ _ E E0) as (u & -> & -> & -> & -> & ->).
        exists u. auto.
      + (* classify one run of this entry: what it consumed, emitted, and left *)
        assert (Hq : q <> []) by (apply is_nil_false; exact En).
        assert (Hcls : forall d rel l e n,
          bind (match lookup keq k last with
                | Some l0 => if force && (r - 1 =? 0) then Ok (None, d)
                             else bind (ask_bool d) (fun '(b, ds1) =>
                                    Ok (if (b : bool) then Some l0 else None, ds1))
                | None => Ok (None, d)
                end) (fun '(re, ds1) =>
            match re with
            | Some l0 =>
              bind (ksingle_loop keq force (r - 1) m last ds1) (fun '(rel, mrem, last', rest, nt) =>
                Ok ((k, l0, false) :: rel, (k, q) :: mrem, last', rest, nt))
            | None =>
              let allow_null := negb (force && (r - 1 =? 0)) && negb (is_some (lookup keq k last)) in
              bind (if allow_null then ask_bool ds1 else Ok (false, ds1)) (fun '(null, ds2) =>
                if (null : bool) then
                  bind (ksingle_loop keq force (r - 1) m last ds2) (fun '(rel, mrem, last', rest, nt) =>
                    Ok (rel, (k, q) :: mrem, last', rest, nt))
                else
                  bind (ask_excl 0 (length q) ds2) (fun '(idx, ds3) =>
                    match skipn idx q with
                    | x :: qrest =>
                      bind (ksingle_loop keq false (r - 1) m (insert keq k x last) ds3)
                           (fun '(rel, mrem, last', rest, nt) =>
                         Ok ((k, x, true) :: rel, (k, qrest) :: mrem, last', rest, true))
                    | [] => Panic 6
                    end))
            end) = Ok (rel, m', l, e, n) ->
          exists pre q' mrem (stay : bool),
            m' = (k, q') :: mrem /\
            ((stay = true /\ q' = q /\ exists d' rel' , d = pre ++ d' /\
               ksingle_loop keq force (r - 1) m last d' = Ok (rel', mrem, l, e, n) /\
               rel = match lookup keq k last with Some l0 => (k, l0, false) :: rel' | None => rel' end /\
               pre = [1])
             \/ (stay = false /\ exists idx x d' rel' n',
                   skipn idx q = x :: q' /\ idx < length q /\ d = pre ++ d' /\
                   ksingle_loop keq false (r - 1) m (insert keq k x last) d' = Ok (rel', mrem, l, e, n') /\
                   rel = (k, x, true) :: rel' /\ n = true /\
                   pre = (if (force && (r - 1 =? 0))%bool then [] else [0]) ++ [idx]))).
        { intros d rel l e n H.
          destruct (lookup keq k last) as [l0|] eqn:El; destruct (force && (r - 1 =? 0))%bool eqn:Ed;
            cbn [bind negb andb is_some] in H.
          - (* in the snapshot, forced *)
            inv_bind H as [idx ds3]. apply ask_excl_ok in E. destruct E as [-> Li].
            destruct (skipn idx q) as [|x qr] eqn:Es; [discriminate|].
            inv_bind H as [[[[rr mr] lr] er] nr]. inversion H; subst.
            exists [idx], qr, mr, false. split; [reflexivity|]. right. split; [reflexivity|].
            exists idx, x. do 3 eexists. repeat split; eauto; lia.
          - inv_bind H as [re ds1]. inv_bind E as [b t]. apply ask_bool_split in E0. subst d.
            inversion E; subst; clear E. destruct b.
            + inv_bind H as [[[[rr mr] lr] er] nr]. inversion H; subst.
              exists [1], q, mr, true. split; [reflexivity|]. left. repeat split; auto.
              do 2 eexists. repeat split; eauto.
            + cbn [bind] in H. inv_bind H as [idx ds3]. apply ask_excl_ok in E. destruct E as [-> Li].
              destruct (skipn idx q) as [|x qr] eqn:Es; [discriminate|].
              inv_bind H as [[[[rr mr] lr] er] nr]. inversion H; subst.
              exists [0; idx], qr, mr, false. split; [reflexivity|]. right. split; [reflexivity|].
              exists idx, x. do 3 eexists. repeat split; eauto; lia.
          - (* not in the snapshot, forced *)
            inv_bind H as [idx ds3]. apply ask_excl_ok in E. destruct E as [-> Li].
            destruct (skipn idx q) as [|x qr] eqn:Es; [discriminate|].
            inv_bind H as [[[[rr mr] lr] er] nr]. inversion H; subst.
            exists [idx], qr, mr, false. split; [reflexivity|]. right. split; [reflexivity|].
            exists idx, x. do 3 eexists. repeat split; eauto; lia.
          - inv_bind H as [null ds2]. apply ask_bool_split in E. subst d. destruct null.
            + inv_bind H as [[[[rr mr] lr] er] nr]. inversion H; subst.
              exists [1], q, mr, true. split; [reflexivity|]. left. repeat split; auto.
              do 2 eexists. repeat split; eauto.
            + inv_bind H as [idx ds3]. apply ask_excl_ok in E. destruct E as [-> Li].
              destruct (skipn idx q) as [|x qr] eqn:Es; [discriminate|].
              inv_bind H as [[[[rr mr] lr] er] nr]. inversion H; subst.
              exists [0; idx], qr, mr, false. split; [reflexivity|]. right. split; [reflexivity|].
              exists idx, x. do 3 eexists. repeat split; eauto; lia. }
        destruct (Hcls _ _ _ _ _ H1) as (p1 & qa & ma & s1 & Hm1 & C1).
        destruct (Hcls _ _ _ _ _ H2) as (p2 & qb & mb & s2 & Hm2 & C2).
        rewrite Hm1 in Hm2. inversion Hm2; subst qb mb. clear Hm2.
        destruct C1 as [(-> & -> & da & ra & -> & Ra & -> & ->)|(-> & i1 & x1 & da & ra & na & S1 & L1 & -> & Ra & -> & -> & ->)];
        destruct C2 as [(-> & Hqq & db & rb & -> & Rb & -> & ->)|(-> & i2 & x2 & db & rb & nb & S2 & L2 & -> & Rb & -> & -> & ->)].
        * destruct (IH _ _ _ _ _ _ _ _ _ _ _ _ _ _ Ra Rb) as (u & -> & -> & -> & -> & ->).
          exists ([1] ++ u). rewrite <- !app_assoc. auto.
        * exfalso. apply (f_equal (@length A)) in S2. rewrite skipn_length in S2. cbn in S2. lia.
        * exfalso. subst qa. apply (f_equal (@length A)) in S1. rewrite skipn_length in S1. cbn in S1. lia.
        * assert (i1 = i2).
          { apply (f_equal (@length A)) in S1. apply (f_equal (@length A)) in S2.
            rewrite skipn_length in S1, S2. cbn in S1, S2. lia. }
          subst i2. rewrite S1 in S2. inversion S2; subst x2.
          destruct (IH _ _ _ _ _ _ _ _ _ _ _ _ _ _ Ra Rb) as (u & -> & -> & -> & -> & _).
          exists (((if (force && (r - 1 =? 0))%bool then [] else [0]) ++ [i1]) ++ u).
          rewrite <- !app_assoc. auto.
  Qed.
End KS.

(* ------------------------------------------------------------------ every hook kind *)
Open Scope N_scope.

Definition distinct_items (h : hook) : Prop :=
  match h with
  | HStreamN q _ => NoDup q
  | HKeyedN m _ => Forall (fun e => NoDup (snd e)) m
  | _ => True
  end.

Lemma unkeyed_inj a b : unkeyed a = unkeyed b -> a = b.
Proof. apply (@map_pair_inj N N 0). Qed.

(* same starting hook, same force: if the two decisions release the same items, leave the same
   pending input and the same flag, they consumed the same decisions and coincide *)
Theorem auto_release_unique h force d1 d2 ha hb n1 n2 e1 e2 h2 out fl :
  distinct_items h ->
  auto h force d1 = Ok (ha, n1, e1) -> auto h force d2 = Ok (hb, n2, e2) ->
  release ha = Ok (h2, out, fl) -> release hb = Ok (h2, out, fl) ->
  exists u, d1 = u ++ e1 /\ d2 = u ++ e2 /\ ha = hb /\ n1 = n2.
Proof.
  destruct h as [q tr|q tr|m tr|m tr|q tr last|q tr last|m tr last]; cbn [auto distinct_items];
    intros Hd A1 A2 R1 R2.
  - inv_bind A1 as [[[ra qa] sa] na]. inv_bind A2 as [[[rb qb] sb] nb].
    inversion A1; inversion A2; subst. cbn in R1, R2. inversion R1; subst. inversion R2; subst.
    apply unkeyed_inj in H1. subst rb.
    pose proof (total_prefix _ _ _ _ _ _ _ E) as (_ & -> & _ & c1 & -> & _ & _).
    pose proof (total_prefix _ _ _ _ _ _ _ E0) as (_ & -> & _ & c2 & -> & _ & _).
    unfold decide_total in E, E0. inv_bind E as [x1 t1]. inv_bind E0 as [x2 t2].
    apply ask_ok in E1. apply ask_ok in E2. destruct E1 as [E1 L1]. destruct E2 as [E2 L2].
    inversion E1; inversion E2; subst. inversion E; inversion E0; subst.
    assert (x1 = x2) by (eapply skipn_len_inj; eauto; lia). subst. exists [x2]. auto.
  - inv_bind A1 as [[[ra qa] sa] na]. inv_bind A2 as [[[rb qb] sb] nb].
    inversion A1; inversion A2; subst. cbn in R1, R2. inversion R1; subst. inversion R2; subst.
    apply unkeyed_inj in H1. subst rb.
    unfold decide_noorder in E, E0. inv_bind E as [[r1 q1] t1]. inv_bind E0 as [[r2 q2] t2].
    inversion E; inversion E0; subst.
    destruct (no_loop_prefix_unique _ _ _ _ _ _ _ _ _ _ _ Hd E1 E2) as (u & -> & ->).
    exists u. auto.
  - inv_bind A1 as [[[ra qa] sa] na]. inv_bind A2 as [[[rb qb] sb] nb].
    inversion A1; inversion A2; subst. cbn in R1, R2. inversion R1; subst. inversion R2; subst.
    unfold decide_keyed_total in E, E0. inv_bind E as [[r1 q1] t1]. inv_bind E0 as [[r2 q2] t2].
    inversion E; inversion E0; subst.
    destruct (keyed_total_prefix_unique _ _ _ _ _ _ _ _ _ _ E1 E2) as (u & -> & -> & _).
    exists u. auto.
  - inv_bind A1 as [[[ra qa] sa] na]. inv_bind A2 as [[[rb qb] sb] nb].
    inversion A1; inversion A2; subst. cbn in R1, R2. inversion R1; subst. inversion R2; subst.
    unfold decide_keyed_noorder in E, E0. inv_bind E as [[r1 q1] t1]. inv_bind E0 as [[r2 q2] t2].
    inversion E; inversion E0; subst.
    destruct (keyed_no_prefix_unique _ _ _ _ _ _ _ _ _ Hd E1 E2) as (u & -> & ->).
    exists u. auto.
  - inv_bind A1 as [[[[xa ba] ska] qa] sa]. inv_bind A2 as [[[[xb bb] skb] qb] sb].
    inversion A1; inversion A2; subst. cbn in R1, R2. inversion R1; subst. inversion R2; subst.
    destruct (single_prefix_unique _ _ _ _ _ _ _ _ _ _ _ _ _ E E0) as (u & -> & -> & _).
    exists u. auto.
  - destruct (decide_pass q) as [[x|] q'].
    + inversion A1; inversion A2; subst. exists []. auto.
    + destruct last; inversion A1; inversion A2; subst. exists []. auto.
  - inv_bind A1 as [[[[ra qa] la] sa] na]. inv_bind A2 as [[[[rb qb] lb] sb] nb].
    inversion A1; inversion A2; subst. cbn in R1, R2.
    assert (Hq : qa = qb) by (inversion R1; subst; inversion R2; reflexivity). subst qb.
    unfold decide_ksingle in E, E0.
    destruct (ksingle_prefix_unique _ _ _ _ _ _ _ _ _ _ _ _ _ _ _ _ E E0) as (u & Hu1 & Hu2 & Hr & Hl & Hn).
    subst. exists u. auto.
Qed.

(* ------------------------------------------------------------------ run_hooks as a whole *)
Close Scope N_scope.
Open Scope nat_scope.

Inductive Forall3 {X Y Z} (R : X -> Y -> Z -> Prop) : list X -> list Y -> list Z -> Prop :=
| F3_nil : Forall3 R [] [] []
| F3_cons x y z xs ys zs : R x y z -> Forall3 R xs ys zs -> Forall3 R (x :: xs) (y :: ys) (z :: zs).

Definition RelAll : list hook -> list hook -> list (list (N * N) * bool) -> Prop :=
  Forall3 (fun h h2 o => current_decision h <> None -> release h = Ok (h2, fst o, snd o)).

Lemma pass2_relall : forall l made rc ds hs2 outs e,
  pass2 l made rc ds = Ok (hs2, outs, e) -> RelAll l hs2 outs.
Proof.
  induction l as [|h l IH]; intros made rc ds hs2 outs e H; cbn [pass2] in H.
  - inversion H; subst. constructor.
  - inv_bind H as [[[h1 made'] rc'] ds']. inv_bind H as [[h2 out] flag].
    inv_bind H as [[hs'' outs'] ds'']. inversion H; subst. constructor; [|eapply IH; eauto].
    intro Hd. destruct (current_decision h) eqn:Ed; [|congruence]. inversion E; subst. exact E0.
Qed.

Lemma pass2_unique : forall l made rc d1 d2 hs2 outs e1 e2,
  Forall (fun h => current_decision h = None -> distinct_items h) l ->
  pass2 l made rc d1 = Ok (hs2, outs, e1) -> pass2 l made rc d2 = Ok (hs2, outs, e2) ->
  exists u, d1 = u ++ e1 /\ d2 = u ++ e2.
Proof.
  induction l as [|h l IH]; intros made rc d1 d2 hs2 outs e1 e2 Hd H1 H2; cbn [pass2] in H1, H2.
  - inversion H1; inversion H2; subst. exists []. auto.
  - inversion Hd as [|? ? Hdh Hdl]; subst.
    inv_bind H1 as [[[ha ma] ra] sa]. inv_bind H1 as [[h2a outa] fla]. inv_bind H1 as [[hsa outsa] ta].
    inv_bind H2 as [[[hb mb] rb] sb]. inv_bind H2 as [[h2b outb] flb]. inv_bind H2 as [[hsb outsb] tb].
    assert (Ha : h2a :: hsa = hs2 /\ (outa, fla) :: outsa = outs /\ ta = e1) by (inversion H1; auto).
    assert (Hb : h2b :: hsb = hs2 /\ (outb, flb) :: outsb = outs /\ tb = e2) by (inversion H2; auto).
    destruct Ha as (Ha1 & Ha2 & ->). destruct Hb as (Hb1 & Hb2 & ->).
    rewrite <- Hb1 in Ha1. rewrite <- Hb2 in Ha2. inversion Ha1; inversion Ha2; subst. clear H1 H2 Ha1 Ha2.
    destruct (current_decision h) as [b|] eqn:Ed.
    + inversion E; inversion E2; subst. eapply IH; eauto.
    + inv_bind E as [[h1a na] s1]. inv_bind E2 as [[h1b nb] s2].
      inv_bind E as r1. inv_bind E2 as r2. inversion E; inversion E2; subst. clear E E2.
      destruct (auto_release_unique _ _ _ _ _ _ _ _ _ _ _ _ _ (Hdh eq_refl) E5 E6 E0 E3) as (u & -> & -> & -> & ->).
      assert (ra = rb) by congruence. subst rb.
      destruct (IH _ _ _ _ _ _ _ _ Hdl E1 E4) as (u' & -> & ->).
      exists (u ++ u'). rewrite <- !app_assoc. auto.
Qed.

Lemma pass1_unique : forall hs made rc d1 d2 A B mA mB rA rB x1 x2 hs2 outs,
  forallb idle hs = true -> Forall distinct_items hs ->
  pass1 hs made rc d1 = Ok (A, mA, rA, x1) -> pass1 hs made rc d2 = Ok (B, mB, rB, x2) ->
  RelAll A hs2 outs -> RelAll B hs2 outs ->
  A = B /\ mA = mB /\ rA = rB /\ exists w, d1 = w ++ x1 /\ d2 = w ++ x2.
Proof.
  induction hs as [|h hs IH]; intros made rc d1 d2 A B mA mB rA rB x1 x2 hs2 outs Hi Hd H1 H2 RA RB;
    cbn [pass1] in H1, H2.
  - inversion H1; inversion H2; subst. repeat split; auto. exists []. auto.
  - cbn [forallb] in Hi. apply andb_true_iff in Hi. destruct Hi as [Hih Hi]. apply idle_none in Hih.
    inversion Hd as [|? ? Hdh Hdl]; subst. rewrite Hih in H1, H2.
    inv_bind H1 as [[[ha ma] ra] sa]. inv_bind H1 as [[[A' mA'] rA'] xa].
    inv_bind H2 as [[[hb mb] rb] sb]. inv_bind H2 as [[[B' mB'] rB'] xb].
    inversion H1; inversion H2; subst. clear H1 H2.
    inversion RA as [|? h2a oa ? hs2a outsa Ra RA']; subst.
    inversion RB as [|? h2b ob ? hs2b outsb Rb RB']; subst.
    destruct (negb (can_nontrivial h)) eqn:Hc.
    + inv_bind E as [[h1a na] s1]. inv_bind E1 as [[h1b nb] s2].
      inv_bind E as r1. inv_bind E1 as r2. inversion E; inversion E1; subst. clear E E1.
      assert (Hda : current_decision ha <> None) by (rewrite (auto_decided _ _ _ _ _ _ E3); discriminate).
      assert (Hdb : current_decision hb <> None) by (rewrite (auto_decided _ _ _ _ _ _ E4); discriminate).
      specialize (Ra Hda). specialize (Rb Hdb).
      destruct (auto_release_unique _ _ _ _ _ _ _ _ _ _ _ _ _ Hdh E3 E4 Ra Rb) as (u & -> & -> & -> & _).
      assert (ra = rb) by congruence. subst rb.
      destruct (IH _ _ _ _ _ _ _ _ _ _ _ _ _ _ Hi Hdl E0 E2 RA' RB') as (-> & -> & -> & w & -> & ->).
      repeat split; auto. exists (u ++ w). rewrite <- !app_assoc. auto.
    + inversion E; inversion E1; subst.
      destruct (IH _ _ _ _ _ _ _ _ _ _ _ _ _ _ Hi Hdl E0 E2 RA' RB') as (-> & -> & -> & w & -> & ->).
      repeat split; auto. exists w. auto.
Qed.

(* no schedule of a tick is explored twice: two valid decision strings under which run_hooks
   releases the same items and leaves the same hook states are equal (idle hooks; unordered
   queues hold distinguishable items) *)
Theorem run_hooks_unique hs d1 d2 hs2 outs :
  forallb idle hs = true -> Forall distinct_items hs ->
  run_hooks hs d1 = Ok (hs2, outs, []) -> run_hooks hs d2 = Ok (hs2, outs, []) -> d1 = d2.
Proof.
  unfold run_hooks. intros Hi Hd H1 H2.
  inv_bind H1 as [[[A mA] rA] x1]. inv_bind H2 as [[[B mB] rB] x2].
  pose proof (pass2_relall _ _ _ _ _ _ _ H1) as RA. pose proof (pass2_relall _ _ _ _ _ _ _ H2) as RB.
  destruct (pass1_unique _ _ _ _ _ _ _ _ _ _ _ _ _ _ _ Hi Hd E E0 RA RB) as (-> & -> & -> & w & -> & ->).
  assert (HdB : Forall (fun h => current_decision h = None -> distinct_items h) B).
  { pose proof (pass1_idle _ _ _ _ _ _ _ _ E0 Hi) as (_ & _ & HF). clear -HF Hd.
    induction HF as [|h h1 l l1 HR HF IH]; [constructor|]. inversion Hd; subst. constructor; auto.
    destruct HR as [[_ ->]|[_ (d & nt & d' & Ha)]]; [auto|].
    intro Hn. rewrite (auto_decided _ _ _ _ _ _ Ha) in Hn. discriminate. }
  destruct (pass2_unique _ _ _ _ _ _ _ _ _ HdB H1 H2) as (u & -> & ->). reflexivity.
Qed.
