(* Engine E9 "Sim": completeness of the decision space (C37): every demanded schedule is
   produced by some valid decision string, and for NoOrder by exactly one (the min_index
   pruning loses no subset and creates no duplicate schedule). *)
From Coq Require Import List Arith Bool NArith Lia Permutation.
From HV Require Import Sim.Model Sim.PHooks.
Import ListNotations.
Close Scope N_scope.
Open Scope nat_scope.

Tactic Notation "inv_bind" hyp(H) "as" simple_intropattern(pat) :=
  match type of H with
  | bind ?r _ = Ok _ =>
    let E := fresh "E" in
    destruct r as [pat | | ?] eqn:E; cbn [bind] in H; [ | discriminate H | discriminate H]
  end.

Section Complete.
  Context {A : Type}.

  (* ---------------------------------------------------------------- TotalOrder *)
  Theorem total_complete force (q p r : list A) :
    q = p ++ r -> (force = true -> p <> []) ->
    decide_total force q [length p] = Ok (p, r, [], negb (is_nil p)).
  Proof.
    intros -> Hf. unfold decide_total.
    rewrite ask_complete.
    - cbn [bind]. rewrite firstn_app, Nat.sub_diag, firstn_all. cbn [firstn]. rewrite app_nil_r.
      rewrite skipn_app, Nat.sub_diag, skipn_all. cbn [skipn app].
      destruct p; reflexivity.
    - rewrite app_length. split; [|lia]. destruct force; [|lia].
      destruct p; [exfalso; apply Hf; auto|cbn; lia].
  Qed.

  Theorem total_unique force (q p r1 r2 : list A) d1 d2 n1 n2 :
    decide_total force q d1 = Ok (p, r1, [], n1) ->
    decide_total force q d2 = Ok (p, r2, [], n2) -> d1 = d2.
  Proof.
    intros H1 H2. apply total_prefix in H1. apply total_prefix in H2.
    destruct H1 as (_ & _ & _ & c1 & -> & E1 & L1). destruct H2 as (_ & _ & _ & c2 & -> & E2 & L2).
    f_equal. apply (f_equal (@length A)) in E1. apply (f_equal (@length A)) in E2.
    rewrite firstn_length_le in E1, E2 by lia. lia.
  Qed.

  (* ---------------------------------------------------------------- NoOrder: completeness *)
  Lemma Merge_cons_inv (x : A) s k l :
    Merge (x :: s) k l ->
    exists mid k' tail, l = mid ++ x :: tail /\ k = mid ++ k' /\ Merge s k' tail.
  Proof.
    intro H. remember (x :: s) as xs eqn:E. revert x s E.
    induction H; intros x0 s0 E; try discriminate.
    - inversion E; subst. exists [], k, l. auto.
    - destruct (IHMerge _ _ E) as (mid & k' & tail & -> & -> & HM).
      exists (x :: mid), k', tail. auto.
  Qed.

  Lemma no_loop_complete f : forall must (q : list A) mi s k,
    mi <= length q -> length q <= f ->
    Merge s k (skipn mi q) ->
    (must = true -> s <> [] \/ q = []) ->
    exists ds, no_loop f must q mi ds = Ok (s, firstn mi q ++ k, []).
  Proof.
    induction f; intros must q mi s k Hmi Hf HM Hmust.
    - destruct q; [|cbn in Hf; lia]. rewrite skipn_nil in HM. apply Merge_inv_nil in HM.
      destruct HM as [-> ->]. exists []. cbn. rewrite firstn_nil. reflexivity.
    - destruct q as [|a0 q0] eqn:Eq.
      { rewrite skipn_nil in HM. apply Merge_inv_nil in HM. destruct HM as [-> ->].
        exists []. cbn. rewrite firstn_nil. reflexivity. }
      rewrite <- Eq in *. assert (Hne : is_nil q = false) by (subst q; reflexivity).
      destruct s as [|x s'].
      + apply Merge_nil_l_inv in HM. subst k.
        destruct must. { destruct Hmust as [F|F]; auto; congruence. }
        exists [1]. cbn [no_loop]. rewrite Hne. cbn. rewrite firstn_skipn. reflexivity.
      + apply Merge_cons_inv in HM. destruct HM as (mid & k' & tail & Hl & -> & HM).
        remember (firstn mi q ++ mid) as a eqn:Ea.
        assert (Hq : q = a ++ x :: tail).
        { rewrite Ea. rewrite <- app_assoc, <- Hl. symmetry. apply firstn_skipn. }
        assert (Hla : length a = mi + length mid).
        { rewrite Ea. rewrite app_length, firstn_length_le by lia. reflexivity. }
        pose proof (f_equal (@length A) Hq) as Hlq. rewrite app_length in Hlq. cbn [length] in Hlq.
        assert (Hask : forall ds, ask_excl mi (length q) (length a :: ds) = Ok (length a, ds)).
        { intro ds. apply ask_excl_complete. lia. }
        assert (Hrm : remove_at (length a) q = Some (x, a ++ tail)).
        { rewrite Hq. apply remove_at_complete. }
        assert (Hpre : forall ds, exists ds0,
                   (if must then Ok (false, ds0) else ask_bool ds0) = Ok (false, ds)
                   /\ (ds0 = ds \/ ds0 = 0 :: ds)).
        { intro ds. destruct must; [exists ds; auto|]. exists (0 :: ds). split; auto. }
        destruct tail as [|t tail'].
        * apply Merge_inv_nil in HM. destruct HM as [-> ->].
          destruct (Hpre [length a]) as (ds0 & Hp & _).
          exists ds0. cbn [no_loop]. rewrite Hne, Hp. cbn [bind]. rewrite Hask. cbn [bind].
          rewrite Hrm. rewrite app_nil_r, Nat.eqb_refl. rewrite Ea. rewrite ?app_nil_r, <- ?app_assoc, ?app_nil_r. reflexivity.
        * destruct (IHf false (a ++ t :: tail') (length a) s' k') as (ds' & Hrec).
          -- rewrite app_length. lia.
          -- rewrite app_length. cbn [length] in *. lia.
          -- rewrite skipn_app, Nat.sub_diag, skipn_all. exact HM.
          -- discriminate.
          -- destruct (Hpre (length a :: ds')) as (ds0 & Hp & _).
             exists ds0. cbn [no_loop]. rewrite Hne, Hp. cbn [bind]. rewrite Hask. cbn [bind].
             rewrite Hrm.
             assert (Hneq : (length a =? length (a ++ t :: tail')) = false).
             { apply Nat.eqb_neq. rewrite app_length. cbn. lia. }
             rewrite Hneq, Hrec. cbn [bind].
             rewrite firstn_app, Nat.sub_diag, firstn_all. cbn [firstn]. rewrite app_nil_r.
             rewrite Ea. rewrite <- ?app_assoc. reflexivity.
  Qed.

  Theorem noorder_complete force (q s k : list A) :
    Merge s k q -> (force = true -> s <> [] \/ q = []) ->
    exists ds, decide_noorder force q ds = Ok (s, k, [], negb (is_nil s)).
  Proof.
    intros HM Hf. destruct (no_loop_complete (length q) force q 0 s k) as (ds & H); auto; try lia.
    exists ds. unfold decide_noorder. rewrite H. reflexivity.
  Qed.

  (* ---------------------------------------------------------------- NoOrder: no duplicates *)
  Lemma NoDup_split_unique (a1 a2 b1 b2 : list A) x :
    NoDup (a1 ++ x :: b1) -> a1 ++ x :: b1 = a2 ++ x :: b2 -> a1 = a2 /\ b1 = b2.
  Proof.
    revert a2. induction a1 as [|y a1 IH]; intros a2 Hnd E.
    - destruct a2 as [|z a2]; cbn in *.
      + inversion E; auto.
      + inversion E; subst. inversion Hnd; subst. exfalso. apply H1.
        apply in_or_app. right. left. reflexivity.
    - destruct a2 as [|z a2]; cbn in *.
      + inversion E; subst. inversion Hnd; subst. exfalso. apply H1.
        apply in_or_app. right. left. reflexivity.
      + inversion E; subst. inversion Hnd; subst. destruct (IH a2 H3 H1) as [-> ->]. auto.
  Qed.

  Lemma no_loop_extends f : forall must (q : list A) mi ds rel q' rest,
    no_loop f must q mi ds = Ok (rel, q', rest) -> exists used, ds = used ++ rest.
  Proof.
    induction f; intros must q mi ds rel q' rest H.
    - cbn in H. inversion H; subst. exists []. reflexivity.
    - cbn [no_loop] in H. destruct (is_nil q).
      { inversion H; subst. exists []. reflexivity. }
      inv_bind H as [stop ds1].
      assert (Hp : exists u, ds = u ++ ds1).
      { destruct must. inversion E; subst. exists []. reflexivity.
        apply ask_bool_ok in E. destruct E as (d & -> & _). exists [d]. reflexivity. }
      destruct Hp as (u & ->). destruct stop.
      { inversion H; subst. exists u. reflexivity. }
      inv_bind H as [idx ds2]. apply ask_excl_ok in E0. destruct E0 as [-> _].
      destruct (remove_at idx q) as [[item q1]|]; [|discriminate].
      destruct (idx =? length q1).
      + inversion H; subst. exists (u ++ [idx]). rewrite <- app_assoc. reflexivity.
      + inv_bind H as [[rel1 q2] ds3]. inversion H; subst. apply IHf in E0.
        destruct E0 as (u2 & ->). exists (u ++ idx :: u2). rewrite <- app_assoc. reflexivity.
  Qed.

  Lemma no_loop_unique f : forall must (q : list A) mi d1 d2 s k1 k2,
    NoDup q ->
    no_loop f must q mi d1 = Ok (s, k1, []) ->
    no_loop f must q mi d2 = Ok (s, k2, []) -> d1 = d2.
  Proof.
    induction f; intros must q mi d1 d2 s k1 k2 Hnd H1 H2.
    - cbn in H1, H2. inversion H1; inversion H2; subst. reflexivity.
    - cbn [no_loop] in H1, H2. destruct (is_nil q).
      { inversion H1; inversion H2; subst. reflexivity. }
      inv_bind H1 as [stop1 e1]. inv_bind H2 as [stop2 e2].
      assert (Hhead : (stop1 = stop2 -> exists u, d1 = u ++ e1 /\ d2 = u ++ e2)).
      { intros <-. destruct must.
        - inversion E; inversion E0; subst. exists []. auto.
        - apply ask_bool_ok in E. apply ask_bool_ok in E0.
          destruct E as (b1 & -> & L1 & S1). destruct E0 as (b2 & -> & L2 & S2).
          exists [b1]. split; [reflexivity|]. cbn. f_equal.
          destruct b1 as [|[|]]; destruct b2 as [|[|]]; cbn in *; try lia; try congruence. }
      destruct stop1, stop2.
      + inversion H1; inversion H2; subst. destruct Hhead as (u & -> & ->); auto.
      + exfalso. inversion H1; subst. inv_bind H2 as [idx ds2].
        destruct (remove_at idx _) as [[item q1]|]; [|discriminate].
        destruct (idx =? length q1); [inversion H2|].
        inv_bind H2 as [[rel1 q2] ds3]. inversion H2.
      + exfalso. inversion H2; subst. inv_bind H1 as [idx ds2].
        destruct (remove_at idx _) as [[item q1]|]; [|discriminate].
        destruct (idx =? length q1); [inversion H1|].
        inv_bind H1 as [[rel1 q2] ds3]. inversion H1.
      + destruct Hhead as (u & -> & ->); auto. f_equal.
        inv_bind H1 as [i1 f1]. inv_bind H2 as [i2 f2].
        apply ask_excl_ok in E1. apply ask_excl_ok in E2.
        destruct E1 as [-> _]. destruct E2 as [-> _].
        destruct (remove_at i1 q) as [[x1 q1]|] eqn:R1; [|discriminate].
        destruct (remove_at i2 q) as [[x2 q2]|] eqn:R2; [|discriminate].
        apply remove_at_spec in R1. apply remove_at_spec in R2.
        destruct R1 as (a1 & b1 & Hq1 & -> & <-). destruct R2 as (a2 & b2 & Hq2 & -> & <-).
        assert (Hs1 : exists t1, s = x1 :: t1).
        { destruct (length a1 =? length (a1 ++ b1)); [inversion H1; eauto|].
          inv_bind H1 as [[r1 qq1] g1]. inversion H1; eauto. }
        assert (Hs2 : exists t2, s = x2 :: t2).
        { destruct (length a2 =? length (a2 ++ b2)); [inversion H2; eauto|].
          inv_bind H2 as [[r2 qq2] g2]. inversion H2; eauto. }
        destruct Hs1 as (t1 & Hs1). destruct Hs2 as (t2 & Hs2).
        assert (Hxx : x1 = x2) by congruence. subst x2.
        assert (Hab : a1 = a2 /\ b1 = b2).
        { apply (NoDup_split_unique a1 a2 b1 b2 x1). rewrite <- Hq1. exact Hnd. congruence. }
        destruct Hab as [<- <-].
        destruct (length a1 =? length (a1 ++ b1)).
        * inversion H1; inversion H2; subst. reflexivity.
        * inv_bind H1 as [[r1 qq1] g1]. inv_bind H2 as [[r2 qq2] g2].
          f_equal.
          assert (Hr : r1 = r2) by (inversion H1; inversion H2; congruence).
          assert (Hg : g1 = [] /\ g2 = []) by (inversion H1; inversion H2; auto).
          destruct Hg as [-> ->]. subst r2.
          eapply IHf; [|exact E1|exact E2].
          rewrite Hq1 in Hnd. apply NoDup_remove_1 in Hnd. exact Hnd.
  Qed.

  Theorem noorder_unique force (q s k1 k2 : list A) d1 d2 n1 n2 :
    NoDup q ->
    decide_noorder force q d1 = Ok (s, k1, [], n1) ->
    decide_noorder force q d2 = Ok (s, k2, [], n2) -> d1 = d2.
  Proof.
    unfold decide_noorder. intros Hnd H1 H2.
    inv_bind H1 as [[r1 q1] e1]. inv_bind H2 as [[r2 q2] e2].
    inversion H1; inversion H2; subst. eapply no_loop_unique; eauto.
  Qed.

  (* ---------------------------------------------------------------- singleton: every version *)
  Theorem single_complete_new force (pre post : list A) x last :
    exists ds, decide_single force (pre ++ x :: post) last ds = Ok (x, true, pre, post, []).
  Proof.
    remember (pre ++ x :: post) as q eqn:Eq.
    assert (Hq : q <> []) by (subst q; destruct pre; discriminate).
    assert (Hidx : forall ds, ask_excl 0 (length q) (length pre :: ds) = Ok (length pre, ds)).
    { intro ds. apply ask_excl_complete. subst q. rewrite app_length. cbn. lia. }
    assert (Hsk : skipn (length pre) q = x :: post).
    { subst q. rewrite skipn_app, Nat.sub_diag, skipn_all. reflexivity. }
    assert (Hfi : firstn (length pre) q = pre).
    { subst q. rewrite firstn_app, Nat.sub_diag, firstn_all. cbn. apply app_nil_r. }
    clear Eq. destruct q as [|a0 q0]; [congruence|].
    destruct last as [l|]; [destruct force|].
    - exists [length pre]. unfold decide_single.
      cbn [bind]. rewrite Hidx. cbn [bind]. rewrite Hsk, Hfi. reflexivity.
    - exists [0; length pre]. unfold decide_single.
      replace (ask_bool [0; length pre]) with (Ok (false, [length pre])) by reflexivity.
      cbn [bind]. rewrite Hidx. cbn [bind]. rewrite Hsk, Hfi. reflexivity.
    - exists [length pre]. unfold decide_single.
      cbn [bind]. rewrite Hidx. cbn [bind]. rewrite Hsk, Hfi. reflexivity.
  Qed.

  Theorem single_complete_old (q : list A) l :
    q <> [] -> decide_single false q (Some l) [1] = Ok (l, false, [], q, []).
  Proof. destruct q; [congruence|]. reflexivity. Qed.
End Complete.
