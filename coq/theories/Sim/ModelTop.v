(* Engine E9 "Sim": model of the top-level (observation) hooks and of the inline
   (ObserveNonDet) hooks of hydro_lang/src/sim/runtime.rs -- unkeyed kinds:
     TopLevelStreamOrderHook, TopLevelFoldHook, TopLevelMergeOrderedHook   (SimHook)
     StreamOrderHook, MergeOrderedHook                                     (SimInlineHook)
   plus the executable correspondence layer for them.  Definitions only.
   Not modelled: TopLevelKeyedStreamOrderHook, TopLevelPartiallyOrderedStreamHook,
   TopLevelKeyedMergeOrderedHook, KeyedStreamOrderHook, PartiallyOrderedStreamHook,
   KeyedMergeOrderedHook. *)
From Coq Require Import List Arith Bool NArith Lia.
From HV Require Import Sim.Model Sim.Run.
Import ListNotations.
Close Scope N_scope.
Open Scope nat_scope.

Definition insert_at {X} (k : nat) (x : X) (l : list X) : list X := firstn k l ++ x :: skipn k l.

(* Vec::swap(i, j) for j <= i, through remove/insert (position-wise equal to a swap) *)
Definition swap_hi_lo {X} (i j : nat) (l : list X) : list X :=
  if i =? j then l else
  match remove_at i l with
  | Some (xi, l1) =>
    match remove_at j l1 with
    | Some (xj, l2) => insert_at i xj (insert_at j xi l2)
    | None => l
    end
  | None => l
  end.

Section TopTyped.
  Context {A : Type}.

  (* ---------------------------------------------------------------- TopLevelStreamOrderHook *)
  Definition decide_top_order (force : bool) (q : list A) (ds : script)
    : res (list A * list A * script * bool) :=
    if is_nil q then Ok ([], q, ds, false) else
    bind (if force then Ok (false, ds) else ask_bool ds) (fun '(skip, ds1) =>
      if (skip : bool) then Ok ([], q, ds1, false) else
      bind (ask_excl 0 (length q) ds1) (fun '(idx, ds2) =>
        match remove_at idx q with
        | Some (x, q') => Ok ([x], q', ds2, true)
        | None => Panic 6
        end)).

  (* ---------------------------------------------------------------- TopLevelFoldHook
     include/exclude per element (true = include), the last one forced in if nothing selected *)
  Fixpoint fold_select (q : list A) (none_yet : bool) (ds : script)
    : res (list A * list A * script) :=
    match q with
    | [] => Ok ([], [], ds)
    | x :: q' =>
      bind (if is_nil q' && none_yet then Ok (true, ds) else ask_bool ds) (fun '(inc, ds1) =>
        bind (fold_select q' (none_yet && negb inc) ds1) (fun '(sel, rem, ds2) =>
          if (inc : bool) then Ok (x :: sel, rem, ds2) else Ok (sel, x :: rem, ds2)))
    end.

  (* for i in (1..slen).rev() { j in 0..=i; swap(i, j) } *)
  Fixpoint fy_back (i : nat) (l : list A) (ds : script) : res (list A * script) :=
    match i with
    | 0 => Ok (l, ds)
    | S i' => bind (ask 0 i ds) (fun '(j, ds1) => fy_back i' (swap_hi_lo i j l) ds1)
    end.

  Definition decide_top_fold (force : bool) (q : list A) (ds : script)
    : res (list A * list A * script * bool) :=
    if is_nil q then (if force then Panic 2 else Ok ([], q, ds, false)) else
    bind (fold_select q true ds) (fun '(sel, rem, ds1) =>
      bind (fy_back (length sel - 1) sel ds1) (fun '(out, ds2) => Ok (out, rem, ds2, true))).

  (* ---------------------------------------------------------------- TopLevelMergeOrderedHook *)
  Definition decide_top_merge (force : bool) (q1 q2 : list A) (ds : script)
    : res (list A * list A * list A * script * bool) :=
    if is_nil q1 && is_nil q2 then Ok ([], q1, q2, ds, false) else
    bind (if force then Ok (false, ds) else ask_bool ds) (fun '(skip, ds1) =>
      if (skip : bool) then Ok ([], q1, q2, ds1, false) else
      match q1, q2 with
      | [], y :: q2' => Ok ([y], q1, q2', ds1, true)
      | x :: q1', [] => Ok ([x], q1', q2, ds1, true)
      | x :: q1', y :: q2' =>
        bind (ask_bool ds1) (fun '(second, ds2) =>
          if (second : bool) then Ok ([y], q1, q2', ds2, true) else Ok ([x], q1', q2, ds2, true))
      | [], [] => Panic 6
      end).

  (* ---------------------------------------------------------------- inline StreamOrderHook
     for src in 0..max_dst { dst in src..=max_dst; swap(src, dst) } *)
  Fixpoint fy_fwd (n src maxd : nat) (l : list A) (ds : script) : res (list A * script) :=
    match n with
    | 0 => Ok (l, ds)
    | S n' => bind (ask src maxd ds) (fun '(dst, ds1) =>
                fy_fwd n' (S src) maxd (swap_hi_lo dst src l) ds1)
    end.

  Definition decide_shuffle (l : list A) (ds : script) : res (list A * script) :=
    fy_fwd (length l - 1) 0 (length l - 1) l ds.

  (* ---------------------------------------------------------------- inline MergeOrderedHook *)
  Fixpoint interleave (fuel : nat) (a b : list A) (ds : script) : res (list A * script) :=
    match fuel with
    | 0 => Ok (a ++ b, ds)
    | S f =>
      match a, b with
      | x :: a', y :: b' =>
        bind (ask_bool ds) (fun '(second, ds1) =>
          if (second : bool)
          then bind (interleave f a b' ds1) (fun '(r, ds2) => Ok (y :: r, ds2))
          else bind (interleave f a' b ds1) (fun '(r, ds2) => Ok (x :: r, ds2)))
      | _, _ => Ok (a ++ b, ds)
      end
    end.

  Definition decide_merge (a b : list A) (ds : script) : res (list A * script) :=
    interleave (length a + length b) a b ds.

  (* ---------------------------------------------------------------- TopLevelKeyedStreamOrderHook
     ([front] = false) and TopLevelPartiallyOrderedStreamHook ([front] = true): one item of one
     non-empty key, any position resp. the front.  [m] is in iteration order; the ki-th
     NON-EMPTY entry is picked. *)
  Context {K : Type}.

  Definition count_ne (m : list (K * list A)) : nat :=
    length (filter (fun e => negb (is_nil (snd e))) m).

  Fixpoint take_ne (front : bool) (ki : nat) (m : list (K * list A)) (ds : script)
    : res (list (K * A) * list (K * list A) * script) :=
    match m with
    | [] => Panic 6
    | (k, q) :: m' =>
      if is_nil q then
        bind (take_ne front ki m' ds) (fun '(rel, mr, ds') => Ok (rel, (k, q) :: mr, ds'))
      else
        match ki with
        | S ki' => bind (take_ne front ki' m' ds) (fun '(rel, mr, ds') => Ok (rel, (k, q) :: mr, ds'))
        | O =>
          bind (if front then Ok (O, ds) else ask_excl 0 (length q) ds) (fun '(ii, ds') =>
            match remove_at ii q with
            | Some (x, q') => Ok ([(k, x)], (k, q') :: m', ds')
            | None => Panic 6
            end)
        end
    end.

  Definition decide_top_keyed (front force : bool) (m : list (K * list A)) (ds : script)
    : res (list (K * A) * list (K * list A) * script * bool) :=
    if count_ne m =? 0 then Ok ([], m, ds, false) else
    bind (if force then Ok (false, ds) else ask_bool ds) (fun '(skip, ds1) =>
      if (skip : bool) then Ok ([], m, ds1, false) else
      bind (ask_excl 0 (count_ne m) ds1) (fun '(ki, ds2) =>
        bind (take_ne front ki m ds2) (fun '(rel, m', ds3) => Ok (rel, m', ds3, true)))).

  (* ---------------------------------------------------------------- TopLevelKeyedMergeOrderedHook
     candidates: the non-empty keys of the first input (its iteration order), then those of
     the second; the front item of the chosen one is released *)
  Definition decide_top_kmerge (force : bool) (m1 m2 : list (K * list A)) (ds : script)
    : res (list (K * A) * list (K * list A) * list (K * list A) * script * bool) :=
    bind (decide_top_keyed true force (m1 ++ m2) ds) (fun '(rel, m', ds', nt) =>
      Ok (rel, firstn (length m1) m', skipn (length m1) m', ds', nt)).

  (* ---------------------------------------------------------------- inline KeyedStreamOrderHook
     [gs]: the batch grouped by key, in the iteration order of the grouping map *)
  Fixpoint kshuffle (gs : list (K * list A)) (ds : script) : res (list (K * list A) * script) :=
    match gs with
    | [] => Ok ([], ds)
    | (k, vs) :: r =>
      bind (decide_shuffle vs ds) (fun '(vs', ds1) =>
        bind (kshuffle r ds1) (fun '(r', ds2) => Ok ((k, vs') :: r', ds2)))
    end.

  (* ---------------------------------------------------------------- inline PartiallyOrderedStreamHook
     [gs]: the batch grouped by key in first-seen order; repeatedly the front item of a
     non-empty key *)
  Fixpoint po_loop (fuel : nat) (gs : list (K * list A)) (ds : script) : res (list (K * A) * script) :=
    match fuel with
    | 0 => Ok ([], ds)
    | S f =>
      if count_ne gs =? 0 then Ok ([], ds) else
      bind (ask_excl 0 (count_ne gs) ds) (fun '(ki, ds1) =>
        bind (take_ne true ki gs ds1) (fun '(rel, gs', ds2) =>
          bind (po_loop f gs' ds2) (fun '(out, ds3) => Ok (rel ++ out, ds3))))
    end.

  Definition total_items (gs : list (K * list A)) : nat := length (concat (map snd gs)).
  Definition decide_partial (gs : list (K * list A)) (ds : script) := po_loop (total_items gs) gs ds.

  (* ---------------------------------------------------------------- inline KeyedMergeOrderedHook
     [gs]: per key (first-seen order over both inputs) its items in the first and second input *)
  Fixpoint kmerge (gs : list (K * (list A * list A))) (ds : script) : res (list (K * A) * script) :=
    match gs with
    | [] => Ok ([], ds)
    | (k, (a, b)) :: r =>
      bind (decide_merge a b ds) (fun '(o, ds1) =>
        bind (kmerge r ds1) (fun '(out, ds2) => Ok (map (pair k) o ++ out, ds2)))
    end.
End TopTyped.

(* ==================================================================== correspondence *)
Open Scope N_scope.

Inductive thook : Type :=
| TOrder (q : list N)
| TFold (q : list N)
| TMerge (q1 q2 : list N)
| TKeyed (front : bool) (m : list (N * list N))
| TKMerge (m1 m2 : list (N * list N)).

Definition tqueues (h : thook) : list (N * list N) :=
  match h with
  | TOrder q | TFold q => [(0, q)]
  | TMerge q1 q2 => [(0, q1); (1, q2)]
  | TKeyed _ m => m
  | TKMerge m1 m2 => m1 ++ m2
  end.

Definition tcan (h : thook) : bool :=
  match h with
  | TOrder q | TFold q => negb (is_nil q)
  | TMerge q1 q2 => negb (is_nil q1) || negb (is_nil q2)
  | TKeyed _ m => negb (all_empty m)
  | TKMerge m1 m2 => negb (all_empty (m1 ++ m2))
  end.

(* autonomous_decision + release_decision: released items, new state, rest, return value *)
Definition tauto (h : thook) (force : bool) (ds : script) : res (list N * thook * script * bool) :=
  match h with
  | TOrder q => bind (decide_top_order force q ds) (fun '(rel, q', ds', nt) => Ok (rel, TOrder q', ds', nt))
  | TFold q => bind (decide_top_fold force q ds) (fun '(rel, q', ds', nt) => Ok (rel, TFold q', ds', nt))
  | TMerge q1 q2 =>
    bind (decide_top_merge force q1 q2 ds) (fun '(rel, a, b, ds', nt) => Ok (rel, TMerge a b, ds', nt))
  | TKeyed front m =>
    bind (decide_top_keyed front force m ds) (fun '(rel, m', ds', nt) => Ok (map snd rel, TKeyed front m', ds', nt))
  | TKMerge m1 m2 =>
    bind (decide_top_kmerge force m1 m2 ds) (fun '(rel, a, b, ds', nt) => Ok (map snd rel, TKMerge a b, ds', nt))
  end.

(* the items as sent on the output channel (keyed hooks send (key, value) pairs) *)
Definition temit (h : thook) (force : bool) (ds : script) : list (N * N) :=
  match h with
  | TKeyed front m =>
    match decide_top_keyed front force m ds with Ok (rel, _, _, _) => rel | _ => [] end
  | TKMerge m1 m2 =>
    match decide_top_kmerge force m1 m2 ds with Ok (rel, _, _, _, _) => rel | _ => [] end
  | _ => match tauto h force ds with Ok (rel, _, _, _) => unkeyed rel | _ => [] end
  end.

Definition tmodel (h : thook) (force : bool) (ds : script) : obs :=
  match tauto h force ds with
  | BadScript => OBad
  | Panic c => OPanic c false
  | Ok (rel, h', rest, nt) =>
    OOk (tqueues h) None (tcan h) true nt (Some (negb (is_nil rel))) (temit h force ds) (tqueues h')
        (length ds - length rest)
  end.

(* insertion sort, for multiset comparison *)
Fixpoint ins (x : N) (l : list N) : list N :=
  match l with
  | [] => [x]
  | y :: l' => if N.leb x y then x :: l else y :: ins x l'
  end.
Definition nsort (l : list N) : list N := fold_right ins [] l.
Definition perm_b (a b : list N) : bool := ln_eqb (nsort a) (nsort b).

Fixpoint subseq_b (s l : list N) : bool :=
  match s, l with
  | [], _ => true
  | _ :: _, [] => false
  | x :: s', y :: l' => if N.eqb x y then subseq_b s' l' else subseq_b s l'
  end.

Definition q1of (m : list (N * list N)) : list N := match m with _ :: [(_, q)] => q | _ => [] end.
Definition qAof (m : list (N * list N)) : list N := match m with (_, q) :: _ => q | [] => [] end.

(* positional: exactly one entry lost its front item [x] (key [k]), all others unchanged *)
Fixpoint one_front_taken (k x : N) (before after : list (N * list N)) : bool :=
  match before, after with
  | (kb, qb) :: b', (ka, qa) :: a' =>
    N.eqb kb ka
    && ((N.eqb kb k && ln_eqb qb (x :: qa) && map_eqb b' a') || (ln_eqb qb qa && one_front_taken k x b' a'))
  | _, _ => false
  end.

(* C36 for the observation hooks, on the implementation's (before, emitted, after) *)
Definition top_sound_b (h : thook) (before : list (N * list N)) (emitted : list (N * N))
           (after : list (N * list N)) : bool :=
  let em := map snd emitted in
  match h with
  | TOrder _ => (Nat.leb (length em) 1) && merge_b em (q0 after) (q0 before)
  | TFold _ => subseq_b (q0 after) (q0 before) && perm_b (em ++ q0 after) (q0 before)
  | TMerge _ _ =>
    match em with
    | [] => map_eqb before after
    | [x] =>
      (ln_eqb (qAof before) (x :: qAof after) && ln_eqb (q1of before) (q1of after))
      || (ln_eqb (q1of before) (x :: q1of after) && ln_eqb (qAof before) (qAof after))
    | _ => false
    end
  | TKeyed front _ =>
    match emitted with
    | [] => map_eqb before after
    | [(k, x)] =>
      ln_eqb (map fst before) (map fst after)
      && forallb (fun e => match qlookup (fst e) after with
                           | Some qa =>
                             if N.eqb (fst e) k
                             then (if front then ln_eqb (snd e) (x :: qa) else merge_b [x] qa (snd e))
                             else ln_eqb qa (snd e)
                           | None => false
                           end) before
    | _ => false
    end
  | TKMerge _ _ =>
    match emitted with
    | [] => map_eqb before after
    | [(k, x)] => one_front_taken k x before after
    | _ => false
    end
  end.

Definition top_verdict (h : thook) (force : bool) (ds : script) (o : obs) : N :=
  (if obs_eqb (tmodel h force ds) o then 0 else 1)
  + (if negb force || tcan h then
       match o with
       | OOk before _ _ _ ret _ emitted after _ =>
         if top_sound_b h before emitted after
            && Bool.eqb ret (negb (is_nil emitted))
            && (negb force || negb (is_nil emitted))
         then 0 else 2
       | OBad => 0
       | OPanic _ _ => 2
       end
     else 0).

(* inline hooks: [out] is what the implementation sent; bit 2 = not a permutation / not an
   order-preserving interleaving *)
Definition shuffle_verdict (input : list N) (ds : script) (out : option (list N)) (used : nat) : N :=
  match out with
  | None => match decide_shuffle input ds with Ok _ => 1 | _ => 0 end
  | Some o =>
    (match decide_shuffle input ds with
     | Ok (m, rest) => if ln_eqb m o && Nat.eqb used (length ds - length rest) then 0 else 1
     | _ => 1
     end) + (if perm_b o input then 0 else 2)
  end.

Definition merge_verdict (a b : list N) (ds : script) (out : option (list N)) (used : nat) : N :=
  match out with
  | None => match decide_merge a b ds with Ok _ => 1 | _ => 0 end
  | Some o =>
    (match decide_merge a b ds with
     | Ok (m, rest) => if ln_eqb m o && Nat.eqb used (length ds - length rest) then 0 else 1
     | _ => 1
     end) + (if merge_b a b o then 0 else 2)
  end.

(* ------------------------------------------------------------------ keyed inline hooks *)
(* grouped.entry(k).or_insert_with(Vec::new).push(v): first-seen key order *)
Fixpoint group_push (k v : N) (g : list (N * list N)) : list (N * list N) :=
  match g with
  | [] => [(k, [v])]
  | (k', q) :: g' => if N.eqb k k' then (k', q ++ [v]) :: g' else (k', q) :: group_push k v g'
  end.
Definition group_pairs (l : list (N * N)) : list (N * list N) :=
  fold_left (fun g e => group_push (fst e) (snd e) g) l [].

Fixpoint dedup_keys (l : list N) : list N :=
  match l with
  | [] => []
  | k :: r => k :: filter (fun k' => negb (N.eqb k k')) (dedup_keys r)
  end.

Definition flat (g : list (N * list N)) : list (N * N) :=
  concat (map (fun e => map (pair (fst e)) (snd e)) g).

Definition kvperm_b (a b : list (N * N)) : bool :=
  forallb (fun k => perm_b (vals_of k a) (vals_of k b)) (dedup_keys (map fst (a ++ b)))
  && Nat.eqb (length a) (length b).

(* KeyedStreamOrderHook: [order1] = iteration order of the grouping map (decisions are taken in
   that order); the output is flattened in the iteration order of a second map, read off the
   implementation's output *)
Definition kshuffle_verdict (input : list (N * N)) (order1 : list N) (ds : script)
           (out : option (list (N * N))) (used : nat) : N :=
  match reorder (group_pairs input) order1 with
  | None => 1
  | Some gs =>
    match out with
    | None => match kshuffle gs ds with Ok _ => 1 | _ => 0 end
    | Some o =>
      (match kshuffle gs ds with
       | Ok (gs', rest) =>
         match reorder gs' (dedup_keys (map fst o)) with
         | Some g2 => if kv_eqb (flat g2) o && Nat.eqb used (length ds - length rest) then 0 else 1
         | None => 1
         end
       | _ => 1
       end) + (if kvperm_b o input then 0 else 2)
    end
  end.

(* PartiallyOrderedStreamHook: a permutation that keeps every key's items in their order *)
Definition partial_verdict (input : list (N * N)) (ds : script) (out : option (list (N * N))) (used : nat) : N :=
  let gs := group_pairs input in
  match out with
  | None => match decide_partial gs ds with Ok _ => 1 | _ => 0 end
  | Some o =>
    (match decide_partial gs ds with
     | Ok (m, rest) => if kv_eqb m o && Nat.eqb used (length ds - length rest) then 0 else 1
     | _ => 1
     end)
    + (if forallb (fun k => ln_eqb (vals_of k o) (vals_of k input)) (dedup_keys (map fst (o ++ input)))
          && Nat.eqb (length o) (length input) then 0 else 2)
  end.

(* KeyedMergeOrderedHook: keys in first-seen order (first input, then second); per key an
   order-preserving interleaving of its two sub-sequences *)
Definition kmerge_groups (a b : list (N * N)) : list (N * (list N * list N)) :=
  map (fun k => (k, (vals_of k a, vals_of k b))) (dedup_keys (map fst (a ++ b))).

Definition kmerge_verdict (a b : list (N * N)) (ds : script) (out : option (list (N * N))) (used : nat) : N :=
  let gs := kmerge_groups a b in
  match out with
  | None => match kmerge gs ds with Ok _ => 1 | _ => 0 end
  | Some o =>
    (match kmerge gs ds with
     | Ok (m, rest) => if kv_eqb m o && Nat.eqb used (length ds - length rest) then 0 else 1
     | _ => 1
     end)
    + (if forallb (fun g => merge_b (fst (snd g)) (snd (snd g)) (vals_of (fst g) o)) gs
          && ln_eqb (dedup_keys (map fst o)) (map fst gs)
          && Nat.eqb (length o) (length a + length b) then 0 else 2)
  end.
