(* Engine E9 "Sim": replay facts about the modelled run (C38).  The modelled run is a Gallina
   function of (hook states, decision script), so "same input, same run" is definitional; the
   facts with content are: a run reads its script strictly left to right and ignores what
   follows the decisions it consumed (a recorded decision string replays identically when more
   entropy follows it), and reports what it did not consume. *)
From Coq Require Import List Arith Bool NArith Lia.
From HV Require Import Sim.Model Sim.PHooks Sim.PTick Sim.PFrame.
Import ListNotations.
Close Scope N_scope.
Open Scope nat_scope.

Tactic Notation "inv_bind" hyp(H) "as" simple_intropattern(pat) :=
  match type of H with
  | bind ?r _ = Ok _ =>
    let E := fresh "E" in
    destruct r as [pat | | ?] eqn:E; cbn [bind] in H; [ | discriminate H | discriminate H]
  end.

Lemma pass1_frame : forall hs made rc ds hs1 made1 rc1 rest e,
  pass1 hs made rc ds = Ok (hs1, made1, rc1, rest) ->
  pass1 hs made rc (ds ++ e) = Ok (hs1, made1, rc1, rest ++ e).
Proof.
  induction hs as [|h hs IH]; intros made rc ds hs1 made1 rc1 rest e H; cbn [pass1] in *.
  - inversion H; subst. reflexivity.
  - destruct (current_decision h) as [b|].
    + destruct (dec rc) as [x| |]; cbn [bind] in *; try discriminate.
      inv_bind H as [[[hs'' m''] r''] d'']. inversion H; subst.
      rewrite (IH _ _ _ _ _ _ _ e E). reflexivity.
    + destruct (negb (can_nontrivial h)).
      * inv_bind H as [[[h' m'] r'] d']. inv_bind E as [[h1 b] d1]. inv_bind E as x.
        inversion E; subst. inv_bind H as [[[hs'' m''] r''] d'']. inversion H; subst.
        rewrite (auto_frame _ _ _ _ _ _ e E0). cbn [bind]. try rewrite E1. cbn [bind].
        rewrite (IH _ _ _ _ _ _ _ e E2). reflexivity.
      * cbn [bind] in *. inv_bind H as [[[hs'' m''] r''] d'']. inversion H; subst.
        rewrite (IH _ _ _ _ _ _ _ e E). reflexivity.
Qed.

Lemma pass2_frame : forall hs made rc ds hs2 outs rest e,
  pass2 hs made rc ds = Ok (hs2, outs, rest) ->
  pass2 hs made rc (ds ++ e) = Ok (hs2, outs, rest ++ e).
Proof.
  induction hs as [|h hs IH]; intros made rc ds hs2 outs rest e H; cbn [pass2] in *.
  - inversion H; subst. reflexivity.
  - destruct (current_decision h) as [b|].
    + cbn [bind] in *. inv_bind H as [[h2 out] fl]. inv_bind H as [[hs'' outs'] d''].
      inversion H; subst. rewrite (IH _ _ _ _ _ _ e E0). reflexivity.
    + inv_bind H as [[[h1 m'] r'] d']. inv_bind E as [[h' nt] d1]. inv_bind E as x.
      inversion E; subst. inv_bind H as [[h2 out] fl]. inv_bind H as [[hs'' outs'] d''].
      inversion H; subst.
      rewrite (auto_frame _ _ _ _ _ _ e E0). cbn [bind]. try rewrite E1. cbn [bind].
      try rewrite E2. cbn [bind]. rewrite (IH _ _ _ _ _ _ e E3). reflexivity.
Qed.

(* a tick's run reads only the decisions it consumes: appending anything to the script changes
   nothing but the unused rest *)
Theorem run_hooks_frame hs ds hs2 outs rest e :
  run_hooks hs ds = Ok (hs2, outs, rest) -> run_hooks hs (ds ++ e) = Ok (hs2, outs, rest ++ e).
Proof.
  unfold run_hooks. intro H. inv_bind H as [[[hs1 made] rc] d1].
  rewrite (pass1_frame _ _ _ _ _ _ _ _ e E). cbn [bind]. apply pass2_frame. exact H.
Qed.

(* hence two scripts that agree on the consumed prefix give the same run *)
Corollary run_hooks_prefix_determined hs u e1 e2 hs2 outs :
  run_hooks hs u = Ok (hs2, outs, []) ->
  run_hooks hs (u ++ e1) = Ok (hs2, outs, e1) /\ run_hooks hs (u ++ e2) = Ok (hs2, outs, e2).
Proof.
  intro H. split; [apply (run_hooks_frame _ _ _ _ _ e1 H)|apply (run_hooks_frame _ _ _ _ _ e2 H)].
Qed.
