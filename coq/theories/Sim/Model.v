(* Engine E9 "Sim": executable model of the simulator's decision procedures.

   Source transcribed (branch by branch): /repo/hydro_lang/src/sim/runtime.rs
     StreamHook<_, TotalOrder>, StreamHook<_, NoOrder>, KeyedStreamHook<_, _, TotalOrder>,
     KeyedStreamHook<_, _, NoOrder>, SingletonHook, PassthroughSingletonHook,
     KeyedSingletonHook   (autonomous_decision / release_decision / current_decision /
                           can_make_nontrivial_decision / is_ready)
   and /repo/hydro_lang/src/sim/compiled.rs
     run_hooks (two passes, forced non-trivial rule), hook_can_release, SimTick::can_run.

   The bolero driver is modelled as "returns any value of the requested range": a decision
   script is the list of values it returns; a value outside the requested range, an empty
   range, or an exhausted script is [BadScript] (the real code unwraps a [None]).

   A hash map is an association list *in iteration order*: the order oracle of the keyed
   hooks is whatever permutation of the entries the list presents (theorems quantify over
   all lists, hence over all oracles).

   Definitions only; this file must keep compiling when proofs break. *)
From Coq Require Import List Arith Bool NArith Lia.
Import ListNotations.

Inductive res (X : Type) : Type :=
| Ok (x : X)
| BadScript
| Panic (code : nat).
Arguments Ok {X} x.
Arguments BadScript {X}.
Arguments Panic {X} code.

(* panic codes: 1 "No decision to release"; 2 "Cannot make nontrivial decision when there is
   no input"; 3 "No input and no last released item to re-release"; 4 Option::unwrap on None
   (last_released.get(key)); 5 usize subtraction overflow (remaining_decision_count);
   6 VecDeque::remove out of range *)

Definition bind {X Y} (r : res X) (f : X -> res Y) : res Y :=
  match r with Ok x => f x | BadScript => BadScript | Panic c => Panic c end.

Definition script := list nat.

(* (lo..=hi).generate(driver).unwrap() *)
Definition ask (lo hi : nat) (ds : script) : res (nat * script) :=
  match ds with
  | [] => BadScript
  | d :: ds' => if (lo <=? d) && (d <=? hi) then Ok (d, ds') else BadScript
  end.

(* (lo..hi).generate(driver).unwrap() *)
Definition ask_excl (lo hi : nat) (ds : script) : res (nat * script) :=
  match hi with 0 => BadScript | S h => ask lo h ds end.

(* produce::<bool>().generate(driver).unwrap(); 1 = true *)
Definition ask_bool (ds : script) : res (bool * script) :=
  bind (ask 0 1 ds) (fun '(d, ds') => Ok (Nat.eqb d 1, ds')).

Definition is_nil {X} (l : list X) : bool := match l with [] => true | _ => false end.
Definition is_some {X} (o : option X) : bool := match o with Some _ => true | None => false end.

(* VecDeque::remove(idx) *)
Fixpoint remove_at {X} (idx : nat) (q : list X) : option (X * list X) :=
  match q with
  | [] => None
  | x :: q' =>
    match idx with
    | 0 => Some (x, q')
    | S i => match remove_at i q' with Some (y, r) => Some (y, x :: r) | None => None end
    end
  end.

Section Typed.
  Context {A K : Type}.

  (* ---------------------------------------------------------------- StreamHook<T, TotalOrder>
     result: released, remaining queue, unused decisions, "was non-trivial" *)
  Definition decide_total (force : bool) (q : list A) (ds : script)
    : res (list A * list A * script * bool) :=
    bind (ask (if force then 1 else 0) (length q) ds) (fun '(count, ds') =>
      Ok (firstn count q, skipn count q, ds', negb (count =? 0))).

  (* ---------------------------------------------------------------- StreamHook<T, NoOrder>
     the while loop; [must] = force_nontrivial && out.is_empty(); [mi] = min_index.
     Each iteration removes one item, so [fuel = length q] never runs out. *)
  Fixpoint no_loop (fuel : nat) (must : bool) (q : list A) (mi : nat) (ds : script)
    : res (list A * list A * script) :=
    match fuel with
    | 0 => Ok ([], q, ds)
    | S f =>
      if is_nil q then Ok ([], q, ds) else
      bind (if must then Ok (false, ds) else ask_bool ds) (fun '(stop, ds1) =>
        if (stop : bool) then Ok ([], q, ds1) else
        bind (ask_excl mi (length q) ds1) (fun '(idx, ds2) =>
          match remove_at idx q with
          | None => Panic 6
          | Some (item, q') =>
            if idx =? length q' then Ok ([item], q', ds2)
            else bind (no_loop f false q' idx ds2) (fun '(rel, q'', ds3) =>
                   Ok (item :: rel, q'', ds3))
          end))
    end.

  Definition decide_noorder (force : bool) (q : list A) (ds : script)
    : res (list A * list A * script * bool) :=
    bind (no_loop (length q) force q 0 ds) (fun '(rel, q', ds') =>
      Ok (rel, q', ds', negb (is_nil rel))).

  (* ---------------------------------------------------------------- keyed stream hooks *)
  Definition count_nonempty (m : list (K * list A)) : nat :=
    length (filter (fun e => negb (is_nil (snd e))) m).

  (* for (key, queue) in current_input.iter_mut(); [r] = remaining_nonempty_keys *)
  Fixpoint keyed_total_loop (force : bool) (r : nat) (m : list (K * list A)) (ds : script)
    : res (list (K * A) * list (K * list A) * script) :=
    match m with
    | [] => Ok ([], [], ds)
    | (k, q) :: m' =>
      if is_nil q then
        bind (keyed_total_loop force r m' ds) (fun '(rel, mrem, rest) =>
          Ok (rel, (k, q) :: mrem, rest))
      else
        let r' := r - 1 in
        bind (ask (if force && (r' =? 0) then 1 else 0) (length q) ds) (fun '(count, ds') =>
          let force' := if count =? 0 then force else false in
          bind (keyed_total_loop force' r' m' ds') (fun '(rel, mrem, rest) =>
            Ok (map (pair k) (firstn count q) ++ rel, (k, skipn count q) :: mrem, rest)))
    end.

  Definition decide_keyed_total (force : bool) (m : list (K * list A)) (ds : script)
    : res (list (K * A) * list (K * list A) * script * bool) :=
    bind (keyed_total_loop force (count_nonempty m) m ds) (fun '(rel, m', ds') =>
      Ok (rel, m', ds', negb (is_nil rel))).

  Fixpoint keyed_no_loop (force : bool) (r : nat) (m : list (K * list A)) (ds : script)
    : res (list (K * A) * list (K * list A) * script) :=
    match m with
    | [] => Ok ([], [], ds)
    | (k, q) :: m' =>
      if is_nil q then
        bind (keyed_no_loop force r m' ds) (fun '(rel, mrem, rest) =>
          Ok (rel, (k, q) :: mrem, rest))
      else
        let r' := r - 1 in
        bind (no_loop (length q) (force && (r' =? 0)) q 0 ds) (fun '(out, q', ds') =>
          let force' := if is_nil out then force else false in
          bind (keyed_no_loop force' r' m' ds') (fun '(rel, mrem, rest) =>
            Ok (map (pair k) out ++ rel, (k, q') :: mrem, rest)))
    end.

  Definition decide_keyed_noorder (force : bool) (m : list (K * list A)) (ds : script)
    : res (list (K * A) * list (K * list A) * script * bool) :=
    bind (keyed_no_loop force (count_nonempty m) m ds) (fun '(rel, m', ds') =>
      Ok (rel, m', ds', negb (is_nil rel))).

  (* ---------------------------------------------------------------- SingletonHook
     result: (snapshot, is_new), skipped states, remaining queue, unused decisions *)
  Definition decide_single (force : bool) (q : list A) (last : option A) (ds : script)
    : res (A * bool * list A * list A * script) :=
    match q with
    | [] =>
      if force then Panic 2
      else match last with
           | Some l => Ok (l, false, [], [], ds)
           | None => Panic 3
           end
    | _ =>
      bind (match last with
            | Some l => if force then Ok (None, ds)
                        else bind (ask_bool ds) (fun '(b, ds1) =>
                               Ok (if (b : bool) then Some l else None, ds1))
            | None => Ok (None, ds)
            end) (fun '(re, ds1) =>
        match re with
        | Some l => Ok (l, false, [], q, ds1)
        | None =>
          bind (ask_excl 0 (length q) ds1) (fun '(idx, ds2) =>
            match skipn idx q with
            | x :: rest => Ok (x, true, firstn idx q, rest, ds2)
            | [] => Panic 6
            end)
        end)
    end.

  (* ---------------------------------------------------------------- PassthroughSingletonHook
     no driver use; [None] = nothing pending (the hook then re-releases its last value) *)
  Definition decide_pass (q : list A) : option A * list A :=
    match rev q with
    | [] => (None, q)
    | x :: _ => (Some x, [])
    end.

  (* ---------------------------------------------------------------- KeyedSingletonHook *)
  Context (keq : K -> K -> bool).

  Fixpoint lookup (k : K) (l : list (K * A)) : option A :=
    match l with
    | [] => None
    | (k', v) :: l' => if keq k k' then Some v else lookup k l'
    end.

  Fixpoint insert (k : K) (v : A) (l : list (K * A)) : list (K * A) :=
    match l with
    | [] => [(k, v)]
    | (k', v') :: l' => if keq k k' then (k, v) :: l' else (k', v') :: insert k v l'
    end.

  (* result: to_release (key, value, is_new), remaining map, last_released, rest, any_nontrivial *)
  Fixpoint ksingle_loop (force : bool) (r : nat) (m : list (K * list A)) (last : list (K * A))
           (ds : script)
    : res (list (K * A * bool) * list (K * list A) * list (K * A) * script * bool) :=
    match m with
    | [] => Ok ([], [], last, ds, false)
    | (k, q) :: m' =>
      if is_nil q then
        match lookup k last with
        | None => Panic 4
        | Some l =>
          bind (ksingle_loop force r m' last ds) (fun '(rel, mrem, last', rest, nt) =>
            Ok ((k, l, false) :: rel, (k, q) :: mrem, last', rest, nt))
        end
      else
        let r' := r - 1 in
        let do_nt := force && (r' =? 0) in
        bind (match lookup k last with
              | Some l => if do_nt then Ok (None, ds)
                          else bind (ask_bool ds) (fun '(b, ds1) =>
                                 Ok (if (b : bool) then Some l else None, ds1))
              | None => Ok (None, ds)
              end) (fun '(re, ds1) =>
          match re with
          | Some l =>
            bind (ksingle_loop force r' m' last ds1) (fun '(rel, mrem, last', rest, nt) =>
              Ok ((k, l, false) :: rel, (k, q) :: mrem, last', rest, nt))
          | None =>
            let allow_null := negb do_nt && negb (is_some (lookup k last)) in
            bind (if allow_null then ask_bool ds1 else Ok (false, ds1)) (fun '(null, ds2) =>
              if (null : bool) then
                bind (ksingle_loop force r' m' last ds2) (fun '(rel, mrem, last', rest, nt) =>
                  Ok (rel, (k, q) :: mrem, last', rest, nt))
              else
                bind (ask_excl 0 (length q) ds2) (fun '(idx, ds3) =>
                  match skipn idx q with
                  | x :: qrest =>
                    bind (ksingle_loop false r' m' (insert k x last) ds3)
                         (fun '(rel, mrem, last', rest, nt) =>
                       Ok ((k, x, true) :: rel, (k, qrest) :: mrem, last', rest, true))
                  | [] => Panic 6
                  end))
          end)
    end.

  Definition decide_ksingle (force : bool) (m : list (K * list A)) (last : list (K * A))
             (ds : script) :=
    ksingle_loop force (count_nonempty m) m last ds.
End Typed.

(* ==================================================================== hook universe
   items and keys are N; unkeyed hooks emit under key 0 *)
Open Scope N_scope.

Inductive hook : Type :=
| HStreamT (q : list N) (tr : option (list N))
| HStreamN (q : list N) (tr : option (list N))
| HKeyedT (m : list (N * list N)) (tr : option (list (N * N)))
| HKeyedN (m : list (N * list N)) (tr : option (list (N * N)))
| HSingle (q : list N) (tr : option (N * bool)) (last : option N)
| HPass (q : list N) (tr : option (N * bool)) (last : option N)
| HKSingle (m : list (N * list N)) (tr : option (list (N * N * bool))) (last : list (N * N)).

Definition all_empty (m : list (N * list N)) : bool := forallb (fun e => is_nil (snd e)) m.

Definition current_decision (h : hook) : option bool :=
  match h with
  | HStreamT _ tr | HStreamN _ tr => option_map (fun v => negb (is_nil v)) tr
  | HKeyedT _ tr | HKeyedN _ tr => option_map (fun v => negb (is_nil v)) tr
  | HSingle _ tr _ => option_map snd tr
  | HPass _ tr _ => option_map snd tr
  | HKSingle _ tr _ => option_map (existsb (fun e => snd e)) tr
  end.

Definition can_nontrivial (h : hook) : bool :=
  match h with
  | HStreamT q _ | HStreamN q _ => negb (is_nil q)
  | HSingle q _ _ | HPass q _ _ => negb (is_nil q)
  | HKeyedT m _ | HKeyedN m _ => negb (all_empty m)
  | HKSingle m _ _ => negb (all_empty m)
  end.

Definition is_ready (h : hook) : bool :=
  match h with
  | HSingle q _ last | HPass q _ last => negb (is_nil q) || is_some last
  | _ => true
  end.

(* autonomous_decision: new hook state, return value, unused decisions *)
Definition auto (h : hook) (force : bool) (ds : script) : res (hook * bool * script) :=
  match h with
  | HStreamT q _ =>
    bind (decide_total force q ds) (fun '(rel, q', ds', nt) => Ok (HStreamT q' (Some rel), nt, ds'))
  | HStreamN q _ =>
    bind (decide_noorder force q ds) (fun '(rel, q', ds', nt) => Ok (HStreamN q' (Some rel), nt, ds'))
  | HKeyedT m _ =>
    bind (decide_keyed_total force m ds) (fun '(rel, m', ds', nt) => Ok (HKeyedT m' (Some rel), nt, ds'))
  | HKeyedN m _ =>
    bind (decide_keyed_noorder force m ds) (fun '(rel, m', ds', nt) => Ok (HKeyedN m' (Some rel), nt, ds'))
  | HSingle q _ last =>
    bind (decide_single force q last ds) (fun '(x, is_new, _, q', ds') =>
      Ok (HSingle q' (Some (x, is_new)) last, is_new, ds'))
  | HPass q _ last =>
    match decide_pass q with
    | (Some x, q') => Ok (HPass q' (Some (x, true)) last, true, ds)
    | (None, q') =>
      (* nothing new from the fold: re-release the last value (fix 3c81bfcb4b9) *)
      match last with
      | Some l => Ok (HPass q' (Some (l, false)) last, false, ds)
      | None => Panic 3
      end
    end
  | HKSingle m _ last =>
    bind (decide_ksingle N.eqb force m last ds) (fun '(rel, m', last', ds', nt) =>
      Ok (HKSingle m' (Some rel) last', nt, ds'))
  end.

Definition unkeyed (l : list N) : list (N * N) := map (pair 0) l.

(* release_decision: new state, items sent on the output channel, and the decision's
   "non-trivial" flag (what current_decision reported for it) *)
Definition release (h : hook) : res (hook * list (N * N) * bool) :=
  match current_decision h with
  | None => Panic 1
  | Some flag =>
    match h with
    | HStreamT q (Some rel) => Ok (HStreamT q None, unkeyed rel, flag)
    | HStreamN q (Some rel) => Ok (HStreamN q None, unkeyed rel, flag)
    | HKeyedT m (Some rel) => Ok (HKeyedT m None, rel, flag)
    | HKeyedN m (Some rel) => Ok (HKeyedN m None, rel, flag)
    | HSingle q (Some (x, _)) _ => Ok (HSingle q None (Some x), unkeyed [x], flag)
    | HPass q (Some (x, _)) _ => Ok (HPass q None (Some x), unkeyed [x], flag)
    | HKSingle m (Some rel) last => Ok (HKSingle m None last, map fst rel, flag)
    | _ => Panic 1
    end
  end.

Definition hook_can_release (h : hook) : bool :=
  match current_decision h with Some b => b | None => false end || can_nontrivial h.

(* SimTick::can_run *)
Definition can_run (hs : list hook) : bool :=
  forallb is_ready hs && existsb hook_can_release hs.

(* usize decrement with overflow check (debug build) *)
Definition dec (n : nat) : res nat := match n with O => Panic 5 | S n' => Ok n' end.

(* first pass of run_hooks: (made_nontrivial, remaining_decision_count, decisions, hooks) *)
Fixpoint pass1 (hs : list hook) (made : bool) (rc : nat) (ds : script)
  : res (list hook * bool * nat * script) :=
  match hs with
  | [] => Ok ([], made, rc, ds)
  | h :: hs' =>
    bind (match current_decision h with
          | Some b => bind (dec rc) (fun rc' => Ok (h, made || b, rc', ds))
          | None =>
            if negb (can_nontrivial h) then
              bind (auto h false ds) (fun '(h', _, ds') =>
                bind (dec rc) (fun rc' => Ok (h', made, rc', ds')))
            else Ok (h, made, rc, ds)
          end) (fun '(h', made', rc', ds') =>
      bind (pass1 hs' made' rc' ds') (fun '(hs'', made'', rc'', ds'') =>
        Ok (h' :: hs'', made'', rc'', ds'')))
  end.

(* second pass: decide the undecided (forcing the last one if nothing non-trivial yet), release *)
Fixpoint pass2 (hs : list hook) (made : bool) (rc : nat) (ds : script)
  : res (list hook * list (list (N * N) * bool) * script) :=
  match hs with
  | [] => Ok ([], [], ds)
  | h :: hs' =>
    bind (match current_decision h with
          | None =>
            bind (auto h (negb made && (rc =? 1)%nat) ds) (fun '(h', nt, ds') =>
              bind (dec rc) (fun rc' => Ok (h', made || nt, rc', ds')))
          | Some _ => Ok (h, made, rc, ds)
          end) (fun '(h1, made', rc', ds') =>
      bind (release h1) (fun '(h2, out, flag) =>
        bind (pass2 hs' made' rc' ds') (fun '(hs'', outs, ds'') =>
          Ok (h2 :: hs'', (out, flag) :: outs, ds''))))
  end.

Definition run_hooks (hs : list hook) (ds : script)
  : res (list hook * list (list (N * N) * bool) * script) :=
  bind (pass1 hs false (length hs) ds) (fun '(hs1, made, rc, ds1) => pass2 hs1 made rc ds1).

(* a hook the simulator has just created or has just released: no decision pending *)
Definition idle (h : hook) : bool := negb (is_some (current_decision h)).
