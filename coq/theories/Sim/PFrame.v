(* Engine E9 "Sim": frame property of every decision procedure -- appending to the decision
   script appends to the unused rest and changes nothing else.  Used to compose decision
   strings (C37 completeness for keyed hooks and run_hooks). *)
From Coq Require Import List Arith Bool NArith Lia.
From HV Require Import Sim.Model Sim.PHooks.
Import ListNotations.
Close Scope N_scope.
Open Scope nat_scope.

Tactic Notation "inv_bind" hyp(H) "as" simple_intropattern(pat) :=
  match type of H with
  | bind ?r _ = Ok _ =>
    let E := fresh "E" in
    destruct r as [pat | | ?] eqn:E; cbn [bind] in H; [ | discriminate H | discriminate H]
  end.

Lemma ask_frame lo hi ds d r e : ask lo hi ds = Ok (d, r) -> ask lo hi (ds ++ e) = Ok (d, r ++ e).
Proof.
  unfold ask. destruct ds as [|x ds]; [discriminate|]. cbn.
  destruct ((lo <=? x) && (x <=? hi)); [|discriminate]. intro H. inversion H. reflexivity.
Qed.

Lemma ask_excl_frame lo hi ds d r e :
  ask_excl lo hi ds = Ok (d, r) -> ask_excl lo hi (ds ++ e) = Ok (d, r ++ e).
Proof. unfold ask_excl. destruct hi; [discriminate|]. apply ask_frame. Qed.

Lemma ask_bool_frame ds b r e : ask_bool ds = Ok (b, r) -> ask_bool (ds ++ e) = Ok (b, r ++ e).
Proof.
  unfold ask_bool. intro H. inv_bind H as [d r0]. inversion H; subst.
  rewrite (ask_frame _ _ _ _ _ e E). reflexivity.
Qed.

Section Frame.
  Context {A K : Type}.

  Lemma total_frame force (q : list A) ds rel rem rest nt e :
    decide_total force q ds = Ok (rel, rem, rest, nt) ->
    decide_total force q (ds ++ e) = Ok (rel, rem, rest ++ e, nt).
  Proof.
    unfold decide_total. intro H. inv_bind H as [c ds']. inversion H; subst.
    rewrite (ask_frame _ _ _ _ _ e E). reflexivity.
  Qed.

  Lemma no_loop_frame f : forall must (q : list A) mi ds s k rest e,
    no_loop f must q mi ds = Ok (s, k, rest) ->
    no_loop f must q mi (ds ++ e) = Ok (s, k, rest ++ e).
  Proof.
    induction f; intros must q mi ds s k rest e H.
    - cbn in *. inversion H; subst. reflexivity.
    - cbn [no_loop] in *. destruct (is_nil q). { inversion H; subst. reflexivity. }
      assert (Hcont : forall d1,
        bind (ask_excl mi (length q) d1) (fun '(idx, ds2) =>
          match remove_at idx q with
          | None => Panic 6
          | Some (item, q') =>
            if idx =? length q' then Ok ([item], q', ds2)
            else bind (no_loop f false q' idx ds2) (fun '(rel, q'', ds3) =>
                   Ok (item :: rel, q'', ds3))
          end) = Ok (s, k, rest) ->
        bind (ask_excl mi (length q) (d1 ++ e)) (fun '(idx, ds2) =>
          match remove_at idx q with
          | None => Panic 6
          | Some (item, q') =>
            if idx =? length q' then Ok ([item], q', ds2)
            else bind (no_loop f false q' idx ds2) (fun '(rel, q'', ds3) =>
                   Ok (item :: rel, q'', ds3))
          end) = Ok (s, k, rest ++ e)).
      { intros d1 H1. inv_bind H1 as [idx ds2]. rewrite (ask_excl_frame _ _ _ _ _ e E). cbn [bind].
        destruct (remove_at idx q) as [[item q1]|]; [|discriminate].
        destruct (idx =? length q1). { inversion H1; subst. reflexivity. }
        inv_bind H1 as [[rel1 q2] ds3]. inversion H1; subst.
        rewrite (IHf _ _ _ _ _ _ _ e E0). reflexivity. }
      destruct must; cbn [bind] in *.
      + apply Hcont; exact H.
      + inv_bind H as [stop ds1]. rewrite (ask_bool_frame _ _ _ e E). cbn [bind]. destruct stop.
        * inversion H; subst. reflexivity.
        * apply Hcont; exact H.
  Qed.

  Lemma noorder_frame force (q : list A) ds rel rem rest nt e :
    decide_noorder force q ds = Ok (rel, rem, rest, nt) ->
    decide_noorder force q (ds ++ e) = Ok (rel, rem, rest ++ e, nt).
  Proof.
    unfold decide_noorder. intro H. inv_bind H as [[rel1 q1] ds1]. inversion H; subst.
    rewrite (no_loop_frame _ _ _ _ _ _ _ _ e E). reflexivity.
  Qed.

  Lemma keyed_total_loop_frame : forall (m : list (K * list A)) force r ds rel m' rest e,
    keyed_total_loop force r m ds = Ok (rel, m', rest) ->
    keyed_total_loop force r m (ds ++ e) = Ok (rel, m', rest ++ e).
  Proof.
    induction m as [|[k q] m IH]; intros force r ds rel m' rest e H; cbn [keyed_total_loop] in *.
    - inversion H; subst. reflexivity.
    - destruct (is_nil q).
      + inv_bind H as [[rel1 m1] rest1]. inversion H; subst.
        rewrite (IH _ _ _ _ _ _ e E). reflexivity.
      + inv_bind H as [c ds1]. inv_bind H as [[rel1 m1] rest1]. inversion H; subst.
        rewrite (ask_frame _ _ _ _ _ e E). cbn [bind]. rewrite (IH _ _ _ _ _ _ e E0). reflexivity.
  Qed.

  Lemma keyed_no_loop_frame : forall (m : list (K * list A)) force r ds rel m' rest e,
    keyed_no_loop force r m ds = Ok (rel, m', rest) ->
    keyed_no_loop force r m (ds ++ e) = Ok (rel, m', rest ++ e).
  Proof.
    induction m as [|[k q] m IH]; intros force r ds rel m' rest e H; cbn [keyed_no_loop] in *.
    - inversion H; subst. reflexivity.
    - destruct (is_nil q).
      + inv_bind H as [[rel1 m1] rest1]. inversion H; subst.
        rewrite (IH _ _ _ _ _ _ e E). reflexivity.
      + inv_bind H as [[out q1] ds1]. inv_bind H as [[rel1 m1] rest1]. inversion H; subst.
        rewrite (no_loop_frame _ _ _ _ _ _ _ _ e E). cbn [bind].
        rewrite (IH _ _ _ _ _ _ e E0). reflexivity.
  Qed.

  Lemma single_frame force (q : list A) last ds x is_new sk rem rest e :
    decide_single force q last ds = Ok (x, is_new, sk, rem, rest) ->
    decide_single force q last (ds ++ e) = Ok (x, is_new, sk, rem, rest ++ e).
  Proof.
    unfold decide_single. destruct q as [|a q0].
    - destruct force; [discriminate|]. destruct last; [|discriminate].
      intro H. inversion H; subst. reflexivity.
    - assert (Hnew : forall d1, bind (ask_excl 0 (length (a :: q0)) d1) (fun '(idx, ds2) =>
                 match skipn idx (a :: q0) with
                 | x :: rest => Ok (x, true, firstn idx (a :: q0), rest, ds2)
                 | [] => Panic 6
                 end) = Ok (x, is_new, sk, rem, rest) ->
               bind (ask_excl 0 (length (a :: q0)) (d1 ++ e)) (fun '(idx, ds2) =>
                 match skipn idx (a :: q0) with
                 | x :: rest => Ok (x, true, firstn idx (a :: q0), rest, ds2)
                 | [] => Panic 6
                 end) = Ok (x, is_new, sk, rem, rest ++ e)).
      { intros d1 H. inv_bind H as [idx ds2]. rewrite (ask_excl_frame _ _ _ _ _ e E). cbn [bind].
        destruct (skipn idx (a :: q0)); [discriminate|]. inversion H; subst. reflexivity. }
      destruct last as [l|]; [destruct force|]; cbn [bind]; intro H.
      + apply Hnew; exact H.
      + inv_bind H as [re ds1]. inv_bind E as [b d2]. inversion E; subst; clear E.
        rewrite (ask_bool_frame _ _ _ e E0). cbn [bind]. destruct b.
        * inversion H; subst. reflexivity.
        * apply Hnew; exact H.
      + apply Hnew; exact H.
  Qed.

  Context (keq : K -> K -> bool).

  Lemma ksingle_loop_frame : forall (m : list (K * list A)) force r last ds rel m' last' rest nt e,
    ksingle_loop keq force r m last ds = Ok (rel, m', last', rest, nt) ->
    ksingle_loop keq force r m last (ds ++ e) = Ok (rel, m', last', rest ++ e, nt).
  Proof.
    induction m as [|[k q] m IH]; intros force r last ds rel m' last' rest nt e H;
      cbn [ksingle_loop] in *.
    - inversion H; subst. reflexivity.
    - destruct (is_nil q).
      + destruct (lookup keq k last) as [l|]; [|discriminate].
        inv_bind H as [[[[rel1 m1] last1] rest1] nt1]. inversion H; subst.
        rewrite (IH _ _ _ _ _ _ _ _ _ e E). reflexivity.
      + (* the "release a new item" tail, shared by all paths *)
        assert (Hnew : forall d2,
          bind (ask_excl 0 (length q) d2) (fun '(idx, ds3) =>
            match skipn idx q with
            | x :: qrest =>
              bind (ksingle_loop keq false (r - 1) m (insert keq k x last) ds3)
                   (fun '(rel, mrem, last', rest, nt) =>
                      Ok ((k, x, true) :: rel, (k, qrest) :: mrem, last', rest, true))
            | [] => Panic 6
            end) = Ok (rel, m', last', rest, nt) ->
          bind (ask_excl 0 (length q) (d2 ++ e)) (fun '(idx, ds3) =>
            match skipn idx q with
            | x :: qrest =>
              bind (ksingle_loop keq false (r - 1) m (insert keq k x last) ds3)
                   (fun '(rel, mrem, last', rest, nt) =>
                      Ok ((k, x, true) :: rel, (k, qrest) :: mrem, last', rest, true))
            | [] => Panic 6
            end) = Ok (rel, m', last', rest ++ e, nt)).
        { intros d2 H2. inv_bind H2 as [idx ds3]. rewrite (ask_excl_frame _ _ _ _ _ e E). cbn [bind].
          destruct (skipn idx q); [discriminate|].
          inv_bind H2 as [[[[rel1 m1] last1] rest1] nt1]. inversion H2; subst.
          rewrite (IH _ _ _ _ _ _ _ _ _ e E0). reflexivity. }
        destruct (lookup keq k last) as [l|]; cbn [is_some negb andb] in *;
          destruct (force && (r - 1 =? 0)); cbn [bind negb andb] in *.
        * apply Hnew; exact H.
        * inv_bind H as [re ds1]. inv_bind E as [b d2]. inversion E; subst; clear E.
          rewrite (ask_bool_frame _ _ _ e E0). cbn [bind]. destruct b.
          -- inv_bind H as [[[[rel1 m1] last1] rest1] nt1]. inversion H; subst.
             rewrite (IH _ _ _ _ _ _ _ _ _ e E). reflexivity.
          -- cbn [bind] in *. apply Hnew; exact H.
        * apply Hnew; exact H.
        * inv_bind H as [null ds2]. rewrite (ask_bool_frame _ _ _ e E). cbn [bind]. destruct null.
          -- inv_bind H as [[[[rel1 m1] last1] rest1] nt1]. inversion H; subst.
             rewrite (IH _ _ _ _ _ _ _ _ _ e E0). reflexivity.
          -- apply Hnew; exact H.
  Qed.
End Frame.

Lemma auto_frame h force ds h1 nt rest e :
  auto h force ds = Ok (h1, nt, rest) -> auto h force (ds ++ e) = Ok (h1, nt, rest ++ e).
Proof.
  destruct h; cbn [auto]; intro H.
  - inv_bind H as [[[rel q'] ds'] nt']. inversion H; subst.
    rewrite (total_frame _ _ _ _ _ _ _ e E). reflexivity.
  - inv_bind H as [[[rel q'] ds'] nt']. inversion H; subst.
    rewrite (noorder_frame _ _ _ _ _ _ _ e E). reflexivity.
  - unfold decide_keyed_total in *. inv_bind H as [[[rel q'] ds'] nt'].
    inv_bind E as [[rel1 m1] ds1]. inversion E; subst. inversion H; subst.
    rewrite (keyed_total_loop_frame _ _ _ _ _ _ _ e E0). reflexivity.
  - unfold decide_keyed_noorder in *. inv_bind H as [[[rel q'] ds'] nt'].
    inv_bind E as [[rel1 m1] ds1]. inversion E; subst. inversion H; subst.
    rewrite (keyed_no_loop_frame _ _ _ _ _ _ _ e E0). reflexivity.
  - inv_bind H as [[[[x is_new] sk] q'] ds']. inversion H; subst.
    rewrite (single_frame _ _ _ _ _ _ _ _ _ e E). reflexivity.
  - destruct (decide_pass q) as [[x|] q']; [|destruct last]; inversion H; subst; reflexivity.
  - unfold decide_ksingle in *. inv_bind H as [[[[rel q'] last'] ds'] nt']. inversion H; subst.
    rewrite (ksingle_loop_frame _ _ _ _ _ _ _ _ _ _ _ e E). reflexivity.
Qed.
