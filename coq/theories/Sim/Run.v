(* Engine E9 "Sim": executable correspondence layer.
   Runs the model on a case (hook description + rounds of push / decide / release), compares
   with the implementation's observed outputs, and evaluates the executable form of C36 on the
   *implementation's* outputs.  Verdict bits: 1 = model/implementation disagree,
   2 = property C36 false on the implementation's outputs.  Definitions only. *)
From Coq Require Import List Arith Bool NArith Lia.
From HV Require Import Sim.Model.
Import ListNotations.
Open Scope N_scope.

(* ------------------------------------------------------------------ boolean equalities *)
Fixpoint list_eqb {X} (e : X -> X -> bool) (a b : list X) : bool :=
  match a, b with
  | [], [] => true
  | x :: a', y :: b' => e x y && list_eqb e a' b'
  | _, _ => false
  end.
Definition opt_eqb {X} (e : X -> X -> bool) (a b : option X) : bool :=
  match a, b with
  | None, None => true
  | Some x, Some y => e x y
  | _, _ => false
  end.
Definition pair_eqb {X Y} (e : X -> X -> bool) (f : Y -> Y -> bool) (a b : X * Y) : bool :=
  e (fst a) (fst b) && f (snd a) (snd b).
Definition ln_eqb := list_eqb N.eqb.
Definition kv_eqb := list_eqb (pair_eqb N.eqb N.eqb).
Definition map_eqb := list_eqb (pair_eqb N.eqb ln_eqb).

(* ------------------------------------------------------------------ executable specs *)
(* [merge_b s k l]: l is an order-preserving interleaving of s and k (boolean Merge) *)
Fixpoint merge_b (s k l : list N) : bool :=
  match l with
  | [] => is_nil s && is_nil k
  | x :: l' =>
    (match s with y :: s' => N.eqb x y && merge_b s' k l' | [] => false end)
    || (match k with y :: k' => N.eqb x y && merge_b s k' l' | [] => false end)
  end.

Definition prefix_split_b (s k l : list N) : bool := ln_eqb (s ++ k) l.

Definition vals_of (k : N) (l : list (N * N)) : list N :=
  map snd (filter (fun e => N.eqb (fst e) k) l).

Fixpoint qlookup (k : N) (m : list (N * list N)) : option (list N) :=
  match m with
  | [] => None
  | (k', q) :: m' => if N.eqb k k' then Some q else qlookup k m'
  end.

(* per key: [spec (emitted for k) (after k) (before k)]; same keys in the same order; nothing
   emitted under a key that is not there *)
Definition keyed_sound_b (spec : list N -> list N -> list N -> bool)
           (before : list (N * list N)) (emitted : list (N * N)) (after : list (N * list N)) : bool :=
  ln_eqb (map fst before) (map fst after)
  && forallb (fun e => match qlookup (fst e) after with
                       | Some qa => spec (vals_of (fst e) emitted) qa (snd e)
                       | None => false
                       end) before
  && forallb (fun e => is_some (qlookup (fst e) before)) emitted.

(* snapshot: the released value is the last released one and nothing was consumed, or it is an
   element of the pending queue, everything before it is dropped and everything after is kept *)
Fixpoint suffix_after (x : N) (after q : list N) : bool :=
  match q with
  | [] => false
  | y :: q' => (N.eqb x y && ln_eqb after q') || suffix_after x after q'
  end.
Definition single_sound_b (last : option N) (before : list N) (x : N) (after : list N) : bool :=
  (opt_eqb N.eqb last (Some x) && ln_eqb after before) || suffix_after x after before.

(* ------------------------------------------------------------------ hook state helpers *)
Definition queues_of (h : hook) : list (N * list N) :=
  match h with
  | HStreamT q _ | HStreamN q _ => [(0, q)]
  | HSingle q _ _ | HPass q _ _ => [(0, q)]
  | HKeyedT m _ | HKeyedN m _ => m
  | HKSingle m _ _ => m
  end.

Definition with_queues (h : hook) (m : list (N * list N)) : hook :=
  match h with
  | HKeyedT _ tr => HKeyedT m tr
  | HKeyedN _ tr => HKeyedN m tr
  | HKSingle _ tr last => HKSingle m tr last
  | _ => h
  end.

(* buffered.entry(k).or_default().push_back(v); a new key goes to the end of the list, the
   order oracle ([reorder]) then places it *)
Fixpoint mpush (k v : N) (m : list (N * list N)) : list (N * list N) :=
  match m with
  | [] => [(k, [v])]
  | (k', q) :: m' => if N.eqb k k' then (k', q ++ [v]) :: m' else (k', q) :: mpush k v m'
  end.

Definition push1 (h : hook) (kv : N * N) : hook :=
  let '(k, v) := kv in
  match h with
  | HStreamT q tr => HStreamT (q ++ [v]) tr
  | HStreamN q tr => HStreamN (q ++ [v]) tr
  | HSingle q tr last => HSingle (q ++ [v]) tr last
  | HPass q tr last => HPass (q ++ [v]) tr last
  | HKeyedT m tr => HKeyedT (mpush k v m) tr
  | HKeyedN m tr => HKeyedN (mpush k v m) tr
  | HKSingle m tr last => HKSingle (mpush k v m) tr last
  end.

(* the order oracle: present the map's entries in the order [ks] (the implementation's
   iteration order); None if [ks] is not a duplicate-free enumeration of the keys *)
Fixpoint reorder (m : list (N * list N)) (ks : list N) : option (list (N * list N)) :=
  match ks with
  | [] => Some []
  | k :: ks' =>
    match qlookup k m, reorder m ks' with
    | Some q, Some r => if existsb (N.eqb k) ks' then None else Some ((k, q) :: r)
    | _, _ => None
    end
  end.

Definition apply_order (h : hook) (ks : list N) : option hook :=
  match h with
  | HKeyedT m _ | HKeyedN m _ | HKSingle m _ _ =>
    if Nat.eqb (length ks) (length m) then option_map (with_queues h) (reorder m ks) else None
  | _ => Some h
  end.

(* ------------------------------------------------------------------ observations *)
Inductive obs : Type :=
| OOk (before : list (N * list N)) (cur0 : option bool) (can0 ready0 ret : bool)
      (cur1 : option bool) (emitted : list (N * N)) (after : list (N * list N)) (used : nat)
| OBad
| OPanic (code : nat) (at_release : bool).

Definition obs_eqb (a b : obs) : bool :=
  match a, b with
  | OOk b1 c1 n1 r1 t1 d1 e1 a1 u1, OOk b2 c2 n2 r2 t2 d2 e2 a2 u2 =>
    map_eqb b1 b2 && opt_eqb Bool.eqb c1 c2 && Bool.eqb n1 n2 && Bool.eqb r1 r2 && Bool.eqb t1 t2
    && opt_eqb Bool.eqb d1 d2 && kv_eqb e1 e2 && map_eqb a1 a2 && Nat.eqb u1 u2
  | OBad, OBad => true
  | OPanic c1 r1, OPanic c2 r2 => Nat.eqb c1 c2 && Bool.eqb r1 r2
  | _, _ => false
  end.

(* one round on one hook: autonomous_decision(force) with script ds, then release_decision *)
Definition model_round (h : hook) (force : bool) (ds : script) : obs * option hook :=
  match auto h force ds with
  | BadScript => (OBad, None)
  | Panic c => (OPanic c false, None)
  | Ok (h1, ret, rest) =>
    match release h1 with
    | Ok (h2, out, _) =>
      (OOk (queues_of h) (current_decision h) (can_nontrivial h) (is_ready h) ret
           (current_decision h1) out (queues_of h1) (length ds - length rest), Some h2)
    | BadScript => (OBad, None)
    | Panic c => (OPanic c true, None)
    end
  end.

(* the call respects the caller's contract (run_hooks / can_run establish it): forcing only
   where a non-trivial decision is possible, singleton ready, every key of a keyed singleton
   with an empty queue has a last released value *)
Definition ksingle_wf (m : list (N * list N)) (last : list (N * N)) : bool :=
  forallb (fun e => negb (is_nil (snd e)) || is_some (lookup N.eqb (fst e) last)) m.
Definition legit_call (h : hook) (force : bool) : bool :=
  (negb force || can_nontrivial h) && is_ready h
  && match h with
     | HKSingle m _ last => ksingle_wf m last
     | _ => true
     end.

(* every key of a keyed singleton emits at most once and soundly *)
Definition ksingle_sound_b (last : list (N * N)) (before : list (N * list N))
           (emitted : list (N * N)) (after : list (N * list N)) : bool :=
  ln_eqb (map fst before) (map fst after)
  && forallb (fun e => match qlookup (fst e) after with
                       | Some qa =>
                         match vals_of (fst e) emitted with
                         | [] => ln_eqb qa (snd e)
                         | [x] => single_sound_b (lookup N.eqb (fst e) last) (snd e) x qa
                         | _ => false
                         end
                       | None => false
                       end) before
  && forallb (fun e => is_some (qlookup (fst e) before)) emitted.

Definition q0 (m : list (N * list N)) : list N := match m with [(_, q)] => q | _ => [] end.

(* did the decision consume anything from the pending input (= something new was released) *)
Definition consumed (before after : list (N * list N)) : bool :=
  negb (Nat.eqb (length (concat (map snd before))) (length (concat (map snd after)))).

(* C36 on one hook's observed (before, emitted, after); [h] gives the kind and last values *)
Definition hook_sound_b (h : hook) (before : list (N * list N)) (emitted : list (N * N))
           (after : list (N * list N)) : bool :=
  match h with
  | HStreamT _ _ => prefix_split_b (map snd emitted) (q0 after) (q0 before)
  | HStreamN _ _ => merge_b (map snd emitted) (q0 after) (q0 before)
  | HKeyedT _ _ => keyed_sound_b prefix_split_b before emitted after
  | HKeyedN _ _ => keyed_sound_b merge_b before emitted after
  | HSingle _ _ last =>
    match emitted with
    | [(_, x)] => single_sound_b last (q0 before) x (q0 after)
    | _ => false
    end
  | HPass _ _ last =>
    (* the newest pending value and an emptied buffer, or (nothing pending) the last value *)
    match emitted with
    | [(_, x)] =>
      is_nil (q0 after)
      && match rev (q0 before) with
         | y :: _ => N.eqb x y
         | [] => opt_eqb N.eqb last (Some x)
         end
    | _ => false
    end
  | HKSingle _ _ last => ksingle_sound_b last before emitted after
  end.

Definition C36_hook_b (h : hook) (force : bool) (o : obs) : bool :=
  if legit_call h force then
    match o with
    | OOk before _ can0 _ ret _ emitted after _ =>
      hook_sound_b h before emitted after
      && Bool.eqb ret (consumed before after)
      && (negb force || consumed before after)
    | OBad => true
    | OPanic _ _ => false
    end
  else true.

(* a round as the case file gives it: pushes, the implementation's key order, force, script,
   and the implementation's observation *)
Record round := { r_push : list (N * N); r_order : list N; r_force : bool; r_ds : script; r_obs : obs }.

Fixpoint run_rounds (h : hook) (rs : list round) : N :=
  match rs with
  | [] => 0
  | r :: rs' =>
    let h1 := fold_left push1 r.(r_push) h in
    match apply_order h1 r.(r_order) with
    | None => 1
    | Some h2 =>
      let '(o, next) := model_round h2 r.(r_force) r.(r_ds) in
      let v := (if obs_eqb o r.(r_obs) then 0 else 1)
               + (if C36_hook_b h2 r.(r_force) r.(r_obs) then 0 else 2) in
      match next with
      | Some h3 => if N.eqb v 0 then run_rounds h3 rs' else v
      | None => v
      end
    end
  end.

(* ------------------------------------------------------------------ run_hooks (a tick) *)
Inductive tobs : Type :=
| TOk (before : list (list (N * list N))) (can_run : bool) (info : list (option bool * bool * bool))
      (emitted : list (list (N * N))) (after : list (list (N * list N))) (used : nat)
| TBad
| TPanic (code : nat) (before : list (list (N * list N))) (can_run : bool).

Definition info_eqb (a b : option bool * bool * bool) : bool :=
  opt_eqb Bool.eqb (fst (fst a)) (fst (fst b)) && Bool.eqb (snd (fst a)) (snd (fst b))
  && Bool.eqb (snd a) (snd b).

Definition tobs_eqb (a b : tobs) : bool :=
  match a, b with
  | TOk b1 c1 i1 e1 a1 u1, TOk b2 c2 i2 e2 a2 u2 =>
    list_eqb map_eqb b1 b2 && Bool.eqb c1 c2 && list_eqb info_eqb i1 i2 && list_eqb kv_eqb e1 e2
    && list_eqb map_eqb a1 a2 && Nat.eqb u1 u2
  | TBad, TBad => true
  | TPanic c1 b1 r1, TPanic c2 b2 r2 => Nat.eqb c1 c2 && list_eqb map_eqb b1 b2 && Bool.eqb r1 r2
  | _, _ => false
  end.

Definition model_tick (hs : list hook) (ds : script) : tobs * option (list hook) :=
  match run_hooks hs ds with
  | BadScript => (TBad, None)
  | Panic c => (TPanic c (map queues_of hs) (can_run hs), None)
  | Ok (hs', outs, rest) =>
    (TOk (map queues_of hs) (can_run hs)
         (map (fun h => (current_decision h, can_nontrivial h, is_ready h)) hs)
         (map fst outs) (map queues_of hs') (length ds - length rest), Some hs')
  end.

Fixpoint zip3_forallb {X Y Z W} (f : X -> Y -> Z -> W -> bool)
         (a : list X) (b : list Y) (c : list Z) (d : list W) : bool :=
  match a, b, c, d with
  | [], [], [], [] => true
  | x :: a', y :: b', z :: c', w :: d' => f x y z w && zip3_forallb f a' b' c' d'
  | _, _, _, _ => false
  end.
Fixpoint zip2_existsb {X Y} (f : X -> Y -> bool) (a : list X) (b : list Y) : bool :=
  match a, b with
  | x :: a', y :: b' => f x y || zip2_existsb f a' b'
  | _, _ => false
  end.

Definition ksingle_wf_hook (h : hook) : bool :=
  match h with HKSingle m _ last => ksingle_wf m last | _ => true end.

(* the scheduler runs a tick's hooks only when [can_run]; hooks are idle then *)
Definition legit_tick (hs : list hook) : bool :=
  forallb idle hs && can_run hs && forallb ksingle_wf_hook hs.

(* C36 on a tick: every hook's release is sound, and the tick releases something new *)
Definition C36_tick_b (hs : list hook) (o : tobs) : bool :=
  if legit_tick hs then
    match o with
    | TOk before _ _ emitted after _ =>
      zip3_forallb hook_sound_b hs before emitted after
      && zip2_existsb consumed before after
    | TBad => true
    | TPanic _ _ _ => false
    end
  else true.

Record tround := { t_push : list (nat * (N * N)); t_order : list (list N); t_ds : script; t_obs : tobs }.

Fixpoint push_nth (hs : list hook) (i : nat) (kv : N * N) : list hook :=
  match hs, i with
  | [], _ => []
  | h :: hs', O => push1 h kv :: hs'
  | h :: hs', S i' => h :: push_nth hs' i' kv
  end.

Fixpoint apply_orders (hs : list hook) (os : list (list N)) : option (list hook) :=
  match hs, os with
  | [], [] => Some []
  | h :: hs', o :: os' =>
    match apply_order h o, apply_orders hs' os' with
    | Some h', Some r => Some (h' :: r)
    | _, _ => None
    end
  | _, _ => None
  end.

Fixpoint run_trounds (hs : list hook) (rs : list tround) : N :=
  match rs with
  | [] => 0
  | r :: rs' =>
    let hs1 := fold_left (fun a p => push_nth a (fst p) (snd p)) r.(t_push) hs in
    match apply_orders hs1 r.(t_order) with
    | None => 1
    | Some hs2 =>
      let '(o, next) := model_tick hs2 r.(t_ds) in
      let v := (if tobs_eqb o r.(t_obs) then 0 else 1)
               + (if C36_tick_b hs2 r.(t_obs) then 0 else 2) in
      match next with
      | Some hs3 => if N.eqb v 0 then run_trounds hs3 rs' else v
      | None => v
      end
    end
  end.

(* verdict list -> (index, nonzero verdict) *)
Fixpoint bad_from (n : N) (l : list N) : list (N * N) :=
  match l with
  | [] => []
  | v :: r => if N.eqb v 0 then bad_from (n + 1) r else (n, v) :: bad_from (n + 1) r
  end.
Definition bad (l : list N) : list (N * N) := bad_from 0 l.
