(* Engine E9 "Sim": completeness of the decision space for the keyed hooks and the keyed
   singleton, and a uniform per-hook statement [auto_complete] (C37). *)
From Coq Require Import List Arith Bool NArith Lia Permutation.
From HV Require Import Sim.Model Sim.PHooks Sim.PTick Sim.PComplete Sim.PFrame.
Import ListNotations.
Close Scope N_scope.
Open Scope nat_scope.

Section Keyed.
  Context {A K : Type}.

  Lemma KeyedSplit_empty_rel (P : list A -> list A -> list A -> Prop) (m : list (K * list A)) rel m' :
    (forall r q', P r q' [] -> r = []) ->
    KeyedSplit P m rel m' -> count_nonempty m = 0 -> rel = [].
  Proof.
    intros HP. induction 1 as [|k q r q' m rel m' Hp HS IH]; intro Hc; [reflexivity|].
    rewrite count_nonempty_cons in Hc. destruct q as [|a q]; cbn in Hc; [|lia].
    apply HP in Hp. subst r. cbn. auto.
  Qed.

  Lemma PrefixSplit_nil (r q' : list A) : PrefixSplit r q' [] -> r = [].
  Proof. unfold PrefixSplit. intro H. symmetry in H. apply app_eq_nil in H. tauto. Qed.

  Lemma Merge_nil (r q' : list A) : Merge r q' [] -> r = [].
  Proof. intro H. apply Merge_inv_nil in H. tauto. Qed.

  Lemma keyed_total_complete (m : list (K * list A)) rel m' :
    KeyedSplit PrefixSplit m rel m' ->
    forall force r, r = count_nonempty m ->
    (force = true -> rel <> [] \/ r = 0) ->
    exists ds, keyed_total_loop force r m ds = Ok (rel, m', []).
  Proof.
    induction 1 as [|k q r0 q' m rel m' HP HS IH]; intros force r Hr Hf.
    - exists []. reflexivity.
    - rewrite count_nonempty_cons in Hr. cbn [keyed_total_loop]. unfold PrefixSplit in HP.
      destruct q as [|a q1] eqn:Eq.
      + symmetry in HP. apply app_eq_nil in HP. destruct HP as [-> ->].
        cbn [is_nil] in *. destruct (IH force r) as (ds & Hds); [cbn in Hr; lia| |].
        { intro Hfo. destruct (Hf Hfo); auto. }
        exists ds. rewrite Hds. reflexivity.
      + rewrite <- Eq in *. assert (En : is_nil q = false) by (subst q; reflexivity).
        rewrite En in *. cbn [Nat.add] in Hr.
        assert (Hr' : r - 1 = count_nonempty m) by lia.
        set (d := length r0).
        set (force' := if d =? 0 then force else false).
        destruct (IH force' (r - 1) Hr') as (ds & Hds).
        { unfold force', d. destruct (length r0 =? 0) eqn:Ed; [|discriminate].
          intro Hfo. apply Nat.eqb_eq in Ed. destruct r0; [|discriminate].
          destruct (Hf Hfo) as [Hn|Hz]; [left; exact Hn|lia]. }
        exists (d :: ds).
        assert (Hask : ask (if force && (r - 1 =? 0) then 1 else 0) (length q) (d :: ds) = Ok (d, ds)).
        { apply ask_complete. unfold d. rewrite HP, app_length. split; [|lia].
          destruct force; cbn [andb]; [|lia]. destruct (r - 1 =? 0) eqn:Ez; [|lia].
          apply Nat.eqb_eq in Ez.
          assert (rel = []).
          { eapply KeyedSplit_empty_rel; [apply PrefixSplit_nil|exact HS|lia]. }
          subst rel. destruct (Hf eq_refl) as [Hn|Hz]; [|lia].
          destruct r0; [exfalso; apply Hn; reflexivity|cbn; lia]. }
        rewrite Hask. cbn [bind]. fold force'. rewrite Hds. cbn [bind].
        unfold d. rewrite HP. rewrite firstn_app, Nat.sub_diag, firstn_all. cbn [firstn].
        rewrite app_nil_r. rewrite skipn_app, Nat.sub_diag, skipn_all. reflexivity.
  Qed.

  Lemma keyed_no_complete (m : list (K * list A)) rel m' :
    KeyedSplit Merge m rel m' ->
    forall force r, r = count_nonempty m ->
    (force = true -> rel <> [] \/ r = 0) ->
    exists ds, keyed_no_loop force r m ds = Ok (rel, m', []).
  Proof.
    induction 1 as [|k q r0 q' m rel m' HP HS IH]; intros force r Hr Hf.
    - exists []. reflexivity.
    - rewrite count_nonempty_cons in Hr. cbn [keyed_no_loop].
      destruct q as [|a q1] eqn:Eq.
      + apply Merge_inv_nil in HP. destruct HP as [-> ->].
        cbn [is_nil] in *. destruct (IH force r) as (ds & Hds); [cbn in Hr; lia| |].
        { intro Hfo. destruct (Hf Hfo); auto. }
        exists ds. rewrite Hds. reflexivity.
      + rewrite <- Eq in *. assert (En : is_nil q = false) by (subst q; reflexivity).
        rewrite En in *. cbn [Nat.add] in Hr.
        assert (Hr' : r - 1 = count_nonempty m) by lia.
        set (force' := if is_nil r0 then force else false).
        destruct (IH force' (r - 1) Hr') as (ds & Hds).
        { unfold force'. destruct r0; [|discriminate]. cbn [is_nil].
          intro Hfo. destruct (Hf Hfo) as [Hn|Hz]; [left; exact Hn|lia]. }
        destruct (no_loop_complete (length q) (force && (r - 1 =? 0)) q 0 r0 q') as (de & Hde);
          [lia|lia|exact HP| |].
        { intro Hm. apply andb_true_iff in Hm. destruct Hm as [-> Ez]. apply Nat.eqb_eq in Ez.
          assert (rel = []).
          { eapply KeyedSplit_empty_rel; [apply Merge_nil|exact HS|lia]. }
          subst rel. destruct (Hf eq_refl) as [Hn|Hz]; [|lia].
          left. destruct r0; [exfalso; apply Hn; reflexivity|discriminate]. }
        exists (de ++ ds). rewrite (no_loop_frame _ _ _ _ _ _ _ _ ds Hde). cbn [bind app firstn].
        fold force'. rewrite Hds. reflexivity.
  Qed.
End Keyed.

(* ------------------------------------------------------------------ keyed singleton *)
Section KSingleComplete.
  Context {A K : Type} (keq : K -> K -> bool).

  Definition ks_last (last : list (K * A)) (rel : list (K * A * bool)) : list (K * A) :=
    fold_left (fun (l : list (K * A)) (e : K * A * bool) =>
                 if snd e then insert keq (fst (fst e)) (snd (fst e)) l else l) rel last.

  Lemma KSplit_empty_flag last (m : list (K * list A)) rel m' :
    KSplit keq last m rel m' -> count_nonempty m = 0 -> existsb (fun e => snd e) rel = false.
  Proof.
    induction 1; intro Hc; try reflexivity; rewrite count_nonempty_cons in Hc.
    - cbn. apply IHKSplit. destruct (is_nil q); cbn in Hc; lia.
    - destruct q; [congruence|]. cbn in Hc. lia.
    - subst q. destruct skipped; cbn in Hc; lia.
  Qed.

  Lemma ksingle_complete last (m : list (K * list A)) rel m' :
    KSplit keq last m rel m' ->
    forall force r, r = count_nonempty m ->
    (force = true -> existsb (fun e => snd e) rel = true \/ r = 0) ->
    exists ds, ksingle_loop keq force r m last ds
               = Ok (rel, m', ks_last last rel, [], existsb (fun e => snd e) rel).
  Proof.
    induction 1 as [last|last k q l m rel m' Hl HS IH|last k q m rel m' Hq Hl HS IH
                    |last k q skipped x q' m rel m' Hq HS IH]; intros force r Hr Hf.
    - exists []. reflexivity.
    - (* unchanged re-release *)
      rewrite count_nonempty_cons in Hr. cbn [ksingle_loop]. destruct (is_nil q) eqn:En.
      + rewrite Hl. destruct (IH force r) as (ds & Hds); [cbn in Hr; lia| |].
        { intro Hfo. destruct (Hf Hfo); auto. }
        exists ds. rewrite Hds. reflexivity.
      + cbn [Nat.add] in Hr. assert (Hr' : r - 1 = count_nonempty m) by lia.
        assert (Hdo : force && (r - 1 =? 0) = false).
        { destruct force; [|reflexivity]. cbn [andb]. apply Nat.eqb_neq. intro Hz.
          destruct (Hf eq_refl) as [Hn|Hz']; [|lia]. cbn in Hn.
          rewrite (KSplit_empty_flag _ _ _ _ HS) in Hn by lia. discriminate. }
        destruct (IH force (r - 1) Hr') as (ds & Hds).
        { intro Hfo. destruct (Hf Hfo) as [Hn|Hz]; [left; exact Hn|lia]. }
        exists (1 :: ds). rewrite Hl, Hdo. cbn [ask_bool ask bind Nat.leb andb Nat.eqb].
        rewrite Hds. reflexivity.
    - (* key not yet in the snapshot: no release *)
      rewrite count_nonempty_cons in Hr. cbn [ksingle_loop].
      assert (En : is_nil q = false) by (destruct q; [congruence|reflexivity]).
      rewrite En in *. cbn [Nat.add] in Hr. assert (Hr' : r - 1 = count_nonempty m) by lia.
      assert (Hdo : force && (r - 1 =? 0) = false).
      { destruct force; [|reflexivity]. cbn [andb]. apply Nat.eqb_neq. intro Hz.
        destruct (Hf eq_refl) as [Hn|Hz']; [|lia].
        rewrite (KSplit_empty_flag _ _ _ _ HS) in Hn by lia. discriminate. }
      destruct (IH force (r - 1) Hr') as (ds & Hds).
      { intro Hfo. destruct (Hf Hfo) as [Hn|Hz]; [left; exact Hn|lia]. }
      exists (1 :: ds). rewrite Hl, Hdo. cbn [bind is_some negb andb ask_bool ask Nat.leb Nat.eqb].
      rewrite Hds. reflexivity.
    - (* a new value *)
      rewrite count_nonempty_cons in Hr. cbn [ksingle_loop].
      assert (En : is_nil q = false) by (subst q; destruct skipped; reflexivity).
      rewrite En in *. cbn [Nat.add] in Hr. assert (Hr' : r - 1 = count_nonempty m) by lia.
      destruct (IH false (r - 1) Hr') as (ds & Hds); [discriminate|].
      assert (Hidx : ask_excl 0 (length q) (length skipped :: ds) = Ok (length skipped, ds)).
      { apply ask_excl_complete. subst q. rewrite app_length. cbn. lia. }
      assert (Hsk : skipn (length skipped) q = x :: q').
      { subst q. rewrite skipn_app, Nat.sub_diag, skipn_all. reflexivity. }
      exists ((if force && (r - 1 =? 0) then [] else [0]) ++ length skipped :: ds).
      destruct (lookup keq k last) as [l|]; destruct (force && (r - 1 =? 0));
        cbn [app bind is_some negb andb ask_bool ask Nat.leb Nat.eqb];
        rewrite Hidx; cbn [bind]; rewrite Hsk, Hds; reflexivity.
  Qed.
End KSingleComplete.

(* ------------------------------------------------------------------ uniform per-hook spec
   [hook_spec h h' nt]: h' is h after one admissible decision (a demanded schedule of h), with
   non-trivial flag nt.  Written without reference to [auto]. *)
Open Scope N_scope.
Inductive hook_spec : hook -> hook -> bool -> Prop :=
| HS_T q rel rem : q = rel ++ rem ->
    hook_spec (HStreamT q None) (HStreamT rem (Some rel)) (negb (is_nil rel))
| HS_N q rel rem : Merge rel rem q ->
    hook_spec (HStreamN q None) (HStreamN rem (Some rel)) (negb (is_nil rel))
| HS_KT m rel m' : KeyedSplit PrefixSplit m rel m' ->
    hook_spec (HKeyedT m None) (HKeyedT m' (Some rel)) (negb (is_nil rel))
| HS_KN m rel m' : KeyedSplit Merge m rel m' ->
    hook_spec (HKeyedN m None) (HKeyedN m' (Some rel)) (negb (is_nil rel))
| HS_S_old q l :
    hook_spec (HSingle q None (Some l)) (HSingle q (Some (l, false)) (Some l)) false
| HS_S_new pre x post last :
    hook_spec (HSingle (pre ++ x :: post) None last) (HSingle post (Some (x, true)) last) true
| HS_P pre x last :
    hook_spec (HPass (pre ++ [x]) None last) (HPass [] (Some (x, true)) last) true
| HS_P_old l :
    hook_spec (HPass [] None (Some l)) (HPass [] (Some (l, false)) (Some l)) false
| HS_KS m rel m' last : KSplit N.eqb last m rel m' ->
    hook_spec (HKSingle m None last) (HKSingle m' (Some rel) (ks_last N.eqb last rel))
              (existsb (fun e => snd e) rel).
Close Scope N_scope.

Lemma count_all_empty (m : list (N * list N)) : count_nonempty m = 0 -> all_empty m = true.
Proof.
  induction m as [|[k q] m IH]; [reflexivity|]. rewrite count_nonempty_cons.
  unfold all_empty in *. cbn [forallb snd]. destruct q; cbn; [auto|lia].
Qed.

(* every demanded schedule of a hook is produced by some valid decision string, also under
   force_nontrivial provided it is non-trivial *)
Theorem auto_complete h h' nt :
  hook_spec h h' nt -> forall force, (force = true -> nt = true) ->
  exists ds, auto h force ds = Ok (h', nt, []).
Proof.
  destruct 1; intros force Hf; cbn [auto].
  - exists [length rel]. rewrite (total_complete force q rel rem); auto.
    intro Hfo. apply Hf in Hfo. destruct rel; [discriminate|discriminate].
  - destruct (noorder_complete force q rel rem H) as (ds & Hds).
    { intro Hfo. apply Hf in Hfo. left. destruct rel; discriminate. }
    exists ds. rewrite Hds. reflexivity.
  - destruct (keyed_total_complete m rel m' H force _ eq_refl) as (ds & Hds).
    { intro Hfo. apply Hf in Hfo. left. destruct rel; discriminate. }
    exists ds. unfold decide_keyed_total. rewrite Hds. reflexivity.
  - destruct (keyed_no_complete m rel m' H force _ eq_refl) as (ds & Hds).
    { intro Hfo. apply Hf in Hfo. left. destruct rel; discriminate. }
    exists ds. unfold decide_keyed_noorder. rewrite Hds. reflexivity.
  - destruct force; [specialize (Hf eq_refl); discriminate|].
    destruct q as [|a q].
    + exists []. reflexivity.
    + exists [1]. reflexivity.
  - destruct (single_complete_new force pre post x last) as (ds & Hds).
    exists ds. rewrite Hds. reflexivity.
  - exists []. unfold decide_pass. rewrite rev_app_distr. reflexivity.
  - destruct force; [specialize (Hf eq_refl); discriminate|]. exists []. reflexivity.
  - destruct (ksingle_complete N.eqb last m rel m' H force _ eq_refl) as (ds & Hds).
    { intro Hfo. left. auto. }
    exists ds. unfold decide_ksingle. rewrite Hds. reflexivity.
Qed.

