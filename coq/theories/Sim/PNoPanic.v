(* Engine E9 "Sim": run_hooks never panics on a tick the scheduler reports runnable (C36),
   for the code after fix 3c81bfcb4b9 (PassthroughSingletonHook re-releases its last value). *)
From Coq Require Import List Arith Bool NArith Lia.
From HV Require Import Sim.Model Sim.PHooks Sim.PTick Sim.Run.
Import ListNotations.
Close Scope N_scope.
Open Scope nat_scope.

Tactic Notation "inv_bind" hyp(H) "as" simple_intropattern(pat) :=
  match type of H with
  | bind ?r _ = Ok _ =>
    let E := fresh "E" in
    destruct r as [pat | | ?] eqn:E; cbn [bind] in H; [ | discriminate H | discriminate H]
  end.

Definition NP {X} (r : res X) : Prop := match r with Panic _ => False | _ => True end.

Lemma NP_bind {X Y} (r : res X) (f : X -> res Y) :
  NP r -> (forall x, r = Ok x -> NP (f x)) -> NP (bind r f).
Proof. destruct r; cbn; auto. Qed.

Lemma NP_ask lo hi ds : NP (ask lo hi ds).
Proof. unfold ask. destruct ds; cbn; auto. destruct (_ && _); cbn; auto. Qed.

Lemma NP_ask_excl lo hi ds : NP (ask_excl lo hi ds).
Proof. unfold ask_excl. destruct hi; cbn; auto. apply NP_ask. Qed.

Lemma NP_ask_bool ds : NP (ask_bool ds).
Proof. unfold ask_bool. apply NP_bind; [apply NP_ask|]. intros [d r] _. exact I. Qed.

Lemma remove_at_lt {X} : forall idx (q : list X), idx < length q -> exists x q', remove_at idx q = Some (x, q').
Proof.
  induction idx; intros [|y q] H; cbn in *; try lia; eauto.
  destruct (IHidx q) as (x & q' & ->); [lia|]. eauto.
Qed.

Lemma skipn_lt {X} idx (q : list X) : idx < length q -> exists x r, skipn idx q = x :: r.
Proof.
  intro H. destruct (skipn idx q) eqn:E; eauto.
  apply (f_equal (@length X)) in E. rewrite skipn_length in E. cbn in E. lia.
Qed.

Section Typed.
  Context {A K : Type}.

  Lemma NP_total force (q : list A) ds : NP (decide_total force q ds).
  Proof. unfold decide_total. apply NP_bind; [apply NP_ask|]. intros [c d] _. exact I. Qed.

  Lemma NP_no_loop f : forall must (q : list A) mi ds, NP (no_loop f must q mi ds).
  Proof.
    induction f; intros must q mi ds; cbn [no_loop]; [exact I|].
    destruct (is_nil q); [exact I|]. apply NP_bind.
    { destruct must; [exact I|apply NP_ask_bool]. }
    intros [stop ds1] _. destruct stop; [exact I|].
    apply NP_bind; [apply NP_ask_excl|]. intros [idx ds2] E. apply ask_excl_ok in E.
    destruct E as [_ Hi]. destruct (remove_at_lt idx q) as (x & q' & ->); [lia|].
    destruct (idx =? length q'); [exact I|]. apply NP_bind; [apply IHf|].
    intros [[r q2] d3] _. exact I.
  Qed.

  Lemma NP_noorder force (q : list A) ds : NP (decide_noorder force q ds).
  Proof. unfold decide_noorder. apply NP_bind; [apply NP_no_loop|]. intros [[r q'] d] _. exact I. Qed.

  Lemma NP_keyed_total : forall (m : list (K * list A)) force r ds, NP (keyed_total_loop force r m ds).
  Proof.
    induction m as [|[k q] m IH]; intros force r ds; cbn [keyed_total_loop]; [exact I|].
    destruct (is_nil q).
    - apply NP_bind; [apply IH|]. intros [[a b] c] _. exact I.
    - apply NP_bind; [apply NP_ask|]. intros [c d] _. apply NP_bind; [apply IH|].
      intros [[a b] e] _. exact I.
  Qed.

  Lemma NP_keyed_no : forall (m : list (K * list A)) force r ds, NP (keyed_no_loop force r m ds).
  Proof.
    induction m as [|[k q] m IH]; intros force r ds; cbn [keyed_no_loop]; [exact I|].
    destruct (is_nil q).
    - apply NP_bind; [apply IH|]. intros [[a b] c] _. exact I.
    - apply NP_bind; [apply NP_no_loop|]. intros [[o q'] d] _. apply NP_bind; [apply IH|].
      intros [[a b] e] _. exact I.
  Qed.

  Lemma NP_single force (q : list A) last ds :
    (force = true -> q <> []) -> (q = [] -> last <> None) -> NP (decide_single force q last ds).
  Proof.
    intros Hf Hl. unfold decide_single. destruct q as [|a q0].
    - destruct force; [exfalso; apply Hf; auto|]. destruct last; [exact I|exfalso; apply Hl; auto].
    - apply NP_bind.
      { destruct last; [|exact I]. destruct force; [exact I|].
        apply NP_bind; [apply NP_ask_bool|]. intros [b d] _. exact I. }
      intros [re ds1] _. destruct re; [exact I|].
      apply NP_bind; [apply NP_ask_excl|]. intros [idx ds2] E. apply ask_excl_ok in E.
      destruct E as [_ Hi]. destruct (skipn_lt idx (a :: q0)) as (x & r & ->); [lia|]. exact I.
  Qed.
End Typed.

Open Scope N_scope.

Lemma lookup_insert_some k k' x (l : list (N * N)) :
  is_some (lookup N.eqb k l) = true -> is_some (lookup N.eqb k (insert N.eqb k' x l)) = true.
Proof.
  induction l as [|[k0 v0] l IH]; cbn; [discriminate|].
  destruct (N.eqb k' k0) eqn:E1; cbn.
  - apply N.eqb_eq in E1. subst k0. destruct (N.eqb k k'); auto.
  - destruct (N.eqb k k0); auto.
Qed.

Lemma ksingle_wf_insert m k x last :
  ksingle_wf m last = true -> ksingle_wf m (insert N.eqb k x last) = true.
Proof.
  unfold ksingle_wf. rewrite !forallb_forall. intros H e He. specialize (H e He).
  apply orb_true_iff in H. apply orb_true_iff. destruct H as [H|H]; [left; exact H|right].
  apply lookup_insert_some. exact H.
Qed.

Lemma NP_ksingle : forall (m : list (N * list N)) force r last ds,
  ksingle_wf m last = true -> NP (ksingle_loop N.eqb force r m last ds).
Proof.
  induction m as [|[k q] m IH]; intros force r last ds Hwf; cbn [ksingle_loop]; [exact I|].
  unfold ksingle_wf in Hwf. cbn [forallb fst snd] in Hwf. apply andb_true_iff in Hwf.
  destruct Hwf as [Hk Hm]. fold (ksingle_wf m last) in Hm.
  assert (Hrec : forall f r' l' d, ksingle_wf m l' = true ->
            forall (g : _ -> res (list (N * N * bool) * list (N * list N) * list (N * N) * script * bool)),
            (forall y, NP (g y)) -> NP (bind (ksingle_loop N.eqb f r' m l' d) g)).
  { intros f r' l' d Hw g Hg. apply NP_bind; [apply IH; exact Hw|]. intros y _. apply Hg. }
  destruct (is_nil q) eqn:En.
  - cbn [negb orb] in Hk. destruct (lookup N.eqb k last); [|discriminate].
    apply Hrec; auto. intros [[[[a b] c] d] e]. exact I.
  - apply NP_bind.
    { destruct (lookup N.eqb k last); [|exact I]. destruct (force && _)%bool; [exact I|].
      apply NP_bind; [apply NP_ask_bool|]. intros [b d] _. exact I. }
    intros [re ds1] _. destruct re.
    + apply Hrec; auto. intros [[[[a b] c] d] e]. exact I.
    + apply NP_bind. { destruct (_ && _)%bool; [apply NP_ask_bool|exact I]. }
      intros [null ds2] _. destruct null.
      * apply Hrec; auto. intros [[[[a b] c] d] e]. exact I.
      * apply NP_bind; [apply NP_ask_excl|]. intros [idx ds3] E. apply ask_excl_ok in E.
        destruct E as [_ Hi]. destruct (skipn_lt (X := N) idx q) as (x & rr & ->); [lia|].
        apply Hrec; [apply ksingle_wf_insert; exact Hm|]. intros [[[[a b] c] d] e]. exact I.
Qed.

(* the caller's contract for one hook *)
Definition hook_ok (h : hook) : bool := is_ready h && ksingle_wf_hook h.

Lemma NP_auto h force ds :
  hook_ok h = true -> (force = true -> can_nontrivial h = true) -> NP (auto h force ds).
Proof.
  unfold hook_ok. intros Hok Hf. apply andb_true_iff in Hok. destruct Hok as [Hr Hw].
  destruct h; cbn [auto].
  - apply NP_bind; [apply NP_total|]. intros [[[a b] c] d] _. exact I.
  - apply NP_bind; [apply NP_noorder|]. intros [[[a b] c] d] _. exact I.
  - unfold decide_keyed_total. apply NP_bind; [|intros [[[a b] c] d] _; exact I].
    apply NP_bind; [apply NP_keyed_total|]. intros [[a b] c] _. exact I.
  - unfold decide_keyed_noorder. apply NP_bind; [|intros [[[a b] c] d] _; exact I].
    apply NP_bind; [apply NP_keyed_no|]. intros [[a b] c] _. exact I.
  - apply NP_bind; [|intros [[[[a b] c] d] e] _; exact I]. cbn in Hr, Hf. apply NP_single.
    + intros Hfo Hq. subst q. specialize (Hf Hfo). discriminate.
    + intros -> Hl. subst last. discriminate.
  - cbn in Hr. unfold decide_pass. destruct (rev q) eqn:Er; [|exact I].
    assert (q = [] ) by (rewrite <- (rev_involutive q), Er; reflexivity). subst q.
    destruct last; [exact I|discriminate].
  - unfold decide_ksingle. apply NP_bind; [|intros [[[[a b] c] d] e] _; exact I].
    apply NP_ksingle. exact Hw.
Qed.

Lemma NP_release h : current_decision h <> None -> NP (release h).
Proof.
  unfold release. destruct (current_decision h) as [b|] eqn:E; [intros _|congruence].
  destruct h as [q tr|q tr|m tr|m tr|q tr last|q tr last|m tr last]; destruct tr as [t|];
    cbn in E; try discriminate; try (destruct t); exact I.
Qed.

Close Scope N_scope.

Lemma NP_pass1 : forall hs made rc ds,
  forallb idle hs = true -> forallb hook_ok hs = true -> length hs <= rc ->
  NP (pass1 hs made rc ds).
Proof.
  induction hs as [|h hs IH]; intros made rc ds Hi Ho Hrc; cbn [pass1]; [exact I|].
  cbn [forallb length] in *. apply andb_true_iff in Hi. apply andb_true_iff in Ho.
  destruct Hi as [Hi1 Hi]. destruct Ho as [Ho1 Ho]. apply idle_none in Hi1. rewrite Hi1.
  destruct rc as [|rc]; [lia|].
  apply NP_bind.
  - destruct (negb (can_nontrivial h)); [|exact I].
    apply NP_bind; [apply NP_auto; [exact Ho1|discriminate]|]. intros [[h' b] d] _. exact I.
  - intros [[[h' made'] rc'] ds'] E. apply NP_bind; [|intros [[[a b] c] d] _; exact I].
    apply IH; auto. destruct (negb (can_nontrivial h)).
    + inv_bind E as [[h1 b] d]. inversion E; subst. lia.
    + inversion E; subst. lia.
Qed.

(* second pass: every hook is decided, or undecided and able to decide non-trivially *)
Definition p2_ok (h : hook) : bool :=
  is_some (current_decision h) || (can_nontrivial h && hook_ok h).

Lemma NP_pass2 : forall l made rc ds,
  forallb p2_ok l = true -> pend l <= rc -> NP (pass2 l made rc ds).
Proof.
  induction l as [|h l IH]; intros made rc ds Hok Hrc; cbn [pass2]; [exact I|].
  cbn [forallb] in Hok. apply andb_true_iff in Hok. destruct Hok as [Hh Hl].
  rewrite pend_cons in Hrc. unfold p2_ok, undecided in *.
  destruct (current_decision h) as [b|] eqn:Ed; cbn [is_some negb orb] in *.
  - cbn [bind]. apply NP_bind; [apply NP_release; congruence|]. intros [[h2 out] flag] _.
    apply NP_bind; [apply IH; auto; lia|]. intros [[a c] d] _. exact I.
  - apply andb_true_iff in Hh. destruct Hh as [Hc Hk]. destruct rc as [|rc]; [lia|].
    apply NP_bind.
    + apply NP_bind; [apply NP_auto; auto|]. intros [[h1 nt] d] _. exact I.
    + intros [[[h1 made'] rc'] ds'] E. inv_bind E as [[h1' nt] d1]. inversion E; subst.
      apply NP_bind.
      * apply NP_release. rewrite (auto_decided _ _ _ _ _ _ E0). discriminate.
      * intros [[h2 out] flag] _. apply NP_bind; [apply IH; auto; lia|]. intros [[a c] d] _. exact I.
Qed.

(* run_hooks never panics on a tick of idle hooks that SimTick::can_run reports runnable
   (every hook ready) -- whatever the decision script.  [ksingle_wf_hook]: a key of a keyed
   singleton whose queue is empty has been released before (keys enter the map with an item). *)
Theorem run_hooks_no_panic hs ds :
  forallb idle hs = true -> can_run hs = true -> forallb ksingle_wf_hook hs = true ->
  forall c, run_hooks hs ds <> Panic c.
Proof.
  intros Hidle Hcan Hwf c Hp. unfold can_run in Hcan. apply andb_true_iff in Hcan.
  destruct Hcan as [Hready _].
  assert (Hok : forallb hook_ok hs = true).
  { rewrite forallb_forall in *. intros h Hin. unfold hook_ok. rewrite (Hready h Hin), (Hwf h Hin). reflexivity. }
  unfold run_hooks in Hp.
  pose proof (NP_pass1 hs false (length hs) ds Hidle Hok (le_n _)) as N1.
  destruct (pass1 hs false (length hs) ds) as [[[[hs1 made] rc] ds1]| |] eqn:E1; cbn [bind] in Hp;
    try discriminate; [|exact N1].
  pose proof (pass1_idle _ _ _ _ _ _ _ _ E1 Hidle) as (-> & Hrc & HF).
  assert (H2 : forallb p2_ok hs1 = true /\ pend hs1 <= count_can hs).
  { clear E1 Hrc Hp N1 Hready Hwf. revert Hidle Hok.
    induction HF as [|h h1 l l1 HR HF IH]; intros Hidle Hok; [split; [reflexivity|cbn; lia]|].
    cbn [forallb] in *. apply andb_true_iff in Hidle. apply andb_true_iff in Hok.
    destruct Hidle as [Hi Hidle]. destruct Hok as [Ho Hok]. destruct (IH Hidle Hok) as [IH1 IH2].
    rewrite pend_cons. unfold count_can in *. cbn [filter]. unfold p2_ok, undecided.
    destruct HR as [[Hc ->]|[Hc (d & nt & d' & Ha)]].
    - apply idle_none in Hi. rewrite Hi, Hc, Ho. cbn. split; [exact IH1|lia].
    - rewrite (auto_decided _ _ _ _ _ _ Ha), Hc. cbn. split; [exact IH1|lia]. }
  destruct H2 as [Hp2 Hpend].
  assert (Hrc' : rc = count_can hs) by lia. subst rc.
  pose proof (NP_pass2 hs1 false (count_can hs) ds1 Hp2 Hpend) as N2.
  rewrite Hp in N2. exact N2.
Qed.
