(* Engine E9 "Sim": soundness of the individual decision procedures (C36, hook level). *)
From Coq Require Import List Arith Bool NArith Lia Permutation Sorted.
From HV Require Import Sim.Model.
Import ListNotations.
Close Scope N_scope.
Open Scope nat_scope.

(* ------------------------------------------------------------------ the specification relation
   [Merge s k l]: l is an order-preserving interleaving of s (released) and k (kept) *)
Inductive Merge {A} : list A -> list A -> list A -> Prop :=
| M_nil : Merge [] [] []
| M_l x s k l : Merge s k l -> Merge (x :: s) k (x :: l)
| M_r x s k l : Merge s k l -> Merge s (x :: k) (x :: l).

(* sub-sequence *)
Inductive Subseq {A} : list A -> list A -> Prop :=
| S_nil : Subseq [] []
| S_take x s l : Subseq s l -> Subseq (x :: s) (x :: l)
| S_skip x s l : Subseq s l -> Subseq s (x :: l).

Section MergeFacts.
  Context {A : Type}.
  Implicit Types s k l : list A.

  Lemma Merge_nil_l k : Merge [] k k.
  Proof. induction k; constructor; auto. Qed.

  Lemma Merge_nil_r s : Merge s [] s.
  Proof. induction s; constructor; auto. Qed.

  Lemma Merge_app_r p s k l : Merge s k l -> Merge s (p ++ k) (p ++ l).
  Proof. induction p; cbn; auto. intro. constructor. auto. Qed.

  Lemma Merge_prefix s k : Merge s k (s ++ k).
  Proof. induction s; cbn. apply Merge_nil_l. constructor. auto. Qed.

  Lemma Merge_perm s k l : Merge s k l -> Permutation (s ++ k) l.
  Proof.
    induction 1; cbn; auto.
    eapply perm_trans. symmetry. apply Permutation_middle. constructor. auto.
  Qed.

  Lemma Merge_sub_l s k l : Merge s k l -> Subseq s l.
  Proof. induction 1; constructor; auto. Qed.

  Lemma Merge_sub_r s k l : Merge s k l -> Subseq k l.
  Proof. induction 1; constructor; auto. Qed.

  Lemma Merge_length s k l : Merge s k l -> length l = length s + length k.
  Proof. induction 1; cbn; lia. Qed.

  Lemma Merge_inv_nil s k : Merge s k [] -> s = [] /\ k = [].
  Proof. inversion 1; auto. Qed.

  Lemma Merge_nil_l_inv k l : Merge [] k l -> k = l.
  Proof.
    intro H. remember [] as s eqn:E. induction H; try discriminate; auto.
    f_equal. auto.
  Qed.

  Lemma Subseq_Merge s l : Subseq s l -> exists k, Merge s k l.
  Proof.
    induction 1.
    - exists []. constructor.
    - destruct IHSubseq as [k Hk]. exists k. constructor. auto.
    - destruct IHSubseq as [k Hk]. exists (x :: k). constructor. auto.
  Qed.
End MergeFacts.

(* ------------------------------------------------------------------ the driver *)
Lemma ask_ok lo hi ds d ds' :
  ask lo hi ds = Ok (d, ds') -> ds = d :: ds' /\ lo <= d <= hi.
Proof.
  unfold ask. destruct ds as [|x r]; [discriminate|].
  destruct (lo <=? x) eqn:E1; destruct (x <=? hi) eqn:E2; cbn; try discriminate.
  intro H. inversion H; subst. apply Nat.leb_le in E1. apply Nat.leb_le in E2. auto.
Qed.

Lemma ask_excl_ok lo hi ds d ds' :
  ask_excl lo hi ds = Ok (d, ds') -> ds = d :: ds' /\ lo <= d < hi.
Proof.
  unfold ask_excl. destruct hi; [discriminate|]. intro H. apply ask_ok in H. intuition lia.
Qed.

Lemma ask_bool_ok ds b ds' :
  ask_bool ds = Ok (b, ds') -> exists d, ds = d :: ds' /\ d <= 1 /\ b = Nat.eqb d 1.
Proof.
  unfold ask_bool. destruct (ask 0 1 ds) as [[d r]| |] eqn:E; cbn; try discriminate.
  intro H. inversion H; subst. apply ask_ok in E. exists d. intuition.
Qed.

Lemma ask_complete lo hi d ds : lo <= d <= hi -> ask lo hi (d :: ds) = Ok (d, ds).
Proof.
  intros [H1 H2]. unfold ask. apply Nat.leb_le in H1. apply Nat.leb_le in H2. rewrite H1, H2. reflexivity.
Qed.

Lemma ask_excl_complete lo hi d ds : lo <= d < hi -> ask_excl lo hi (d :: ds) = Ok (d, ds).
Proof.
  intros H. unfold ask_excl. destruct hi; [lia|]. apply ask_complete. lia.
Qed.

Lemma ask_bool_complete (b : bool) ds :
  ask_bool ((if b then 1 else 0) :: ds) = Ok (b, ds).
Proof. destruct b; reflexivity. Qed.

Tactic Notation "inv_bind" hyp(H) "as" simple_intropattern(pat) :=
  match type of H with
  | bind ?r _ = Ok _ =>
    let E := fresh "E" in
    destruct r as [pat | | ?] eqn:E; cbn [bind] in H; [ | discriminate H | discriminate H]
  end.

Lemma remove_at_spec {X} idx (q : list X) x q' :
  remove_at idx q = Some (x, q') ->
  exists a b, q = a ++ x :: b /\ q' = a ++ b /\ length a = idx.
Proof.
  revert q x q'. induction idx; intros q x q' H; destruct q as [|y q0]; cbn in H; try discriminate.
  - inversion H; subst. exists [], q'. auto.
  - destruct (remove_at idx q0) as [[z r]|] eqn:E; try discriminate.
    inversion H; subst. apply IHidx in E. destruct E as (a & b & -> & -> & <-).
    exists (y :: a), b. auto.
Qed.

Lemma remove_at_complete {X} (a : list X) x b :
  remove_at (length a) (a ++ x :: b) = Some (x, a ++ b).
Proof. induction a; cbn; auto. rewrite IHa. reflexivity. Qed.

Lemma firstn_app_le {X} n (a b : list X) : n <= length a -> firstn n (a ++ b) = firstn n a.
Proof.
  intro H. rewrite firstn_app. replace (n - length a) with 0 by lia. cbn. apply app_nil_r.
Qed.

Lemma skipn_app_le {X} n (a b : list X) : n <= length a -> skipn n (a ++ b) = skipn n a ++ b.
Proof.
  intro H. rewrite skipn_app. replace (n - length a) with 0 by lia. reflexivity.
Qed.

Lemma is_nil_false {X} (l : list X) : is_nil l = false <-> l <> [].
Proof. destruct l; cbn; split; intros; congruence. Qed.

Section Hooks.
  Context {A K : Type}.

  (* ---------------------------------------------------------------- TotalOrder stream *)
  Theorem total_prefix force (q : list A) ds rel rem rest nt :
    decide_total force q ds = Ok (rel, rem, rest, nt) ->
    q = rel ++ rem /\ nt = negb (is_nil rel) /\ (force = true -> rel <> [])
    /\ exists d, ds = d :: rest /\ rel = firstn d q /\ d <= length q.
  Proof.
    unfold decide_total. intro H. inv_bind H as [c ds'].
    inversion H; subst; clear H. apply ask_ok in E. destruct E as [-> Hc].
    split. symmetry; apply firstn_skipn.
    assert (Hn : negb (c =? 0) = negb (is_nil (firstn c q))).
    { destruct c; cbn. reflexivity. destruct q; cbn in *. lia. reflexivity. }
    split; [exact Hn|]. split.
    - intros ->. destruct c; [lia|]. destruct q; cbn in *; [lia|congruence].
    - exists c. intuition.
  Qed.

  (* ---------------------------------------------------------------- NoOrder stream *)
  Lemma no_loop_sound f : forall must (q : list A) mi ds rel q' rest,
    no_loop f must q mi ds = Ok (rel, q', rest) -> mi <= length q ->
    exists k, q' = firstn mi q ++ k /\ Merge rel k (skipn mi q).
  Proof.
    induction f; intros must q mi ds rel q' rest H Hmi.
    - cbn in H. inversion H; subst. exists (skipn mi q'). split.
      symmetry; apply firstn_skipn. apply Merge_nil_l.
    - cbn [no_loop] in H. destruct (is_nil q) eqn:Enil.
      { inversion H; subst. exists (skipn mi q'). split.
        symmetry; apply firstn_skipn. apply Merge_nil_l. }
      inv_bind H as [stop ds1]. destruct stop.
      { inversion H; subst. exists (skipn mi q'). split.
        symmetry; apply firstn_skipn. apply Merge_nil_l. }
      inv_bind H as [idx ds2]. apply ask_excl_ok in E0. destruct E0 as [-> Hidx].
      destruct (remove_at idx q) as [[item q1]|] eqn:Er; [|discriminate].
      apply remove_at_spec in Er. destruct Er as (a & b & -> & -> & <-).
      assert (Hma : mi <= length a) by lia.
      destruct (length a =? length (a ++ b)) eqn:Elen.
      + inversion H; subst; clear H. apply Nat.eqb_eq in Elen. rewrite app_length in Elen.
        assert (b = []) by (destruct b; cbn in *; [auto|lia]). subst b.
        exists (skipn mi a). rewrite app_nil_r. split.
        * rewrite firstn_app_le by auto. symmetry; apply firstn_skipn.
        * rewrite skipn_app_le by auto.
          rewrite <- (app_nil_r (skipn mi a)) at 1. apply Merge_app_r. constructor. constructor.
      + inv_bind H as [[rel1 q2] ds3]. inversion H; subst; clear H.
        apply IHf in E0; [|rewrite app_length; lia]. destruct E0 as (k1 & -> & HM).
        rewrite firstn_app_le in * by lia. rewrite firstn_all in *.
        rewrite skipn_app_le in HM by lia. rewrite skipn_all in HM. cbn in HM.
        exists (skipn mi a ++ k1). split.
        * rewrite firstn_app_le by auto. rewrite app_assoc. rewrite firstn_skipn. reflexivity.
        * rewrite skipn_app_le by auto. apply Merge_app_r. constructor. auto.
  Qed.

  Lemma no_loop_forced f (q : list A) mi ds rel q' rest :
    no_loop (S f) true q mi ds = Ok (rel, q', rest) -> q <> [] -> rel <> [].
  Proof.
    cbn [no_loop]. intros H Hq. apply is_nil_false in Hq. rewrite Hq in H. cbn [bind] in H.
    inv_bind H as [idx ds2].
    destruct (remove_at idx q) as [[item q1]|]; [|discriminate].
    destruct (idx =? length q1).
    - inversion H; subst. discriminate.
    - inv_bind H as [[rel1 q2] ds3]. inversion H; subst. discriminate.
  Qed.

  Theorem noorder_merge force (q : list A) ds rel rem rest nt :
    decide_noorder force q ds = Ok (rel, rem, rest, nt) ->
    Merge rel rem q /\ nt = negb (is_nil rel) /\ (force = true -> q <> [] -> rel <> []).
  Proof.
    unfold decide_noorder. intro H. inv_bind H as [[rel1 q1] ds1].
    inversion H; subst; clear H. split; [|split].
    - apply no_loop_sound in E; [|lia]. destruct E as (k & -> & HM). exact HM.
    - reflexivity.
    - intros -> Hq. destruct q; [congruence|]. eapply no_loop_forced; eauto; discriminate.
  Qed.

  (* ---------------------------------------------------------------- keyed streams
     per map entry (= per key): the entry's released items [r], its remaining queue [q'] and
     its queue [q] satisfy P; the released list is the concatenation in visiting order *)
  Inductive KeyedSplit (P : list A -> list A -> list A -> Prop)
    : list (K * list A) -> list (K * A) -> list (K * list A) -> Prop :=
  | KS_nil : KeyedSplit P [] [] []
  | KS_cons k q r q' m rel m' :
      P r q' q -> KeyedSplit P m rel m' ->
      KeyedSplit P ((k, q) :: m) (map (pair k) r ++ rel) ((k, q') :: m').

  Definition PrefixSplit (r q' q : list A) : Prop := q = r ++ q'.

  Lemma keyed_total_sound : forall (m : list (K * list A)) force r ds rel m' rest,
    keyed_total_loop force r m ds = Ok (rel, m', rest) -> KeyedSplit PrefixSplit m rel m'.
  Proof.
    induction m as [|[k q] m IH]; intros force r ds rel m' rest H; cbn [keyed_total_loop] in H.
    - inversion H; subst. constructor.
    - destruct (is_nil q) eqn:En.
      + inv_bind H as [[rel1 m1] rest1]. inversion H; subst; clear H.
        apply IH in E. change rel with (map (pair k) [] ++ rel).
        constructor; auto. destruct q; [reflexivity|discriminate].
      + inv_bind H as [c ds1]. inv_bind H as [[rel1 m1] rest1].
        inversion H; subst; clear H. apply IH in E0. constructor; auto.
        unfold PrefixSplit. symmetry. apply firstn_skipn.
  Qed.

  Lemma keyed_no_sound : forall (m : list (K * list A)) force r ds rel m' rest,
    keyed_no_loop force r m ds = Ok (rel, m', rest) -> KeyedSplit Merge m rel m'.
  Proof.
    induction m as [|[k q] m IH]; intros force r ds rel m' rest H; cbn [keyed_no_loop] in H.
    - inversion H; subst. constructor.
    - destruct (is_nil q) eqn:En.
      + inv_bind H as [[rel1 m1] rest1]. inversion H; subst; clear H.
        apply IH in E. change rel with (map (pair k) [] ++ rel).
        constructor; auto. destruct q; [constructor|discriminate].
      + inv_bind H as [[out q1] ds1]. inv_bind H as [[rel1 m1] rest1].
        inversion H; subst; clear H. apply IH in E0. constructor; auto.
        apply no_loop_sound in E; [|lia]. destruct E as (k0 & -> & HM). exact HM.
  Qed.

  (* forced: with [r] = number of non-empty queues, something is released *)
  Lemma count_nonempty_cons k (q : list A) (m : list (K * list A)) :
    count_nonempty ((k, q) :: m) = (if is_nil q then 0 else 1) + count_nonempty m.
  Proof. unfold count_nonempty. cbn. destruct (is_nil q); reflexivity. Qed.

  Lemma keyed_total_forced : forall (m : list (K * list A)) r ds rel m' rest,
    keyed_total_loop true r m ds = Ok (rel, m', rest) ->
    r = count_nonempty m -> r <> 0 -> rel <> [].
  Proof.
    induction m as [|[k q] m IH]; intros r ds rel m' rest H Hr Hc.
    - cbn in Hr. congruence.
    - rewrite count_nonempty_cons in Hr. cbn [keyed_total_loop] in H. destruct (is_nil q) eqn:En.
      + inv_bind H as [[rel1 m1] rest1]. inversion H; subst.
        eapply IH; eauto.
      + inv_bind H as [c ds1]. inv_bind H as [[rel1 m1] rest1].
        inversion H; subst; clear H. apply ask_ok in E. destruct E as [-> Hb].
        destruct c.
        * cbn [Nat.eqb] in E0. cbn [firstn map app].
          destruct (count_nonempty m) eqn:Ecm.
          { cbn in Hb. lia. }
          eapply IH. exact E0. cbn. lia. cbn. lia.
        * destruct q; [discriminate|]. cbn. discriminate.
  Qed.

  Lemma keyed_no_forced : forall (m : list (K * list A)) r ds rel m' rest,
    keyed_no_loop true r m ds = Ok (rel, m', rest) ->
    r = count_nonempty m -> r <> 0 -> rel <> [].
  Proof.
    induction m as [|[k q] m IH]; intros r ds rel m' rest H Hr Hc.
    - cbn in Hr. congruence.
    - rewrite count_nonempty_cons in Hr. cbn [keyed_no_loop] in H. destruct (is_nil q) eqn:En.
      + inv_bind H as [[rel1 m1] rest1]. inversion H; subst.
        eapply IH; eauto.
      + inv_bind H as [[out q1] ds1]. inv_bind H as [[rel1 m1] rest1].
        inversion H; subst; clear H.
        destruct out as [|o out].
        * cbn [is_nil] in E0. cbn [map app].
          destruct (count_nonempty m) eqn:Ecm.
          { exfalso. cbn in E. destruct q as [|a q]; [discriminate|].
            apply no_loop_forced in E; [congruence|discriminate]. }
          eapply IH. exact E0. cbn. lia. cbn. lia.
        * cbn. discriminate.
  Qed.

  Theorem keyed_total_per_key force (m : list (K * list A)) ds rel m' rest nt :
    decide_keyed_total force m ds = Ok (rel, m', rest, nt) ->
    KeyedSplit PrefixSplit m rel m' /\ nt = negb (is_nil rel)
    /\ (force = true -> count_nonempty m <> 0 -> rel <> []).
  Proof.
    unfold decide_keyed_total. intro H. inv_bind H as [[rel1 m1] ds1].
    inversion H; subst; clear H. split; [eapply keyed_total_sound; eauto|]. split; [reflexivity|].
    intros -> Hc. eapply keyed_total_forced; eauto.
  Qed.

  Theorem keyed_noorder_per_key force (m : list (K * list A)) ds rel m' rest nt :
    decide_keyed_noorder force m ds = Ok (rel, m', rest, nt) ->
    KeyedSplit Merge m rel m' /\ nt = negb (is_nil rel)
    /\ (force = true -> count_nonempty m <> 0 -> rel <> []).
  Proof.
    unfold decide_keyed_noorder. intro H. inv_bind H as [[rel1 m1] ds1].
    inversion H; subst; clear H. split; [eapply keyed_no_sound; eauto|]. split; [reflexivity|].
    intros -> Hc. eapply keyed_no_forced; eauto.
  Qed.

  (* nothing lost, nothing duplicated, for any per-entry spec that is a Merge *)
  Definition flatten (m : list (K * list A)) : list (K * A) :=
    concat (map (fun e => map (pair (fst e)) (snd e)) m).

  Lemma KeyedSplit_perm (P : list A -> list A -> list A -> Prop) m rel m' :
    (forall r q' q, P r q' q -> Merge r q' q) ->
    KeyedSplit P m rel m' -> Permutation (rel ++ flatten m') (flatten m).
  Proof.
    intros HP. induction 1; cbn. constructor.
    unfold flatten in *. cbn. apply HP in H. apply Merge_perm in H.
    rewrite <- app_assoc.
    eapply perm_trans; [|apply Permutation_app; [apply Permutation_map; exact H | exact IHKeyedSplit]].
    rewrite map_app. rewrite <- !app_assoc. apply Permutation_app_head.
    rewrite !app_assoc. apply Permutation_app_tail. apply Permutation_app_comm.
  Qed.

  Lemma PrefixSplit_Merge r q' q : PrefixSplit r q' q -> Merge r q' q.
  Proof. unfold PrefixSplit. intros ->. apply Merge_prefix. Qed.

  (* ---------------------------------------------------------------- singleton *)
  Theorem single_sound force (q : list A) last ds x is_new skipped rem rest :
    decide_single force q last ds = Ok (x, is_new, skipped, rem, rest) ->
    ((is_new = false /\ last = Some x /\ rem = q /\ skipped = [] /\ force = false)
     \/ (is_new = true /\ q = skipped ++ x :: rem)).
  Proof.
    unfold decide_single. destruct q as [|a q0].
    - destruct force; [discriminate|]. destruct last; [|discriminate].
      intro H. inversion H; subst. left. auto.
    - remember (a :: q0) as q. intro H. inv_bind H as [re ds1].
      destruct re as [l|].
      + inversion H; subst; clear H. left.
        destruct last as [l0|]; [|discriminate]. destruct force; [discriminate|].
        inv_bind E as [b ds2]. destruct b; inversion E; subst. auto.
      + inv_bind H as [idx ds2].
        destruct (skipn idx q) as [|y rest0] eqn:Es; [discriminate|].
        inversion H; subst; clear H. right. split; auto.
        rewrite <- Es. symmetry. apply firstn_skipn.
  Qed.

  Lemma single_forced (q : list A) last ds x is_new skipped rem rest :
    decide_single true q last ds = Ok (x, is_new, skipped, rem, rest) -> is_new = true.
  Proof.
    intro H. apply single_sound in H. destruct H as [(_ & _ & _ & _ & F)|[H _]]; congruence.
  Qed.

  (* ---------------------------------------------------------------- passthrough *)
  Theorem pass_latest (q : list A) :
    match decide_pass q with
    | (Some x, rem) => exists pre, q = pre ++ [x] /\ rem = []
    | (None, rem) => q = [] /\ rem = []
    end.
  Proof.
    unfold decide_pass. destruct (rev q) as [|x r] eqn:E.
    - assert (Hq : q = []) by (rewrite <- (rev_involutive q), E; reflexivity).
      subst. split; reflexivity.
    - exists (rev r). split; auto. rewrite <- (rev_involutive q), E. reflexivity.
  Qed.
End Hooks.

(* ------------------------------------------------------------------ snapshot versions
   snapshots are versions of one value; the pending queue holds versions newer than the last
   released one, oldest first *)
Definition versions_wf (last : option nat) (q : list nat) : Prop :=
  StronglySorted lt (match last with Some l => l :: q | None => q end).

Lemma StronglySorted_app_r {X} (R : X -> X -> Prop) a b :
  StronglySorted R (a ++ b) -> StronglySorted R b.
Proof.
  induction a; cbn; auto. intro H. inversion H; subst. auto.
Qed.

Theorem single_versions force q last ds x is_new skipped rem rest :
  decide_single force q last ds = Ok (x, is_new, skipped, rem, rest) ->
  versions_wf last q ->
  (forall l, last = Some l -> l <= x) /\ versions_wf (Some x) rem
  /\ (is_new = true -> forall l, last = Some l -> l < x).
Proof.
  intros H Hwf. apply single_sound in H.
  destruct H as [(-> & -> & -> & -> & _)|(-> & ->)].
  - split. intros l [= ->]. lia. split; [exact Hwf|]. discriminate.
  - unfold versions_wf in *.
    assert (Hx : forall l, last = Some l -> l < x).
    { intros l ->. inversion Hwf; subst. rewrite Forall_forall in H2. apply H2.
      apply in_or_app. right. left. reflexivity. }
    split. intros l Hl. apply Hx in Hl. lia. split; [|intros _; exact Hx].
    destruct last.
    + inversion Hwf; subst. apply StronglySorted_app_r in H1. exact H1.
    + apply StronglySorted_app_r in Hwf. exact Hwf.
Qed.
