(* Engine E9 "Sim": what does NOT depend on the hash-map iteration order (the order oracle),
   and a witness that the decision outcome DOES (C38). *)
From Coq Require Import List Arith Bool NArith Lia Permutation.
From HV Require Import Sim.Model.
Import ListNotations.
Close Scope N_scope.
Open Scope nat_scope.

Lemma forallb_perm {X} (f : X -> bool) a b : Permutation a b -> forallb f a = forallb f b.
Proof.
  induction 1; cbn; auto.
  - rewrite IHPermutation. reflexivity.
  - destruct (f x), (f y); reflexivity.
  - congruence.
Qed.

Lemma all_empty_perm m m' : Permutation m m' -> all_empty m = all_empty m'.
Proof. apply forallb_perm. Qed.

(* two hook states that differ only in the iteration order of their keyed map *)
Inductive same_up_to_order : hook -> hook -> Prop :=
| SO_refl h : same_up_to_order h h
| SO_keyedT m m' tr : Permutation m m' -> same_up_to_order (HKeyedT m tr) (HKeyedT m' tr)
| SO_keyedN m m' tr : Permutation m m' -> same_up_to_order (HKeyedN m tr) (HKeyedN m' tr)
| SO_ksingle m m' tr last : Permutation m m' -> same_up_to_order (HKSingle m tr last) (HKSingle m' tr last).

Lemma readiness_oracle_independent h h' :
  same_up_to_order h h' ->
  current_decision h = current_decision h' /\ can_nontrivial h = can_nontrivial h'
  /\ is_ready h = is_ready h' /\ hook_can_release h = hook_can_release h'.
Proof.
  destruct 1; unfold hook_can_release; cbn; repeat split; auto;
    rewrite (all_empty_perm _ _ H); reflexivity.
Qed.

Theorem can_run_oracle_independent hs hs' :
  Forall2 same_up_to_order hs hs' -> can_run hs = can_run hs'.
Proof.
  intro HF. unfold can_run.
  assert (H : forallb is_ready hs = forallb is_ready hs'
              /\ existsb hook_can_release hs = existsb hook_can_release hs').
  { induction HF as [|h h' l l' Hh HF IH]; cbn; auto.
    apply readiness_oracle_independent in Hh. destruct Hh as (_ & _ & Hr & Hc).
    destruct IH as [-> ->]. rewrite Hr, Hc. auto. }
  destruct H as [-> ->]. reflexivity.
Qed.
