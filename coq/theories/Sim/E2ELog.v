(* Engine E9 "Sim": decision-log notes of a whole modelled simulation (scheduler loop around
   run_hooks + in-tick shuffle), for comparing the log of a real compiled simulation replayed
   from decision bytes with the model: the real run's (notes per tick run, outcome) must be
   those of SOME valid decision string of the model.  Definitions only. *)
From Coq Require Import List Arith Bool NArith String.
From HV Require Import Sim.Model Sim.Run Sim.Exh Sim.ModelTop Sim.E2E Sim.Log.
Import ListNotations.
Open Scope N_scope.

Definition batch_note (h : hook) (vals : list N) : string :=
  match h with
  | HStreamN _ _ =>
    (if is_nil vals then "^ releasing no items"
     else "^ releasing unordered items: " ++ show_trunc (map show_N vals))%string
  | _ =>
    (if is_nil vals then "^ releasing no items"
     else "^ releasing items: " ++ show_trunc (map show_N vals))%string
  end.

Fixpoint batch_notes (hs : list hook) (vals : list (list N)) : list string :=
  match hs, vals with
  | h :: r, v :: rv => batch_note h v :: batch_notes r rv
  | _, _ => []
  end.

(* inline StreamOrderHook: logs the observed order of a non-empty batch *)
Fixpoint shuffle_notes (outs : list (list N)) (ds : script) : res (list string * script) :=
  match outs with
  | [] => Ok ([], ds)
  | o :: r =>
    bind (decide_shuffle o ds) (fun '(o', ds1) =>
      bind (shuffle_notes r ds1) (fun '(ns, ds2) =>
        Ok ((if is_nil o' then ns
             else ("^ observed non-deterministic order: " ++ show_trunc (map show_N o'))%string :: ns), ds2)))
  end.

Fixpoint sim_run_log (fuel : nat) (sh : bool) (ts : list (list hook)) (ds : script)
  : res (list (nat * list (list N)) * list (list string) * script) :=
  match fuel with
  | O => Ok ([], [], ds)
  | S f =>
    let rd := ready_idx 0 ts in
    if is_nil rd then Ok ([], [], ds) else
    bind (ask_excl 0 (List.length rd) ds) (fun '(d, ds1) =>
      let i := nth d rd O in
      let hs := nth i ts [] in
      bind (run_hooks hs ds1) (fun '(hs', outs, ds2) =>
        let vals := map (fun o => map snd (fst o)) outs in
        bind (if sh then shuffle_notes vals ds2 else Ok ([], ds2)) (fun '(sn, ds3) =>
          bind (sim_run_log f sh (set_nth i hs' ts) ds3) (fun '(tr, ns, ds4) =>
            Ok ((i, vals) :: tr, (batch_notes hs vals ++ sn) :: ns, ds4)))))
  end.

Definition notes_eqb : list (list string) -> list (list string) -> bool :=
  list_eqb (list_eqb String.eqb).

(* 0 iff some candidate decision string makes the model produce exactly the real run's notes
   (per tick run, in order) and outcome *)
Definition e2e_log_verdict (fuel : nat) (sh : bool) (ts : list (list hook)) (scripts : list script)
           (impl_notes : list (list string)) (impl : outcome2) : N :=
  if existsb (fun ds => match sim_run_log fuel sh ts ds with
                        | Ok (tr, ns, []) => o2_eqb (project (List.length ts) tr) impl && notes_eqb ns impl_notes
                        | _ => false
                        end) scripts
  then 0 else 1.
