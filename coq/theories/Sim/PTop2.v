(* Engine E9 "Sim": the last four hook kinds (top-level keyed merge_ordered; inline keyed
   shuffle, partially-ordered interleaving, keyed merge_ordered): soundness (C36), completeness
   (C37), and uniqueness facts for the observation / inline hooks. *)
From Coq Require Import List Arith Bool NArith Lia Permutation.
From HV Require Import Sim.Model Sim.PHooks Sim.PComplete Sim.Run Sim.ModelTop Sim.PTop.
Import ListNotations.
Close Scope N_scope.
Open Scope nat_scope.

Tactic Notation "inv_bind" hyp(H) "as" simple_intropattern(pat) :=
  match type of H with
  | bind ?r _ = Ok _ =>
    let E := fresh "E" in
    destruct r as [pat | | ?] eqn:E; cbn [bind] in H; [ | discriminate H | discriminate H]
  end.

Section Kinds.
  Context {A K : Type}.

  Lemma TakesOne_length front (m : list (K * list A)) rel m' : TakesOne front m rel m' -> length m' = length m.
  Proof. intros (m1 & k & m2 & a & x & b & -> & _ & -> & _). rewrite !app_length. reflexivity. Qed.

  (* ---------------------------------------------------------------- top-level keyed merge *)
  Theorem top_kmerge_sound force (m1 m2 : list (K * list A)) ds rel r1 r2 rest nt :
    decide_top_kmerge force m1 m2 ds = Ok (rel, r1, r2, rest, nt) ->
    (rel = [] /\ r1 = m1 /\ r2 = m2 /\ nt = false /\ (force = true -> count_ne (m1 ++ m2) = 0))
    \/ (nt = true /\ TakesOne true (m1 ++ m2) rel (r1 ++ r2) /\ length r1 = length m1 /\ length r2 = length m2).
  Proof.
    unfold decide_top_kmerge. intro H. inv_bind H as [[[rl m'] d'] n']. inversion H; subst; clear H.
    apply top_keyed_sound in E. destruct E as [(-> & -> & -> & Hf)|(-> & HT)].
    - left. rewrite firstn_app, Nat.sub_diag, firstn_all. cbn [firstn]. rewrite app_nil_r.
      rewrite skipn_app, Nat.sub_diag, skipn_all. auto.
    - right. split; auto. rewrite firstn_skipn. split; auto.
      pose proof (TakesOne_length _ _ _ _ HT) as HL. rewrite app_length in HL.
      rewrite firstn_length, skipn_length. lia.
  Qed.

  Theorem top_kmerge_complete_first force (p s m2 : list (K * list A)) k x b :
    exists ds, decide_top_kmerge force (p ++ (k, x :: b) :: s) m2 ds
               = Ok ([(k, x)], p ++ (k, b) :: s, m2, [], true).
  Proof.
    destruct (top_keyed_complete true force p k (s ++ m2) [] x b (fun _ => eq_refl)) as (ds & H).
    exists ds. unfold decide_top_kmerge. rewrite <- app_assoc. cbn [app] in *. rewrite H. cbn [bind].
    replace (p ++ (k, b) :: s ++ m2) with ((p ++ (k, b) :: s) ++ m2) by (rewrite <- app_assoc; reflexivity).
    assert (HL : length (p ++ (k, x :: b) :: s) = length (p ++ (k, b) :: s)) by (rewrite !app_length; reflexivity).
    rewrite HL, firstn_app, Nat.sub_diag, firstn_all. cbn [firstn]. rewrite app_nil_r.
    rewrite skipn_app, Nat.sub_diag, skipn_all. reflexivity.
  Qed.

  Theorem top_kmerge_complete_second force (m1 p s : list (K * list A)) k x b :
    exists ds, decide_top_kmerge force m1 (p ++ (k, x :: b) :: s) ds
               = Ok ([(k, x)], m1, p ++ (k, b) :: s, [], true).
  Proof.
    destruct (top_keyed_complete true force (m1 ++ p) k s [] x b (fun _ => eq_refl)) as (ds & H).
    exists ds. unfold decide_top_kmerge. cbn [app] in *. rewrite <- app_assoc in H. rewrite H. cbn [bind].
    rewrite <- app_assoc. rewrite firstn_app, Nat.sub_diag, firstn_all. cbn [firstn]. rewrite app_nil_r.
    rewrite skipn_app, Nat.sub_diag, skipn_all. reflexivity.
  Qed.

  (* ---------------------------------------------------------------- inline keyed shuffle *)
  Theorem kshuffle_sound : forall (gs : list (K * list A)) ds gs' rest,
    kshuffle gs ds = Ok (gs', rest) ->
    Forall2 (fun g g' => fst g = fst g' /\ Permutation (snd g') (snd g)) gs gs'.
  Proof.
    induction gs as [|[k vs] gs IH]; intros ds gs' rest H; cbn [kshuffle] in H.
    - inversion H; subst. constructor.
    - inv_bind H as [vs' d1]. inv_bind H as [r' d2]. inversion H; subst. constructor.
      + split; [reflexivity|]. cbn. eapply shuffle_perm; eauto.
      + eapply IH; eauto.
  Qed.

  (* ---------------------------------------------------------------- inline partially ordered *)
  Inductive POSteps : list (K * list A) -> list (K * A) -> list (K * list A) -> Prop :=
  | PO_nil gs : POSteps gs [] gs
  | PO_step gs k x g1 out g' :
      TakesOne true gs [(k, x)] g1 -> POSteps g1 out g' -> POSteps gs ((k, x) :: out) g'.

  Lemma TakesOne_single front (m : list (K * list A)) rel m' :
    TakesOne front m rel m' -> exists k x, rel = [(k, x)].
  Proof. intros (m1 & k & m2 & a & x & b & _ & -> & _). eauto. Qed.

  Lemma TakesOne_total front (m : list (K * list A)) rel m' :
    TakesOne front m rel m' -> total_items m = S (total_items m').
  Proof.
    intros (m1 & k & m2 & a & x & b & -> & _ & -> & _). unfold total_items.
    rewrite !map_app, !concat_app. cbn [map concat snd]. rewrite ?app_length. cbn [length]. rewrite ?app_length. cbn [length]. lia.
  Qed.

  Lemma count_ne_total0 (m : list (K * list A)) : total_items m = 0 -> count_ne m = 0.
  Proof.
    unfold total_items, count_ne. induction m as [|[k q] m IH]; [reflexivity|]. cbn.
    rewrite app_length. intro H. destruct q; cbn in *; [apply IH; exact H|lia].
  Qed.

  Theorem partial_sound : forall f (gs : list (K * list A)) ds out rest,
    po_loop f gs ds = Ok (out, rest) -> total_items gs <= f ->
    exists gs', POSteps gs out gs' /\ count_ne gs' = 0.
  Proof.
    induction f; intros gs ds out rest H Hf; cbn [po_loop] in H.
    - inversion H; subst. exists gs. split; [constructor|]. apply count_ne_total0. lia.
    - destruct (count_ne gs =? 0) eqn:Ec.
      { inversion H; subst. exists gs. split; [constructor|]. apply Nat.eqb_eq. exact Ec. }
      inv_bind H as [ki d1]. inv_bind H as [[rel g1] d2]. inv_bind H as [o d3]. inversion H; subst.
      apply take_ne_sound in E0. pose proof (TakesOne_single _ _ _ _ E0) as (k & x & ->).
      pose proof (TakesOne_total _ _ _ _ E0) as Ht.
      apply IHf in E1; [|lia]. destruct E1 as (g' & HS & Hc).
      exists g'. split; auto. cbn [app]. econstructor; eauto.
  Qed.

  Lemma TakesOne_count_pos front (m : list (K * list A)) rel m' : TakesOne front m rel m' -> count_ne m <> 0.
  Proof.
    intros (m1 & k & m2 & a & x & b & -> & _). unfold count_ne. rewrite filter_app, app_length. cbn [filter snd].
    assert (En : is_nil (a ++ x :: b) = false) by (destruct a; reflexivity). rewrite En. cbn. lia.
  Qed.

  Lemma take_ne_complete_T (m : list (K * list A)) k x m' :
    TakesOne true m [(k, x)] m' ->
    exists ki ds, ki < count_ne m /\ forall e, take_ne true ki m (ds ++ e) = Ok ([(k, x)], m', e).
  Proof.
    intros (m1 & k0 & m2 & a & x0 & b & -> & Hr & -> & Hf).
    destruct (take_ne_complete true m1 k0 m2 a x0 b Hf) as (ds & Hds). inversion Hr; subst.
    exists (count_ne m1), ds. split; [|exact Hds].
    unfold count_ne. rewrite filter_app, app_length. cbn [filter snd].
    match goal with |- context [is_nil (a ++ ?y :: b)] => assert (En : is_nil (a ++ y :: b) = false) by (destruct a; reflexivity) end.
    rewrite En. cbn. lia.
  Qed.

  Theorem partial_complete : forall (gs : list (K * list A)) out gs',
    POSteps gs out gs' -> count_ne gs' = 0 ->
    forall f, length out <= f -> exists ds, po_loop f gs ds = Ok (out, []).
  Proof.
    induction 1 as [gs|gs k x g1 out g' HT HS IH]; intros Hc f Hf.
    - exists []. destruct f; cbn [po_loop]; [reflexivity|]. rewrite Hc. reflexivity.
    - destruct f as [|f]; [cbn in Hf; lia|]. destruct (IH Hc f) as (ds & Hds); [cbn in Hf; lia|].
      destruct (take_ne_complete_T _ _ _ _ HT) as (ki & dt & Hki & Hdt).
      exists (ki :: dt ++ ds). cbn [po_loop].
      assert (Hz : (count_ne gs =? 0) = false) by (apply Nat.eqb_neq; lia). rewrite Hz.
      rewrite ask_excl_complete by lia. cbn [bind]. rewrite Hdt. cbn [bind]. rewrite Hds. reflexivity.
  Qed.

  (* ---------------------------------------------------------------- inline keyed merge *)
  Inductive KMerged : list (K * (list A * list A)) -> list (K * A) -> Prop :=
  | KM_nil : KMerged [] []
  | KM_cons k a b o gs out : Merge a b o -> KMerged gs out -> KMerged ((k, (a, b)) :: gs) (map (pair k) o ++ out).

  Theorem kmerge_sound : forall (gs : list (K * (list A * list A))) ds out rest,
    kmerge gs ds = Ok (out, rest) -> KMerged gs out.
  Proof.
    induction gs as [|[k [a b]] gs IH]; intros ds out rest H; cbn [kmerge] in H.
    - inversion H; subst. constructor.
    - inv_bind H as [o d1]. inv_bind H as [o2 d2]. inversion H; subst.
      constructor; [eapply merge_interleaves; eauto|eapply IH; eauto].
  Qed.

  Lemma interleave_frame : forall f (a b : list A) ds o rest e,
    interleave f a b ds = Ok (o, rest) -> interleave f a b (ds ++ e) = Ok (o, rest ++ e).
  Proof.
    induction f; intros a b ds o rest e H; cbn [interleave] in *.
    - inversion H; subst. reflexivity.
    - destruct a as [|x a']; [inversion H; subst; reflexivity|].
      destruct b as [|y b']; [inversion H; subst; reflexivity|].
      inv_bind H as [s d1]. apply ask_bool_ok in E. destruct E as (dd & -> & Hd & ->).
      cbn [app]. unfold ask_bool, ask. cbn [Nat.leb bind].
      assert (Hle : (dd <=? 1) = true) by (apply Nat.leb_le; exact Hd). rewrite Hle. cbn [andb bind].
      destruct (dd =? 1).
      + inv_bind H as [r d2]. inversion H; subst. rewrite (IHf _ _ _ _ _ e E). reflexivity.
      + inv_bind H as [r d2]. inversion H; subst. rewrite (IHf _ _ _ _ _ e E). reflexivity.
  Qed.

  Theorem kmerge_complete : forall (gs : list (K * (list A * list A))) out,
    KMerged gs out -> exists ds, kmerge gs ds = Ok (out, []).
  Proof.
    induction 1 as [|k a b o gs out HM HK IH].
    - exists []. reflexivity.
    - destruct IH as (ds & Hds). destruct (merge_complete a b o HM) as (dm & Hdm).
      exists (dm ++ ds). cbn [kmerge]. unfold decide_merge in *.
      rewrite (interleave_frame _ _ _ _ _ _ ds Hdm). cbn [bind app]. rewrite Hds. reflexivity.
  Qed.

  (* ---------------------------------------------------------------- uniqueness facts *)
  (* top-level merge_ordered: the outcome (released item and both remaining queues) determines
     the decisions, unconditionally *)
  Theorem top_merge_unique force (q1 q2 : list A) d1 d2 rel r1 r2 n1 n2 :
    decide_top_merge force q1 q2 d1 = Ok (rel, r1, r2, [], n1) ->
    decide_top_merge force q1 q2 d2 = Ok (rel, r1, r2, [], n2) -> d1 = d2.
  Proof.
    unfold decide_top_merge. destruct (is_nil q1 && is_nil q2).
    { intros H1 H2. inversion H1; inversion H2; subst. reflexivity. }
    intros H1 H2. inv_bind H1 as [s1 e1]. inv_bind H2 as [s2 e2].
    assert (Hpre : s1 = s2 -> exists u, d1 = u ++ e1 /\ d2 = u ++ e2).
    { intros <-. destruct force.
      - inversion E; inversion E0; subst. exists []. auto.
      - apply ask_bool_ok in E. apply ask_bool_ok in E0.
        destruct E as (b1 & -> & L1 & S1). destruct E0 as (b2 & -> & L2 & S2).
        exists [b1]. split; [reflexivity|]. cbn. f_equal.
        destruct b1 as [|[|]]; destruct b2 as [|[|]]; cbn in *; try lia; congruence. }
    destruct s1, s2.
    - inversion H1; inversion H2; subst. destruct Hpre as (u & -> & ->); auto.
    - exfalso. inversion H1; subst. destruct r1 as [|x a], r2 as [|y b]; try discriminate;
        try (inversion H2; fail).
      inv_bind H2 as [t d]. destruct t; inversion H2.
    - exfalso. inversion H2; subst. destruct r1 as [|x a], r2 as [|y b]; try discriminate;
        try (inversion H1; fail).
      inv_bind H1 as [t d]. destruct t; inversion H1.
    - destruct Hpre as (u & -> & ->); auto. f_equal.
      destruct q1 as [|x a], q2 as [|y b]; try discriminate.
      + inversion H1; inversion H2; subst. reflexivity.
      + inversion H1; inversion H2; subst. reflexivity.
      + inv_bind H1 as [t1 g1]. inv_bind H2 as [t2 g2].
        apply ask_bool_ok in E1. apply ask_bool_ok in E2.
        destruct E1 as (b1 & -> & L1 & ->). destruct E2 as (b2 & -> & L2 & ->).
        destruct (b1 =? 1) eqn:B1; destruct (b2 =? 1) eqn:B2; inversion H1; inversion H2; subst.
        * apply Nat.eqb_eq in B1. apply Nat.eqb_eq in B2. subst. reflexivity.
        * exfalso. match goal with
                   | H : ?z :: ?l = ?l |- _ => apply (f_equal (@length A)) in H; cbn in H; lia
                   | H : ?l = ?z :: ?l |- _ => apply (f_equal (@length A)) in H; cbn in H; lia
                   end.
        * exfalso. match goal with
                   | H : ?z :: ?l = ?l |- _ => apply (f_equal (@length A)) in H; cbn in H; lia
                   | H : ?l = ?z :: ?l |- _ => apply (f_equal (@length A)) in H; cbn in H; lia
                   end.
        * apply Nat.eqb_neq in B1. apply Nat.eqb_neq in B2. f_equal. lia.
  Qed.
End Kinds.

(* where uniqueness does NOT hold: with indistinguishable items two different decision strings
   give the same outcome (a duplicate schedule is explored) *)
Example top_order_duplicate_schedule :
  decide_top_order true [1; 1] [0] = Ok ([1], [1], [], true)
  /\ decide_top_order true [1; 1] [1] = Ok ([1], [1], [], true).
Proof. split; reflexivity. Qed.

Example inline_merge_duplicate_schedule :
  decide_merge [1] [1] [0] = Ok ([1; 1], []) /\ decide_merge [1] [1] [1] = Ok ([1; 1], []).
Proof. split; reflexivity. Qed.

Example inline_shuffle_duplicate_schedule :
  decide_shuffle [1; 1] [0] = Ok ([1; 1], []) /\ decide_shuffle [1; 1] [1] = Ok ([1; 1], []).
Proof. split; reflexivity. Qed.
