(* Engine E9 "Sim": decision-space enumeration (C37), definitions only.
   - [model_outcomes]: the outcomes the MODEL reaches over all decision strings (brute force
     over every string up to a length / value bound);
   - [spec_outcomes]: the independently enumerated set of schedules C37 demands (every prefix,
     every sub-sequence, every version, per key), written without reference to [decide];
   - verdict: bit 1 = the implementation's outcome set (reached by the real bolero exhaustive
     engine) differs from the model's; bit 2 = it misses a demanded schedule. *)
From Coq Require Import List Arith Bool NArith.
From HV Require Import Sim.Model Sim.Run.
Import ListNotations.
Open Scope N_scope.

Definition outcome : Type := (list (N * N) * list (N * list N))%type.

Definition outcome_eqb (a b : outcome) : bool := kv_eqb (fst a) (fst b) && map_eqb (snd a) (snd b).
Definition omem (o : outcome) (l : list outcome) : bool := existsb (outcome_eqb o) l.
Fixpoint odedup (l : list outcome) : list outcome :=
  match l with
  | [] => []
  | o :: l' => if omem o l' then odedup l' else o :: odedup l'
  end.
Definition osubset (a b : list outcome) : bool := forallb (fun o => omem o b) a.

(* ------------------------------------------------------------------ all decision strings *)
Fixpoint extend (alpha : nat) (s : script) : list script :=
  match alpha with
  | O => [s ++ [O]]
  | S a => (s ++ [alpha]) :: extend a s
  end.

(* all strings of length <= len over the values 0..alpha *)
Fixpoint all_scripts (alpha len : nat) : list script :=
  match len with
  | O => [[]]
  | S l => let shorter := all_scripts alpha l in
           shorter ++ flat_map (extend alpha) (filter (fun s => Nat.eqb (length s) l) shorter)
  end.

Definition hook_outcome (h : hook) (force : bool) (ds : script) : option outcome :=
  match auto h force ds with
  | Ok (h1, _, []) =>
    match release h1 with
    | Ok (_, out, _) => Some (out, queues_of h1)
    | _ => None
    end
  | _ => None
  end.

Fixpoint filter_map {X Y} (f : X -> option Y) (l : list X) : list Y :=
  match l with
  | [] => []
  | x :: l' => match f x with Some y => y :: filter_map f l' | None => filter_map f l' end
  end.

(* outcomes with multiplicity (one per complete valid decision string) *)
Definition model_runs (h : hook) (force : bool) (alpha len : nat) : list outcome :=
  filter_map (hook_outcome h force) (all_scripts alpha len).

Definition tick_outcome (hs : list hook) (ds : script) : option outcome :=
  match run_hooks hs ds with
  | Ok (hs', outs, []) => Some (concat (map fst outs), concat (map queues_of hs'))
  | _ => None
  end.
Definition model_tick_runs (hs : list hook) (alpha len : nat) : list outcome :=
  filter_map (tick_outcome hs) (all_scripts alpha len).

(* ------------------------------------------------------------------ demanded schedules *)
(* every way to split q into a prefix and the rest *)
Fixpoint prefixes (q : list N) : list (list N * list N) :=
  ([], q) :: match q with
             | [] => []
             | x :: q' => map (fun p => (x :: fst p, snd p)) (prefixes q')
             end.

(* every way to split q into two complementary sub-sequences *)
Fixpoint splits (q : list N) : list (list N * list N) :=
  match q with
  | [] => [([], [])]
  | x :: q' => flat_map (fun p => [(x :: fst p, snd p); (fst p, x :: snd p)]) (splits q')
  end.

(* every snapshot choice: (released value, remaining queue) *)
Fixpoint versions (q : list N) : list (N * list N) :=
  match q with
  | [] => []
  | x :: q' => (x, q') :: versions q'
  end.

(* product over the entries of a keyed map, in iteration order *)
Fixpoint keyed_product (per : list N -> list (list N * list N)) (m : list (N * list N)) : list outcome :=
  match m with
  | [] => [([], [])]
  | (k, q) :: m' =>
    flat_map (fun p => map (fun o => (map (pair k) (fst p) ++ fst o, (k, snd p) :: snd o))
                           (keyed_product per m')) (per q)
  end.

Fixpoint ksingle_product (last : list (N * N)) (m : list (N * list N)) : list (outcome * bool) :=
  match m with
  | [] => [(([], []), false)]
  | (k, q) :: m' =>
    let rest := ksingle_product last m' in
    let old := match lookup N.eqb k last with
               | Some l => map (fun o => (((k, l) :: fst (fst o), (k, q) :: snd (fst o)), snd o)) rest
               | None => if is_nil q then [] else
                           map (fun o => ((fst (fst o), (k, q) :: snd (fst o)), snd o)) rest
               end in
    old ++ flat_map (fun v => map (fun o => (((k, fst v) :: fst (fst o), (k, snd v) :: snd (fst o)), true))
                                  rest) (versions q)
  end.

Definition nonempty_emit (o : outcome) : bool := negb (is_nil (fst o)).

(* the schedules C37 demands of one hook; [force] keeps the non-trivial ones *)
Definition spec_outcomes (h : hook) (force : bool) : list outcome :=
  match h with
  | HStreamT q _ =>
    filter (fun o => negb force || nonempty_emit o)
           (map (fun p => (unkeyed (fst p), [(0, snd p)])) (prefixes q))
  | HStreamN q _ =>
    filter (fun o => negb force || nonempty_emit o || is_nil q)
           (map (fun p => (unkeyed (fst p), [(0, snd p)])) (splits q))
  | HKeyedT m _ =>
    filter (fun o => negb force || nonempty_emit o || all_empty m) (keyed_product prefixes m)
  | HKeyedN m _ =>
    filter (fun o => negb force || nonempty_emit o || all_empty m) (keyed_product splits m)
  | HSingle q _ last =>
    (match last with
     | Some l => if force then [] else [(unkeyed [l], [(0, q)])]
     | None => []
     end) ++ map (fun v => (unkeyed [fst v], [(0, snd v)])) (versions q)
  | HPass q _ last =>
    match rev q with
    | x :: _ => [(unkeyed [x], [(0, [])])]
    | [] => match last with
            | Some l => if force then [] else [(unkeyed [l], [(0, [])])]
            | None => []
            end
    end
  | HKSingle m _ last =>
    map fst (filter (fun o => negb force || snd o || all_empty m) (ksingle_product last m))
  end.

(* ------------------------------------------------------------------ verdicts *)
(* [impl]: distinct outcomes reported by the real exhaustive engine; [execs]: number of
   executions it ran.  bit 1: outcome sets differ (or the model has duplicate schedules where
   the engine has none, or vice versa); bit 2: a demanded schedule is missing from the engine's
   set. *)
Definition exh_verdict (h : hook) (force : bool) (alpha len : nat) (impl : list outcome) (execs : nat) : N :=
  let runs := model_runs h force alpha len in
  let mo := odedup runs in
  (if osubset mo impl && osubset impl mo && Nat.eqb (length runs) execs then 0 else 1)
  + (if osubset (spec_outcomes h force) impl then 0 else 2).

(* ticks: demanded = every combination of the hooks' schedules that is not all-trivial *)
Fixpoint tick_product (hs : list hook) : list (outcome * bool) :=
  match hs with
  | [] => [(([], []), false)]
  | h :: hs' =>
    flat_map (fun o => map (fun r => ((fst o ++ fst (fst r), snd o ++ snd (fst r)),
                                      consumed (queues_of h) (snd o) || snd r))
                           (tick_product hs')) (spec_outcomes h false)
  end.
Definition spec_tick_outcomes (hs : list hook) : list outcome :=
  map fst (filter (fun o => snd o || negb (existsb can_nontrivial hs)) (tick_product hs)).

Definition exh_tick_verdict (hs : list hook) (alpha len : nat) (impl : list outcome) (execs : nat) : N :=
  let runs := model_tick_runs hs alpha len in
  let mo := odedup runs in
  (if osubset mo impl && osubset impl mo && Nat.eqb (length runs) execs then 0 else 1)
  + (if osubset (spec_tick_outcomes hs) impl then 0 else 2).
