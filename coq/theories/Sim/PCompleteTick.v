(* Engine E9 "Sim": completeness of run_hooks (every combination of per-hook schedules that
   is not all-trivial is reached) and of the scheduler's choice among ready ticks and
   observations (C37). *)
From Coq Require Import List Arith Bool NArith Lia Permutation.
From HV Require Import Sim.Model Sim.PHooks Sim.PTick Sim.PComplete Sim.PFrame Sim.PCompleteK.
Import ListNotations.
Close Scope N_scope.
Open Scope nat_scope.

(* ------------------------------------------------------------------ facts about hook_spec *)
Lemma spec_idle h h' nt : hook_spec h h' nt -> current_decision h = None.
Proof. destruct 1; reflexivity. Qed.

Lemma spec_decided h h' nt : hook_spec h h' nt -> current_decision h' = Some nt.
Proof. destruct 1; reflexivity. Qed.

Lemma spec_release h h' nt : hook_spec h h' nt -> exists h2 out, release h' = Ok (h2, out, nt).
Proof. destruct 1; unfold release; cbn; eauto. Qed.

Lemma all_empty_count0 (m : list (N * list N)) : all_empty m = true -> count_nonempty m = 0.
Proof.
  induction m as [|[k q] m IH]; [reflexivity|]. rewrite count_nonempty_cons.
  unfold all_empty in *. cbn [forallb snd]. destruct q; cbn; [auto|discriminate].
Qed.

Lemma spec_cannot h h' nt : hook_spec h h' nt -> can_nontrivial h = false -> nt = false.
Proof.
  destruct 1; cbn [can_nontrivial]; intro Hc; apply negb_false_iff in Hc.
  - destruct q; [|discriminate]. destruct rel; [reflexivity|discriminate].
  - destruct q; [|discriminate]. apply Merge_inv_nil in H. destruct H as [-> _]. reflexivity.
  - apply all_empty_count0 in Hc.
    rewrite (KeyedSplit_empty_rel _ _ _ _ (@PrefixSplit_nil N) H Hc). reflexivity.
  - apply all_empty_count0 in Hc.
    rewrite (KeyedSplit_empty_rel _ _ _ _ (@Merge_nil N) H Hc). reflexivity.
  - reflexivity.
  - destruct pre; discriminate.
  - destruct pre; discriminate.
  - reflexivity.
  - apply all_empty_count0 in Hc. eapply KSplit_empty_flag; eauto.
Qed.

(* ------------------------------------------------------------------ run_hooks *)
Fixpoint release_all (l : list hook) : res (list hook * list (list (N * N) * bool)) :=
  match l with
  | [] => Ok ([], [])
  | h :: l' =>
    bind (release h) (fun '(h2, out, flag) =>
      bind (release_all l') (fun '(hs, outs) => Ok (h2 :: hs, (out, flag) :: outs)))
  end.

(* the hook list between the two passes *)
Fixpoint mid (hs : list hook) (ts : list (hook * bool)) : list hook :=
  match hs, ts with
  | h :: hs', t :: ts' => (if can_nontrivial h then h else fst t) :: mid hs' ts'
  | _, _ => []
  end.

(* some hook that can decide non-trivially is asked to *)
Fixpoint good (hs : list hook) (ts : list (hook * bool)) : bool :=
  match hs, ts with
  | h :: hs', t :: ts' => (can_nontrivial h && snd t) || good hs' ts'
  | _, _ => false
  end.

Definition noncan (l : list hook) : nat := length (filter (fun h => negb (can_nontrivial h)) l).

Definition SpecAll (hs : list hook) (ts : list (hook * bool)) : Prop :=
  Forall2 (fun h t => hook_spec h (fst t) (snd t)) hs ts.

Lemma count_split (l : list hook) : count_can l + noncan l = length l.
Proof.
  unfold count_can, noncan. induction l as [|h l IH]; [reflexivity|]. cbn.
  destruct (can_nontrivial h); cbn; lia.
Qed.

Lemma good_none hs ts : count_can hs = 0 -> good hs ts = false.
Proof.
  revert ts. induction hs as [|h hs IH]; intros [|t ts] Hc; try reflexivity.
  unfold count_can in *. cbn in *. destruct (can_nontrivial h); cbn in *; [lia|auto].
Qed.

Lemma good_from_flags hs ts : SpecAll hs ts -> existsb snd ts = true -> good hs ts = true.
Proof.
  induction 1 as [|h t hs ts Hs HF IH]; intro He; [discriminate|]. cbn in *.
  apply orb_true_iff in He. destruct He as [Ht|He].
  - destruct (can_nontrivial h) eqn:Hc; [rewrite Ht; reflexivity|].
    rewrite (spec_cannot _ _ _ Hs Hc) in Ht. discriminate.
  - rewrite (IH He). apply orb_true_r.
Qed.

Lemma pass1_complete hs ts :
  SpecAll hs ts -> forall made rc, noncan hs <= rc ->
  exists ds1, forall e, pass1 hs made rc (ds1 ++ e) = Ok (mid hs ts, made, rc - noncan hs, e).
Proof.
  induction 1 as [|h t hs ts Hs HF IH]; intros made rc Hrc.
  - exists []. intro e. cbn. rewrite Nat.sub_0_r. reflexivity.
  - unfold noncan in *. cbn [filter mid pass1] in *. rewrite (spec_idle _ _ _ Hs).
    destruct (can_nontrivial h) eqn:Hc; cbn [negb length] in *.
    + destruct (IH made rc Hrc) as (ds1 & H1). exists ds1. intro e. cbn [bind].
      rewrite H1. reflexivity.
    + destruct rc as [|rc]; [lia|].
      destruct (auto_complete _ _ _ Hs false) as (dh & Hdh); [discriminate|].
      destruct (IH made rc) as (ds1 & H1); [lia|].
      exists (dh ++ ds1). intro e. rewrite <- app_assoc.
      rewrite (auto_frame _ _ _ _ _ _ (ds1 ++ e) Hdh). cbn [bind dec app].
      rewrite H1. cbn [bind]. reflexivity.
Qed.

Lemma pass2_complete hs ts :
  SpecAll hs ts -> forall made rc, rc = count_can hs ->
  (made = false -> rc <> 0 -> good hs ts = true) ->
  exists ds2 hs2 outs, release_all (map fst ts) = Ok (hs2, outs)
    /\ forall e, pass2 (mid hs ts) made rc (ds2 ++ e) = Ok (hs2, outs, e).
Proof.
  induction 1 as [|h t hs ts Hs HF IH]; intros made rc Hrc Hg.
  - exists [], [], []. split; [reflexivity|]. intro e. reflexivity.
  - unfold count_can in *. cbn [filter mid good map release_all pass2] in *.
    destruct (spec_release _ _ _ Hs) as (h2 & out & Hrel).
    destruct (can_nontrivial h) eqn:Hc; cbn [length andb orb] in *.
    + (* decided in the second pass *)
      rewrite (spec_idle _ _ _ Hs).
      set (force := negb made && (rc =? 1)).
      assert (Hforce : force = true -> snd t = true).
      { unfold force. intro Hfo. apply andb_true_iff in Hfo. destruct Hfo as [Hm Hr1].
        apply negb_true_iff in Hm. apply Nat.eqb_eq in Hr1.
        assert (Hgt : good hs ts = false) by (apply good_none; unfold count_can; lia).
        specialize (Hg Hm). rewrite Hgt, orb_false_r in Hg. apply Hg. lia. }
      destruct (auto_complete _ _ _ Hs force Hforce) as (dh & Hdh).
      destruct (IH (made || snd t) (length (filter can_nontrivial hs)) eq_refl) as (ds2 & hs2 & outs & Hra & H2).
      { intros Hm Hnz. apply orb_false_iff in Hm. destruct Hm as [Hm Ht].
        assert (Hrc0 : rc <> 0) by lia. specialize (Hg Hm Hrc0). rewrite Ht in Hg. exact Hg. }
      exists (dh ++ ds2), (h2 :: hs2), ((out, snd t) :: outs). split.
      { rewrite Hrel. cbn [bind]. rewrite Hra. reflexivity. }
      intro e. rewrite <- app_assoc. fold force.
      rewrite (auto_frame _ _ _ _ _ _ (ds2 ++ e) Hdh). cbn [bind app]. subst rc. cbn [dec bind].
      rewrite Hrel. cbn [bind]. rewrite H2. reflexivity.
    + (* already decided (trivially) in the first pass *)
      rewrite (spec_decided _ _ _ Hs).
      destruct (IH made rc Hrc) as (ds2 & hs2 & outs & Hra & H2).
      { intros Hm Hnz. exact (Hg Hm Hnz). }
      exists ds2, (h2 :: hs2), ((out, snd t) :: outs). split.
      { rewrite Hrel. cbn [bind]. rewrite Hra. reflexivity. }
      intro e. cbn [bind]. rewrite Hrel. cbn [bind]. rewrite H2. reflexivity.
Qed.

(* every combination of demanded per-hook schedules in which, if some hook can decide
   non-trivially, at least one decision is non-trivial, is produced by run_hooks under some
   valid decision string; the released items are exactly those of the chosen schedules *)
Theorem run_hooks_complete hs ts :
  SpecAll hs ts ->
  (existsb can_nontrivial hs = true -> existsb snd ts = true) ->
  exists ds hs2 outs, release_all (map fst ts) = Ok (hs2, outs)
                      /\ run_hooks hs ds = Ok (hs2, outs, []).
Proof.
  intros HS Hex.
  destruct (pass1_complete hs ts HS false (length hs)) as (ds1 & H1).
  { pose proof (count_split hs). lia. }
  destruct (pass2_complete hs ts HS false (count_can hs) eq_refl) as (ds2 & hs2 & outs & Hra & H2).
  { intros _ Hnz. apply good_from_flags; auto. apply Hex.
    unfold count_can in Hnz. destruct (filter can_nontrivial hs) as [|x l] eqn:Ef; [cbn in Hnz; congruence|].
    assert (Hin : In x (filter can_nontrivial hs)) by (rewrite Ef; left; reflexivity).
    apply filter_In in Hin. apply existsb_exists. exists x. exact Hin. }
  exists (ds1 ++ ds2), hs2, outs. split; [exact Hra|].
  unfold run_hooks. rewrite H1. cbn [bind].
  replace (length hs - noncan hs) with (count_can hs) by (pose proof (count_split hs); lia).
  rewrite <- (app_nil_r ds2). apply H2.
Qed.

(* ------------------------------------------------------------------ the scheduler's choice
   LaunchedSim::step, once no async DFIR made progress: hooks that cannot run are set aside,
   then ONE value in 0 .. #ready ticks + #ready observations picks what runs next
   (compiled.rs: `(0..(ticks.len() + observations.len())).any()`); a tick is removed from
   the ready list, run, and pushed back at the end; an observation stays in place. *)
Section Sched.
  Context {T O : Type}.

  Inductive picked := PTick (t : T) (rest : list T) | PObs (o : O).

  Definition step_choice (ticks : list T) (obs : list O) (ds : script) : res (picked * script) :=
    bind (ask_excl 0 (length ticks + length obs) ds) (fun '(d, ds') =>
      if d <? length ticks then
        match remove_at d ticks with
        | Some (t, rest) => Ok (PTick t (rest ++ [t]), ds')
        | None => Panic 6
        end
      else
        match nth_error obs (d - length ticks) with
        | Some o => Ok (PObs o, ds')
        | None => Panic 6
        end).

  (* every ready tick and every ready observation can be chosen *)
  Theorem step_choice_tick_complete (a b : list T) t obs :
    step_choice (a ++ t :: b) obs [length a] = Ok (PTick t ((a ++ b) ++ [t]), []).
  Proof.
    unfold step_choice. rewrite ask_excl_complete by (rewrite app_length; cbn; lia). cbn [bind].
    assert (H : (length a <? length (a ++ t :: b)) = true)
      by (apply Nat.ltb_lt; rewrite app_length; cbn; lia).
    rewrite H, remove_at_complete. reflexivity.
  Qed.

  Theorem step_choice_obs_complete ticks (a b : list O) o :
    step_choice ticks (a ++ o :: b) [length ticks + length a] = Ok (PObs o, []).
  Proof.
    unfold step_choice. rewrite ask_excl_complete by (rewrite app_length; cbn; lia). cbn [bind].
    assert (H : (length ticks + length a <? length ticks) = false) by (apply Nat.ltb_ge; lia).
    rewrite H. replace (length ticks + length a - length ticks) with (length a) by lia.
    rewrite nth_error_app2, Nat.sub_diag by lia. reflexivity.
  Qed.

  (* ... by exactly one decision value: two decisions that pick the same position are equal *)
  Theorem step_choice_unique ticks obs d1 d2 r1 r2 p :
    NoDup ticks -> NoDup obs ->
    step_choice ticks obs (d1 :: r1) = Ok (p, r1) ->
    step_choice ticks obs (d2 :: r2) = Ok (p, r2) -> d1 = d2.
  Proof.
    unfold step_choice. intros Ht Ho H1 H2.
    destruct (ask_excl 0 (length ticks + length obs) (d1 :: r1)) as [[x1 s1]| |] eqn:E1; try discriminate.
    destruct (ask_excl 0 (length ticks + length obs) (d2 :: r2)) as [[x2 s2]| |] eqn:E2; try discriminate.
    apply ask_excl_ok in E1. apply ask_excl_ok in E2.
    destruct E1 as [E1 L1]. destruct E2 as [E2 L2]. inversion E1; inversion E2; subst. clear E1 E2.
    cbn [bind] in *.
    destruct (x1 <? length ticks) eqn:C1; destruct (x2 <? length ticks) eqn:C2.
    - destruct (remove_at x1 ticks) as [[t1 k1]|] eqn:R1; [|discriminate].
      destruct (remove_at x2 ticks) as [[t2 k2]|] eqn:R2; [|discriminate].
      apply remove_at_spec in R1. apply remove_at_spec in R2.
      destruct R1 as (a1 & b1 & Q1 & -> & <-). destruct R2 as (a2 & b2 & Q2 & -> & <-).
      inversion H1; subst p. inversion H2; subst t2.
      destruct (NoDup_split_unique a1 a2 b1 b2 t1) as [-> _]; [rewrite <- Q1; exact Ht|congruence|].
      reflexivity.
    - destruct (remove_at x1 ticks) as [[t1 k1]|]; [|discriminate].
      destruct (nth_error obs (x2 - length ticks)); [|discriminate].
      inversion H1; subst p. inversion H2.
    - destruct (nth_error obs (x1 - length ticks)); [|discriminate].
      destruct (remove_at x2 ticks) as [[t2 k2]|]; [|discriminate].
      inversion H1; subst p. inversion H2.
    - apply Nat.ltb_ge in C1. apply Nat.ltb_ge in C2.
      destruct (nth_error obs (x1 - length ticks)) as [o1|] eqn:N1; [|discriminate].
      destruct (nth_error obs (x2 - length ticks)) as [o2|] eqn:N2; [|discriminate].
      inversion H1; subst p. inversion H2; subst o2.
      assert (x1 - length ticks = x2 - length ticks).
      { eapply NoDup_nth_error; eauto. apply nth_error_Some. congruence. congruence. }
      lia.
  Qed.

  (* every ORDER of ready ticks: with n independent ready ticks (each no longer ready once it
     has run, nothing new arriving), the executed sequence is produced by successive choices *)
  Fixpoint drain (fuel : nat) (l : list T) (ds : script) : res (list T * script) :=
    match fuel with
    | 0 => Ok ([], ds)
    | S f =>
      match l with
      | [] => Ok ([], ds)
      | _ =>
        bind (ask_excl 0 (length l) ds) (fun '(d, ds') =>
          match remove_at d l with
          | Some (t, l') => bind (drain f l' ds') (fun '(p, r) => Ok (t :: p, r))
          | None => Panic 6
          end)
      end
    end.

  Theorem drain_every_order : forall p l, Permutation p l ->
    exists ds, drain (length l) l ds = Ok (p, []).
  Proof.
    induction p as [|x p IH]; intros l HP.
    - apply Permutation_nil in HP. subst l. exists []. reflexivity.
    - assert (Hin : In x l) by (eapply Permutation_in; [exact HP|left; reflexivity]).
      apply in_split in Hin. destruct Hin as (a & b & ->).
      apply Permutation_cons_app_inv in HP. destruct (IH _ HP) as (ds & Hds).
      exists (length a :: ds). rewrite app_length. cbn [length]. rewrite Nat.add_succ_r. cbn [drain].
      destruct (a ++ x :: b) eqn:E; [destruct a; discriminate|]. rewrite <- E.
      rewrite ask_excl_complete by (rewrite app_length; cbn; lia). cbn [bind].
      rewrite remove_at_complete. rewrite <- app_length, Hds. reflexivity.
  Qed.

  Theorem drain_order_unique : forall f l d1 d2 p,
    NoDup l -> drain f l d1 = Ok (p, []) -> drain f l d2 = Ok (p, []) -> d1 = d2.
  Proof.
    induction f; intros l d1 d2 p Hnd H1 H2.
    - cbn in *. inversion H1; inversion H2; subst. reflexivity.
    - cbn [drain] in *. destruct l as [|y l0] eqn:El.
      { inversion H1; inversion H2; subst. reflexivity. }
      rewrite <- El in *. clear El.
      destruct (ask_excl 0 (length l) d1) as [[x1 s1]| |] eqn:E1; try discriminate.
      destruct (ask_excl 0 (length l) d2) as [[x2 s2]| |] eqn:E2; try discriminate.
      cbn [bind] in *. apply ask_excl_ok in E1. apply ask_excl_ok in E2.
      destruct E1 as [-> _]. destruct E2 as [-> _].
      destruct (remove_at x1 l) as [[t1 k1]|] eqn:R1; [|discriminate].
      destruct (remove_at x2 l) as [[t2 k2]|] eqn:R2; [|discriminate].
      destruct (drain f k1 s1) as [[p1 r1]| |] eqn:D1; try discriminate.
      destruct (drain f k2 s2) as [[p2 r2]| |] eqn:D2; try discriminate.
      cbn [bind] in *. inversion H1; subst. inversion H2; subst.
      apply remove_at_spec in R1. apply remove_at_spec in R2.
      destruct R1 as (a1 & b1 & Q1 & -> & <-). destruct R2 as (a2 & b2 & Q2 & -> & <-).
      destruct (NoDup_split_unique a1 a2 b1 b2 t1) as [-> ->]; [rewrite <- Q1; exact Hnd|congruence|].
      f_equal. rewrite Q1 in Hnd. apply NoDup_remove_1 in Hnd. exact (IHf _ _ _ _ Hnd D1 D2).
  Qed.
End Sched.
