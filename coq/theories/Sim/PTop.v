(* Engine E9 "Sim": soundness of the top-level (observation) hooks and inline hooks (C36). *)
From Coq Require Import List Arith Bool NArith Lia Permutation.
From HV Require Import Sim.Model Sim.PHooks Sim.Run Sim.ModelTop.
Import ListNotations.
Close Scope N_scope.
Open Scope nat_scope.

Tactic Notation "inv_bind" hyp(H) "as" simple_intropattern(pat) :=
  match type of H with
  | bind ?r _ = Ok _ =>
    let E := fresh "E" in
    destruct r as [pat | | ?] eqn:E; cbn [bind] in H; [ | discriminate H | discriminate H]
  end.

Lemma remove_at_perm {X} i (l : list X) x l' : remove_at i l = Some (x, l') -> Permutation (x :: l') l.
Proof.
  intro H. apply remove_at_spec in H. destruct H as (a & b & -> & -> & _). apply Permutation_middle.
Qed.

Lemma insert_at_perm {X} k (x : X) l : Permutation (insert_at k x l) (x :: l).
Proof.
  unfold insert_at. rewrite <- (firstn_skipn k l) at 3. symmetry. apply Permutation_middle.
Qed.

Lemma swap_perm {X} i j (l : list X) : Permutation (swap_hi_lo i j l) l.
Proof.
  unfold swap_hi_lo. destruct (i =? j); [reflexivity|].
  destruct (remove_at i l) as [[xi l1]|] eqn:R1; [|reflexivity].
  destruct (remove_at j l1) as [[xj l2]|] eqn:R2; [|reflexivity].
  apply remove_at_perm in R1. apply remove_at_perm in R2.
  eapply perm_trans; [apply insert_at_perm|].
  eapply perm_trans; [apply perm_skip; apply insert_at_perm|].
  eapply perm_trans; [apply perm_swap|].
  eapply perm_trans; [apply perm_skip; exact R2|]. exact R1.
Qed.

Section Top.
  Context {A : Type}.

  Theorem top_order_sound force (q : list A) ds rel rem rest nt :
    decide_top_order force q ds = Ok (rel, rem, rest, nt) ->
    Merge rel rem q /\ length rel <= 1 /\ nt = negb (is_nil rel)
    /\ (force = true -> q <> [] -> rel <> []).
  Proof.
    unfold decide_top_order. destruct (is_nil q) eqn:En.
    { intro H. inversion H; subst. repeat split; auto. apply Merge_nil_l.
      intros _ Hq. apply is_nil_false in Hq. congruence. }
    intro H. inv_bind H as [skip ds1]. destruct skip.
    - inversion H; subst. repeat split; auto. apply Merge_nil_l.
      intros ->. inversion E.
    - inv_bind H as [idx ds2]. destruct (remove_at idx q) as [[x q']|] eqn:R; [|discriminate].
      inversion H; subst. apply remove_at_spec in R. destruct R as (a & b & -> & -> & _).
      repeat split; auto; try discriminate.
      rewrite <- (app_nil_r a) at 1. rewrite <- app_assoc. apply Merge_app_r.
      cbn. constructor. apply Merge_nil_l.
  Qed.

  Lemma fold_select_sound : forall (q : list A) none ds sel rem rest,
    fold_select q none ds = Ok (sel, rem, rest) ->
    Merge sel rem q /\ (none = true -> q <> [] -> sel <> []).
  Proof.
    induction q as [|x q IH]; intros none ds sel rem rest H; cbn [fold_select] in H.
    - inversion H; subst. split; [constructor|congruence].
    - inv_bind H as [inc ds1]. inv_bind H as [[sel1 rem1] ds2].
      apply IH in E0. destruct E0 as [HM Hne]. destruct inc.
      + inversion H; subst. split; [constructor; auto|discriminate].
      + inversion H; subst. split; [constructor; auto|].
        intros -> _. destruct (is_nil q) eqn:En; cbn [andb] in E.
        * inversion E.
        * apply Hne; [reflexivity|]. apply is_nil_false. exact En.
  Qed.

  Lemma fy_back_perm : forall i (l : list A) ds out rest,
    fy_back i l ds = Ok (out, rest) -> Permutation out l.
  Proof.
    induction i; intros l ds out rest H; cbn [fy_back] in H.
    - inversion H; subst. reflexivity.
    - inv_bind H as [j ds1]. apply IHi in H. eapply perm_trans; [exact H|apply swap_perm].
  Qed.

  Theorem top_fold_sound force (q : list A) ds out rem rest nt :
    decide_top_fold force q ds = Ok (out, rem, rest, nt) -> q <> [] ->
    exists sel, Merge sel rem q /\ Permutation out sel /\ sel <> [] /\ nt = true.
  Proof.
    unfold decide_top_fold. intros H Hq. pose proof Hq as Hq'. apply is_nil_false in Hq'.
    rewrite Hq' in H. inv_bind H as [[sel rem1] ds1]. inv_bind H as [o ds2]. inversion H; subst.
    apply fold_select_sound in E. destruct E as [HM Hne]. apply fy_back_perm in E0.
    exists sel. repeat split; auto.
  Qed.

  Theorem top_merge_sound force (q1 q2 : list A) ds rel r1 r2 rest nt :
    decide_top_merge force q1 q2 ds = Ok (rel, r1, r2, rest, nt) ->
    ((rel = [] /\ r1 = q1 /\ r2 = q2 /\ nt = false /\ (force = true -> q1 = [] /\ q2 = []))
     \/ (exists x, rel = [x] /\ q1 = x :: r1 /\ r2 = q2 /\ nt = true)
     \/ (exists x, rel = [x] /\ q2 = x :: r2 /\ r1 = q1 /\ nt = true)).
  Proof.
    unfold decide_top_merge. destruct (is_nil q1 && is_nil q2) eqn:En.
    { intro H. inversion H; subst. left. repeat (split; [reflexivity|]).
      intros _. apply andb_true_iff in En. destruct r1, r2; cbn in En; intuition congruence. }
    intro H. inv_bind H as [skip ds1]. destruct skip.
    - inversion H; subst. left. repeat (split; [reflexivity|]). intros ->. inversion E.
    - destruct q1 as [|x q1'], q2 as [|y q2']; try discriminate.
      + inversion H; subst. right. right. eauto.
      + inversion H; subst. right. left. eauto.
      + inv_bind H as [second ds2]. destruct second; inversion H; subst.
        * right. right. eauto.
        * right. left. eauto.
  Qed.

  Lemma fy_fwd_perm : forall n src maxd (l : list A) ds out rest,
    fy_fwd n src maxd l ds = Ok (out, rest) -> Permutation out l.
  Proof.
    induction n; intros src maxd l ds out rest H; cbn [fy_fwd] in H.
    - inversion H; subst. reflexivity.
    - inv_bind H as [dst ds1]. apply IHn in H. eapply perm_trans; [exact H|apply swap_perm].
  Qed.

  Theorem shuffle_perm (l : list A) ds out rest :
    decide_shuffle l ds = Ok (out, rest) -> Permutation out l.
  Proof. apply fy_fwd_perm. Qed.

  Lemma interleave_sound : forall f (a b : list A) ds out rest,
    interleave f a b ds = Ok (out, rest) -> Merge a b out.
  Proof.
    induction f; intros a b ds out rest H; cbn [interleave] in H.
    - inversion H; subst. apply Merge_prefix.
    - destruct a as [|x a']; [inversion H; subst; apply Merge_nil_l|].
      destruct b as [|y b']; [inversion H; subst; rewrite app_nil_r; apply Merge_nil_r|].
      inv_bind H as [second ds1]. destruct second.
      + inv_bind H as [r ds2]. inversion H; subst. apply IHf in E0. constructor. exact E0.
      + inv_bind H as [r ds2]. inversion H; subst. apply IHf in E0. constructor. exact E0.
  Qed.

  Theorem merge_interleaves (a b : list A) ds out rest :
    decide_merge a b ds = Ok (out, rest) -> Merge a b out.
  Proof. apply interleave_sound. Qed.

  (* ---------------------------------------------------------------- completeness (C37) *)
  Lemma Merge_nil_r_inv (s l : list A) : Merge s [] l -> l = s.
  Proof.
    intro H. remember [] as k eqn:E. induction H; try discriminate; auto. f_equal. auto.
  Qed.

  (* observation of an unordered top-level stream: every pending element can be the next *)
  Theorem top_order_complete force (a b : list A) x :
    exists ds, decide_top_order force (a ++ x :: b) ds = Ok ([x], a ++ b, [], true).
  Proof.
    exists ((if force then [] else [0]) ++ [length a]). unfold decide_top_order.
    assert (En : is_nil (a ++ x :: b) = false) by (destruct a; reflexivity). rewrite En.
    assert (Hi : ask_excl 0 (length (a ++ x :: b)) [length a] = Ok (length a, [])).
    { apply ask_excl_complete. rewrite app_length. cbn. lia. }
    destruct force; cbn [app bind ask_bool ask Nat.leb andb Nat.eqb]; rewrite Hi; cbn [bind];
      rewrite remove_at_complete; reflexivity.
  Qed.

  (* inline merge_ordered: every order-preserving interleaving is observed *)
  Lemma interleave_complete : forall (a b out : list A), Merge a b out ->
    forall f, length a + length b <= f -> exists ds, interleave f a b ds = Ok (out, []).
  Proof.
    induction 1 as [|x s k l HM IH|x s k l HM IH]; intros f Hf.
    - exists []. destruct f; reflexivity.
    - destruct f as [|f]; [cbn in Hf; lia|]. destruct k as [|y k'].
      + apply Merge_nil_r_inv in HM. subst l. exists []. cbn. rewrite app_nil_r. reflexivity.
      + destruct (IH f) as (ds & Hds); [cbn in *; lia|].
        exists (0 :: ds). cbn [interleave ask_bool ask bind Nat.leb andb Nat.eqb]. rewrite Hds. reflexivity.
    - destruct f as [|f]; [cbn in Hf; lia|]. destruct s as [|y s'].
      + apply Merge_nil_l_inv in HM. subst l. exists []. reflexivity.
      + destruct (IH f) as (ds & Hds); [cbn in *; lia|].
        exists (1 :: ds). cbn [interleave ask_bool ask bind Nat.leb andb Nat.eqb]. rewrite Hds. reflexivity.
  Qed.

  Theorem merge_complete (a b out : list A) :
    Merge a b out -> exists ds, decide_merge a b ds = Ok (out, []).
  Proof. intro H. apply interleave_complete; auto. Qed.
End Top.

(* ------------------------------------------------------------------ keyed observation hooks *)
Section TopKeyed.
  Context {A K : Type}.

  (* exactly one item [x] of one entry [(k, q)] is taken; every other entry is untouched *)
  Definition TakesOne (front : bool) (m : list (K * list A)) (rel : list (K * A)) (m' : list (K * list A)) : Prop :=
    exists m1 k m2 a x b,
      m = m1 ++ (k, a ++ x :: b) :: m2 /\ rel = [(k, x)] /\ m' = m1 ++ (k, a ++ b) :: m2
      /\ (front = true -> a = []).

  Lemma take_ne_sound front : forall (m : list (K * list A)) ki ds rel m' rest,
    take_ne front ki m ds = Ok (rel, m', rest) -> TakesOne front m rel m'.
  Proof.
    induction m as [|[k q] m IH]; intros ki ds rel m' rest H; cbn [take_ne] in H; [discriminate|].
    assert (Hskip : forall ki', bind (take_ne front ki' m ds) (fun '(rel, mr, ds') => Ok (rel, (k, q) :: mr, ds'))
                                = Ok (rel, m', rest) -> TakesOne front ((k, q) :: m) rel m').
    { intros ki' H'. inv_bind H' as [[r mr] d']. inversion H'; subst. apply IH in E.
      destruct E as (m1 & k0 & m2 & a & x & b & -> & -> & -> & Hf).
      exists ((k, q) :: m1), k0, m2, a, x, b. auto. }
    destruct (is_nil q); [eapply Hskip; eauto|]. destruct ki as [|ki']; [|eapply Hskip; eauto].
    inv_bind H as [ii d']. destruct (remove_at ii q) as [[x q']|] eqn:R; [|discriminate].
    inversion H; subst. apply remove_at_spec in R. destruct R as (a & b & -> & -> & <-).
    exists [], k, m, a, x, b. repeat split; auto.
    intros ->. inversion E; subst. destruct a; [reflexivity|discriminate].
  Qed.

  Theorem top_keyed_sound front force (m : list (K * list A)) ds rel m' rest nt :
    decide_top_keyed front force m ds = Ok (rel, m', rest, nt) ->
    (rel = [] /\ m' = m /\ nt = false /\ (force = true -> count_ne m = 0))
    \/ (nt = true /\ TakesOne front m rel m').
  Proof.
    unfold decide_top_keyed. destruct (count_ne m =? 0) eqn:Ec.
    { intro H. inversion H; subst. left. repeat split; auto. intros _. apply Nat.eqb_eq. exact Ec. }
    intro H. inv_bind H as [skip d1]. destruct skip.
    - inversion H; subst. left. repeat (split; [reflexivity|]). intros ->. inversion E.
    - inv_bind H as [ki d2]. inv_bind H as [[r mr] d3]. inversion H; subst. right. split; auto.
      eapply take_ne_sound; eauto.
  Qed.

  Lemma take_ne_complete front : forall (m1 : list (K * list A)) k m2 a x b,
    (front = true -> a = []) ->
    exists ds, forall e,
      take_ne front (count_ne m1) (m1 ++ (k, a ++ x :: b) :: m2) (ds ++ e)
      = Ok ([(k, x)], m1 ++ (k, a ++ b) :: m2, e).
  Proof.
    induction m1 as [|[k1 q1] m1 IH]; intros k m2 a x b Hf.
    - exists (if front then [] else [length a]). intro e. cbn [take_ne app count_ne filter length].
      assert (En : is_nil (a ++ x :: b) = false) by (destruct a; reflexivity). rewrite En.
      destruct front.
      + rewrite (Hf eq_refl). cbn. reflexivity.
      + cbn [app]. rewrite ask_excl_complete by (rewrite app_length; cbn; lia). cbn [bind].
        rewrite remove_at_complete. reflexivity.
    - destruct (IH k m2 a x b Hf) as (ds & Hds). exists ds. intro e.
      cbn [app take_ne]. unfold count_ne in *. cbn [filter snd].
      destruct (is_nil q1); cbn [negb length]; rewrite Hds; reflexivity.
  Qed.

  Theorem top_keyed_complete front force (m1 : list (K * list A)) k m2 a x b :
    (front = true -> a = []) ->
    exists ds, decide_top_keyed front force (m1 ++ (k, a ++ x :: b) :: m2) ds
               = Ok ([(k, x)], m1 ++ (k, a ++ b) :: m2, [], true).
  Proof.
    intro Hf. destruct (take_ne_complete front m1 k m2 a x b Hf) as (ds & Hds).
    set (m := m1 ++ (k, a ++ x :: b) :: m2).
    assert (Hlt : count_ne m1 < count_ne m).
    { unfold m, count_ne. rewrite filter_app, app_length. cbn [filter snd].
      assert (En : is_nil (a ++ x :: b) = false) by (destruct a; reflexivity). rewrite En. cbn. lia. }
    assert (Hz : (count_ne m =? 0) = false) by (apply Nat.eqb_neq; lia).
    exists ((if force then [] else [0]) ++ count_ne m1 :: ds). unfold decide_top_keyed. rewrite Hz.
    destruct force; cbn [app bind ask_bool ask Nat.leb andb Nat.eqb];
      rewrite ask_excl_complete by lia; cbn [bind];
      rewrite <- (app_nil_r ds); unfold m; rewrite Hds; reflexivity.
  Qed.
End TopKeyed.
