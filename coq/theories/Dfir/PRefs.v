(* E7 Dfir -- soundness of the executable frame check, and settled reads stated on it. *)
From Coq Require Import List NArith Bool.
From HV Require Import Dfir.Model Dfir.ModelTick Dfir.ModelFlat Dfir.ModelRefs Dfir.PFrame Dfir.PFlat Dfir.PFlatCheck.
Import ListNotations.
Open Scope N_scope.

Lemma buf_free_b_sound : forall sg h, buf_free_b sg h = true -> buf_free sg h.
Proof.
  intros sg h H. unfold buf_free_b in H.
  apply andb_true_iff in H. destruct H as [H H3]. apply andb_true_iff in H. destruct H as [H1 H2].
  split; [|split].
  - apply nmem_false. apply negb_true_iff. exact H1.
  - intros e He Hs Heq. rewrite forallb_forall in H2. specialize (H2 e He). rewrite Hs, Heq, N.eqb_refl in H2. discriminate.
  - rewrite Forall_forall. intros n Hn. rewrite forallb_forall in H3. specialize (H3 n Hn).
    unfold node_refs, node_refs_b in *. destruct (n_kind n); try tauto.
    intro Heq. subst. rewrite N.eqb_refl in H3. discriminate.
Qed.

(* on a schedule that passed the check, every block that does not use the slot leaves it alone *)
Lemma chain_ok_others_free : forall groups h sgs phase last,
  chain_ok groups h phase last sgs = true ->
  forall sg, In sg sgs -> role sg h = 0 -> buf_free sg h.
Proof.
  induction sgs as [|sg0 r IH]; intros phase last H sg Hin Hr; [destruct Hin|].
  cbn [chain_ok] in H. destruct Hin as [->|Hin].
  - rewrite Hr in H. apply andb_true_iff in H. destruct H as [H _]. apply buf_free_b_sound. exact H.
  - destruct (role sg0 h) as [|p]; [apply andb_true_iff in H; destruct H as [_ H]; eapply IH; eassumption|].
    destruct p as [p|p|]; try destruct p; repeat (apply andb_true_iff in H; destruct H as [? H]);
      eapply IH; eassumption.
Qed.

(* settled reads on the real schedule: between two blocks that use the slot, whatever runs (and the
   check guarantees those blocks do not use it) leaves the content of the earlier one *)
Theorem settled_on_schedule : forall ext groups h sgs A P M rest w,
  chain_ok groups h 0 0 sgs = true ->
  sgs = A ++ P :: M ++ rest ->
  (forall sg, In sg M -> role sg h = 0) ->
  get h (w_buf (run_sgs ext (A ++ P :: M) w)) = get h (w_buf (run_sg ext P (run_sgs ext A w))).
Proof.
  intros ext groups h sgs A P M rest w Hc Heq HM.
  apply ref_reads_settled. rewrite Forall_forall. intros sg Hsg.
  apply (chain_ok_others_free groups h sgs 0 0 Hc sg); [|apply HM; exact Hsg].
  rewrite Heq. apply in_or_app. right. right. apply in_or_app. left. exact Hsg.
Qed.
