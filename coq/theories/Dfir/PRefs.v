(* E7 Dfir -- soundness of the executable frame check, and settled reads stated on it. *)
From Coq Require Import List NArith Bool.
From HV Require Import Dfir.Model Dfir.ModelTick Dfir.ModelFlat Dfir.ModelRefs Dfir.PFrame Dfir.PFlat Dfir.PFlatCheck.
Import ListNotations.
Open Scope N_scope.

Lemma buf_free_b_sound : forall sg h, buf_free_b sg h = true -> buf_free sg h.
Proof.
  intros sg h H. unfold buf_free_b in H.
  apply andb_true_iff in H. destruct H as [H H3]. apply andb_true_iff in H. destruct H as [H1 H2].
  split; [|split].
  - apply nmem_false. apply negb_true_iff. exact H1.
  - intros e He Hs Heq. rewrite forallb_forall in H2. specialize (H2 e He). rewrite Hs, Heq, N.eqb_refl in H2. discriminate.
  - rewrite Forall_forall. intros n Hn. rewrite forallb_forall in H3. specialize (H3 n Hn).
    unfold node_refs, node_refs_b in *. destruct (n_kind n); try tauto.
    intro Heq. subst. rewrite N.eqb_refl in H3. discriminate.
Qed.

(* on a schedule that passed the check, every block that does not use the slot leaves it alone *)
Lemma chain_ok_others_free : forall groups h sgs phase last,
  chain_ok groups h phase last sgs = true ->
  forall sg, In sg sgs -> role sg h = 0 -> buf_free sg h.
Proof.
  induction sgs as [|sg0 r IH]; intros phase last H sg Hin Hr; [destruct Hin|].
  cbn [chain_ok] in H. destruct Hin as [->|Hin].
  - rewrite Hr in H. apply andb_true_iff in H. destruct H as [H _]. apply buf_free_b_sound. exact H.
  - destruct (role sg0 h) as [|p]; [apply andb_true_iff in H; destruct H as [_ H]; eapply IH; eassumption|].
    destruct p as [p|p|]; try destruct p; repeat (apply andb_true_iff in H; destruct H as [? H]);
      eapply IH; eassumption.
Qed.

(* settled reads on the real schedule: between two blocks that use the slot, whatever runs (and the
   check guarantees those blocks do not use it) leaves the content of the earlier one *)
Theorem settled_on_schedule : forall ext groups h sgs A P M rest w,
  chain_ok groups h 0 0 sgs = true ->
  sgs = A ++ P :: M ++ rest ->
  (forall sg, In sg M -> role sg h = 0) ->
  get h (w_buf (run_sgs ext (A ++ P :: M) w)) = get h (w_buf (run_sg ext P (run_sgs ext A w))).
Proof.
  intros ext groups h sgs A P M rest w Hc Heq HM.
  apply ref_reads_settled. rewrite Forall_forall. intros sg Hsg.
  apply (chain_ok_others_free groups h sgs 0 0 Hc sg); [|apply HM; exact Hsg].
  rewrite Heq. apply in_or_app. right. right. apply in_or_app. left. exact Hsg.
Qed.

(* ------------------------------------------------------------------ loop schedules *)
From HV Require Import Dfir.PTick.

Definition keeps (h : N) (a b : world) : Prop := get h (w_buf a) = get h (w_buf b).

Lemma keeps_refl : forall h w, keeps h w w.
Proof. intros; reflexivity. Qed.
Lemma keeps_trans : forall h a b c, keeps h a b -> keeps h b c -> keeps h a c.
Proof. unfold keeps. intros. congruence. Qed.

(* an instruction that passes the test -- however often its loop gates let it run -- leaves the
   slot alone *)
Theorem exec_free : forall ext h i w, instr_free_b h i = true -> keeps h w (exec ext i w).
Proof.
  intros ext h i. induction i as [sg | hs | root checks body swaps IH] using instr_ind'; intros w H.
  - cbn [exec instr_free_b] in *. unfold keeps. symmetry. apply run_sg_buf_free. apply buf_free_b_sound. exact H.
  - cbn [exec instr_free_b] in *. apply negb_true_iff in H. apply nmem_false in H. unfold keeps.
    revert w. induction hs as [|x hs IHh]; intros w; cbn [fold_left]; [reflexivity|].
    rewrite <- IHh by (intro Hx; apply H; right; exact Hx).
    cbn [w_buf set_buf]. unfold get. symmetry. apply lookup_update_other. intro; subst. apply H. left. reflexivity.
  - cbn [instr_free_b] in H. apply andb_true_iff in H. destruct H as [Hb Hs].
    apply negb_true_iff in Hs. apply nmem_false in Hs. rewrite forallb_forall in Hb. rewrite Forall_forall in IH.
    assert (Hbody : forall w0, keeps h w0 (swap_all swaps (fold_left (fun w i => exec ext i w) body w0))).
    { intros w0. eapply keeps_trans.
      - apply (fold_left_R (keeps h) (keeps_refl h) (keeps_trans h) (fun w i => exec ext i w) body). intros w1 x Hx. apply IH; [exact Hx | apply Hb; exact Hx].
      - unfold keeps. symmetry. exact (proj2 (swap_all_notin swaps _ h Hs)). }
    cbn [exec]. destruct checks as [|c cs]; [apply Hbody|].
    destruct root.
    + destruct (existsb _ _); [apply Hbody | apply keeps_refl].
    + apply (while_gate_R (keeps h) (keeps_refl h) (keeps_trans h)); [exact Hbody | intros; reflexivity].
Qed.

Lemma exec_list_free : forall ext h is w, forallb (instr_free_b h) is = true ->
  keeps h w (fold_left (fun w i => exec ext i w) is w).
Proof.
  intros ext h is w H. rewrite forallb_forall in H.
  apply (fold_left_R (keeps h) (keeps_refl h) (keeps_trans h) (fun w i => exec ext i w) is). intros w1 x Hx. apply exec_free. apply H. exact Hx.
Qed.

(* settled reads on a schedule with loop blocks: after the instructions A, an instruction P that
   uses the slot (a block, or a whole loop containing such blocks) and any instructions M that pass
   the test -- blocks and whole loops, whatever their gates do -- the slot holds what P left *)
Theorem settled_on_loop_schedule : forall ext h A P M w,
  forallb (instr_free_b h) M = true ->
  get h (w_buf (fold_left (fun w i => exec ext i w) (A ++ P :: M) w)) =
  get h (w_buf (exec ext P (fold_left (fun w i => exec ext i w) A w))).
Proof.
  intros ext h A P M w HM. rewrite fold_left_app. cbn [fold_left]. symmetry. apply exec_list_free. exact HM.
Qed.
