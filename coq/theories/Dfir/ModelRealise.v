(* E7 Dfir -- the pull and the push realisation of the operators whose write_fn has two
   materially different `is_pull` branches (definitions only).

   pull realisation: the operator drains its upstream (`Pull::for_each(input, ..)`) and then yields
     items downstream: a function  state -> items pulled -> state * items yielded.
   push realisation: a `Push` object: `start_send(item)` per item, then `poll_finalize`; each may
     forward items downstream: a machine (step, fin); its run over a tick's items concatenates
     what the steps and the finalize forward. *)
From Coq Require Import List NArith Bool Arith.
From HV Require Import Dfir.Model.
Import ListNotations.

Section Machines.
  Context {S : Type}.
  Definition push_run (step : S -> val -> S * list val) (fin : S -> S * list val)
             (s : S) (items : list val) : S * list val :=
    let '(s1, out1) := fold_left (fun (acc : S * list val) x =>
                                    let '(s, out) := acc in
                                    let '(s', o) := step s x in (s', out ++ o)) items (s, []) in
    let '(s2, out2) := fin s1 in (s2, out1 ++ out2).
End Machines.

(* ---- fold (fold.rs): state = accumulator *)
Definition fold_pull (f : val -> val -> val) (acc : val) (items : list val) : val * list val :=
  let acc' := fold_left f items acc in (acc', [acc']).            (* for_each drain; pull::once(clone) *)
Definition fold_push_step (f : val -> val -> val) (acc : val) (x : val) : val * list val := (f acc x, []).
Definition fold_push_fin (acc : val) : val * list val := (acc, [acc]).   (* push::fold .. map(clone) on finalize *)

(* ---- persist::<'static> (persist.rs, push/persist.rs): state = (vec, replay_idx); a new tick
   constructs Persist with replay = true, i.e. replay_idx = 0 *)
Definition persist_pull (vec : list val) (items : list val) : list val * list val :=
  let vec' := vec ++ items in (vec', vec').                        (* push all, then iterate the vec *)
Definition persist_push_step (s : list val * nat) (x : val) : (list val * nat) * list val :=
  let '(vec, idx) := s in
  let replay := skipn idx vec in                                   (* poll_ready: empty_replay *)
  let vec' := vec ++ [x] in                                        (* start_send: buf.push(item) *)
  ((vec', length vec'), replay ++ [x]).
Definition persist_push_fin (s : list val * nat) : (list val * nat) * list val :=
  let '(vec, idx) := s in ((vec, length vec), skipn idx vec).      (* poll_finalize: empty_replay *)

(* ---- fold_keyed (fold_keyed.rs, push/fold_keyed.rs): state = table *)
Definition fold_keyed_pull (p : pers) (init : val) (f : val -> val -> val) (t : list val) (items : list val)
  : list val * list val :=
  let t' := fold_left (fold_keyed_ins init f) items t in
  match p with
  | Tick => ([], t')                                               (* hashtable.drain() *)
  | Static => (t', t')                                             (* hashtable.iter().cloned() *)
  end.
Definition fold_keyed_push_step (init : val) (f : val -> val -> val) (t : list val) (x : val)
  : list val * list val := (fold_keyed_ins init f t x, []).
Definition fold_keyed_push_fin (t : list val) : list val * list val := (t, rev t).   (* flush_items.pop() *)
Definition fold_keyed_end (p : pers) (t : list val) : list val :=
  match p with Tick => [] | Static => t end.                       (* write_tick_end: clear() *)

(* ---- sort_by_key (sort_by_key.rs): no cross-tick state; the push side buffers in a fold *)
Definition sort_by_key_pull (key : val -> val) (items : list val) : list val := isort_by key items.
Definition sort_by_key_push_step (buf : list val) (x : val) : list val * list val := (buf ++ [x], []).
Definition sort_by_key_push_fin (key : val -> val) (buf : list val) : list val * list val :=
  ([], isort_by key buf).

(* ---- reduce_no_replay (reduce_no_replay.rs): state = accumulator (None = [] / Some a = [a]).
   pull: drain with `__was_updated = true` per item, then emit the accumulator if it was updated
   or this is tick 0.
   push (since /repo 6436e27651c): `push::inspect(|_| was_updated.set(true), reduce_ref(..))`: the
   flag is set for every incoming item, before the reduce -- ReduceState::accumulate stores the first
   item into an empty accumulator without calling the reduce closure -- then filter on
   `was_updated || tick 0`. *)
Definition reduce_nr_pull (f : val -> val -> val) (tick0 : bool) (acc : list val) (items : list val)
  : list val * list val :=
  let acc' := fold_left (reduce_ins f) items acc in
  (acc', if (match items with [] => false | _ => true end) || tick0 then acc' else []).

Definition reduce_nr_push_step (f : val -> val -> val) (s : list val * bool) (x : val)
  : (list val * bool) * list val :=
  ((reduce_ins f (fst s) x, true), []).       (* inspect: was_updated.set(true); then accumulate *)
Definition reduce_nr_push_fin (tick0 : bool) (s : list val * bool) : (list val * bool) * list val :=
  (s, if snd s || tick0 then fst s else []).

(* the push realisation before /repo 6436e27651c: the flag was set inside the reduce closure, which
   is not called for the first item stored into an empty accumulator (former finding) *)
Definition reduce_nr_push_step_old (f : val -> val -> val) (s : list val * bool) (x : val)
  : (list val * bool) * list val :=
  match fst s with
  | [] => (([x], snd s), [])
  | a :: _ => (([f a x], true), [])
  end.
