(* E7 Dfir -- C22 (iii) on engine E6's partitioner model (Partition/Model.v, imported read-only):
   for flat graphs without loop blocks and without references (the perturbation catalogue), the
   same-tick dependency relation is the non-delayed pipe edges; replacing a non-delayed pipe edge
   u -> v by u -> m -> v with m a fresh operator whose input is not delayed is a subdivision in the
   sense of PSubdiv, hence (C19) the partitioner rejects the perturbed graph iff it rejects the base. *)
From Coq Require Import List String NArith Bool Arith Lia.
From HV Require Import Partition.Base GraphAlg.Model GraphAlg.PTopo Partition.Model Partition.PC19 Dfir.PSubdiv.
Import ListNotations.
Open Scope N_scope.

Lemma flat_map_nil : forall {A B} (f : A -> list B) l, (forall x, In x l -> f x = []) -> flat_map f l = [].
Proof.
  induction l as [|x l IH]; intros H; [reflexivity|]. cbn [flat_map].
  rewrite (H x (or_introl eq_refl)), IH; [reflexivity | intros y Hy; apply H; right; exact Hy].
Qed.

Section Simple.
  Variable T : optable.

  (* no loop blocks, no references *)
  Definition simple (g : graph) : Prop :=
    g_loops g = [] /\ forall n, In n (g_nodes g) -> n_refs n = [].

  Lemma simple_all_refs : forall g, simple g -> all_refs g = [].
  Proof.
    intros g [_ Hr]. unfold all_refs. apply flat_map_nil. intros n Hn.
    rewrite (Hr n Hn). destruct (n_kind n); reflexivity.
  Qed.

  Lemma simple_loop_nodes : forall g l, simple g -> loop_nodes g l = [].
  Proof. intros g l [Hl _]. unfold loop_nodes. rewrite Hl. reflexivity. Qed.

  Lemma simple_deps : forall g, simple g -> forall x p,
    In p (same_tick_deps T g x) <->
    exists e, In e (g_edges g) /\ is_tick T g e = false /\ e_dst e = x /\ e_src e = p.
  Proof.
    intros g Hs x p. unfold same_tick_deps, pred_pairs, base_pairs.
    assert (Hap : access_pairs_raw g = []).
    { unfold access_pairs_raw, ref_targets. rewrite (simple_all_refs g Hs). reflexivity. }
    assert (Href : ref_dep_pairs g = []).
    { unfold ref_dep_pairs. apply flat_map_nil. intros n Hn. rewrite (proj2 Hs n Hn). reflexivity. }
    assert (Hing : ingress_pairs T g = []).
    { unfold ingress_pairs. apply flat_map_nil. intros e He. destruct (is_tick T g e); [reflexivity|].
      destruct (node_loop g (e_dst e)) as [dl|]; [|reflexivity].
      rewrite (simple_loop_nodes g dl Hs). destruct (optN_eqb _ _); reflexivity. }
    assert (Hgen : forall pairs, gen_ingress_pairs g pairs = []).
    { intros pairs. unfold gen_ingress_pairs. apply flat_map_nil. intros q _.
      destruct (memN (fst q) (node_ids g)); [|reflexivity].
      apply flat_map_nil. intros l _. rewrite (simple_loop_nodes g l Hs). reflexivity. }
    rewrite Hap, Href, Hing, Hgen. cbn [access_dep_pairs map app]. rewrite !app_nil_r.
    unfold preds_from, pipe_pairs. rewrite in_map_iff. split.
    - intros [q [Hq Hin]]. apply filter_In in Hin. destruct Hin as [Hin Hf]. apply N.eqb_eq in Hf.
      apply in_flat_map in Hin. destruct Hin as [e [He Hq2]].
      destruct (is_tick T g e) eqn:Et; [destruct Hq2|]. destruct Hq2 as [Hq2|[]]. subst q. cbn [fst snd] in *.
      exists e. repeat split; assumption.
    - intros [e [He [Et [Hd Hsrc]]]]. exists (e_dst e, e_src e). split; [exact Hsrc|].
      apply filter_In. split; [|cbn [fst]; apply N.eqb_eq; exact Hd].
      apply in_flat_map. exists e. split; [exact He|]. rewrite Et. left. reflexivity.
  Qed.

  (* ------------------------------------------------------------------ splicing a pass-through node into an edge *)

  Variables (g g' : graph) (e0 e1 e2 : edge) (u v m : N).
  Hypothesis Sg : simple g.
  Hypothesis Sg' : simple g'.
  Hypothesis He0 : In e0 (g_edges g) /\ e_src e0 = u /\ e_dst e0 = v /\ is_tick T g e0 = false.
  Hypothesis He1 : e_src e1 = u /\ e_dst e1 = m.
  Hypothesis He2 : e_src e2 = m /\ e_dst e2 = v.
  (* the edges of g' are those of g with e0 replaced by e1, e2 *)
  Hypothesis Hedges : forall e, In e (g_edges g') <-> (In e (g_edges g) /\ e <> e0) \/ e = e1 \/ e = e2.
  (* m is a new node, an operator whose input is not delayed; the other nodes are unchanged *)
  Hypothesis Hm_new : ~ In m (node_ids g).
  Hypothesis Hends : forall e, In e (g_edges g) -> In (e_src e) (node_ids g) /\ In (e_dst e) (node_ids g).
  Hypothesis Hnode : forall id, id <> m -> node_of g' id = node_of g id.
  Hypothesis Hm_tick : is_tick T g' e1 = false.

  Lemma tick_same : forall e, e_dst e <> m -> is_tick T g' e = is_tick T g e.
  Proof. intros e H. unfold is_tick, edge_delay. rewrite (Hnode (e_dst e) H). reflexivity. Qed.

  Lemma old_edge_not_m : forall e, In e (g_edges g) -> e_src e <> m /\ e_dst e <> m.
  Proof. intros e He. destruct (Hends e He) as [A B]. split; intro; subst; contradiction. Qed.

  Lemma vm : v <> m.
  Proof. destruct He0 as [Hin [_ [Hd _]]]. rewrite <- Hd. exact (proj2 (old_edge_not_m e0 Hin)). Qed.

  Theorem splice_sub_ok : sub_ok (same_tick_deps T g) (same_tick_deps T g') u v m.
  Proof.
    destruct He0 as [Hin0 [Hs0 [Hd0 Ht0]]]. destruct He1 as [Hs1 Hd1]. destruct He2 as [Hs2 Hd2].
    assert (Ht2 : is_tick T g' e2 = false).
    { rewrite (tick_same e2) by (rewrite Hd2; exact vm).
      unfold is_tick, edge_delay in *. rewrite Hd2, <- Hd0. exact Ht0. }
    constructor.
    - apply (simple_deps g Sg). exists e0. repeat split; assumption.
    - intros x Hc. apply (simple_deps g Sg) in Hc. destruct Hc as [e [He [_ [_ Hsrc]]]].
      exact (proj1 (old_edge_not_m e He) Hsrc).
    - destruct (same_tick_deps T g m) as [|p l] eqn:E; [reflexivity|]. exfalso.
      assert (Hp : In p (same_tick_deps T g m)) by (rewrite E; left; reflexivity).
      apply (simple_deps g Sg) in Hp. destruct Hp as [e [He [_ [Hd _]]]].
      exact (proj2 (old_edge_not_m e He) Hd).
    - intros p x Hp. apply (simple_deps g Sg) in Hp. destruct Hp as [e [He [Et [Hd Hsrc]]]].
      destruct (N.eq_dec (e_id e) (e_id e0)) as [Hid|Hid].
      + (* maybe e0 itself or a parallel edge with the same id: decide by endpoints *)
        destruct (N.eq_dec p u) as [->|Hpu]; [destruct (N.eq_dec x v) as [->|Hxv]; [right; split; reflexivity|]|].
        * left. apply (simple_deps g' Sg'). exists e. split; [apply Hedges; left; split; [exact He | intro; subst; congruence]|].
          rewrite tick_same by exact (proj2 (old_edge_not_m e He)). repeat split; assumption.
        * left. apply (simple_deps g' Sg'). exists e. split; [apply Hedges; left; split; [exact He | intro; subst; congruence]|].
          rewrite tick_same by exact (proj2 (old_edge_not_m e He)). repeat split; assumption.
      + left. apply (simple_deps g' Sg'). exists e. split; [apply Hedges; left; split; [exact He | intro; subst; congruence]|].
        rewrite tick_same by exact (proj2 (old_edge_not_m e He)). repeat split; assumption.
    - intros p x Hp. apply (simple_deps g' Sg') in Hp. destruct Hp as [e [He [Et [Hd Hsrc]]]].
      apply Hedges in He. destruct He as [[He Hne]|[He|He]]; [|subst e|subst e].
      + left. destruct (old_edge_not_m e He) as [A B]. split; [rewrite <- Hd; exact B|]. split; [rewrite <- Hsrc; exact A|].
        apply (simple_deps g Sg). exists e. rewrite <- (tick_same e B). repeat split; assumption.
      + right. left. split; congruence.
      + right. right. split; congruence.
    - apply (simple_deps g' Sg'). exists e1. split; [apply Hedges; right; left; reflexivity|]. repeat split; assumption.
    - apply (simple_deps g' Sg'). exists e2. split; [apply Hedges; right; right; reflexivity|]. repeat split; assumption.
  Qed.

  Lemma deps_closed_simple : forall x p, In p (same_tick_deps T g x) -> In x (node_ids g) /\ In p (node_ids g).
  Proof.
    intros x p Hp. apply (simple_deps g Sg) in Hp. destruct Hp as [e [He [_ [Hd Hsrc]]]].
    destruct (Hends e He). subst. split; assumption.
  Qed.

  (* same-tick cycles are preserved both ways ... *)
  Theorem splice_keeps_cycles :
    (exists c, is_cycle (same_tick_deps T g) c) <-> (exists c, is_cycle (same_tick_deps T g') c).
  Proof.
    apply (subdivision_keeps_cycles _ _ u v m (node_ids g) splice_sub_ok deps_closed_simple Hm_new).
  Qed.

  (* ... hence the partitioner's accept/reject verdict (C19, under its decidable preconditions) *)
  Theorem splice_keeps_verdict :
    deps_closed_b T g = true -> access_conflict g = false -> enemy_self_pair T g = false ->
    deps_closed_b T g' = true -> access_conflict g' = false -> enemy_self_pair T g' = false ->
    ((exists c, partition_verdict T g = Rejected c) <-> (exists c, partition_verdict T g' = Rejected c)).
  Proof.
    intros A1 A2 A3 B1 B2 B3.
    rewrite (rejects_iff_cycle T g A1 A2 A3), (rejects_iff_cycle T g' B1 B2 B3). exact splice_keeps_cycles.
  Qed.
End Simple.
