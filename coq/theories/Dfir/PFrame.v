(* E7 Dfir -- frame lemmas for the tick program model: a subgraph block only touches the
   buffers of the handoffs it sends to, receives from, or references.  Used for the end-to-end
   defer_tick delivery theorem (C24) and for reference reads (C25). *)
From Coq Require Import List NArith Bool Arith Lia.
From HV Require Import Dfir.Model Dfir.ModelTick Dfir.POps Dfir.PTick.
Import ListNotations.
Open Scope N_scope.

Definition node_refs (n : node) (h : N) : Prop :=
  match n_kind n with NRef h' _ => h' = h | _ => False end.

(* the block of sg never writes `buf` of h *)
Definition buf_free (sg : subgraph) (h : N) : Prop :=
  ~ In h (map fst (sg_send sg)) /\
  (forall e, In e (sg_recv sg) -> snd e = false -> fst e <> h) /\
  Forall (fun n => ~ node_refs n h) (sg_nodes sg).

(* the block of sg never touches `back` of h *)
Definition back_free (sg : subgraph) (h : N) : Prop :=
  forall e, In e (sg_recv sg) -> snd e = true -> fst e <> h.

Definition same_h (h : N) (a b : world) : Prop :=
  get h (w_buf a) = get h (w_buf b).
Definition same_back (h : N) (a b : world) : Prop :=
  get h (w_back a) = get h (w_back b).

(* ------------------------------------------------------------------ prep_send *)

Lemma prep_send_back : forall sg w, w_back (prep_send sg w) = w_back w.
Proof.
  intros sg w. unfold prep_send.
  apply (fold_left_inv (fun w' => w_back w' = w_back w)); [|reflexivity].
  intros a x Ha. destruct (snd x); cbn [w_back set_buf]; exact Ha.
Qed.

Lemma prep_send_other : forall sg w h, ~ In h (map fst (sg_send sg)) ->
  get h (w_buf (prep_send sg w)) = get h (w_buf w).
Proof.
  intros sg w h. unfold prep_send. revert w.
  induction (sg_send sg) as [|x l IH]; intros w Hn; cbn [fold_left]; [reflexivity|].
  cbn [map In] in Hn. rewrite IH by (intro; apply Hn; right; assumption).
  destruct (snd x); cbn [w_buf set_buf]; try reflexivity;
    unfold get; apply lookup_update_other; intro; apply Hn; left; congruence.
Qed.

(* ------------------------------------------------------------------ recv_all *)

Lemma recv_step_buf_other : forall w loc e h, (snd e = false -> fst e <> h) ->
  get h (w_buf (fst (recv_step (w, loc) e))) = get h (w_buf w).
Proof.
  intros w loc [k b] h Hk. unfold recv_step, get. cbn [fst snd] in *.
  destruct b; destruct (lookup [] k _); cbn [fst snd w_back w_buf set_back set_buf set_work];
    try reflexivity; apply lookup_update_other; intro; subst; apply Hk; reflexivity.
Qed.

Lemma recv_step_back_other : forall w loc e h, (snd e = true -> fst e <> h) ->
  get h (w_back (fst (recv_step (w, loc) e))) = get h (w_back w).
Proof.
  intros w loc [k b] h Hk. unfold recv_step, get. cbn [fst snd] in *.
  destruct b; destruct (lookup [] k _); cbn [fst snd w_back w_buf set_back set_buf set_work];
    try reflexivity; apply lookup_update_other; intro; subst; apply Hk; reflexivity.
Qed.

Lemma recv_all_buf_other : forall sg w h,
  (forall e, In e (sg_recv sg) -> snd e = false -> fst e <> h) ->
  get h (w_buf (fst (recv_all sg w))) = get h (w_buf w).
Proof.
  intros sg w h. unfold recv_all. generalize (@nil (N * list val)) as loc. revert w.
  induction (sg_recv sg) as [|e l IH]; intros w loc H; cbn [fold_left]; [reflexivity|].
  destruct (recv_step (w, loc) e) as [w2 l2] eqn:E.
  rewrite IH by (intros e' He'; apply H; right; exact He').
  pose proof (recv_step_buf_other w loc e h (H e (or_introl eq_refl))) as H1.
  unfold bufs in *. rewrite E in H1. exact H1.
Qed.

Lemma recv_all_back_other : forall sg w h, back_free sg h ->
  get h (w_back (fst (recv_all sg w))) = get h (w_back w).
Proof.
  intros sg w h. unfold recv_all, back_free. generalize (@nil (N * list val)) as loc. revert w.
  induction (sg_recv sg) as [|e l IH]; intros w loc H; cbn [fold_left]; [reflexivity|].
  destruct (recv_step (w, loc) e) as [w2 l2] eqn:E.
  rewrite IH by (intros e' He'; apply H; right; exact He').
  pose proof (recv_step_back_other w loc e h (H e (or_introl eq_refl))) as H1.
  unfold bufs in *. rewrite E in H1. exact H1.
Qed.

(* ------------------------------------------------------------------ operators *)

Lemma is_send_In : forall sg e, is_send sg e = true -> In e (map fst (sg_send sg)).
Proof.
  intros sg e. unfold is_send. rewrite existsb_exists. intros [x [Hx He]].
  apply N.eqb_eq in He. subst. apply in_map. exact Hx.
Qed.

Lemma emit_back : forall sg acc eo, w_back (fst (emit sg acc eo)) = w_back (fst acc).
Proof.
  intros sg [w loc] [e its]. unfold emit. cbn [fst].
  destruct (is_send sg e); cbn [fst]; [|reflexivity].
  destruct (is_slot sg e); [|reflexivity].
  unfold slot_push. destruct (Nat.ltb _ _); reflexivity.
Qed.

Lemma emit_buf_other : forall sg acc eo h, ~ In h (map fst (sg_send sg)) ->
  get h (w_buf (fst (emit sg acc eo))) = get h (w_buf (fst acc)).
Proof.
  intros sg [w loc] [e its] h Hn. unfold emit. cbn [fst].
  destruct (is_send sg e) eqn:Es; cbn [fst]; [|reflexivity].
  assert (Hne : h <> e) by (intro; subst; apply Hn; apply is_send_In; exact Es).
  destruct (is_slot sg e).
  - unfold slot_push. destruct (Nat.ltb _ _); cbn [w_buf set_buf set_panic];
      unfold get; apply lookup_update_other; exact Hne.
  - cbn [w_buf set_buf]. unfold push_to, get. apply lookup_update_other. exact Hne.
Qed.

Lemma run_node_back : forall sg ext acc n, w_back (fst (run_node sg ext acc n)) = w_back (fst acc).
Proof.
  intros sg ext [w loc] n. unfold run_node. cbn [fst].
  assert (H1 : forall w1 outs, w_back w1 = w_back w ->
    w_back (fst (fold_left (emit sg) (combine (n_outs n) outs) (w1, loc))) = w_back w).
  { intros w1 outs Hw1.
    apply (fold_left_inv (fun acc : world * bufs => w_back (fst acc) = w_back w)); [|exact Hw1].
    intros acc eo Ha. rewrite emit_back. exact Ha. }
  destruct (n_kind n) as [o|o|k|k|h f].
  - destruct (op_step _ _ _) as [s' outs]. apply H1. reflexivity.
  - destruct (op_step _ _ _) as [s' outs]. apply H1. reflexivity.
  - apply H1. reflexivity.
  - apply H1. reflexivity.
  - destruct (ref_fold f _ _) as [[slot' outs] bad]. apply H1. destruct bad; reflexivity.
Qed.

Lemma run_node_buf_other : forall sg ext acc n h,
  ~ In h (map fst (sg_send sg)) -> ~ node_refs n h ->
  get h (w_buf (fst (run_node sg ext acc n))) = get h (w_buf (fst acc)).
Proof.
  intros sg ext [w loc] n h Hn Hr. unfold run_node. cbn [fst].
  assert (H1 : forall w1 outs, get h (w_buf w1) = get h (w_buf w) ->
    get h (w_buf (fst (fold_left (emit sg) (combine (n_outs n) outs) (w1, loc)))) = get h (w_buf w)).
  { intros w1 outs Hw1.
    apply (fold_left_inv (fun acc : world * bufs => get h (w_buf (fst acc)) = get h (w_buf w))); [|exact Hw1].
    intros acc eo Ha. rewrite emit_buf_other by exact Hn. exact Ha. }
  unfold node_refs in Hr.
  destruct (n_kind n) as [o|o|k|k|h' f].
  - destruct (op_step _ _ _) as [s' outs]. apply H1. reflexivity.
  - destruct (op_step _ _ _) as [s' outs]. apply H1. reflexivity.
  - apply H1. reflexivity.
  - apply H1. reflexivity.
  - destruct (ref_fold f _ _) as [[slot' outs] bad]. apply H1.
    destruct bad; cbn [w_buf set_buf set_panic]; unfold get; apply lookup_update_other; congruence.
Qed.

(* ------------------------------------------------------------------ a whole block *)

Theorem run_sg_back_free : forall ext sg w h, back_free sg h ->
  get h (w_back (run_sg ext sg w)) = get h (w_back w).
Proof.
  intros ext sg w h Hf. unfold run_sg.
  destruct (recv_all sg (prep_send sg w)) as [w2 loc] eqn:E.
  assert (H2 : get h (w_back w2) = get h (w_back w)).
  { pose proof (recv_all_back_other sg (prep_send sg w) h Hf) as H. rewrite E in H. cbn [fst] in H.
    rewrite H, prep_send_back. reflexivity. }
  apply (fold_left_inv (fun acc : world * bufs => get h (w_back (fst acc)) = get h (w_back w))); [|exact H2].
  intros acc n Ha. rewrite run_node_back. exact Ha.
Qed.

Theorem run_sg_buf_free : forall ext sg w h, buf_free sg h ->
  get h (w_buf (run_sg ext sg w)) = get h (w_buf w).
Proof.
  intros ext sg w h [Hs [Hr Hn]]. unfold run_sg.
  destruct (recv_all sg (prep_send sg w)) as [w2 loc] eqn:E.
  assert (H2 : get h (w_buf w2) = get h (w_buf w)).
  { pose proof (recv_all_buf_other sg (prep_send sg w) h Hr) as H. rewrite E in H. cbn [fst] in H.
    rewrite H. apply prep_send_other. exact Hs. }
  change w2 with (fst (w2, loc)) in H2. revert H2. generalize (w2, loc) as acc. clear E.
  induction (sg_nodes sg) as [|n ns IH]; intros acc H2; cbn [fold_left]; [exact H2|].
  inversion Hn as [|? ? Hn1 Hn2]; subst. apply IH; [exact Hn2|].
  rewrite run_node_buf_other by assumption. exact H2.
Qed.

(* ------------------------------------------------------------------ flat bodies *)

Definition run_sgs (ext : bufs) (sgs : list subgraph) (w : world) : world :=
  fold_left (fun w sg => run_sg ext sg w) sgs w.

Lemma body_flat : forall ext sgs w,
  fold_left (fun w i => exec ext i w) (map IRun sgs) w = run_sgs ext sgs w.
Proof.
  intros ext sgs. unfold run_sgs. induction sgs as [|sg l IH]; intros w; cbn [map fold_left]; [reflexivity|].
  apply IH.
Qed.

Lemma run_sgs_app : forall ext a b w, run_sgs ext (a ++ b) w = run_sgs ext b (run_sgs ext a w).
Proof. intros. unfold run_sgs. apply fold_left_app. Qed.

Lemma run_sgs_buf_free : forall ext sgs w h, Forall (fun sg => buf_free sg h) sgs ->
  get h (w_buf (run_sgs ext sgs w)) = get h (w_buf w).
Proof.
  intros ext sgs. unfold run_sgs. induction sgs as [|sg l IH]; intros w h H; cbn [fold_left]; [reflexivity|].
  inversion H; subst. rewrite IH by assumption. apply run_sg_buf_free. assumption.
Qed.

Lemma run_sgs_back_free : forall ext sgs w h, Forall (fun sg => back_free sg h) sgs ->
  get h (w_back (run_sgs ext sgs w)) = get h (w_back w).
Proof.
  intros ext sgs. unfold run_sgs. induction sgs as [|sg l IH]; intros w h H; cbn [fold_left]; [reflexivity|].
  inversion H; subst. rewrite IH by assumption. apply run_sg_back_free. assumption.
Qed.

(* ------------------------------------------------------------------ C24: end-to-end delivery *)

(* what the operators of block C read from handoff h when C runs after the blocks A *)
Definition reads_at (ext : bufs) (A : list subgraph) (C : subgraph) (h : N) (w : world) : list val :=
  get h (snd (recv_all C (prep_send C (run_sgs ext A w)))).

(* A flat tick program (no loop blocks).  h is a tick-level defer_tick handoff: it is in the
   swap list, exactly one block P sends to it and exactly one block C receives it (from the back
   buffer); these are the facts the lowering of a real partitioned graph provides, stated as:
     - every block after P in the order is buf_free for h (C only drains `back`),
     - every block before C in the order is back_free for h.
   Then what C's operators read from h in tick t+1 is exactly the buffer P's block left in
   tick t -- and P's block started by clearing it -- never earlier, never later. *)
Theorem defer_delivery : forall p ext ext' w h A1 P B1 A2 C B2 k,
  p_body p = map IRun (A1 ++ P :: B1) ->
  A1 ++ P :: B1 = A2 ++ C :: B2 ->
  NoDup (p_swaps p) -> In h (p_swaps p) ->
  Forall (fun sg => buf_free sg h) B1 ->
  Forall (fun sg => back_free sg h) A2 ->
  NoDup (map fst (sg_recv C)) -> In (h, true) (sg_recv C) ->
  In (h, k) (sg_send P) -> k <> SExit -> NoDup (map fst (sg_send P)) ->
  let w' := fst (tick_closure p ext w) in
  reads_at ext' A2 C h w' = get h (w_buf (run_sg ext P (run_sgs ext A1 w))) /\
  get h (w_buf (prep_send P (run_sgs ext A1 w))) = [].
Proof.
  intros p ext ext' w h A1 P B1 A2 C B2 k Hbody Heq ND Hin HB1 HA2 NDr Hr Hs Hk NDs w'.
  split; [|eapply prep_send_clears; eassumption].
  unfold reads_at.
  destruct (consumer_gets_back C (prep_send C (run_sgs ext' A2 w')) h NDr Hr) as [H1 _].
  cbv zeta in H1. rewrite H1. rewrite prep_send_back.
  rewrite run_sgs_back_free by exact HA2.
  destruct (defer_swap p ext w h ND Hin) as [H2 _]. cbv zeta in H2. fold w' in H2. rewrite H2.
  unfold body_world. rewrite Hbody, body_flat, run_sgs_app.
  change (P :: B1) with ([P] ++ B1). rewrite run_sgs_app.
  rewrite run_sgs_buf_free by exact HB1. reflexivity.
Qed.

(* ------------------------------------------------------------------ C25: reference reads *)

(* the slot content a block R finds for the referenced handoff h is what the last block before it
   that touches h left there: every block in between is buf_free *)
Theorem ref_reads_settled : forall ext A P M h w,
  Forall (fun sg => buf_free sg h) M ->
  get h (w_buf (run_sgs ext (A ++ P :: M) w)) = get h (w_buf (run_sg ext P (run_sgs ext A w))).
Proof.
  intros ext A P M h w HM. rewrite run_sgs_app. change (P :: M) with ([P] ++ M).
  rewrite run_sgs_app. rewrite run_sgs_buf_free by exact HM. reflexivity.
Qed.

(* a reference operator threads the slot through its closure, item by item, and leaves the result
   in the slot; its own outputs go to its output wires *)
Lemma run_node_ref : forall sg ext w loc n h f,
  n_kind n = NRef h f ->
  let '(slot', outs, bad) := ref_fold f (get h (w_buf w)) (port 0 (map (fun e => get e loc) (n_ins n))) in
  run_node sg ext (w, loc) n =
  fold_left (emit sg) (combine (n_outs n) [outs])
            (let w1 := set_buf w (update h slot' (w_buf w)) in if bad then set_panic w1 true else w1, loc).
Proof.
  intros sg ext w loc n h f Hk. unfold run_node. rewrite Hk.
  destruct (ref_fold f _ _) as [[slot' outs] bad]. reflexivity.
Qed.

(* access groups g1 < g2 < ... on one slot, each realised by a block that runs later in the order:
   the k-th group starts from the slot content the (k-1)-th left, whatever runs in between *)
Theorem groups_in_order : forall ext h (blocks : list (list subgraph * subgraph)) w,
  Forall (fun b => Forall (fun sg => buf_free sg h) (fst b)) blocks ->
  forall pre b post, blocks = pre ++ b :: post ->
  let before := concat (map (fun b => fst b ++ [snd b]) pre) in
  get h (w_buf (run_sgs ext (before ++ fst b) w)) = get h (w_buf (run_sgs ext before w)).
Proof.
  intros ext h blocks w Hall pre b post Heq before.
  rewrite run_sgs_app. apply run_sgs_buf_free.
  rewrite Forall_forall in Hall. apply Hall. rewrite Heq. apply in_or_app. right. left. reflexivity.
Qed.

(* ------------------------------------------------------------------ C23: same-tick delivery *)

(* a same-tick handoff h from block P to block C (P earlier in the order, the blocks M in between
   do not touch h, C does not send to h): C's operators read exactly the buffer P's block left --
   all of it, once -- and P's block had started it empty *)
Theorem same_tick_delivery : forall ext A P M C h k w,
  Forall (fun sg => buf_free sg h) M ->
  ~ In h (map fst (sg_send C)) ->
  NoDup (map fst (sg_recv C)) -> In (h, false) (sg_recv C) ->
  In (h, k) (sg_send P) -> k <> SExit -> NoDup (map fst (sg_send P)) ->
  reads_at ext (A ++ P :: M) C h w = get h (w_buf (run_sg ext P (run_sgs ext A w))) /\
  get h (w_buf (prep_send P (run_sgs ext A w))) = [].
Proof.
  intros ext A P M C h k w HM HC NDr Hr Hs Hk NDs.
  split; [|eapply prep_send_clears; eassumption].
  unfold reads_at.
  destruct (consumer_gets_buf C (prep_send C (run_sgs ext (A ++ P :: M) w)) h NDr Hr) as [H1 _].
  cbv zeta in H1. rewrite H1. rewrite prep_send_other by exact HC.
  apply ref_reads_settled. exact HM.
Qed.
