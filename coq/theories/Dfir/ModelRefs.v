(* E7 Dfir -- executable check that the REAL schedule orders the accesses to a slot (definitions
   only): evaluated on the blocks lowered from the real meta_graph() of every C25 program. *)
From Coq Require Import List NArith Bool.
From HV Require Import Dfir.Model Dfir.ModelTick Dfir.ModelFlat.
Import ListNotations.
Open Scope N_scope.

Definition node_refs_b (n : node) (h : N) : bool :=
  match n_kind n with NRef h' _ => N.eqb h' h | _ => false end.

(* the block never writes `buf` of h *)
Definition buf_free_b (sg : subgraph) (h : N) : bool :=
  negb (nmem h (sends_l sg)) &&
  forallb (fun e : N * bool => snd e || negb (N.eqb (fst e) h)) (sg_recv sg) &&
  forallb (fun n => negb (node_refs_b n h)) (sg_nodes sg).

(* how a block uses slot h: 0 = not at all, 1 = producer (sends), 2 = referrer, 3 = pipe consumer *)
Definition role (sg : subgraph) (h : N) : N :=
  if nmem h (sends_l sg) then 1
  else if existsb (fun n => node_refs_b n h) (sg_nodes sg) then 2
  else if nmem h (recvs_l sg) then 3 else 0.

(* access group of a referring block: the group of its (first) referring operator; [groups] maps
   operator ids to the access group number read from the real graph (ungrouped = 0) *)
Definition block_group (groups : list (N * N)) (sg : subgraph) (h : N) : N :=
  match filter (fun n => node_refs_b n h) (sg_nodes sg) with
  | n :: _ => lookup 0 (n_id n) groups
  | [] => 0
  end.

(* along the schedule: [others]* producer ([others] | referrers with non-decreasing group)* consumer?
   [others]*, every "other" block being buf_free for h.  phase: 0 before the producer, 1 after it
   (with the last group seen), 2 after the consumer *)
Fixpoint chain_ok (groups : list (N * N)) (h : N) (phase : N) (last : N) (sgs : list subgraph) : bool :=
  match sgs with
  | [] => true
  | sg :: r =>
      match role sg h with
      | 0 => buf_free_b sg h && chain_ok groups h phase last r
      | 1 => N.eqb phase 0 && chain_ok groups h 1 0 r
      | 2 => N.eqb phase 1 && N.leb last (block_group groups sg h) &&
             chain_ok groups h 1 (block_group groups sg h) r
      | _ => N.eqb phase 1 && chain_ok groups h 2 last r
      end
  end.

Definition refs_ordered (p : prog) (groups : list (N * N)) (h : N) : bool :=
  match blocks_of (p_body p) with
  | Some sgs => chain_ok groups h 0 0 sgs
  | None => false
  end.

(* programs with loop blocks: the blocks in program order, descending into the loop gates.  A root
   loop runs its blocks at most once per tick in this order; a nested loop repeats its blocks, still
   between the blocks before and after the loop *)
Fixpoint instr_blocks (i : instr) : list subgraph :=
  match i with
  | IRun sg => [sg]
  | IDecl _ => []
  | IGate _ _ body _ => flat_map instr_blocks body
  end.

Definition refs_ordered_l (p : prog) (groups : list (N * N)) (h : N) : bool :=
  chain_ok groups h 0 0 (flat_map instr_blocks (p_body p)).

(* an instruction (a block, a declaration, or a whole loop with everything in it) that never writes
   `buf` of h *)
Fixpoint instr_free_b (h : N) (i : instr) : bool :=
  match i with
  | IRun sg => buf_free_b sg h
  | IDecl hs => negb (nmem h hs)
  | IGate _ _ body swaps => forallb (instr_free_b h) body && negb (nmem h swaps)
  end.
