(* E7 Dfir -- the documented per-tick semantics of the named operators, as functions of the
   history (ticks before, this tick's inputs), and the proofs that the operator state
   machines of Model.v compute them. *)
From Coq Require Import List NArith Bool Arith Lia Permutation.
From HV Require Import Dfir.Model Dfir.POps.
Import ListNotations.
Open Scope N_scope.

Definition hspec := list (list (list val)) -> list (list val) -> list (list val).

(* ------------------------------------------------------------------ documented semantics *)

(* fold / reduce: the accumulated value over the tick ('tick) or over everything so far ('static) *)
Definition fold_spec (p : pers) (init : val) (f : val -> val -> val) : hspec :=
  fun pre cur => [[fold_left f (seen p pre cur 0) init]].

Definition reduce_spec (p : pers) (f : val -> val -> val) : hspec :=
  fun pre cur => [match seen p pre cur 0 with [] => [] | x :: r => [fold_left f r x] end].

(* keyed aggregation: one (k, aggregate of k's values in arrival order) per distinct key *)
Definition keys (l : list val) : list val := dedup (map vfst l).
Definition vals_of (k : val) (l : list val) : list val :=
  map vsnd (filter (fun kv => val_eqb (vfst kv) k) l).

Definition fold_keyed_spec (p : pers) (init : val) (f : val -> val -> val) : hspec :=
  fun pre cur => let L := seen p pre cur 0 in
                 [map (fun k => VP k (fold_left f (vals_of k L) init)) (keys L)].

Definition reduce_val (f : val -> val -> val) (vs : list val) : val :=
  match vs with [] => VN 0 | x :: r => fold_left f r x end.
Definition reduce_keyed_spec (p : pers) (f : val -> val -> val) : hspec :=
  fun pre cur => let L := seen p pre cur 0 in
                 [map (fun k => VP k (reduce_val f (vals_of k L))) (keys L)].

(* unique: first occurrences of this tick's items that were not seen before in the lifetime *)
Definition unique_spec (p : pers) : hspec :=
  fun pre cur => [filter (fun x => negb (vmem x (kept p pre 0))) (dedup (port 0 cur))].

Definition enumerate_spec (p : pers) : hspec :=
  fun pre cur => [enum_from (N.of_nat (length (kept p pre 0))) (port 0 cur)].

(* persist: replays everything seen so far *)
Definition persist_spec : hspec := fun pre cur => [items pre 0 ++ port 0 cur].

(* joins: set / multiset join of what each side holds under its persistence *)
Definition join_spec (pl pr : pers) : hspec :=
  fun pre cur => [join_tables (dedup (seen pl pre cur 0)) (dedup (seen pr pre cur 1))].
Definition join_multiset_spec (pl pr : pers) : hspec :=
  fun pre cur => [join_tables (seen pl pre cur 0) (seen pr pre cur 1)].
Definition cross_join_spec (pl pr : pers) : hspec :=
  fun pre cur => [cross_tables (dedup (seen pl pre cur 0)) (dedup (seen pr pre cur 1))].
Definition cross_join_multiset_spec (pl pr : pers) : hspec :=
  fun pre cur => [cross_tables (seen pl pre cur 0) (seen pr pre cur 1)].

(* anti_join / difference: port 0 = neg, port 1 = pos; everything whose key appears anywhere on
   the negative side (of the whole tick / lifetime) is removed; pos keeps its multiplicities *)
Definition anti_join_spec (ppos pneg : pers) : hspec :=
  fun pre cur => [anti_filter (seen pneg pre cur 0) (seen ppos pre cur 1)].
Definition difference_spec (ppos pneg : pers) : hspec :=
  fun pre cur => [diff_filter (seen pneg pre cur 0) (seen ppos pre cur 1)].

(* ------------------------------------------------------------------ from acc_spec to the named specs *)

Lemma named_correct : forall a (sp : hspec),
  (forall pre cur, acc_spec a pre cur = sp pre cur) ->
  forall h t, (t < length h)%nat -> nth t (run_op (OAcc a) h) [] = tick_view sp h t.
Proof.
  intros a sp H h t Ht. rewrite (acc_correct a h t Ht). unfold tick_view. apply H.
Qed.

Lemma acc1_spec : forall p init ins out pre cur,
  acc_spec (acc1 p init ins out) pre cur =
  [out (fold_left ins (seen p pre cur 0) init) (fold_left ins (kept p pre 0) init) (port 0 cur)].
Proof. reflexivity. Qed.

Lemma acc2_spec : forall p0 p1 i0 i1 out pre cur,
  acc_spec (acc2 p0 p1 i0 i1 out) pre cur =
  [out (fold_left i0 (seen p0 pre cur 0) []) (fold_left i1 (seen p1 pre cur 1) []) (port 0 cur) (port 1 cur)].
Proof. reflexivity. Qed.

Lemma fold_vec_push_nil : forall l, fold_left vec_push l [] = l.
Proof. intros l. rewrite fold_vec_push. reflexivity. Qed.

Theorem fold_correct : forall p init f h t, (t < length h)%nat ->
  nth t (run_op (op_fold p init f) h) [] = tick_view (fold_spec p init f) h t.
Proof.
  intros p init f. apply named_correct. intros pre cur. rewrite acc1_spec.
  rewrite fold_fold_ins. reflexivity.
Qed.

Theorem reduce_correct : forall p f h t, (t < length h)%nat ->
  nth t (run_op (op_reduce p f) h) [] = tick_view (reduce_spec p f) h t.
Proof.
  intros p f. apply named_correct. intros pre cur. rewrite acc1_spec.
  rewrite fold_reduce_ins. reflexivity.
Qed.

Theorem persist_correct : forall h t, (t < length h)%nat ->
  nth t (run_op op_persist h) [] = tick_view persist_spec h t.
Proof.
  apply named_correct. intros pre cur. rewrite acc1_spec. rewrite fold_vec_push_nil. reflexivity.
Qed.

Theorem unique_correct : forall p h t, (t < length h)%nat ->
  nth t (run_op (op_unique p) h) [] = tick_view (unique_spec p) h t.
Proof.
  intros p. apply named_correct. intros pre cur. rewrite acc1_spec. unfold unique_spec, seen.
  fold (dedup (kept p pre 0 ++ port 0 cur)). fold (dedup (kept p pre 0)).
  rewrite dedup_app. rewrite skipn_app_exact. f_equal.
  apply filter_ext. intros x. rewrite vmem_dedup. reflexivity.
Qed.

Theorem enumerate_correct : forall p h t, (t < length h)%nat ->
  nth t (run_op (op_enumerate p) h) [] = tick_view (enumerate_spec p) h t.
Proof.
  intros p. apply named_correct. intros pre cur. rewrite acc1_spec. unfold enumerate_spec.
  rewrite !fold_enum_ins. cbn [hd vnum]. rewrite N.add_0_l. reflexivity.
Qed.

Theorem join_correct : forall pl pr h t, (t < length h)%nat ->
  nth t (run_op (op_join pl pr) h) [] = tick_view (join_spec pl pr) h t.
Proof. intros pl pr. apply named_correct. intros pre cur. rewrite acc2_spec. reflexivity. Qed.

Theorem join_multiset_correct : forall pl pr h t, (t < length h)%nat ->
  nth t (run_op (op_join_multiset pl pr) h) [] = tick_view (join_multiset_spec pl pr) h t.
Proof.
  intros pl pr. apply named_correct. intros pre cur. rewrite acc2_spec.
  rewrite !fold_vec_push_nil. reflexivity.
Qed.

Theorem cross_join_correct : forall pl pr h t, (t < length h)%nat ->
  nth t (run_op (op_cross_join pl pr) h) [] = tick_view (cross_join_spec pl pr) h t.
Proof. intros pl pr. apply named_correct. intros pre cur. rewrite acc2_spec. reflexivity. Qed.

Theorem cross_join_multiset_correct : forall pl pr h t, (t < length h)%nat ->
  nth t (run_op (op_cross_join_multiset pl pr) h) [] = tick_view (cross_join_multiset_spec pl pr) h t.
Proof.
  intros pl pr. apply named_correct. intros pre cur. rewrite acc2_spec.
  rewrite !fold_vec_push_nil. reflexivity.
Qed.

Theorem anti_join_correct : forall ppos pneg h t, (t < length h)%nat ->
  nth t (run_op (op_anti_join ppos pneg) h) [] = tick_view (anti_join_spec ppos pneg) h t.
Proof.
  intros ppos pneg. apply named_correct. intros pre cur. rewrite acc2_spec.
  rewrite fold_vec_push_nil. unfold anti_join_spec, anti_filter. f_equal.
  apply filter_ext. intros x. fold (dedup (seen pneg pre cur 0)). rewrite vmem_dedup. reflexivity.
Qed.

Theorem difference_correct : forall ppos pneg h t, (t < length h)%nat ->
  nth t (run_op (op_difference ppos pneg) h) [] = tick_view (difference_spec ppos pneg) h t.
Proof.
  intros ppos pneg. apply named_correct. intros pre cur. rewrite acc2_spec.
  rewrite fold_vec_push_nil. unfold difference_spec, diff_filter. f_equal.
  apply filter_ext. intros x. fold (dedup (seen pneg pre cur 0)). rewrite vmem_dedup. reflexivity.
Qed.

(* ------------------------------------------------------------------ cross_singleton *)

Definition cross_singleton_spec (p : pers) : hspec :=
  fun pre cur => [cross_single (port 0 cur) (firstn 1 (seen p pre cur 1))].

Lemma fold_keep_first : forall l, fold_left keep_first l [] = firstn 1 l.
Proof.
  intros [|x r]; [reflexivity|]. cbn [fold_left keep_first firstn].
  induction r as [|y r IH]; [reflexivity | exact IH].
Qed.

Theorem cross_singleton_correct : forall p h t, (t < length h)%nat ->
  nth t (run_op (op_cross_singleton p) h) [] = tick_view (cross_singleton_spec p) h t.
Proof.
  intros p. apply named_correct. intros pre cur. rewrite acc2_spec.
  rewrite fold_vec_push_nil, fold_keep_first. reflexivity.
Qed.

(* ------------------------------------------------------------------ fold_no_replay / reduce_no_replay *)

(* the accumulated value as for fold / reduce, emitted only when the tick has new input or is tick 0 *)
Definition no_replay_spec (p : pers) (init : list val) (ins : list val -> val -> list val) : hspec :=
  fun pre cur =>
    [match port 0 cur, pre with
     | [], _ :: _ => []
     | _, _ => fold_left ins (seen p pre cur 0) init
     end].

Definition nr_state (p : pers) (init : list val) (ins : list val -> val -> list val)
           (pre : list (list (list val))) : ostate :=
  {| st_ports := [fold_left ins (kept p pre 0) init; match pre with [] => [] | _ => [VN 1] end] |}.

Lemma run_no_replay : forall p init ins h pre,
  run_from (ONoReplay p init ins) (nr_state p init ins pre) h = spec_run (no_replay_spec p init ins) pre h.
Proof.
  intros p init ins h. induction h as [|c r IH]; intros pre; cbn [run_from spec_run]; [reflexivity|].
  unfold nr_state at 1. cbn [op_step op_end st_ports port nth].
  rewrite <- fold_left_app. fold (seen p pre c 0).
  f_equal.
  - unfold no_replay_spec. unfold port. destruct (nth 0 c []); destruct pre; reflexivity.
  - rewrite <- IH. f_equal. unfold nr_state. f_equal. f_equal.
    + unfold seen, kept. destruct p; [reflexivity|]. rewrite items_app. reflexivity.
    + f_equal. destruct pre; reflexivity.
Qed.

Theorem no_replay_correct : forall p init ins h t, (t < length h)%nat ->
  nth t (run_op (ONoReplay p init ins) h) [] = tick_view (no_replay_spec p init ins) h t.
Proof.
  intros p init ins h t Ht. unfold run_op, tick_view. cbn [op_init].
  assert (E : {| st_ports := [init; []] |} = nr_state p init ins []) by (destruct p; reflexivity).
  rewrite E, run_no_replay. rewrite (spec_run_nth (no_replay_spec p init ins) h [] t [] []) by exact Ht. reflexivity.
Qed.

Definition fold_no_replay_spec (p : pers) (init : val) (f : val -> val -> val) : hspec :=
  fun pre cur => [match port 0 cur, pre with
                  | [], _ :: _ => []
                  | _, _ => [fold_left f (seen p pre cur 0) init]
                  end].
Definition reduce_no_replay_spec (p : pers) (f : val -> val -> val) : hspec :=
  fun pre cur => [match port 0 cur, pre with
                  | [], _ :: _ => []
                  | _, _ => match seen p pre cur 0 with [] => [] | x :: r => [fold_left f r x] end
                  end].

Theorem fold_no_replay_correct : forall p init f h t, (t < length h)%nat ->
  nth t (run_op (op_fold_no_replay p init f) h) [] = tick_view (fold_no_replay_spec p init f) h t.
Proof.
  intros p init f h t Ht. unfold op_fold_no_replay. rewrite no_replay_correct by exact Ht.
  unfold tick_view, no_replay_spec, fold_no_replay_spec. rewrite fold_fold_ins. reflexivity.
Qed.

Theorem reduce_no_replay_correct : forall p f h t, (t < length h)%nat ->
  nth t (run_op (op_reduce_no_replay p f) h) [] = tick_view (reduce_no_replay_spec p f) h t.
Proof.
  intros p f h t Ht. unfold op_reduce_no_replay. rewrite no_replay_correct by exact Ht.
  unfold tick_view, no_replay_spec, reduce_no_replay_spec. rewrite fold_reduce_ins. reflexivity.
Qed.

(* ------------------------------------------------------------------ scan *)

(* the outputs of this tick are what the running scan over everything its lifetime has seen
   ('tick: this tick; 'static: all ticks) adds to the outputs of the ticks before *)
Definition scan_spec (p : pers) (init : val) (f : val -> val -> option (val * val)) : hspec :=
  fun pre cur => [skipn (length (scan_out f [init] (kept p pre 0)))
                        (scan_out f [init] (seen p pre cur 0))].

Lemma scan_out_nil_state : forall f l, scan_out f [] l = [].
Proof. intros f [|x r]; reflexivity. Qed.

Lemma scan_out_app : forall f a b s,
  scan_out f s (a ++ b) = scan_out f s a ++ scan_out f (fold_left (scan_ins f) a s) b.
Proof.
  intros f a. induction a as [|x a IH]; intros b s; cbn [app scan_out fold_left]; [reflexivity|].
  destruct s as [|v s'].
  - cbn [scan_ins]. assert (H : fold_left (scan_ins f) a [] = []).
    { clear. induction a as [|y a IHa]; cbn [fold_left scan_ins]; [reflexivity | exact IHa]. }
    rewrite H, scan_out_nil_state. reflexivity.
  - cbn [scan_ins]. destruct (f v x) as [[a' o]|].
    + cbn [app]. f_equal. apply IH.
    + assert (H : fold_left (scan_ins f) a [] = []).
      { clear. induction a as [|y a IHa]; cbn [fold_left scan_ins]; [reflexivity | exact IHa]. }
      rewrite H, scan_out_nil_state. reflexivity.
Qed.

Theorem scan_correct : forall p init f h t, (t < length h)%nat ->
  nth t (run_op (op_scan p init f) h) [] = tick_view (scan_spec p init f) h t.
Proof.
  intros p init f. apply named_correct. intros pre cur. rewrite acc1_spec. unfold scan_spec, seen.
  rewrite scan_out_app. rewrite skipn_app_exact. reflexivity.
Qed.

(* ------------------------------------------------------------------ keyed aggregation *)

Section Keyed.
  Variable f : val -> val -> val.
  Variable z : val -> val.                 (* value of a key's first item *)
  Variable V : list val -> val.            (* aggregate of a key's values *)
  Hypothesis V1 : forall v, V [v] = z v.
  Hypothesis Vsnoc : forall x r v, V ((x :: r) ++ [v]) = f (V (x :: r)) v.

  Definition kins (t : list val) (kv : val) : list val :=
    tbl_update (vfst kv) (fun o => match o with Some a => f a (vsnd kv) | None => z (vsnd kv) end) t.

  Definition ktab (L : list val) : list val := map (fun k => VP k (V (vals_of k L))) (keys L).

  Lemma vals_of_app : forall k a b, vals_of k (a ++ b) = vals_of k a ++ vals_of k b.
  Proof. intros. unfold vals_of. rewrite filter_app, map_app. reflexivity. Qed.

  Lemma vals_of_notin : forall k L, ~ In k (map vfst L) -> vals_of k L = [].
  Proof.
    induction L as [|kv L IH]; intros H; [reflexivity|].
    unfold vals_of. cbn [filter map In] in *.
    destruct (val_eqb (vfst kv) k) eqn:E.
    - apply val_eqb_eq in E. exfalso. apply H. left. exact E.
    - apply IH. intro Hin. apply H. right. exact Hin.
  Qed.

  Lemma vals_of_in : forall k L, In k (map vfst L) -> exists x r, vals_of k L = x :: r.
  Proof.
    induction L as [|kv L IH]; intros H; [destruct H|].
    unfold vals_of. cbn [filter map In] in *.
    destruct (val_eqb (vfst kv) k) eqn:E.
    - cbn [map]. eauto.
    - destruct H as [H|H]; [subst; rewrite val_eqb_refl in E; discriminate|].
      apply IH. exact H.
  Qed.

  (* updating an entry of a table whose keys are distinct *)
  Lemma tbl_update_in : forall (F F' : val -> val) g k0 ks,
    NoDup ks -> In k0 ks ->
    (forall k, vfst (F k) = k) ->
    F' k0 = VP k0 (g (Some (vsnd (F k0)))) ->
    (forall k, k <> k0 -> F' k = F k) ->
    tbl_update k0 g (map F ks) = map F' ks.
  Proof.
    intros F F' g k0 ks. induction ks as [|k ks IH]; intros ND Hin Hk H0 Hne; [destruct Hin|].
    cbn [map tbl_update]. rewrite Hk. inversion ND as [|? ? Hnotin ND']; subst.
    destruct (val_eqb k k0) eqn:E.
    - apply val_eqb_eq in E. subst k. rewrite H0. f_equal.
      apply map_ext_in. intros k Hk'. symmetry. apply Hne. intro; subst. contradiction.
    - rewrite Hne by (apply val_eqb_neq; exact E). f_equal.
      destruct Hin as [Hin|Hin]; [subst; rewrite val_eqb_refl in E; discriminate|].
      apply IH; assumption.
  Qed.

  Lemma tbl_update_notin : forall (F : val -> val) g k0 ks,
    ~ In k0 ks -> (forall k, vfst (F k) = k) ->
    tbl_update k0 g (map F ks) = map F ks ++ [VP k0 (g None)].
  Proof.
    intros F g k0 ks. induction ks as [|k ks IH]; intros Hnin Hk; [reflexivity|].
    cbn [map tbl_update app]. rewrite Hk.
    destruct (val_eqb k k0) eqn:E.
    - apply val_eqb_eq in E. subst. exfalso. apply Hnin. left. reflexivity.
    - f_equal. apply IH; [|exact Hk]. intro H. apply Hnin. right. exact H.
  Qed.

  Lemma keyed_fold : forall L, fold_left kins L [] = ktab L.
  Proof.
    intros L. induction L as [|kv L IH] using rev_ind; [reflexivity|].
    rewrite fold_left_app. cbn [fold_left]. rewrite IH. unfold kins, ktab.
    set (k0 := vfst kv). set (v0 := vsnd kv).
    assert (Hkeys : keys (L ++ [kv]) = set_ins (keys L) k0).
    { unfold keys. rewrite map_app. cbn [map]. unfold dedup. rewrite fold_left_app. reflexivity. }
    rewrite Hkeys. unfold set_ins.
    assert (Hv0 : vals_of k0 [kv] = [v0]).
    { unfold vals_of. cbn [filter]. fold k0. rewrite val_eqb_refl. reflexivity. }
    destruct (vmem k0 (keys L)) eqn:Em.
    - apply vmem_In in Em.
      apply tbl_update_in.
      + apply dedup_NoDup.
      + exact Em.
      + intros k. reflexivity.
      + cbn [vsnd]. f_equal. rewrite vals_of_app, Hv0.
        unfold keys in Em. apply -> dedup_In in Em. destruct (vals_of_in k0 L Em) as [x [r Hx]].
        rewrite Hx. apply Vsnoc.
      + intros k Hne. f_equal. f_equal. rewrite vals_of_app.
        assert (vals_of k [kv] = []) as ->; [|rewrite app_nil_r; reflexivity].
        unfold vals_of. cbn [filter]. fold k0.
        destruct (val_eqb k0 k) eqn:E; [apply val_eqb_eq in E; congruence | reflexivity].
    - assert (Hnin : ~ In k0 (keys L)).
      { intro H. apply vmem_In in H. congruence. }
      rewrite tbl_update_notin; [|exact Hnin | intros k; reflexivity].
      rewrite map_app. cbn [map]. f_equal.
      + apply map_ext_in. intros k Hk. f_equal. f_equal. rewrite vals_of_app.
        assert (vals_of k [kv] = []) as ->; [|rewrite app_nil_r; reflexivity].
        unfold vals_of. cbn [filter]. fold k0.
        destruct (val_eqb k0 k) eqn:E; [apply val_eqb_eq in E; subst; contradiction | reflexivity].
      + f_equal. f_equal. rewrite vals_of_app, Hv0.
        rewrite vals_of_notin; [cbn [app]; rewrite V1; reflexivity|].
        intro H. apply Hnin. apply dedup_In. exact H.
  Qed.
End Keyed.

Theorem fold_keyed_correct : forall p init f h t, (t < length h)%nat ->
  nth t (run_op (op_fold_keyed p init f) h) [] = tick_view (fold_keyed_spec p init f) h t.
Proof.
  intros p init f. apply named_correct. intros pre cur. rewrite acc1_spec.
  unfold fold_keyed_spec. cbv zeta. f_equal.
  change (fold_keyed_ins init f) with (kins f (f init)).
  apply (keyed_fold f (f init) (fun vs => fold_left f vs init)).
  - reflexivity.
  - intros x r v. rewrite fold_left_app. reflexivity.
Qed.

Theorem reduce_keyed_correct : forall p f h t, (t < length h)%nat ->
  nth t (run_op (op_reduce_keyed p f) h) [] = tick_view (reduce_keyed_spec p f) h t.
Proof.
  intros p f. apply named_correct. intros pre cur. rewrite acc1_spec.
  unfold reduce_keyed_spec. cbv zeta. f_equal.
  change (reduce_keyed_ins f) with (kins f (fun v => v)).
  apply (keyed_fold f (fun v => v) (reduce_val f)).
  - reflexivity.
  - intros x r v. cbn [reduce_val app]. rewrite fold_left_app. reflexivity.
Qed.

(* ------------------------------------------------------------------ what the specs mean *)

(* join: exactly the pairs with equal keys, each once when both sides are sets *)
Lemma join_tables_In : forall l r k a b,
  In (VP k (VP a b)) (join_tables l r) <->
  exists x y, In x l /\ In y r /\ vfst x = k /\ vfst y = k /\ vsnd x = a /\ vsnd y = b.
Proof.
  intros l r k a b. unfold join_tables. rewrite in_flat_map. split.
  - intros [x [Hx Hin]]. apply in_map_iff in Hin. destruct Hin as [y [Hy Hf]].
    apply filter_In in Hf. destruct Hf as [Hyr He]. apply val_eqb_eq in He.
    inversion Hy; subst. exists x, y. repeat split; try assumption. symmetry. exact He.
  - intros [x [y [Hx [Hy [H1 [H2 [H3 H4]]]]]]]. exists x. split; [exact Hx|].
    apply in_map_iff. exists y. split; [subst; reflexivity|].
    apply filter_In. split; [exact Hy|]. apply val_eqb_eq. congruence.
Qed.

(* anti_join / difference: nothing emitted has its key on the negative side, nothing else is lost *)
Lemma anti_filter_In : forall neg pos kv,
  In kv (anti_filter neg pos) <-> In kv pos /\ ~ In (vfst kv) neg.
Proof.
  intros neg pos kv. unfold anti_filter. rewrite filter_In. split; intros [H1 H2]; split; try exact H1.
  - intro H. apply vmem_In in H. rewrite H in H2. discriminate.
  - destruct (vmem (vfst kv) neg) eqn:E; [apply vmem_In in E; contradiction | reflexivity].
Qed.

(* unique<'static>: over a whole run no item is ever emitted twice *)
Lemma unique_static_fresh : forall pre cur x,
  In x (port 0 (unique_spec Static pre cur)) -> ~ In x (items pre 0).
Proof.
  intros pre cur x H. unfold unique_spec, port in H. cbn [nth kept] in H.
  apply filter_In in H. destruct H as [_ H]. intro Hin. apply vmem_In in Hin.
  rewrite Hin in H. discriminate.
Qed.

Lemma unique_NoDup : forall p pre cur, NoDup (port 0 (unique_spec p pre cur)).
Proof.
  intros. unfold unique_spec, port. cbn [nth]. apply NoDup_filter. apply dedup_NoDup.
Qed.

(* ------------------------------------------------------------------ sort *)
From Coq Require Import Sorted.

Definition Sorted_val (l : list val) : Prop := Sorted (fun a b => val_leb a b = true) l.

Lemma val_cmp_antisym : forall x y, val_cmp y x = CompOpp (val_cmp x y).
Proof.
  induction x as [a|a IHa b IHb]; destruct y as [c|c d]; cbn [val_cmp CompOpp]; try reflexivity.
  - apply N.compare_antisym.
  - rewrite IHa. destruct (val_cmp a c); cbn [CompOpp]; try reflexivity. apply IHb.
Qed.

Lemma val_leb_total : forall x y, val_leb x y = false -> val_leb y x = true.
Proof.
  intros x y H. unfold val_leb in *. rewrite (val_cmp_antisym x y).
  destruct (val_cmp x y); try discriminate. reflexivity.
Qed.

Lemma insert_sorted_perm : forall x l, Permutation (insert_sorted x l) (x :: l).
Proof.
  induction l as [|y l IH]; cbn [insert_sorted]; [apply Permutation_refl|].
  destruct (val_leb x y); [apply Permutation_refl|].
  eapply perm_trans; [apply perm_skip; exact IH | apply perm_swap].
Qed.

Lemma insert_sorted_sorted : forall x l, Sorted_val l -> Sorted_val (insert_sorted x l).
Proof.
  unfold Sorted_val. induction l as [|y l IH]; intros H; cbn [insert_sorted].
  - repeat constructor.
  - destruct (val_leb x y) eqn:E.
    + constructor; [exact H | constructor; exact E].
    + inversion H as [|? ? Hs Hh]; subst. constructor; [apply IH; exact Hs|].
      destruct l as [|z l]; cbn [insert_sorted].
      * constructor. apply val_leb_total. exact E.
      * destruct (val_leb x z); constructor.
        -- apply val_leb_total. exact E.
        -- inversion Hh; assumption.
Qed.

Lemma isort_sorted_perm : forall l, Sorted_val (isort l) /\ Permutation (isort l) l.
Proof.
  induction l as [|x l [IHs IHp]]; cbn [isort fold_right]; [split; [constructor | constructor]|].
  split; [apply insert_sorted_sorted; exact IHs|].
  eapply perm_trans; [apply insert_sorted_perm | apply perm_skip; exact IHp].
Qed.

(* ------------------------------------------------------------------ summary statements *)

Definition op_correct_ (o : op) (sp : hspec) : Prop :=
  forall h t, (t < length h)%nat -> nth t (run_op o h) [] = tick_view sp h t.

Lemma named_operators_correct :
  (forall f, op_correct_ (op_map f) (fun _ cur => [map f (port 0 cur)])) /\
  (forall p, op_correct_ (op_filter p) (fun _ cur => [filter p (port 0 cur)])) /\
  (forall f, op_correct_ (op_filter_map f) (fun _ cur => [filter_map_l f (port 0 cur)])) /\
  (forall f, op_correct_ (op_flat_map f) (fun _ cur => [flat_map f (port 0 cur)])) /\
  op_correct_ op_identity (fun _ cur => [port 0 cur]) /\
  (forall n, op_correct_ (op_union n) (fun _ cur => [concat (firstn n cur)])) /\
  (forall n, op_correct_ (op_tee n) (fun _ cur => repeat (port 0 cur) n)) /\
  op_correct_ op_unzip (fun _ cur => [map vfst (port 0 cur); map vsnd (port 0 cur)]) /\
  (forall p, op_correct_ (op_partition p)
     (fun _ cur => [filter p (port 0 cur); filter (fun x => negb (p x)) (port 0 cur)])) /\
  op_correct_ op_sort (fun _ cur => [isort (port 0 cur)]) /\
  (forall k, op_correct_ (op_sort_by_key k) (fun _ cur => [isort_by k (port 0 cur)])) /\
  (forall n, op_correct_ (op_chain_first_n n) (fun _ cur => [firstn n (port 0 cur ++ port 1 cur)])) /\
  (forall p i f, op_correct_ (op_fold p i f) (fold_spec p i f)) /\
  (forall p f, op_correct_ (op_reduce p f) (reduce_spec p f)) /\
  (forall p i f, op_correct_ (op_fold_keyed p i f) (fold_keyed_spec p i f)) /\
  (forall p f, op_correct_ (op_reduce_keyed p f) (reduce_keyed_spec p f)) /\
  (forall p, op_correct_ (op_unique p) (unique_spec p)) /\
  (forall p, op_correct_ (op_enumerate p) (enumerate_spec p)) /\
  op_correct_ op_persist persist_spec /\
  op_correct_ op_multiset_delta delta_spec /\
  (forall pl pr, op_correct_ (op_join pl pr) (join_spec pl pr)) /\
  (forall pl pr, op_correct_ (op_join_multiset pl pr) (join_multiset_spec pl pr)) /\
  (forall pl pr, op_correct_ (op_cross_join pl pr) (cross_join_spec pl pr)) /\
  (forall pl pr, op_correct_ (op_cross_join_multiset pl pr) (cross_join_multiset_spec pl pr)) /\
  (forall pp pn, op_correct_ (op_anti_join pp pn) (anti_join_spec pp pn)) /\
  (forall pp pn, op_correct_ (op_difference pp pn) (difference_spec pp pn)) /\
  op_correct_ (op_zip Tick Tick) zip_tick_spec /\
  op_correct_ (op_zip Static Static) zip_static_spec /\
  op_correct_ (op_zip Static Tick) zip_st_spec /\
  op_correct_ (op_zip Tick Static) zip_ts_spec /\
  op_correct_ op_zip_longest (fun _ cur => [vzip_longest (port 0 cur) (port 1 cur)]) /\
  op_correct_ op_demux2 (fun _ cur => [map vsnd (filter (fun v => vnum (vfst v) =? 0) (port 0 cur));
                                       map vsnd (filter (fun v => vnum (vfst v) =? 1) (port 0 cur))]) /\
  (forall p i f, op_correct_ (op_scan p i f) (scan_spec p i f)) /\
  (forall p, op_correct_ (op_cross_singleton p) (cross_singleton_spec p)) /\
  (forall p i f, op_correct_ (op_fold_no_replay p i f) (fold_no_replay_spec p i f)) /\
  (forall p f, op_correct_ (op_reduce_no_replay p f) (reduce_no_replay_spec p f)).
Proof.
  assert (SL : forall g (sp : hspec), (forall pre cur, g cur = sp pre cur) -> op_correct_ (OStateless g) sp).
  { intros g sp H h t Ht. rewrite (stateless_correct g h t Ht). unfold tick_view, stateless_spec. apply H. }
  unfold op_map, op_filter, op_filter_map, op_flat_map, op_identity, op_union, op_tee, op_unzip,
    op_partition, op_sort, op_sort_by_key, op_chain_first_n, op_zip_longest, op_demux2.
  repeat split; intros; try (apply SL; intros; reflexivity); unfold op_correct_.
  - apply fold_correct.
  - apply reduce_correct.
  - apply fold_keyed_correct.
  - apply reduce_keyed_correct.
  - apply unique_correct.
  - apply enumerate_correct.
  - apply persist_correct.
  - apply delta_correct.
  - apply join_correct.
  - apply join_multiset_correct.
  - apply cross_join_correct.
  - apply cross_join_multiset_correct.
  - apply anti_join_correct.
  - apply difference_correct.
  - apply zip_tick_correct.
  - apply zip_static_correct.
  - apply zip_st_correct.
  - apply zip_ts_correct.
  - apply scan_correct.
  - apply cross_singleton_correct.
  - apply fold_no_replay_correct.
  - apply reduce_no_replay_correct.
Qed.

Lemma named_meaning :
  (forall l, Sorted_val (isort l) /\ Permutation (isort l) l) /\
  (forall cur prev y, vcount y (delta_run prev cur) = (vcount y cur - vcount y prev)%nat) /\
  (forall l r k a b, In (VP k (VP a b)) (join_tables l r) <->
     exists x y, In x l /\ In y r /\ vfst x = k /\ vfst y = k /\ vsnd x = a /\ vsnd y = b) /\
  (forall neg pos kv, In kv (anti_filter neg pos) <-> In kv pos /\ ~ In (vfst kv) neg) /\
  (forall pre cur x, In x (port 0 (unique_spec Static pre cur)) -> ~ In x (items pre 0)) /\
  (forall p pre cur, NoDup (port 0 (unique_spec p pre cur))).
Proof.
  split; [exact isort_sorted_perm|]. split; [exact delta_run_count|].
  split; [exact join_tables_In|]. split; [exact anti_filter_In|].
  split; [exact unique_static_fresh | exact unique_NoDup].
Qed.
