(* E7 Dfir -- operator layer (definitions only).

   Items are values of a small dynamically-typed universe [val] (numbers and pairs; options,
   EitherOrBoth and unit are encoded).  An operator is run tick by tick:
     op_step : state -> inputs of this tick (one list per input port) -> state * outputs
     op_end  : the operator's write_tick_end ('tick state reset)
   Two families cover most of dfir_lang/src/graph/ops/*.rs:

   - [OStateless g]: the operator keeps no state; the tick's outputs are [g inputs]
     (map, filter, filter_map, flat_map, inspect, identity, union/chain, tee, unzip, partition,
     sort, sort_by_key, defer_tick/defer_tick_lazy (the delay is in the handoff), sources, sinks).
   - [OAcc a]: every input port k owns a state [list val] that absorbs the tick's items one by
     one with [ao_ins k] (the transcription of `state.build(k, v)`, `set.insert(x)`,
     `(func)(accum, item)`, `vec.push(item)`, `table.entry(k).or_insert_with(init)` ...), the
     outputs are [ao_out new_states old_states inputs], and write_tick_end resets the ports
     whose persistence is 'tick (join, cross_join, anti_join, difference, fold, reduce,
     fold_keyed, reduce_keyed, unique, persist, enumerate, ...).
   - [ODelta]: multiset_delta (state = the previous tick's item counts).
   - [OZip]: zip with per-side queues that survive a tick under 'static. *)
From Coq Require Import List NArith Bool Arith Lia.
Import ListNotations.
Open Scope N_scope.

(* ------------------------------------------------------------------ values *)

Inductive val := VN (n : N) | VP (a b : val).

Fixpoint val_eqb (x y : val) : bool :=
  match x, y with
  | VN a, VN b => N.eqb a b
  | VP a b, VP c d => val_eqb a c && val_eqb b d
  | _, _ => false
  end.

(* total order used by sort: numbers before pairs, pairs lexicographic (Rust tuple order) *)
Fixpoint val_cmp (x y : val) : comparison :=
  match x, y with
  | VN a, VN b => N.compare a b
  | VN _, VP _ _ => Lt
  | VP _ _, VN _ => Gt
  | VP a b, VP c d => match val_cmp a c with Eq => val_cmp b d | r => r end
  end.

Definition val_leb (x y : val) : bool :=
  match val_cmp x y with Gt => false | _ => true end.

Definition vfst (v : val) : val := match v with VP a _ => a | _ => v end.
Definition vsnd (v : val) : val := match v with VP _ b => b | _ => VN 0 end.
Definition vnum (v : val) : N := match v with VN n => n | _ => 0 end.

(* encodings shared with the harness: Option, unit *)
Definition vnone : val := VP (VN 0) (VN 0).
Definition vsome (v : val) : val := VP (VN 1) v.
Definition vunit : val := VN 0.

(* ------------------------------------------------------------------ list helpers *)

Definition port (k : nat) (ins : list (list val)) : list val := nth k ins [].

Fixpoint vmem (x : val) (l : list val) : bool :=
  match l with [] => false | y :: r => val_eqb x y || vmem x r end.

(* set insert in insertion order: the model of FxHashSet / HalfSetJoinState.build *)
Definition set_ins (s : list val) (x : val) : list val :=
  if vmem x s then s else s ++ [x].

Definition dedup (l : list val) : list val := fold_left set_ins l [].

Fixpoint vcount (x : val) (l : list val) : nat :=
  match l with [] => 0%nat | y :: r => ((if val_eqb x y then 1 else 0) + vcount x r)%nat end.

Fixpoint insert_sorted (x : val) (l : list val) : list val :=
  match l with
  | [] => [x]
  | y :: r => if val_leb x y then x :: l else y :: insert_sorted x r
  end.
Definition isort (l : list val) : list val := fold_right insert_sorted [] l.

(* sort by a key function (stable insertion) *)
Fixpoint insert_by (key : val -> val) (x : val) (l : list val) : list val :=
  match l with
  | [] => [x]
  | y :: r => if val_leb (key x) (key y) then x :: l else y :: insert_by key x r
  end.
Definition isort_by (key : val -> val) (l : list val) : list val :=
  fold_right (insert_by key) [] l.

(* keyed tables: list of (VP k acc) in first-insertion order (model of FxHashMap) *)
Fixpoint tbl_update (k : val) (f : option val -> val) (t : list val) : list val :=
  match t with
  | [] => [VP k (f None)]
  | e :: r => if val_eqb (vfst e) k then VP k (f (Some (vsnd e))) :: r
              else e :: tbl_update k f r
  end.

(* ------------------------------------------------------------------ operators *)

Inductive pers := Tick | Static.

Record accop := {
  ao_pers : list pers;                         (* one per input port *)
  ao_init : nat -> list val;                   (* prologue value of port k's state *)
  ao_ins : nat -> list val -> val -> list val; (* absorb one item *)
  ao_out : list (list val) -> list (list val) -> list (list val) -> list (list val);
           (* new states, states at tick start, this tick's inputs  ->  outputs per port *)
}.

Inductive op :=
| OStateless (g : list (list val) -> list (list val))
| OAcc (a : accop)
| ODelta
| OZip (pl pr : pers)
| ONoReplay (p : pers) (init : list val) (ins : list val -> val -> list val).
    (* fold_no_replay / reduce_no_replay: the accumulator like fold / reduce, but the value is emitted
       only in ticks with new input -- and in tick 0 (`context.current_tick().0 == 0`) *)

Record ostate := { st_ports : list (list val) }.

Definition nports (a : accop) : nat := length (ao_pers a).

Definition op_init (o : op) : ostate :=
  match o with
  | OStateless _ => {| st_ports := [] |}
  | OAcc a => {| st_ports := map (ao_init a) (seq 0 (nports a)) |}
  | ODelta => {| st_ports := [[]] |}
  | OZip _ _ => {| st_ports := [[]; []] |}
  | ONoReplay _ init _ => {| st_ports := [init; []] |}     (* second port: [] until a tick has ended *)
  end.

Definition absorb (a : accop) (st ins : list (list val)) : list (list val) :=
  map (fun k => fold_left (ao_ins a k) (port k ins) (port k st)) (seq 0 (nports a)).

(* multiset_delta's filter closure: [prev] holds the not yet cancelled items of the previous
   tick (the model of prev_map's counts) *)
Fixpoint remove_one (x : val) (l : list val) : option (list val) :=
  match l with
  | [] => None
  | y :: r => if val_eqb x y then Some r
              else match remove_one x r with Some r' => Some (y :: r') | None => None end
  end.

Fixpoint delta_run (prev cur : list val) : list val :=
  match cur with
  | [] => []
  | x :: r => match remove_one x prev with
              | Some prev' => delta_run prev' r
              | None => x :: delta_run prev r
              end
  end.

Definition vzip (l r : list val) : list val := map (fun p => VP (fst p) (snd p)) (combine l r).

Definition op_step (o : op) (s : ostate) (ins : list (list val)) : ostate * list (list val) :=
  match o with
  | OStateless g => (s, g ins)
  | OAcc a =>
      let old := st_ports s in
      let new := absorb a old ins in
      ({| st_ports := new |}, ao_out a new old ins)
  | ODelta =>
      (* tick_swap: prev := curr (last tick's items), curr := {} ; then filter, recording curr *)
      ({| st_ports := [port 0 ins] |}, [delta_run (port 0 (st_ports s)) (port 0 ins)])
  | OZip _ _ =>
      let lq := port 0 (st_ports s) ++ port 0 ins in
      let rq := port 1 (st_ports s) ++ port 1 ins in
      let n := Nat.min (length lq) (length rq) in
      ({| st_ports := [skipn n lq; skipn n rq] |}, [vzip (firstn n lq) (firstn n rq)])
  | ONoReplay _ _ ins1 =>
      let acc := fold_left ins1 (port 0 ins) (port 0 (st_ports s)) in
      let emit := match port 0 ins, port 1 (st_ports s) with
                  | [], _ :: _ => false          (* no new input and not tick 0 *)
                  | _, _ => true
                  end in
      ({| st_ports := [acc; port 1 (st_ports s)] |}, [if emit then acc else []])
  end.

Definition op_end (o : op) (s : ostate) : ostate :=
  match o with
  | OStateless _ => s
  | OAcc a =>
      {| st_ports := map (fun k => match nth k (ao_pers a) Tick with
                                   | Tick => ao_init a k
                                   | Static => port k (st_ports s)
                                   end) (seq 0 (nports a)) |}
  | ODelta => s
  | OZip pl pr =>
      {| st_ports := [match pl with Tick => [] | Static => port 0 (st_ports s) end;
                      match pr with Tick => [] | Static => port 1 (st_ports s) end] |}
  | ONoReplay p init _ =>
      {| st_ports := [match p with Tick => init | Static => port 0 (st_ports s) end; [VN 1]] |}
  end.

(* run an operator over a history of per-tick inputs; one output vector per tick *)
Fixpoint run_from (o : op) (s : ostate) (h : list (list (list val))) : list (list (list val)) :=
  match h with
  | [] => []
  | ins :: r => let '(s', out) := op_step o s ins in out :: run_from o (op_end o s') r
  end.
Definition run_op (o : op) (h : list (list (list val))) : list (list (list val)) :=
  run_from o (op_init o) h.

(* ------------------------------------------------------------------ history functions *)

(* all items that arrived on port k during the ticks of [pre] *)
Definition items (pre : list (list (list val))) (k : nat) : list val :=
  concat (map (port k) pre).

(* what a port with persistence p has accumulated before the current tick *)
Definition kept (p : pers) (pre : list (list (list val))) (k : nat) : list val :=
  match p with Tick => [] | Static => items pre k end.

(* ... and including the current tick *)
Definition seen (p : pers) (pre : list (list (list val))) (cur : list (list val)) (k : nat) : list val :=
  kept p pre k ++ port k cur.

(* ------------------------------------------------------------------ the named operators *)

Definition op_map (f : val -> val) : op := OStateless (fun i => [map f (port 0 i)]).
Definition op_filter (p : val -> bool) : op := OStateless (fun i => [filter p (port 0 i)]).
Fixpoint filter_map_l (f : val -> option val) (l : list val) : list val :=
  match l with
  | [] => []
  | x :: r => match f x with Some y => y :: filter_map_l f r | None => filter_map_l f r end
  end.
Definition op_filter_map (f : val -> option val) : op := OStateless (fun i => [filter_map_l f (port 0 i)]).
Definition op_flat_map (f : val -> list val) : op := OStateless (fun i => [flat_map f (port 0 i)]).
Definition op_identity : op := OStateless (fun i => [port 0 i]).   (* identity, inspect, defer_tick, defer_tick_lazy, source, for_each's view *)
Definition op_union (n : nat) : op := OStateless (fun i => [concat (firstn n i)]).   (* pull: chain in port order *)
Definition op_tee (n : nat) : op := OStateless (fun i => repeat (port 0 i) n).
Definition op_unzip : op := OStateless (fun i => [map vfst (port 0 i); map vsnd (port 0 i)]).
Definition op_partition (p : val -> bool) : op :=
  OStateless (fun i => [filter p (port 0 i); filter (fun x => negb (p x)) (port 0 i)]).
Definition op_sort : op := OStateless (fun i => [isort (port 0 i)]).
Definition op_sort_by_key (key : val -> val) : op := OStateless (fun i => [isort_by key (port 0 i)]).
Definition op_chain_first_n (n : nat) : op := OStateless (fun i => [firstn n (port 0 i ++ port 1 i)]).
Definition op_null : op := OStateless (fun _ => [[]]).
(* demux_enum over a two-variant enum, items encoded (variant index, payload); output port k (ports
   sorted by variant name) receives the payloads of variant k *)
Definition op_demux2 : op :=
  OStateless (fun i => [map vsnd (filter (fun v => vnum (vfst v) =? 0) (port 0 i));
                        map vsnd (filter (fun v => vnum (vfst v) =? 1) (port 0 i))]).

(* zip_longest: EitherOrBoth encoded as Left a = (0, a), Right b = (1, b), Both a b = (2, (a, b)) *)
Fixpoint vzip_longest (l r : list val) : list val :=
  match l, r with
  | [], _ => map (fun b => VP (VN 1) b) r
  | _, [] => map (fun a => VP (VN 0) a) l
  | a :: l', b :: r' => VP (VN 2) (VP a b) :: vzip_longest l' r'
  end.
Definition op_zip_longest : op := OStateless (fun i => [vzip_longest (port 0 i) (port 1 i)]).

(* one-port accumulating operators *)
Definition acc1 (p : pers) (init : list val) (ins : list val -> val -> list val)
           (out : list val -> list val -> list val -> list val) : accop :=
  {| ao_pers := [p]; ao_init := fun _ => init; ao_ins := fun _ => ins;
     ao_out := fun new old i => [out (port 0 new) (port 0 old) (port 0 i)] |}.

(* fold: accumulator is the one-element list [acc] *)
Definition fold_ins (f : val -> val -> val) (s : list val) (x : val) : list val :=
  match s with a :: _ => [f a x] | [] => [] end.
Definition op_fold (p : pers) (init : val) (f : val -> val -> val) : op :=
  OAcc (acc1 p [init] (fold_ins f) (fun new _ _ => new)).
(* fold_no_replay additionally needs the tick number: modelled in the tick layer only *)

Definition op_fold_no_replay (p : pers) (init : val) (f : val -> val -> val) : op :=
  ONoReplay p [init] (fold_ins f).

(* reduce: accumulator is [] (None) or [acc] *)
Definition reduce_ins (f : val -> val -> val) (s : list val) (x : val) : list val :=
  match s with a :: _ => [f a x] | [] => [x] end.
Definition op_reduce (p : pers) (f : val -> val -> val) : op :=
  OAcc (acc1 p [] (reduce_ins f) (fun new _ _ => new)).

Definition op_reduce_no_replay (p : pers) (f : val -> val -> val) : op :=
  ONoReplay p [] (reduce_ins f).

Definition fold_keyed_ins (init : val) (f : val -> val -> val) (t : list val) (kv : val) : list val :=
  tbl_update (vfst kv) (fun o => match o with Some a => f a (vsnd kv) | None => f init (vsnd kv) end) t.
Definition op_fold_keyed (p : pers) (init : val) (f : val -> val -> val) : op :=
  OAcc (acc1 p [] (fold_keyed_ins init f) (fun new _ _ => new)).

Definition reduce_keyed_ins (f : val -> val -> val) (t : list val) (kv : val) : list val :=
  tbl_update (vfst kv) (fun o => match o with Some a => f a (vsnd kv) | None => vsnd kv end) t.
Definition op_reduce_keyed (p : pers) (f : val -> val -> val) : op :=
  OAcc (acc1 p [] (reduce_keyed_ins f) (fun new _ _ => new)).

(* scan: state [acc] while running, [] once the closure returned None (the operator then stays
   silent until a 'tick reset); the closure maps (acc, item) to Some (acc', output) or None *)
Definition scan_ins (f : val -> val -> option (val * val)) (s : list val) (x : val) : list val :=
  match s with
  | a :: _ => match f a x with Some (a', _) => [a'] | None => [] end
  | [] => []
  end.
Fixpoint scan_out (f : val -> val -> option (val * val)) (s : list val) (l : list val) : list val :=
  match l with
  | [] => []
  | x :: r => match s with
              | a :: _ => match f a x with
                          | Some (a', o) => o :: scan_out f [a'] r
                          | None => []
                          end
              | [] => []
              end
  end.
Definition op_scan (p : pers) (init : val) (f : val -> val -> option (val * val)) : op :=
  OAcc (acc1 p [init] (scan_ins f) (fun _ old i => scan_out f old i)).

(* unique: emits the items that were new to the set, in arrival order *)
Definition op_unique (p : pers) : op :=
  OAcc (acc1 p [] set_ins (fun new old _ => skipn (length old) new)).

(* persist::<'static>: buffer everything, replay the whole buffer every tick *)
Definition vec_push (s : list val) (x : val) : list val := s ++ [x].
Definition op_persist : op := OAcc (acc1 Static [] vec_push (fun new _ _ => new)).

(* enumerate: state [VN next_index] *)
Definition enum_ins (s : list val) (_ : val) : list val :=
  match s with c :: _ => [VN (vnum c + 1)] | [] => [] end.
Fixpoint enum_from (n : N) (l : list val) : list val :=
  match l with [] => [] | x :: r => VP (VN n) x :: enum_from (n + 1) r end.
Definition op_enumerate (p : pers) : op :=
  OAcc (acc1 p [VN 0] enum_ins (fun _ old i => enum_from (vnum (hd (VN 0) old)) i)).

(* two-port accumulating operators *)
Definition acc2 (p0 p1 : pers) (ins0 ins1 : list val -> val -> list val)
           (out : list val -> list val -> list val -> list val -> list val) : accop :=
  {| ao_pers := [p0; p1]; ao_init := fun _ => [];
     ao_ins := fun k => match k with O => ins0 | _ => ins1 end;
     ao_out := fun new _ i => [out (port 0 new) (port 1 new) (port 0 i) (port 1 i)] |}.

(* the join of two tables of (k,v) pairs, lhs-major *)
Definition join_tables (l r : list val) : list val :=
  flat_map (fun a => map (fun b => VP (vfst a) (VP (vsnd a) (vsnd b)))
                         (filter (fun b => val_eqb (vfst a) (vfst b)) r)) l.
Definition op_join (pl pr : pers) : op := OAcc (acc2 pl pr set_ins set_ins (fun l r _ _ => join_tables l r)).
Definition op_join_multiset (pl pr : pers) : op := OAcc (acc2 pl pr vec_push vec_push (fun l r _ _ => join_tables l r)).

Definition cross_tables (l r : list val) : list val := flat_map (fun a => map (fun b => VP a b) r) l.
Definition op_cross_join (pl pr : pers) : op := OAcc (acc2 pl pr set_ins set_ins (fun l r _ _ => cross_tables l r)).
Definition op_cross_join_multiset (pl pr : pers) : op := OAcc (acc2 pl pr vec_push vec_push (fun l r _ _ => cross_tables l r)).

(* anti_join: port 0 = neg (keys, a set), port 1 = pos ((k,v) items, a vector when 'static;
   when pos is 'tick it is streamed, which is the same list function of this tick's items) *)
Definition anti_filter (neg pos : list val) : list val :=
  filter (fun kv => negb (vmem (vfst kv) neg)) pos.
Definition op_anti_join (ppos pneg : pers) : op :=
  OAcc (acc2 pneg ppos set_ins vec_push (fun neg pos _ _ => anti_filter neg pos)).
(* difference: items instead of (k,v) pairs; `map(|k| (k, ()))` before and `map(|(k,())| k)` after *)
Definition diff_filter (neg pos : list val) : list val :=
  filter (fun x => negb (vmem x neg)) pos.
Definition op_difference (ppos pneg : pers) : op :=
  OAcc (acc2 pneg ppos set_ins vec_push (fun neg pos _ _ => diff_filter neg pos)).

(* cross_singleton: port 0 = input (streamed), port 1 = single; the state keeps the first item of
   `single` ('static: for ever, 'tick: for the tick); without one the tick emits nothing *)
Definition keep_first (s : list val) (x : val) : list val := match s with [] => [x] | _ => s end.
Definition cross_single (inp single : list val) : list val :=
  match single with s :: _ => map (fun x => VP x s) inp | [] => [] end.
Definition op_cross_singleton (p : pers) : op :=
  OAcc (acc2 Tick p vec_push keep_first (fun inp single _ _ => cross_single inp single)).

Definition op_multiset_delta : op := ODelta.
Definition op_zip (pl pr : pers) : op := OZip pl pr.

(* ------------------------------------------------------------------ closure vocabulary *)
(* shared with harness/h_dfir/src/vocab.rs; arithmetic wraps at 2^32 nowhere: the harness
   uses u64 and inputs are small, the functions below never overflow on them *)

Definition f_add1 (v : val) : val := VN (vnum v + 1).
Definition f_dbl (v : val) : val := VN (vnum v * 2).
Definition f_mod3 (v : val) : val := VN (vnum v mod 3).
Definition f_keymod3 (v : val) : val := VP (VN (vnum v mod 3)) v.   (* x -> (x mod 3, x) *)
Definition f_kind (v : val) : val := VP (VN (vnum v mod 2)) v.   (* x -> Kind::Even(x) | Kind::Odd(x) *)
Definition f_swap (v : val) : val := VP (vsnd v) (vfst v).
Definition f_fst (v : val) : val := vfst v.
Definition f_snd (v : val) : val := vsnd v.
Definition f_dup (v : val) : val := VP v v.
Definition f_sum2 (v : val) : val := VN (vnum (vfst v) + vnum (vsnd v)).
Definition p_even (v : val) : bool := N.even (vnum v).
Definition p_lt3 (v : val) : bool := vnum v <? 3.
Definition p_keyeven (v : val) : bool := N.even (vnum (vfst v)).
Definition fm_half (v : val) : option val := if N.even (vnum v) then Some (VN (vnum v / 2)) else None.
Definition fm_dec (v : val) : option val := if vnum v =? 0 then None else Some (VN (vnum v - 1)).
Definition sc_sum (a x : val) : option (val * val) :=
  let n := vnum a + vnum x in if 20 <? n then None else Some (VN n, VN n).
Definition g_rep (v : val) : list val := repeat v (N.to_nat (vnum v mod 3)).
Definition g_upto (v : val) : list val := map (fun i => VN (N.of_nat i)) (seq 0 (N.to_nat (vnum v mod 4))).
Definition a_sum (a x : val) : val := VN (vnum a + vnum x).
Definition a_max (a x : val) : val := VN (N.max (vnum a) (vnum x)).
Definition a_cnt (a _ : val) : val := VN (vnum a + 1).
Definition a_poly (a x : val) : val := VN ((vnum a * 3 + vnum x) mod 1000003).   (* order sensitive *)

(* ------------------------------------------------------------------ verdict helpers *)

Fixpoint list_eqb (l r : list val) : bool :=
  match l, r with
  | [], [] => true
  | x :: l', y :: r' => val_eqb x y && list_eqb l' r'
  | _, _ => false
  end.

(* compare two item lists either as sequences or as multisets (both sides sorted) *)
Definition out_eqb (ordered : bool) (l r : list val) : bool :=
  if ordered then list_eqb l r else list_eqb (isort l) (isort r).

Fixpoint all2 {A B} (f : A -> B -> bool) (l : list A) (r : list B) : bool :=
  match l, r with
  | [], [] => true
  | x :: l', y :: r' => f x y && all2 f l' r'
  | _, _ => false
  end.

Definition verdict (agree holds : bool) : N :=
  (if agree then 0 else 1) + (if holds then 0 else 2).

Fixpoint bad_from (n : N) (l : list N) : list (N * N) :=
  match l with
  | [] => []
  | v :: r => if N.eqb v 0 then bad_from (n + 1) r else (n, v) :: bad_from (n + 1) r
  end.
Definition bad (l : list N) : list (N * N) := bad_from 0 l.
