(* E7 Dfir -- the tick program (definitions only).

   Transcription of the `async move |df: &mut Context|` closure emitted by
   dfir_lang/src/graph/meta_graph.rs `as_code_with_options`, and of
   dfir_rs/src/scheduled/context.rs `run_tick` / `run_available_sync`:

   - subgraph blocks in `subgraph_toposort` order; each block (1) creates/clears the handoff
     buffers it sends to (`buf.clear()` for defer_tick handoffs, a fresh bump `Vec` otherwise,
     nothing for loop-exit handoffs which are declared before the loop gate), (2) drains its
     receive handoffs (the *back* buffer for defer_tick handoffs) setting `__dfir_work_done`
     when one is non-empty, (3) runs its operators, pushing into the send buffers;
   - loop gates: `if` (root loop) / `while` (nested loop) over non-emptiness checks, with the
     loop's buffer swaps at the end of the body;
   - end of tick: `if false || !buf.is_empty() ... { schedule_subgraph(true) }` over the
     non-lazy deferred handoffs, the tick-level `mem::swap(buf, back)`, the operators'
     write_tick_end, `__end_tick()` (current_tick += 1), `mem::take(&mut __dfir_work_done)`. *)
From Coq Require Import List NArith Bool Arith Lia.
From HV Require Import Dfir.Model.
Import ListNotations.
Open Scope N_scope.

(* ------------------------------------------------------------------ finite maps on N *)

Fixpoint lookup {A} (d : A) (k : N) (m : list (N * A)) : A :=
  match m with
  | [] => d
  | (k', v) :: r => if N.eqb k k' then v else lookup d k r
  end.

Fixpoint update {A} (k : N) (v : A) (m : list (N * A)) : list (N * A) :=
  match m with
  | [] => [(k, v)]
  | (k', v') :: r => if N.eqb k k' then (k, v) :: r else (k', v') :: update k v r
  end.

Definition bufs := list (N * list val).
Definition get (k : N) (m : bufs) : list val := lookup [] k m.
Definition push_to (k : N) (l : list val) (m : bufs) : bufs := update k (get k m ++ l) m.

(* ------------------------------------------------------------------ program syntax *)

Inductive nkind :=
| NOp (o : op)
| NOpT (o : N -> op)        (* operator whose code reads context.current_tick() *)
| NSource (k : N)           (* source_stream(recv_k): the items that arrived for it *)
| NSink (k : N)             (* for_each(|x| out_k.push((context.current_tick(), x))) *)
| NRef (h : N) (f : list val -> val -> option (list val * list val)).
    (* map(|x| g(#h, x)) / map(|x| g(#mut h, x)): the closure reads (and may replace) the content
       of the handoff slot h -- [] or [v] -- for every item; None = the closure panics
       (`as_ref().unwrap()` on an empty singleton slot) *)

Record node := { n_id : N; n_kind : nkind; n_ins : list N; n_outs : list N }.

(* how a subgraph prepares a handoff it sends to *)
Inductive sendk := SFresh | SClear | SExit.

Record subgraph := {
  sg_recv : list (N * bool);       (* handoff wire, drained from the back buffer? *)
  sg_send : list (N * sendk);
  sg_slots : list N;               (* the Singleton / Optional handoffs among sg_send *)
  sg_nodes : list node;
}.

Inductive check := CBuf (h : N) | CBack (h : N).

Inductive instr :=
| IRun (sg : subgraph)
| IDecl (hs : list N)        (* loop-exit handoff buffers declared (empty) before the loop gate *)
| IGate (root : bool) (checks : list check) (body : list instr) (swaps : list N).

Record prog := {
  p_body : list instr;
  p_sched : list check;            (* non_lazy_schedule_idents *)
  p_swaps : list N;                (* back_edge_swap_code (tick level) *)
  p_ops : list (N * nkind);        (* every operator, for init and write_tick_end *)
}.

(* ------------------------------------------------------------------ world *)

Record world := {
  w_buf : bufs;                    (* `buf` of every handoff *)
  w_back : bufs;                   (* `back` of the deferred handoffs *)
  w_st : list (N * ostate);
  w_out : bufs;                    (* per sink: VP (VN tick) item *)
  w_tick : N;
  w_wake : bool;                   (* WakeState.can_start_tick *)
  w_work : bool;                   (* __dfir_work_done *)
  w_oof : bool;                    (* a `while` gate ran out of fuel *)
  w_panic : bool;                  (* the generated code panicked (slot overfull, unwrap of an empty singleton) *)
}.

Definition set_buf (w : world) b := {| w_buf := b; w_back := w_back w; w_st := w_st w; w_out := w_out w;
  w_tick := w_tick w; w_wake := w_wake w; w_work := w_work w; w_oof := w_oof w; w_panic := w_panic w |}.
Definition set_back (w : world) b := {| w_buf := w_buf w; w_back := b; w_st := w_st w; w_out := w_out w;
  w_tick := w_tick w; w_wake := w_wake w; w_work := w_work w; w_oof := w_oof w; w_panic := w_panic w |}.
Definition set_st (w : world) s := {| w_buf := w_buf w; w_back := w_back w; w_st := s; w_out := w_out w;
  w_tick := w_tick w; w_wake := w_wake w; w_work := w_work w; w_oof := w_oof w; w_panic := w_panic w |}.
Definition set_out (w : world) o := {| w_buf := w_buf w; w_back := w_back w; w_st := w_st w; w_out := o;
  w_tick := w_tick w; w_wake := w_wake w; w_work := w_work w; w_oof := w_oof w; w_panic := w_panic w |}.
Definition set_tick (w : world) t := {| w_buf := w_buf w; w_back := w_back w; w_st := w_st w; w_out := w_out w;
  w_tick := t; w_wake := w_wake w; w_work := w_work w; w_oof := w_oof w; w_panic := w_panic w |}.
Definition set_wake (w : world) b := {| w_buf := w_buf w; w_back := w_back w; w_st := w_st w; w_out := w_out w;
  w_tick := w_tick w; w_wake := b; w_work := w_work w; w_oof := w_oof w; w_panic := w_panic w |}.
Definition set_work (w : world) b := {| w_buf := w_buf w; w_back := w_back w; w_st := w_st w; w_out := w_out w;
  w_tick := w_tick w; w_wake := w_wake w; w_work := b; w_oof := w_oof w; w_panic := w_panic w |}.
Definition set_oof (w : world) b := {| w_buf := w_buf w; w_back := w_back w; w_st := w_st w; w_out := w_out w;
  w_tick := w_tick w; w_wake := w_wake w; w_work := w_work w; w_oof := b; w_panic := w_panic w |}.
Definition set_panic (w : world) b := {| w_buf := w_buf w; w_back := w_back w; w_st := w_st w; w_out := w_out w;
  w_tick := w_tick w; w_wake := w_wake w; w_work := w_work w; w_oof := w_oof w; w_panic := b |}.

Definition kind_op (k : nkind) (tick : N) : op :=
  match k with
  | NOp o => o
  | NOpT o => o tick
  | NSource _ => op_identity
  | NSink _ => op_identity
  | NRef _ _ => op_identity
  end.

Definition init_world (p : prog) : world :=
  {| w_buf := []; w_back := [];
     w_st := map (fun e => (fst e, op_init (kind_op (snd e) 0))) (p_ops p);
     w_out := []; w_tick := 0; w_wake := false; w_work := true; w_oof := false; w_panic := false |}.

(* ------------------------------------------------------------------ running a subgraph *)

Definition is_send (sg : subgraph) (h : N) : bool :=
  existsb (fun e => N.eqb (fst e) h) (sg_send sg).

(* (1) send-buffer preparation *)
Definition prep_send (sg : subgraph) (w : world) : world :=
  fold_left (fun (w : world) (e : N * sendk) =>
               match snd e with
               | SExit => w
               | _ => set_buf w (update (fst e) [] (w_buf w))
               end) (sg_send sg) w.

(* (2) drain the receive handoffs into the local environment *)
Definition recv_step (acc : world * bufs) (e : N * bool) : world * bufs :=
  let '(w, loc) := acc in
  let h := fst e in
  let src := if snd e then get h (w_back w) else get h (w_buf w) in
  let w1 := match src with [] => w | _ => set_work w true end in
  let w2 := if snd e then set_back w1 (update h [] (w_back w1))
            else set_buf w1 (update h [] (w_buf w1)) in
  (w2, update h src loc).

Definition recv_all (sg : subgraph) (w : world) : world * bufs :=
  fold_left recv_step (sg_recv sg) (w, []).

(* (3) one operator; [ext] = this tick's external items per source *)
(* the closure of a reference operator over the tick's items, threading the slot content *)
Definition ref_fold (f : list val -> val -> option (list val * list val)) (slot : list val) (items : list val)
  : list val * list val * bool :=
  fold_left (fun (acc : list val * list val * bool) (x : val) =>
               let '(slot, outs, bad) := acc in
               match f slot x with
               | None => (slot, outs, true)
               | Some (slot', o) => (slot', outs ++ o, bad)
               end) items (slot, [], false).

(* pushing into a Singleton / Optional slot: a second item panics *)
Definition slot_push (items : list val) (w : world) (e : N) : world :=
  let cur := get e (w_buf w) in
  let w1 := set_buf w (update e (firstn 1 (cur ++ items)) (w_buf w)) in
  if Nat.ltb 1 (length (cur ++ items)) then set_panic w1 true else w1.

Definition is_slot (sg : subgraph) (h : N) : bool := existsb (N.eqb h) (sg_slots sg).

Definition emit (sg : subgraph) (acc : world * bufs) (eo : N * list val) : world * bufs :=
  let '(w, loc) := acc in
  let '(e, items) := eo in
  if is_send sg e then
    (if is_slot sg e then slot_push items w e else set_buf w (push_to e items (w_buf w)), loc)
  else (w, push_to e items loc).

Definition run_node (sg : subgraph) (ext : bufs) (acc : world * bufs) (n : node) : world * bufs :=
  let '(w, loc) := acc in
  let ins := map (fun e => get e loc) (n_ins n) in
  let '(w1, outs) :=
    match n_kind n with
    | NSource k => (w, [get k ext])
    | NSink k =>
        (set_out w (push_to k (map (fun x => VP (VN (w_tick w)) x) (port 0 ins)) (w_out w)), [])
    | NRef h f =>
        let '(slot', outs, bad) := ref_fold f (get h (w_buf w)) (port 0 ins) in
        let w1 := set_buf w (update h slot' (w_buf w)) in
        (if bad then set_panic w1 true else w1, [outs])
    | k =>
        let o := kind_op k (w_tick w) in
        let '(s', outs) := op_step o (lookup (op_init o) (n_id n) (w_st w)) ins in
        (set_st w (update (n_id n) s' (w_st w)), outs)
    end in
  fold_left (emit sg) (combine (n_outs n) outs) (w1, loc).

Definition run_sg (ext : bufs) (sg : subgraph) (w : world) : world :=
  let w1 := prep_send sg w in
  let '(w2, loc) := recv_all sg w1 in
  fst (fold_left (run_node sg ext) (sg_nodes sg) (w2, loc)).

(* ------------------------------------------------------------------ gates and the tick *)

Definition check_b (w : world) (c : check) : bool :=
  match c with
  | CBuf h => match get h (w_buf w) with [] => false | _ => true end
  | CBack h => match get h (w_back w) with [] => false | _ => true end
  end.

Definition swap_one (w : world) (h : N) : world :=
  let b := get h (w_buf w) in
  let k := get h (w_back w) in
  set_back (set_buf w (update h k (w_buf w))) (update h b (w_back w)).

Definition swap_all (hs : list N) (w : world) : world := fold_left swap_one hs w.

(* `while` gates take fuel; running out sets w_oof (the real program would not terminate) *)
Fixpoint while_gate (fuel : nat) (cond : world -> bool) (body : world -> world) (w : world) : world :=
  match fuel with
  | O => if cond w then set_oof w true else w
  | S f => if cond w then while_gate f cond body (body w) else w
  end.

Definition loop_fuel : nat := 64.

Fixpoint exec (ext : bufs) (i : instr) (w : world) {struct i} : world :=
  match i with
  | IRun sg => run_sg ext sg w
  | IDecl hs => fold_left (fun (w : world) (h : N) => set_buf w (update h [] (w_buf w))) hs w
  | IGate root checks body swaps =>
      let run_body := fun w => swap_all swaps (fold_left (fun w i => exec ext i w) body w) in
      match checks with
      | [] => run_body w
      | _ => if root then (if existsb (check_b w) checks then run_body w else w)
             else while_gate loop_fuel (fun w => existsb (check_b w) checks) run_body w
      end
  end.

Definition end_ops (p : prog) (w : world) : world :=
  set_st w (map (fun e => let o := kind_op (lookup (NSink 0) (fst e) (p_ops p)) (w_tick w) in
                          (fst e, op_end o (snd e))) (w_st w)).

(* the tick closure; returns mem::take(&mut __dfir_work_done) *)
Definition tick_closure (p : prog) (ext : bufs) (w : world) : world * bool :=
  let w1 := fold_left (fun w i => exec ext i w) (p_body p) w in
  let w2 := if existsb (check_b w1) (p_sched p) then set_wake w1 true else w1 in
  let w3 := swap_all (p_swaps p) w2 in
  let w4 := end_ops p w3 in
  let w5 := set_tick w4 (w_tick w4 + 1) in
  (set_work w5 false, w_work w5).

(* Dfir::run_tick *)
Definition run_tick (p : prog) (ext : bufs) (w : world) : world * bool :=
  let had_external := w_wake w in
  let '(w1, work) := tick_closure p ext (set_wake w false) in
  (w1, had_external || work || w_wake w1).

(* Dfir::run_available_sync; [ext] is what the sources hold when it is called; returns the
   number of ticks it ran.  [wakes] is the script of external wake-ups (a waker fired from outside
   while the k-th tick of this call was running; missing entries = none): they set
   WakeState.can_start_tick exactly like schedule_subgraph(true) does.
   Fuel: a program that defers non-lazily forever never returns. *)
Fixpoint run_avail_loop (fuel : nat) (p : prog) (wakes : list bool) (ext : bufs) (w : world) (n : N) : world * N :=
  match fuel with
  | O => (set_oof w true, n)
  | S f =>
      let '(w1, _) := run_tick p ext w in
      let w1 := if hd false wakes then set_wake w1 true else w1 in
      if w_wake w1 then run_avail_loop f p (tl wakes) [] (set_wake w1 false) (n + 1)
      else (w1, n + 1)
  end.

Definition avail_fuel : nat := 64.
Definition run_available_w (p : prog) (wakes : list bool) (ext : bufs) (w : world) : world * N :=
  run_avail_loop avail_fuel p wakes ext (set_wake w false) 0.
Definition run_available (p : prog) (ext : bufs) (w : world) : world * N := run_available_w p [] ext w.

(* ------------------------------------------------------------------ reference closures (vocabulary) *)

(* #{g} mut sv on a Singleton slot:  v := (v * 3 + x) % 1000003; emit (x, v) *)
Definition rf_mix (slot : list val) (x : val) : option (list val * list val) :=
  match slot with
  | v :: _ => let n := VN ((vnum v * 3 + vnum x) mod 1000003) in Some ([n], [VP x n])
  | [] => None
  end.
(* #{g} sv on a Singleton slot: emit (x, v) *)
Definition rf_pair (slot : list val) (x : val) : option (list val * list val) :=
  match slot with v :: _ => Some (slot, [VP x v]) | [] => None end.
(* filter: keep x when x <= v, v read through #{g} sv *)
Definition rf_le (slot : list val) (x : val) : option (list val * list val) :=
  match slot with v :: _ => Some (slot, if vnum x <=? vnum v then [x] else []) | [] => None end.
(* a Vec handoff referenced as a whole: emit (x, buffer length) *)
Definition rf_len (slot : list val) (x : val) : option (list val * list val) :=
  Some (slot, [VP x (VN (N.of_nat (length slot)))]).
(* Optional slots: &Option<T>, no unwrap of the slot itself *)
Definition rf_opt_rd (slot : list val) (x : val) : option (list val * list val) :=
  Some (slot, [VP x (match slot with v :: _ => v | [] => VN 99 end)]).
Definition rf_opt_rw (slot : list val) (x : val) : option (list val * list val) :=
  let n := VN (((match slot with v :: _ => vnum v | [] => 5 end) * 3 + vnum x) mod 1000003) in
  Some ([n], [VP x n]).

(* ------------------------------------------------------------------ drivers used by the check *)

(* mode "ticks": one run_tick_sync per entry of the history; observation = current_tick after
   each call.  mode "avail": one run_available_sync per entry; observation = ticks it ran. *)
Fixpoint drive_ticks (p : prog) (h : list bufs) (w : world) : world * list N :=
  match h with
  | [] => (w, [])
  | ext :: r => let '(w1, _) := run_tick p ext w in
                let '(w2, obs) := drive_ticks p r w1 in (w2, w_tick w1 :: obs)
  end.

Fixpoint drive_avail (p : prog) (h : list bufs) (w : world) : world * list N :=
  match h with
  | [] => (w, [])
  | ext :: r => let '(w1, n) := run_available p ext w in
                let '(w2, obs) := drive_avail p r w1 in (w2, n :: obs)
  end.

Definition drive (avail : bool) (p : prog) (h : list bufs) : world * list N :=
  if avail then drive_avail p h (init_world p) else drive_ticks p h (init_world p).

(* agreement of an observed run with the model's *)
Definition outs_agree (ordered : list bool) (impl : list (list val)) (w : world) : bool :=
  all2 (fun (io : list val) (k : nat) => out_eqb (nth k ordered false) io (get (N.of_nat k) (w_out w)))
       impl (seq 0 (length impl)).

Fixpoint nlist_eqb (a b : list N) : bool :=
  match a, b with
  | [], [] => true
  | x :: a', y :: b' => N.eqb x y && nlist_eqb a' b'
  | _, _ => false
  end.

Definition run_agree (avail : bool) (p : prog) (h : list bufs) (ordered : list bool)
           (impl_outs : list (list val)) (impl_obs : list N) : bool :=
  let '(w, obs) := drive avail p h in
  negb (w_oof w) && negb (w_panic w) && nlist_eqb obs impl_obs && outs_agree ordered impl_outs w.
