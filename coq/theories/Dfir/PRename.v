(* E7 Dfir -- renaming: the denotation of a flat graph does not depend on the names of its wires
   and operator ids.  For injective renamings rho (wires) and sigma (operator ids) the renamed
   graph produces the same sink outputs and tick counts over every history, and the same operator
   states under sigma.  (C22: a lowered variant is `splice` of its base up to such a renaming.) *)
From Coq Require Import List NArith Bool Arith Lia.
From HV Require Import Dfir.Model Dfir.ModelTick Dfir.ModelRewrite Dfir.POps Dfir.PTick Dfir.PFrame Dfir.PFlat Dfir.PRewrite.
Import ListNotations.
Open Scope N_scope.

Lemma option_map_ext' : forall {A B} (f g : A -> B) o, (forall s, f s = g s) -> option_map f o = option_map g o.
Proof. intros A B f g [x|] H; cbn; [rewrite H; reflexivity | reflexivity]. Qed.

Section Rename.
  Variable rho sigma : N -> N.
  Hypothesis rho_inj : forall a b, rho a = rho b -> a = b.
  Hypothesis sigma_inj : forall a b, sigma a = sigma b -> a = b.

  Definition rn (n : node) : node :=
    {| n_id := sigma (n_id n); n_kind := n_kind n; n_ins := map rho (n_ins n); n_outs := map rho (n_outs n) |}.

  Definition rn_ops (ops : list (N * nkind)) : list (N * nkind) := map (fun e => (sigma (fst e), snd e)) ops.

  (* worlds related by sigma *)
  Definition wrel (a b : world) : Prop :=
    w_out a = w_out b /\ w_tick a = w_tick b /\ w_panic a = w_panic b /\
    forall id, olookup (sigma id) (w_st b) = olookup id (w_st a).

  (* local environments related by rho *)
  Definition lrel (l1 l2 : bufs) : Prop := forall e, get (rho e) l2 = get e l1.

  Lemma emits_rn : forall (l : list (N * list val)) w1 w2 loc1 loc2,
    lrel loc1 loc2 ->
    lrel (snd (fold_left (emit Fb) l (w1, loc1)))
         (snd (fold_left (emit Fb) (map (fun eo => (rho (fst eo), snd eo)) l) (w2, loc2))) /\
    fst (fold_left (emit Fb) l (w1, loc1)) = w1 /\
    fst (fold_left (emit Fb) (map (fun eo => (rho (fst eo), snd eo)) l) (w2, loc2)) = w2.
  Proof.
    induction l as [|[e its] l IH]; intros w1 w2 loc1 loc2 HL; cbn [map fold_left fst snd]; [repeat split; exact HL|].
    unfold emit at 2 4. cbn [is_send Fb sg_send existsb fst snd].
    apply IH. intros e'. rewrite !get_push_to.
    destruct (N.eqb e' e) eqn:E.
    - apply N.eqb_eq in E. subst. rewrite N.eqb_refl, HL. reflexivity.
    - assert (E2 : N.eqb (rho e') (rho e) = false).
      { apply N.eqb_neq. intro H. apply rho_inj in H. subst. rewrite N.eqb_refl in E. discriminate. }
      rewrite E2. apply HL.
  Qed.

  Lemma combine_map_rho : forall (es : list N) (os : list (list val)),
    combine (map rho es) os = map (fun eo => (rho (fst eo), snd eo)) (combine es os).
  Proof.
    induction es as [|e es IH]; intros [|o os]; cbn [map combine fst snd]; try reflexivity. rewrite IH. reflexivity.
  Qed.

  Lemma run_node_rn : forall ext n w1 loc1 w2 loc2,
    plain_kind (n_kind n) -> wrel w1 w2 -> lrel loc1 loc2 ->
    let r1 := run_node Fb ext (w1, loc1) n in
    let r2 := run_node Fb ext (w2, loc2) (rn n) in
    wrel (fst r1) (fst r2) /\ lrel (snd r1) (snd r2).
  Proof.
    intros ext n w1 loc1 w2 loc2 Hpl [S1 [S2 [S3 S4]]] HL r1 r2. unfold r1, r2, run_node.
    cbn [rn n_kind n_ins n_outs n_id].
    assert (Hins : map (fun e => get e loc2) (map rho (n_ins n)) = map (fun e => get e loc1) (n_ins n)).
    { rewrite map_map. apply map_ext. intros e. apply HL. }
    rewrite Hins. set (ins := map (fun e => get e loc1) (n_ins n)).
    assert (Hst : forall d, lookup d (sigma (n_id n)) (w_st w2) = lookup d (n_id n) (w_st w1)).
    { intros d. rewrite !lookup_olookup, S4. reflexivity. }
    unfold plain_kind in Hpl.
    destruct (n_kind n) as [o|o|k|k|h g] eqn:Ek; try contradiction.
    - rewrite <- S2. cbn [kind_op]. rewrite Hst.
      destruct (op_step o _ ins) as [s' os]. rewrite combine_map_rho.
      destruct (emits_rn (combine (n_outs n) os) (set_st w1 (update (n_id n) s' (w_st w1)))
                  (set_st w2 (update (sigma (n_id n)) s' (w_st w2))) loc1 loc2 HL) as [A [B C]].
      rewrite B, C. split; [|exact A]. repeat split; try assumption. intros id. cbn [w_st set_st].
      destruct (N.eq_dec id (n_id n)) as [->|Hne]; [rewrite !olookup_update_same; reflexivity|].
      rewrite olookup_update_other by (intro H; apply sigma_inj in H; contradiction).
      rewrite olookup_update_other by exact Hne. apply S4.
    - rewrite <- S2. cbn [kind_op]. rewrite Hst.
      destruct (op_step (o (w_tick w1)) _ ins) as [s' os]. rewrite combine_map_rho.
      destruct (emits_rn (combine (n_outs n) os) (set_st w1 (update (n_id n) s' (w_st w1)))
                  (set_st w2 (update (sigma (n_id n)) s' (w_st w2))) loc1 loc2 HL) as [A [B C]].
      rewrite B, C. split; [|exact A]. repeat split; try assumption. intros id. cbn [w_st set_st].
      destruct (N.eq_dec id (n_id n)) as [->|Hne]; [rewrite !olookup_update_same; reflexivity|].
      rewrite olookup_update_other by (intro H; apply sigma_inj in H; contradiction).
      rewrite olookup_update_other by exact Hne. apply S4.
    - rewrite combine_map_rho.
      destruct (emits_rn (combine (n_outs n) [get k ext]) w1 w2 loc1 loc2 HL) as [A [B C]].
      rewrite B, C. split; [repeat split; assumption | exact A].
    - rewrite <- S1, <- S2. rewrite combine_map_rho.
      destruct (emits_rn (combine (n_outs n) [])
                  (set_out w1 (push_to k (map (fun x => VP (VN (w_tick w1)) x) (port 0 ins)) (w_out w1)))
                  (set_out w2 (push_to k (map (fun x => VP (VN (w_tick w1)) x) (port 0 ins)) (w_out w1)))
                  loc1 loc2 HL) as [A [B C]].
      rewrite B, C. split; [repeat split; assumption | exact A].
  Qed.

  Lemma run_nodes_rn : forall ext ns w1 loc1 w2 loc2,
    Forall (fun n => plain_kind (n_kind n)) ns -> wrel w1 w2 -> lrel loc1 loc2 ->
    wrel (fst (run_nodes Fb ext ns (w1, loc1))) (fst (run_nodes Fb ext (map rn ns) (w2, loc2))).
  Proof.
    intros ext ns. unfold run_nodes. induction ns as [|n ns IH]; intros w1 loc1 w2 loc2 Hp Hw HL; cbn [map fold_left]; [exact Hw|].
    inversion Hp as [|? ? Hp1 Hp2]; subst.
    destruct (run_node_rn ext n w1 loc1 w2 loc2 Hp1 Hw HL) as [A B]. cbv zeta in A, B.
    destruct (run_node Fb ext (w1, loc1) n) as [wa la]. destruct (run_node Fb ext (w2, loc2) (rn n)) as [wb lb].
    cbn [fst snd] in *. apply IH; assumption.
  Qed.

  Lemma olookup_rn_ops : forall ops id, olookup (sigma id) (rn_ops ops) = olookup id ops.
  Proof.
    induction ops as [|[k v] ops IH]; intros id; cbn [rn_ops map olookup fst snd]; [reflexivity|].
    destruct (N.eqb id k) eqn:E.
    - apply N.eqb_eq in E. subst. rewrite N.eqb_refl. reflexivity.
    - assert (E2 : N.eqb (sigma id) (sigma k) = false).
      { apply N.eqb_neq. intro H. apply sigma_inj in H. subst. rewrite N.eqb_refl in E. discriminate. }
      rewrite E2. apply IH.
  Qed.

  Theorem rename_preserves_run : forall ns ops h,
    Forall (fun n => plain_kind (n_kind n)) ns ->
    let '(w1, obs1) := drive false (flat_prog_n ns ops) h in
    let '(w2, obs2) := drive false (flat_prog_n (map rn ns) (rn_ops ops)) h in
    w_out w1 = w_out w2 /\ obs1 = obs2 /\ w_panic w1 = w_panic w2 /\
    forall id, olookup (sigma id) (w_st w2) = olookup id (w_st w1).
  Proof.
    intros ns ops h Hp. unfold drive.
    set (p1 := flat_prog_n ns ops). set (p2 := flat_prog_n (map rn ns) (rn_ops ops)).
    assert (Htc : forall ext w1 w2, wrel w1 w2 ->
              wrel (fst (tick_closure p1 ext w1)) (fst (tick_closure p2 ext w2))).
    { intros ext w1 w2 Hs. unfold tick_closure.
      cbn [p1 p2 flat_prog_n p_body p_sched p_swaps existsb swap_all fold_left fst exec].
      change (run_sg ext {| sg_recv := []; sg_send := []; sg_slots := []; sg_nodes := ns |} w1)
        with (fst (run_nodes Fb ext ns (w1, []))).
      change (run_sg ext {| sg_recv := []; sg_send := []; sg_slots := []; sg_nodes := map rn ns |} w2)
        with (fst (run_nodes Fb ext (map rn ns) (w2, []))).
      destruct (run_nodes_rn ext ns w1 [] w2 [] Hp Hs (fun e => eq_refl)) as [H1 [H2 [H3 H4]]]. unfold bufs in *.
      unfold end_ops, wrel. cbn [w_st w_out w_tick w_panic set_st set_tick set_work p_ops].
      repeat split; try assumption; try congruence; try (f_equal; exact H2).
      intros id. cbv zeta.
      rewrite (olookup_map (fun k s => op_end (kind_op (lookup (NSink 0) k (rn_ops ops)) (w_tick (fst (run_nodes Fb ext (map rn ns) (w2, []))))) s)).
      rewrite (olookup_map (fun k s => op_end (kind_op (lookup (NSink 0) k ops) (w_tick (fst (run_nodes Fb ext ns (w1, []))))) s)).
      rewrite H4. apply option_map_ext'. intros s.
      do 2 f_equal; [rewrite !lookup_olookup, olookup_rn_ops; reflexivity | symmetry; exact H2]. }
    assert (Htick : forall ext w1 w2, wrel w1 w2 -> wrel (fst (run_tick p1 ext w1)) (fst (run_tick p2 ext w2))).
    { intros ext w1 w2 Hs. unfold run_tick.
      assert (Hs' : wrel (set_wake w1 false) (set_wake w2 false)).
      { destruct Hs as [A1 [A2 [A3 A4]]]. repeat split; assumption. }
      pose proof (Htc ext _ _ Hs') as H.
      destruct (tick_closure p1 ext (set_wake w1 false)) as [x1 y1].
      destruct (tick_closure p2 ext (set_wake w2 false)) as [x2 y2]. exact H. }
    assert (G : forall h w1 w2, wrel w1 w2 ->
      wrel (fst (drive_ticks p1 h w1)) (fst (drive_ticks p2 h w2)) /\
      snd (drive_ticks p1 h w1) = snd (drive_ticks p2 h w2)).
    { induction h0 as [|ext r IH]; intros w1 w2 Hs; cbn [drive_ticks]; [split; [exact Hs | reflexivity]|].
      pose proof (Htick ext w1 w2 Hs) as H1.
      destruct (run_tick p1 ext w1) as [wa ba]. destruct (run_tick p2 ext w2) as [wb bb]. cbn [fst] in H1.
      destruct (IH wa wb H1) as [I1 I2].
      destruct (drive_ticks p1 r wa) as [wa2 oa]. destruct (drive_ticks p2 r wb) as [wb2 ob]. cbn [fst snd] in *.
      split; [exact I1|]. destruct H1 as [_ [H3 _]]. rewrite H3, I2. reflexivity. }
    assert (Hinit : wrel (init_world p1) (init_world p2)).
    { unfold init_world, wrel. cbn [w_out w_tick w_panic w_st p1 p2 flat_prog_n p_ops].
      repeat split. intros id.
      rewrite (olookup_map (fun _ k => op_init (kind_op k 0)) (sigma id) (rn_ops ops)).
      rewrite (olookup_map (fun _ k => op_init (kind_op k 0)) id ops). rewrite olookup_rn_ops. reflexivity. }
    destruct (G h _ _ Hinit) as [G1 G2].
    destruct (drive_ticks p1 h (init_world p1)) as [w1 o1]. destruct (drive_ticks p2 h (init_world p2)) as [w2 o2].
    cbn [fst snd] in *. destruct G1 as [A1 [A2 [A3 A4]]]. repeat split; assumption.
  Qed.
End Rename.
