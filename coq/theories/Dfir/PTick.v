(* E7 Dfir -- proofs about the tick program model (C24, C26). *)
From Coq Require Import List NArith Bool Arith Lia.
From HV Require Import Dfir.Model Dfir.ModelTick Dfir.POps.
Import ListNotations.
Open Scope N_scope.

(* ------------------------------------------------------------------ induction on instructions *)

Section InstrInd.
  Variable P : instr -> Prop.
  Hypothesis Hrun : forall sg, P (IRun sg).
  Hypothesis Hdecl : forall hs, P (IDecl hs).
  Hypothesis Hgate : forall root checks body swaps, Forall P body -> P (IGate root checks body swaps).
  Fixpoint instr_ind' (i : instr) : P i :=
    match i with
    | IRun sg => Hrun sg
    | IDecl hs => Hdecl hs
    | IGate r c b s =>
        Hgate r c b s ((fix go (l : list instr) : Forall P l :=
                          match l with
                          | [] => Forall_nil P
                          | x :: t => Forall_cons x (instr_ind' x) (go t)
                          end) b)
    end.
End InstrInd.

(* ------------------------------------------------------------------ preservation through a tick body *)

Section Preserve.
  (* a reflexive-transitive relation between a world and a later world *)
  Variable R : world -> world -> Prop.
  Hypothesis Rrefl : forall w, R w w.
  Hypothesis Rtrans : forall a b c, R a b -> R b c -> R a c.

  Lemma fold_left_R : forall {A} (f : world -> A -> world) l,
    (forall w x, In x l -> R w (f w x)) -> forall w, R w (fold_left f l w).
  Proof.
    induction l as [|x l IH]; intros H w; cbn [fold_left]; [apply Rrefl|].
    eapply Rtrans; [apply H; left; reflexivity|]. apply IH. intros w' y Hy. apply H. right. exact Hy.
  Qed.

  Lemma while_gate_R : forall cond body fuel,
    (forall w, R w (body w)) -> (forall w b, R w (set_oof w b)) ->
    forall w, R w (while_gate fuel cond body w).
  Proof.
    intros cond body fuel Hb Ho. induction fuel as [|f IH]; intros w; cbn [while_gate].
    - destruct (cond w); [apply Ho | apply Rrefl].
    - destruct (cond w); [|apply Rrefl]. eapply Rtrans; [apply Hb | apply IH].
  Qed.

  Hypothesis Rsg : forall ext sg w, R w (run_sg ext sg w).
  Hypothesis Rswap : forall w h, R w (swap_one w h).
  Hypothesis Roof : forall w b, R w (set_oof w b).
  Hypothesis Rdecl : forall w h, R w (set_buf w (update h [] (w_buf w))).

  Lemma swap_all_R : forall hs w, R w (swap_all hs w).
  Proof. intros hs w. unfold swap_all. apply fold_left_R. intros. apply Rswap. Qed.

  Lemma exec_R : forall ext i w, R w (exec ext i w).
  Proof.
    intros ext i. induction i as [sg | hs | root checks body swaps IH] using instr_ind'; intros w.
    - cbn [exec]. apply Rsg.
    - cbn [exec]. apply fold_left_R. intros. apply Rdecl.
    - cbn [exec].
      assert (Hbody : forall w, R w (swap_all swaps (fold_left (fun w i => exec ext i w) body w))).
      { intros w0. eapply Rtrans; [|apply swap_all_R].
        apply fold_left_R. intros w1 x Hx. rewrite Forall_forall in IH. apply IH. exact Hx. }
      destruct checks as [|c cs]; [apply Hbody|].
      destruct root.
      + destruct (existsb (check_b w) (c :: cs)); [apply Hbody | apply Rrefl].
      + apply while_gate_R; [exact Hbody | exact Roof].
  Qed.

  Lemma body_R : forall ext body w, R w (fold_left (fun w i => exec ext i w) body w).
  Proof. intros. apply fold_left_R. intros. apply exec_R. Qed.
End Preserve.

(* ------------------------------------------------------------------ run_sg keeps tick and wake *)

Definition same_tw (a b : world) : Prop := w_tick a = w_tick b /\ w_wake a = w_wake b.

Lemma same_tw_refl : forall w, same_tw w w.
Proof. intros; split; reflexivity. Qed.
Lemma same_tw_trans : forall a b c, same_tw a b -> same_tw b c -> same_tw a c.
Proof. intros a b c [H1 H2] [H3 H4]. split; congruence. Qed.

Lemma fold_left_inv : forall {A B} (Q : A -> Prop) (f : A -> B -> A) l,
  (forall a x, Q a -> Q (f a x)) -> forall a, Q a -> Q (fold_left f l a).
Proof.
  induction l as [|x l IH]; intros H a Ha; cbn [fold_left]; [exact Ha|]. apply IH; [exact H|]. apply H. exact Ha.
Qed.

Lemma prep_send_tw : forall sg w, same_tw w (prep_send sg w).
Proof.
  intros sg w. unfold prep_send.
  apply (fold_left_inv (fun w' => same_tw w w')); [|apply same_tw_refl].
  intros a x Ha. destruct (snd x); try exact Ha; (eapply same_tw_trans; [exact Ha|]; split; reflexivity).
Qed.

Lemma recv_all_tw : forall sg w, same_tw w (fst (recv_all sg w)).
Proof.
  intros sg w. unfold recv_all.
  apply (fold_left_inv (fun acc : world * bufs => same_tw w (fst acc))); [|apply same_tw_refl].
  intros [a loc] x Ha. unfold recv_step. cbn [fst] in *. eapply same_tw_trans; [exact Ha|].
  destruct (snd x); destruct (get (fst x) _); split; reflexivity.
Qed.

Lemma emit_tw : forall sg acc eo, same_tw (fst acc) (fst (emit sg acc eo)).
Proof.
  intros sg [w loc] [e its]. unfold emit. cbn [fst].
  destruct (is_send sg e); cbn [fst]; [|apply same_tw_refl].
  destruct (is_slot sg e); [|split; reflexivity].
  unfold slot_push. destruct (Nat.ltb _ _); split; reflexivity.
Qed.

Lemma run_node_tw : forall sg ext acc n, same_tw (fst acc) (fst (run_node sg ext acc n)).
Proof.
  intros sg ext [w loc] n. unfold run_node. cbn [fst].
  set (ins := map (fun e => get e loc) (n_ins n)).
  assert (H1 : forall w1 outs, same_tw w w1 ->
    same_tw w (fst (fold_left (emit sg) (combine (n_outs n) outs) (w1, loc)))).
  { intros w1 outs Hw1.
    apply (fold_left_inv (fun acc : world * bufs => same_tw w (fst acc))); [|exact Hw1].
    intros acc eo Ha. eapply same_tw_trans; [exact Ha | apply emit_tw]. }
  destruct (n_kind n) as [o|o|k|k|h f].
  - destruct (op_step _ _ _) as [s' outs]. apply H1. split; reflexivity.
  - destruct (op_step _ _ _) as [s' outs]. apply H1. split; reflexivity.
  - apply H1. apply same_tw_refl.
  - apply H1. split; reflexivity.
  - destruct (ref_fold f _ _) as [[slot' outs] bad]. apply H1. destruct bad; split; reflexivity.
Qed.

Lemma run_sg_tw : forall ext sg w, same_tw w (run_sg ext sg w).
Proof.
  intros ext sg w. unfold run_sg.
  destruct (recv_all sg (prep_send sg w)) as [w2 loc] eqn:E.
  assert (H2 : same_tw w w2).
  { eapply same_tw_trans; [apply prep_send_tw|]. pose proof (recv_all_tw sg (prep_send sg w)) as H.
    rewrite E in H. exact H. }
  apply (fold_left_inv (fun acc : world * bufs => same_tw w (fst acc))); [|exact H2].
  intros acc n Ha. eapply same_tw_trans; [exact Ha | apply run_node_tw].
Qed.

Lemma swap_one_tw : forall w h, same_tw w (swap_one w h).
Proof. intros; split; reflexivity. Qed.
Lemma set_oof_tw : forall w b, same_tw w (set_oof w b).
Proof. intros; split; reflexivity. Qed.

Lemma decl_tw : forall w h, same_tw w (set_buf w (update h [] (w_buf w))).
Proof. intros; split; reflexivity. Qed.

Lemma body_tw : forall ext body w, same_tw w (fold_left (fun w i => exec ext i w) body w).
Proof.
  intros. apply (body_R same_tw same_tw_refl same_tw_trans run_sg_tw swap_one_tw set_oof_tw decl_tw).
Qed.

Lemma swap_all_tw : forall hs w, same_tw w (swap_all hs w).
Proof. intros. apply (swap_all_R same_tw same_tw_refl same_tw_trans swap_one_tw). Qed.

(* ------------------------------------------------------------------ C24 (1): the tick counter *)

Definition body_world (p : prog) (ext : bufs) (w : world) : world :=
  fold_left (fun w i => exec ext i w) (p_body p) w.

Lemma tick_closure_tick : forall p ext w, w_tick (fst (tick_closure p ext w)) = w_tick w + 1.
Proof.
  intros p ext w. unfold tick_closure. cbn [fst w_tick set_work set_tick end_ops set_st].
  fold (body_world p ext w).
  destruct (body_tw ext (p_body p) w) as [Ht _]. fold (body_world p ext w) in Ht.
  set (w1 := body_world p ext w) in *.
  set (w2 := if existsb (check_b w1) (p_sched p) then set_wake w1 true else w1).
  assert (H2 : w_tick w2 = w_tick w1) by (unfold w2; destruct (existsb _ _); reflexivity).
  destruct (swap_all_tw (p_swaps p) w2) as [H3 _]. rewrite <- H3, H2, <- Ht. reflexivity.
Qed.

Lemma run_tick_tick : forall p ext w, w_tick (fst (run_tick p ext w)) = w_tick w + 1.
Proof.
  intros p ext w. unfold run_tick.
  destruct (tick_closure p ext (set_wake w false)) as [w1 work] eqn:E. cbn [fst].
  pose proof (tick_closure_tick p ext (set_wake w false)) as H. rewrite E in H. exact H.
Qed.

(* k calls of run_tick_sync: current_tick() = 1, 2, ..., k *)
Lemma drive_ticks_obs : forall p h w,
  snd (drive_ticks p h w) = map (fun i => w_tick w + N.of_nat i) (seq 1 (length h)).
Proof.
  intros p h. induction h as [|ext r IH]; intros w; cbn [drive_ticks length seq map snd]; [reflexivity|].
  destruct (run_tick p ext w) as [w1 b] eqn:E.
  destruct (drive_ticks p r w1) as [w2 obs] eqn:E2. cbn [snd].
  pose proof (run_tick_tick p ext w) as Ht. rewrite E in Ht. cbn [fst] in Ht.
  pose proof (IH w1) as IH1. rewrite E2 in IH1. cbn [snd] in IH1. rewrite IH1, Ht.
  f_equal; try lia. rewrite <- (seq_shift (length r) 1), map_map. apply map_ext. intros i. lia.
Qed.

Theorem tick_counter : forall p h,
  snd (drive false p h) = map N.of_nat (seq 1 (length h)).
Proof.
  intros p h. unfold drive. rewrite drive_ticks_obs. apply map_ext. intros i. cbn [init_world w_tick]. lia.
Qed.

(* ------------------------------------------------------------------ C24 (3): when another tick is scheduled *)

(* no external wake-ups in the model: the flag after a tick is exactly "some non-lazy deferred
   buffer (p_sched, which never contains a lazy handoff) is non-empty at the end of the tick" *)
Lemma tick_closure_wake : forall p ext w,
  w_wake (fst (tick_closure p ext w)) = w_wake w || existsb (check_b (body_world p ext w)) (p_sched p).
Proof.
  intros p ext w. unfold tick_closure. cbn [fst w_wake set_work set_tick end_ops set_st].
  fold (body_world p ext w).
  destruct (body_tw ext (p_body p) w) as [_ Hw]. fold (body_world p ext w) in Hw.
  set (w1 := body_world p ext w) in *.
  set (w2 := if existsb (check_b w1) (p_sched p) then set_wake w1 true else w1).
  destruct (swap_all_tw (p_swaps p) w2) as [_ H3]. rewrite <- H3. unfold w2.
  destruct (existsb (check_b w1) (p_sched p)); cbn [w_wake set_wake]; rewrite ?Hw.
  - rewrite orb_true_r. reflexivity.
  - rewrite orb_false_r. reflexivity.
Qed.

Lemma run_tick_wake : forall p ext w,
  w_wake (fst (run_tick p ext w)) = existsb (check_b (body_world p ext (set_wake w false))) (p_sched p).
Proof.
  intros p ext w. unfold run_tick.
  destruct (tick_closure p ext (set_wake w false)) as [w1 work] eqn:E. cbn [fst].
  pose proof (tick_closure_wake p ext (set_wake w false)) as H. rewrite E in H. cbn [fst] in H.
  rewrite H. reflexivity.
Qed.

(* run_available_sync keeps ticking exactly while the flag is set: by a non-lazy deferred buffer
   or by an external wake-up that arrived during the tick *)
Lemma run_avail_step : forall f p wakes ext w n,
  run_avail_loop (S f) p wakes ext w n =
  let w1 := fst (run_tick p ext w) in
  if existsb (check_b (body_world p ext (set_wake w false))) (p_sched p) || hd false wakes
  then run_avail_loop f p (tl wakes) [] (set_wake w1 false) (n + 1)
  else (w1, n + 1).
Proof.
  intros f p wakes ext w n. cbn [run_avail_loop].
  pose proof (run_tick_wake p ext w) as H.
  destruct (run_tick p ext w) as [w1 b]. cbn [fst] in *.
  destruct (hd false wakes); cbn [w_wake set_wake].
  - rewrite orb_true_r. reflexivity.
  - rewrite orb_false_r, H. destruct (existsb _ _); reflexivity.
Qed.

(* a program without non-lazy deferred handoffs (only defer_tick_lazy, or none) and no external
   wake-up: exactly one tick *)
Theorem lazy_never_ticks : forall p ext w,
  p_sched p = [] -> snd (run_available p ext w) = 1.
Proof.
  intros p ext w H. unfold run_available, run_available_w, avail_fuel. rewrite run_avail_step. rewrite H. reflexivity.
Qed.

(* ------------------------------------------------------------------ C24 (2): the double buffer *)

Lemma lookup_update_same : forall {A} (d : A) k v m, lookup d k (update k v m) = v.
Proof.
  induction m as [|[k' v'] m IH]; cbn [update lookup].
  - rewrite N.eqb_refl. reflexivity.
  - destruct (N.eqb k k') eqn:E; cbn [lookup]; rewrite ?N.eqb_refl, ?E; [reflexivity | exact IH].
Qed.

Lemma lookup_update_other : forall {A} (d : A) k k' v m, k <> k' -> lookup d k (update k' v m) = lookup d k m.
Proof.
  induction m as [|[k2 v2] m IH]; intros Hne; cbn [update lookup].
  - destruct (N.eqb k k') eqn:E; [apply N.eqb_eq in E; contradiction | reflexivity].
  - destruct (N.eqb k' k2) eqn:E; cbn [lookup].
    + apply N.eqb_eq in E. subst k2.
      destruct (N.eqb k k') eqn:E2; [apply N.eqb_eq in E2; contradiction | reflexivity].
    + destruct (N.eqb k k2); [reflexivity | apply IH; exact Hne].
Qed.

Lemma swap_one_same : forall w h,
  get h (w_back (swap_one w h)) = get h (w_buf w) /\ get h (w_buf (swap_one w h)) = get h (w_back w).
Proof.
  intros w h. unfold swap_one, get. cbn [w_back w_buf set_back set_buf].
  rewrite !lookup_update_same. split; reflexivity.
Qed.

Lemma swap_one_other : forall w h k, k <> h ->
  get k (w_back (swap_one w h)) = get k (w_back w) /\ get k (w_buf (swap_one w h)) = get k (w_buf w).
Proof.
  intros w h k Hne. unfold swap_one, get. cbn [w_back w_buf set_back set_buf].
  rewrite !lookup_update_other by exact Hne. split; reflexivity.
Qed.

Lemma swap_all_notin : forall hs w k, ~ In k hs ->
  get k (w_back (swap_all hs w)) = get k (w_back w) /\ get k (w_buf (swap_all hs w)) = get k (w_buf w).
Proof.
  induction hs as [|h hs IH]; intros w k Hn; cbn [swap_all fold_left]; [split; reflexivity|].
  fold (swap_all hs (swap_one w h)).
  destruct (IH (swap_one w h) k) as [H1 H2]; [intro H; apply Hn; right; exact H|].
  destruct (swap_one_other w h k) as [H3 H4]; [intro; subst; apply Hn; left; reflexivity|].
  split; congruence.
Qed.

Lemma swap_all_in : forall hs w k, NoDup hs -> In k hs ->
  get k (w_back (swap_all hs w)) = get k (w_buf w) /\ get k (w_buf (swap_all hs w)) = get k (w_back w).
Proof.
  induction hs as [|h hs IH]; intros w k ND Hin; [destruct Hin|].
  cbn [swap_all fold_left]. fold (swap_all hs (swap_one w h)).
  inversion ND as [|? ? Hnotin ND']; subst.
  destruct Hin as [Heq|Hin].
  - subst k. destruct (swap_all_notin hs (swap_one w h) h Hnotin) as [H1 H2].
    destruct (swap_one_same w h) as [H3 H4]. split; congruence.
  - assert (k <> h) as Hne by (intro; subst; contradiction).
    destruct (IH (swap_one w h) k ND' Hin) as [H1 H2].
    destruct (swap_one_other w h k Hne) as [H3 H4]. split; congruence.
Qed.

(* end of tick for a tick-level defer_tick handoff: what the producer left in `buf` during this
   tick is what `back` holds when the next tick starts, and the new `buf` is the (drained) old back *)
Theorem defer_swap : forall p ext w h,
  NoDup (p_swaps p) -> In h (p_swaps p) ->
  let w' := fst (tick_closure p ext w) in
  get h (w_back w') = get h (w_buf (body_world p ext w)) /\
  get h (w_buf w') = get h (w_back (body_world p ext w)).
Proof.
  intros p ext w h ND Hin. unfold tick_closure. cbn [fst set_work set_tick end_ops set_st w_back w_buf].
  fold (body_world p ext w). set (w1 := body_world p ext w).
  set (w2 := if existsb (check_b w1) (p_sched p) then set_wake w1 true else w1).
  destruct (swap_all_in (p_swaps p) w2 h ND Hin) as [H1 H2].
  assert (Hb : w_buf w2 = w_buf w1 /\ w_back w2 = w_back w1)
    by (unfold w2; destruct (existsb _ _); split; reflexivity).
  destruct Hb as [Hb1 Hb2]. rewrite Hb1 in H1. rewrite Hb2 in H2. split; assumption.
Qed.

(* ... and a handoff that is not swapped at tick level keeps its buffers over the tick end *)
Theorem no_swap_keeps : forall p ext w h,
  ~ In h (p_swaps p) ->
  let w' := fst (tick_closure p ext w) in
  get h (w_back w') = get h (w_back (body_world p ext w)) /\
  get h (w_buf w') = get h (w_buf (body_world p ext w)).
Proof.
  intros p ext w h Hn. unfold tick_closure. cbn [fst set_work set_tick end_ops set_st w_back w_buf].
  fold (body_world p ext w). set (w1 := body_world p ext w).
  set (w2 := if existsb (check_b w1) (p_sched p) then set_wake w1 true else w1).
  destruct (swap_all_notin (p_swaps p) w2 h Hn) as [H1 H2].
  assert (Hb : w_buf w2 = w_buf w1 /\ w_back w2 = w_back w1)
    by (unfold w2; destruct (existsb _ _); split; reflexivity).
  destruct Hb as [Hb1 Hb2]. rewrite Hb2 in H1. rewrite Hb1 in H2. split; assumption.
Qed.

(* the consumer: draining its receive handoffs hands it exactly the back buffer and empties it *)
Lemma recv_step_other : forall w loc e h, h <> fst e ->
  get h (w_back (fst (recv_step (w, loc) e))) = get h (w_back w) /\
  get h (w_buf (fst (recv_step (w, loc) e))) = get h (w_buf w) /\
  get h (snd (recv_step (w, loc) e)) = get h loc.
Proof.
  intros w loc [k b] h Hk. unfold recv_step, get. cbn [fst snd] in *.
  destruct b; destruct (lookup [] k _); cbn [fst snd w_back w_buf set_back set_buf set_work];
    rewrite ?lookup_update_other by exact Hk; repeat split; reflexivity.
Qed.

Lemma recv_step_deferred : forall w loc h,
  get h (w_back (fst (recv_step (w, loc) (h, true)))) = [] /\
  get h (w_buf (fst (recv_step (w, loc) (h, true)))) = get h (w_buf w) /\
  get h (snd (recv_step (w, loc) (h, true))) = get h (w_back w).
Proof.
  intros w loc h. unfold recv_step, get. cbn [fst snd].
  destruct (lookup [] h (w_back w)); cbn [fst snd w_back w_buf set_back set_buf set_work];
    rewrite !lookup_update_same; repeat split; reflexivity.
Qed.

Lemma recv_fold_other : forall recv w loc h, ~ In h (map fst recv) ->
  let r := fold_left recv_step recv (w, loc) in
  get h (w_back (fst r)) = get h (w_back w) /\ get h (w_buf (fst r)) = get h (w_buf w) /\
  get h (snd r) = get h loc.
Proof.
  induction recv as [|e recv IH]; intros w loc h Hn; cbn [fold_left]; [repeat split|].
  cbn [map In] in Hn.
  destruct (recv_step (w, loc) e) as [w2 l2] eqn:E.
  destruct (IH w2 l2 h) as [H1 [H2 H3]]; [intro; apply Hn; right; assumption|].
  destruct (recv_step_other w loc e h) as [H4 [H5 H6]]; [intro; apply Hn; left; congruence|].
  rewrite E in H4, H5, H6. cbn [fst snd] in *. cbv zeta in *. repeat split; congruence.
Qed.

(* a subgraph that receives the deferred handoff h (once): its operators read exactly what
   `back` held, `back` is left empty, `buf` is not touched by the receive code *)
Theorem consumer_gets_back : forall sg w h,
  NoDup (map fst (sg_recv sg)) -> In (h, true) (sg_recv sg) ->
  let r := recv_all sg w in
  get h (snd r) = get h (w_back w) /\ get h (w_back (fst r)) = [] /\ get h (w_buf (fst r)) = get h (w_buf w).
Proof.
  intros sg w h. unfold recv_all. generalize (@nil (N * list val)) as loc. revert w.
  induction (sg_recv sg) as [|e recv IH]; intros w loc ND Hin; [destruct Hin|].
  cbn [fold_left map] in *. inversion ND as [|? ? Hnotin ND']; subst.
  destruct Hin as [He|Hin].
  - subst e. cbn [fst] in Hnotin.
    destruct (recv_step (w, loc) (h, true)) as [w2 l2] eqn:E.
    destruct (recv_fold_other recv w2 l2 h Hnotin) as [H1 [H2 H3]].
    destruct (recv_step_deferred w loc h) as [H4 [H5 H6]]. unfold bufs in *. rewrite E in H4, H5, H6.
    cbn [fst snd] in *. cbv zeta in *. repeat split; congruence.
  - assert (Hne : h <> fst e).
    { intro Heq. apply Hnotin. rewrite <- Heq. change h with (fst (h, true)). apply in_map. exact Hin. }
    destruct (recv_step (w, loc) e) as [w2 l2] eqn:E.
    destruct (IH w2 l2 ND' Hin) as [H1 [H2 H3]].
    destruct (recv_step_other w loc e h Hne) as [H4 [H5 H6]]. unfold bufs in *. rewrite E in H4, H5, H6.
    cbn [fst snd] in *. cbv zeta in *. repeat split; congruence.
Qed.

(* the producer: `buf.clear()` before it runs *)
Lemma prep_send_clears : forall sg w h k, In (h, k) (sg_send sg) -> k <> SExit ->
  NoDup (map fst (sg_send sg)) -> get h (w_buf (prep_send sg w)) = [].
Proof.
  intros sg w h k. unfold prep_send. revert w.
  induction (sg_send sg) as [|e send IH]; intros w Hin Hk ND; [destruct Hin|].
  cbn [fold_left map] in *. inversion ND as [|? ? Hnotin ND']; subst.
  destruct Hin as [He|Hin].
  - subst e. cbn [fst snd] in *.
    assert (Hfr : forall l w0, ~ In h (map fst l) ->
      get h (w_buf (fold_left (fun (w : world) (e : N * sendk) =>
        match snd e with SExit => w | _ => set_buf w (update (fst e) [] (w_buf w)) end) l w0)) = get h (w_buf w0)).
    { induction l as [|x l IHl]; intros w0 Hn; cbn [fold_left]; [reflexivity|].
      cbn [map In] in Hn. rewrite IHl by (intro; apply Hn; right; assumption).
      destruct (snd x); cbn [w_buf set_buf]; try reflexivity;
        unfold get; apply lookup_update_other; intro; apply Hn; left; congruence. }
    rewrite Hfr by exact Hnotin.
    destruct k; try contradiction; cbn [w_buf set_buf]; unfold get; apply lookup_update_same.
  - apply IH; assumption.
Qed.

(* ------------------------------------------------------------------ C24 (4): 'tick state is reset, 'static kept *)

Lemma op_end_tick_reset : forall a s k, (k < nports a)%nat -> acc_pers a k = Tick ->
  port k (st_ports (op_end (OAcc a) s)) = ao_init a k.
Proof.
  intros a s k Hk Hp. cbn [op_end st_ports]. rewrite port_map_seq by exact Hk.
  unfold acc_pers in Hp. rewrite Hp. reflexivity.
Qed.

Lemma op_end_static_keep : forall a s k, (k < nports a)%nat -> acc_pers a k = Static ->
  port k (st_ports (op_end (OAcc a) s)) = port k (st_ports s).
Proof.
  intros a s k Hk Hp. cbn [op_end st_ports]. rewrite port_map_seq by exact Hk.
  unfold acc_pers in Hp. rewrite Hp. reflexivity.
Qed.

Lemma lookup_map_snd : forall {A} (d : A) (f : N -> A -> A) k m,
  In k (map fst m) -> lookup d k (map (fun e => (fst e, f (fst e) (snd e))) m) = f k (lookup d k m).
Proof.
  induction m as [|[k' v] m IH]; intros Hin; [destruct Hin|].
  cbn [map lookup fst snd] in *. destruct (N.eqb k k') eqn:E.
  - apply N.eqb_eq in E. subst. reflexivity.
  - apply IH. destruct Hin as [H|H]; [subst; rewrite N.eqb_refl in E; discriminate | exact H].
Qed.

(* at the end of every tick each operator's write_tick_end has run on its state *)
Theorem tick_end_applied : forall p ext w id,
  In id (map fst (w_st (body_world p ext w))) ->
  lookup (op_init op_identity) id (w_st (fst (tick_closure p ext w))) =
  op_end (kind_op (lookup (NSink 0) id (p_ops p)) (w_tick w))
         (lookup (op_init op_identity) id (w_st (body_world p ext w))).
Proof.
  intros p ext w id Hin. unfold tick_closure. cbn [fst set_work set_tick w_st].
  fold (body_world p ext w). set (w1 := body_world p ext w) in *.
  set (w2 := if existsb (check_b w1) (p_sched p) then set_wake w1 true else w1).
  unfold end_ops. cbn [w_st set_st].
  assert (Hst : forall hs w0, w_st (swap_all hs w0) = w_st w0).
  { induction hs as [|h hs IHh]; intros w0; cbn [swap_all fold_left]; [reflexivity|].
    fold (swap_all hs (swap_one w0 h)). rewrite IHh. reflexivity. }
  rewrite Hst.
  assert (H2 : w_st w2 = w_st w1) by (unfold w2; destruct (existsb _ _); reflexivity).
  rewrite H2.
  rewrite (lookup_map_snd (op_init op_identity)
             (fun k s => op_end (kind_op (lookup (NSink 0) k (p_ops p)) (w_tick (swap_all (p_swaps p) w2))) s))
    by exact Hin.
  destruct (swap_all_tw (p_swaps p) w2) as [H3 _]. rewrite <- H3.
  assert (H4 : w_tick w2 = w_tick w1) by (unfold w2; destruct (existsb _ _); reflexivity).
  destruct (body_tw ext (p_body p) w) as [H5 _]. fold (body_world p ext w) in H5. fold w1 in H5.
  rewrite H4, <- H5. reflexivity.
Qed.

(* ------------------------------------------------------------------ C26: loop gates *)

Definition gate_cond (checks : list check) (w : world) : bool := existsb (check_b w) checks.

Definition gate_body (ext : bufs) (body : list instr) (swaps : list N) (w : world) : world :=
  swap_all swaps (fold_left (fun w i => exec ext i w) body w).

Lemma exec_gate : forall ext root checks body swaps w,
  exec ext (IGate root checks body swaps) w =
  match checks with
  | [] => gate_body ext body swaps w
  | _ => if root then (if gate_cond checks w then gate_body ext body swaps w else w)
         else while_gate loop_fuel (gate_cond checks) (gate_body ext body swaps) w
  end.
Proof. intros. destruct checks; reflexivity. Qed.

(* a `while` gate stops exactly when its condition is false (or the fuel ran out, which is
   reported: the real loop would not terminate within the bound) *)
Lemma while_gate_stops : forall fuel cond body w,
  cond (while_gate fuel cond body w) = false \/ w_oof (while_gate fuel cond body w) = true.
Proof.
  induction fuel as [|f IH]; intros cond body w; cbn [while_gate].
  - destruct (cond w) eqn:E; [right; reflexivity | left; exact E].
  - destruct (cond w) eqn:E; [apply IH | left; exact E].
Qed.

Fixpoint iter_n {A} (n : nat) (f : A -> A) (x : A) : A :=
  match n with O => x | S k => iter_n k f (f x) end.

(* ... after exactly as many iterations as the condition held *)
Lemma while_gate_iter : forall n fuel cond body w,
  (n <= fuel)%nat ->
  (forall k, (k < n)%nat -> cond (iter_n k body w) = true) ->
  cond (iter_n n body w) = false ->
  while_gate fuel cond body w = iter_n n body w.
Proof.
  induction n as [|n IH]; intros fuel cond body w Hle Hk Hn.
  - cbn [iter_n] in *. destruct fuel; cbn [while_gate]; rewrite Hn; reflexivity.
  - destruct fuel as [|f]; [lia|]. cbn [while_gate iter_n].
    pose proof (Hk 0%nat ltac:(lia)) as H0. cbn [iter_n] in H0. rewrite H0. apply IH; [lia | | exact Hn].
    intros k Hlt. apply (Hk (S k)). lia.
Qed.

(* a root-level loop body runs at most once per tick: once if its gate is open (or it has no
   gate), not at all otherwise *)
Lemma root_gate_once : forall ext checks body swaps w,
  exec ext (IGate true checks body swaps) w =
  if match checks with [] => true | _ => gate_cond checks w end then gate_body ext body swaps w else w.
Proof. intros. rewrite exec_gate. destruct checks; reflexivity. Qed.

(* a nested loop with no gate check runs its body exactly once; otherwise it is the while loop *)
Lemma nested_gate_while : forall ext c cs body swaps w,
  exec ext (IGate false (c :: cs) body swaps) w =
  while_gate loop_fuel (gate_cond (c :: cs)) (gate_body ext body swaps) w.
Proof. intros. reflexivity. Qed.

(* defer_tick inside a loop: the loop's swap at the end of every iteration makes what was pushed
   during the iteration the back buffer of the next iteration -- one iteration later, exactly *)
Lemma loop_defer_swap : forall ext body swaps w h,
  NoDup swaps -> In h swaps ->
  let w1 := fold_left (fun w i => exec ext i w) body w in
  get h (w_back (gate_body ext body swaps w)) = get h (w_buf w1) /\
  get h (w_buf (gate_body ext body swaps w)) = get h (w_back w1).
Proof. intros ext body swaps w h ND Hin. unfold gate_body. apply swap_all_in; assumption. Qed.

(* ------------------------------------------------------------------ C23: same-tick handoffs *)

Lemma recv_step_direct : forall w loc h,
  get h (w_buf (fst (recv_step (w, loc) (h, false)))) = [] /\
  get h (w_back (fst (recv_step (w, loc) (h, false)))) = get h (w_back w) /\
  get h (snd (recv_step (w, loc) (h, false))) = get h (w_buf w).
Proof.
  intros w loc h. unfold recv_step, get. cbn [fst snd].
  destruct (lookup [] h (w_buf w)); cbn [fst snd w_back w_buf set_back set_buf set_work];
    rewrite !lookup_update_same; repeat split; reflexivity.
Qed.

(* a subgraph that receives the same-tick handoff h: its operators read everything that is in
   the buffer when it starts -- i.e. everything pushed by the producers that ran before it in
   this tick -- and the buffer is left empty (drained once) *)
Theorem consumer_gets_buf : forall sg w h,
  NoDup (map fst (sg_recv sg)) -> In (h, false) (sg_recv sg) ->
  let r := recv_all sg w in
  get h (snd r) = get h (w_buf w) /\ get h (w_buf (fst r)) = [].
Proof.
  intros sg w h. unfold recv_all. generalize (@nil (N * list val)) as loc. revert w.
  induction (sg_recv sg) as [|e recv IH]; intros w loc ND Hin; [destruct Hin|].
  cbn [fold_left map] in *. inversion ND as [|? ? Hnotin ND']; subst.
  destruct Hin as [He|Hin].
  - subst e. cbn [fst] in Hnotin.
    destruct (recv_step (w, loc) (h, false)) as [w2 l2] eqn:E.
    destruct (recv_fold_other recv w2 l2 h Hnotin) as [H1 [H2 H3]].
    destruct (recv_step_direct w loc h) as [H4 [H5 H6]]. unfold bufs in *. rewrite E in H4, H5, H6.
    cbn [fst snd] in *. cbv zeta in *. split; congruence.
  - assert (Hne : h <> fst e).
    { intro Heq. apply Hnotin. rewrite <- Heq. change h with (fst (h, false)). apply in_map. exact Hin. }
    destruct (recv_step (w, loc) e) as [w2 l2] eqn:E.
    destruct (IH w2 l2 ND' Hin) as [H1 H2].
    destruct (recv_step_other w loc e h Hne) as [H4 [H5 H6]]. unfold bufs in *. rewrite E in H4, H5, H6.
    cbn [fst snd] in *. cbv zeta in *. split; congruence.
Qed.

(* pushing into a handoff appends: nothing already pushed this tick is lost or reordered *)
Lemma push_to_get : forall k l m, get k (push_to k l m) = get k m ++ l.
Proof. intros. unfold push_to, get. apply lookup_update_same. Qed.

Lemma push_to_other : forall k k' l m, k <> k' -> get k (push_to k' l m) = get k m.
Proof. intros. unfold push_to, get. apply lookup_update_other. assumption. Qed.
