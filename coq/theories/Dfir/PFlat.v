(* E7 Dfir -- handoff transparency: running the blocks of a partitioned tick program one after the
   other (same-tick Vec handoffs between them) computes the same operator states and sink outputs
   as the denotation of the flat graph: every operator applied once, in the same order, with the
   handoffs as plain wires of one environment.  (C23, C22 (ii).)

   Scope: tick programs without loop blocks whose handoffs are all same-tick Vec handoffs (no
   defer_tick, no singleton/optional slots, no references); any DAG of blocks. *)
From Coq Require Import List NArith Bool Arith Lia.
From HV Require Import Dfir.Model Dfir.ModelTick Dfir.POps Dfir.PTick Dfir.PFrame.
Import ListNotations.
Open Scope N_scope.

(* ------------------------------------------------------------------ the flat denotation *)

(* a block without handoffs: every emitted wire is local *)
Definition Fb : subgraph := {| sg_recv := []; sg_send := []; sg_slots := []; sg_nodes := [] |}.

Definition run_nodes (sg : subgraph) (ext : bufs) (ns : list node) (acc : world * bufs) : world * bufs :=
  fold_left (run_node sg ext) ns acc.

Definition flat_block (sgs : list subgraph) : subgraph :=
  {| sg_recv := []; sg_send := []; sg_slots := []; sg_nodes := concat (map sg_nodes sgs) |}.

Lemma run_sg_flat_block : forall ext sgs w,
  run_sg ext (flat_block sgs) w = fst (run_nodes Fb ext (concat (map sg_nodes sgs)) (w, [])).
Proof. intros. reflexivity. Qed.

(* ------------------------------------------------------------------ vocabulary *)

Definition sends (sg : subgraph) : list N := map fst (sg_send sg).
Definition recvs (sg : subgraph) : list N := map fst (sg_recv sg).
Definition outs (sg : subgraph) : list N := concat (map n_outs (sg_nodes sg)).

Definition readable (sg : subgraph) (e : N) : Prop :=
  In e (recvs sg) \/ (In e (outs sg) /\ ~ In e (sends sg)).

Definition plain_node (n : node) : Prop :=
  match n_kind n with NRef _ _ => False | _ => True end.

Record wf_block (sg : subgraph) : Prop := {
  wb_recv_direct : forall e, In e (sg_recv sg) -> snd e = false;
  wb_send_fresh : forall e, In e (sg_send sg) -> snd e = SFresh;
  wb_slots : sg_slots sg = [];
  wb_plain : Forall plain_node (sg_nodes sg);
  wb_recv_nodup : NoDup (recvs sg);
  wb_send_nodup : NoDup (sends sg);
  wb_reads : forall n e, In n (sg_nodes sg) -> In e (n_ins n) -> readable sg e;
  wb_out_not_recv : forall e, In e (outs sg) -> ~ In e (recvs sg);
  wb_send_not_recv : forall e, In e (sends sg) -> ~ In e (recvs sg);
}.

(* the observable part of a world: everything except handoff buffers and the work flag *)
Definition sim (a b : world) : Prop :=
  w_st a = w_st b /\ w_out a = w_out b /\ w_tick a = w_tick b /\ w_panic a = w_panic b /\
  w_back a = w_back b /\ w_wake a = w_wake b /\ w_oof a = w_oof b.

Lemma sim_refl : forall w, sim w w.
Proof. intros; repeat split. Qed.

(* ------------------------------------------------------------------ one emit, one node *)

Lemma is_send_true : forall sg e, In e (sends sg) -> is_send sg e = true.
Proof.
  intros sg e H. unfold is_send. apply existsb_exists. unfold sends in H.
  apply in_map_iff in H. destruct H as [x [Hx Hin]]. exists x. split; [exact Hin|].
  subst. apply N.eqb_refl.
Qed.

Lemma is_send_false : forall sg e, ~ In e (sends sg) -> is_send sg e = false.
Proof.
  intros sg e H. destruct (is_send sg e) eqn:E; [|reflexivity].
  exfalso. apply H. apply is_send_In. exact E.
Qed.

Lemma get_push_to : forall k k' l m, get k (push_to k' l m) = if N.eqb k k' then get k m ++ l else get k m.
Proof.
  intros. destruct (N.eqb k k') eqn:E.
  - apply N.eqb_eq in E. subst. apply push_to_get.
  - apply push_to_other. intro; subst. rewrite N.eqb_refl in E. discriminate.
Qed.

(* the invariant inside a block *)
Definition inner (sg : subgraph) (p f : world * bufs) : Prop :=
  sim (fst p) (fst f) /\
  (forall e, readable sg e -> get e (snd p) = get e (snd f)) /\
  (forall e, In e (sends sg) -> get e (w_buf (fst p)) = get e (snd f)).

Lemma sim_set_buf_l : forall a b x, sim a b -> sim (set_buf a x) b.
Proof. intros a b x [H1 [H2 [H3 [H4 [H5 [H6 H7]]]]]]. repeat split; assumption. Qed.

Lemma emit_inner : forall sg p f e items,
  wf_block sg -> In e (outs sg) ->
  inner sg p f -> inner sg (emit sg p (e, items)) (emit Fb f (e, items)).
Proof.
  intros sg [wp lp] [wf lf] e items W He [Hs [Hr Hb]]. cbn [fst snd] in *.
  unfold emit. cbn [is_send Fb sg_send existsb].
  destruct (is_send sg e) eqn:Es.
  - assert (Hslot : is_slot sg e = false) by (unfold is_slot; rewrite (wb_slots sg W); reflexivity).
    rewrite Hslot. unfold inner. cbn [fst snd].
    assert (Hse : In e (sends sg)) by (apply is_send_In; exact Es).
    split; [apply sim_set_buf_l; exact Hs|]. split.
    + intros e' He'. rewrite get_push_to. destruct (N.eqb e' e) eqn:E; [|apply Hr; exact He'].
      apply N.eqb_eq in E. subst e'. exfalso.
      destruct He' as [Hin|[_ Hn]]; [exact (wb_send_not_recv sg W e Hse Hin) | exact (Hn Hse)].
    + intros e' He'. cbn [w_buf set_buf]. rewrite !get_push_to.
      destruct (N.eqb e' e); [rewrite Hb by exact He'; reflexivity | apply Hb; exact He'].
  - unfold inner. cbn [fst snd].
    assert (Hns : ~ In e (sends sg)).
    { intro H. apply is_send_true in H. congruence. }
    split; [exact Hs|]. split.
    + intros e' He'. rewrite !get_push_to.
      destruct (N.eqb e' e); [rewrite Hr by exact He'; reflexivity | apply Hr; exact He'].
    + intros e' He'. rewrite get_push_to. destruct (N.eqb e' e) eqn:E; [|apply Hb; exact He'].
      apply N.eqb_eq in E. subst e'. contradiction.
Qed.

Lemma emits_inner : forall sg l p f,
  wf_block sg -> (forall eo, In eo l -> In (fst eo) (outs sg)) ->
  inner sg p f -> inner sg (fold_left (emit sg) l p) (fold_left (emit Fb) l f).
Proof.
  intros sg l. induction l as [|[e items] l IH]; intros p f W Hl Hi; cbn [fold_left]; [exact Hi|].
  apply IH; [exact W | intros eo H; apply Hl; right; exact H |].
  apply emit_inner; [exact W | apply (Hl (e, items)); left; reflexivity | exact Hi].
Qed.

Lemma in_combine_fst : forall {A B} (l : list A) (r : list B) x, In x (combine l r) -> In (fst x) l.
Proof. intros A B l r [a b] H. apply in_combine_l in H. exact H. Qed.

Lemma node_outs_in : forall sg n e, In n (sg_nodes sg) -> In e (n_outs n) -> In e (outs sg).
Proof.
  intros sg n e Hn He. unfold outs. apply in_concat. exists (n_outs n). split; [|exact He].
  apply in_map. exact Hn.
Qed.

Lemma run_node_inner : forall sg ext n p f,
  wf_block sg -> In n (sg_nodes sg) -> plain_node n ->
  inner sg p f -> inner sg (run_node sg ext p n) (run_node Fb ext f n).
Proof.
  intros sg ext n [wp lp] [wf lf] W Hn Hpl Hi.
  assert (Hi' := Hi). destruct Hi' as [Hs [Hr Hb]]. cbn [fst snd] in Hs, Hr, Hb.
  unfold run_node.
  assert (Hins : map (fun e => get e lp) (n_ins n) = map (fun e => get e lf) (n_ins n)).
  { apply map_ext_in. intros e He. apply Hr. apply (wb_reads sg W n e Hn He). }
  rewrite Hins. set (ins := map (fun e => get e lf) (n_ins n)).
  destruct Hs as [H1 [H2 [H3 [H4 [H5 [H6 H7]]]]]].
  assert (Houts : forall (os : list (list val)) (eo : N * list val), In eo (combine (n_outs n) os) -> In (fst eo) (outs sg)).
  { intros os eo H. apply (node_outs_in sg n); [exact Hn|]. apply in_combine_fst in H. exact H. }
  unfold plain_node in Hpl.
  destruct (n_kind n) as [o|o|k|k|h g] eqn:Ek; try contradiction.
  - rewrite H1, H3. destruct (op_step _ _ ins) as [s' os].
    apply emits_inner; [exact W | apply Houts |].
    split; [|split; [exact Hr | exact Hb]]. cbn [fst]. unfold sim. cbn [w_st w_out w_tick w_panic w_back w_wake w_oof set_st].
    repeat split; try assumption; try reflexivity.
  - rewrite H1, H3. destruct (op_step _ _ ins) as [s' os].
    apply emits_inner; [exact W | apply Houts |].
    split; [|split; [exact Hr | exact Hb]]. cbn [fst]. unfold sim. cbn [w_st w_out w_tick w_panic w_back w_wake w_oof set_st].
    repeat split; try assumption; try reflexivity.
  - apply emits_inner; [exact W | apply Houts | exact Hi].
  - rewrite H2, H3.
    apply emits_inner; [exact W | apply Houts |].
    split; [|split; [exact Hr | exact Hb]]. cbn [fst]. unfold sim. cbn [w_st w_out w_tick w_panic w_back w_wake w_oof set_out].
    repeat split; try assumption; try reflexivity.
Qed.

Lemma run_nodes_inner : forall sg ext ns p f,
  wf_block sg -> (forall n, In n ns -> In n (sg_nodes sg)) ->
  inner sg p f -> inner sg (run_nodes sg ext ns p) (run_nodes Fb ext ns f).
Proof.
  intros sg ext ns. unfold run_nodes. induction ns as [|n ns IH]; intros p f W Hns Hi; cbn [fold_left]; [exact Hi|].
  apply IH; [exact W | intros m Hm; apply Hns; right; exact Hm |].
  apply run_node_inner; [exact W | apply Hns; left; reflexivity | | exact Hi].
  pose proof (wb_plain sg W) as Hp. rewrite Forall_forall in Hp. apply Hp. apply Hns. left. reflexivity.
Qed.

(* ------------------------------------------------------------------ frames of the flat side *)

Lemma emit_flat_other : forall f e items e', e' <> e ->
  get e' (snd (emit Fb f (e, items))) = get e' (snd f).
Proof.
  intros [w l] e items e' Hne. unfold emit. cbn [is_send Fb sg_send existsb snd].
  apply push_to_other. exact Hne.
Qed.

Lemma run_node_flat_other : forall ext n f e', ~ In e' (n_outs n) ->
  get e' (snd (run_node Fb ext f n)) = get e' (snd f).
Proof.
  intros ext n [w l] e' Hn. unfold run_node.
  assert (H : forall os acc, snd acc = snd acc ->
     get e' (snd (fold_left (emit Fb) (combine (n_outs n) os) acc)) = get e' (snd acc)).
  { intros os. generalize (n_outs n) Hn. intros outs0. revert os.
    induction outs0 as [|e es IH]; intros os Hno acc _; [reflexivity|].
    destruct os as [|o os]; [reflexivity|]. cbn [combine fold_left].
    rewrite IH; [| intro H; apply Hno; right; exact H | reflexivity].
    apply emit_flat_other. intro; subst. apply Hno. left. reflexivity. }
  destruct (n_kind n) as [o|o|k|k|h g].
  - destruct (op_step _ _ _) as [s' os]. rewrite H by reflexivity. reflexivity.
  - destruct (op_step _ _ _) as [s' os]. rewrite H by reflexivity. reflexivity.
  - rewrite H by reflexivity. reflexivity.
  - rewrite H by reflexivity. reflexivity.
  - destruct (ref_fold g _ _) as [[slot' os] bad]. rewrite H by reflexivity. reflexivity.
Qed.

Lemma run_nodes_flat_other : forall ext ns f e', ~ In e' (concat (map n_outs ns)) ->
  get e' (snd (run_nodes Fb ext ns f)) = get e' (snd f).
Proof.
  intros ext ns. unfold run_nodes. induction ns as [|n ns IH]; intros f e' Hn; cbn [fold_left]; [reflexivity|].
  cbn [map concat] in Hn. rewrite IH by (intro H; apply Hn; apply in_or_app; right; exact H).
  apply run_node_flat_other. intro H. apply Hn. apply in_or_app. left. exact H.
Qed.

(* ------------------------------------------------------------------ one block *)

Lemma recv_direct_loc : forall recv w loc,
  (forall e, In e recv -> snd e = false) -> NoDup (map fst recv) ->
  let r := fold_left recv_step recv (w, loc) in
  sim w (fst r) /\
  (forall e, In e (map fst recv) -> get e (snd r) = get e (w_buf w)) /\
  (forall e, ~ In e (map fst recv) -> get e (snd r) = get e loc /\ get e (w_buf (fst r)) = get e (w_buf w)).
Proof.
  induction recv as [|[k b] recv IH]; intros w loc Hd ND; cbn [fold_left].
  - split; [apply sim_refl|]. split; [intros e []|]. intros e _. split; reflexivity.
  - assert (b = false) by (apply (Hd (k, b)); left; reflexivity). subst b.
    cbn [map fst] in ND. inversion ND as [|? ? Hnk ND']; subst.
    set (w2 := fst (recv_step (w, loc) (k, false))). set (l2 := snd (recv_step (w, loc) (k, false))).
    assert (E : recv_step (w, loc) (k, false) = (w2, l2)) by (unfold w2, l2; destruct (recv_step _ _); reflexivity).
    rewrite E.
    destruct (IH w2 l2) as [I1 [I2 I3]]; [intros e He; apply Hd; right; exact He | exact ND' |].
    cbv zeta in I1, I2, I3.
    destruct (recv_step_direct w loc k) as [D1 [D2 D3]]. fold w2 in D1, D2. fold l2 in D3.
    assert (Sw : sim w w2).
    { unfold w2, recv_step. cbn [fst snd]. destruct (get k (w_buf w)); repeat split. }
    split.
    + destruct Sw as [A1 [A2 [A3 [A4 [A5 [A6 A7]]]]]]. destruct I1 as [B1 [B2 [B3 [B4 [B5 [B6 B7]]]]]].
      repeat split; congruence.
    + split.
      * intros e [He|He].
        -- cbn [fst] in He. subst e. destruct (I3 k Hnk) as [J1 _]. rewrite J1. exact D3.
        -- rewrite I2 by exact He.
           assert (e <> k) by (intro; subst; contradiction).
           destruct (recv_step_other w loc (k, false) e) as [_ [O2 _]]; [exact H|]. fold w2 in O2. exact O2.
      * intros e Hn. cbn [map fst In] in Hn.
        assert (Hek : e <> k) by (intro; subst; apply Hn; left; reflexivity).
        destruct (I3 e) as [J1 J2]; [intro; apply Hn; right; assumption|].
        destruct (recv_step_other w loc (k, false) e Hek) as [_ [O2 O3]]. fold w2 in O2. fold l2 in O3.
        split; congruence.
Qed.

Lemma prep_send_sim : forall sg w, sim w (prep_send sg w).
Proof.
  intros sg w. unfold prep_send.
  apply (fold_left_inv (fun w' => sim w w')); [|apply sim_refl].
  intros a x [H1 [H2 [H3 [H4 [H5 [H6 H7]]]]]]. destruct (snd x); repeat split; assumption.
Qed.

Lemma sim_trans : forall a b c, sim a b -> sim b c -> sim a c.
Proof.
  intros a b c [A1 [A2 [A3 [A4 [A5 [A6 A7]]]]]] [B1 [B2 [B3 [B4 [B5 [B6 B7]]]]]]. repeat split; congruence.
Qed.
Lemma sim_sym : forall a b, sim a b -> sim b a.
Proof. intros a b [A1 [A2 [A3 [A4 [A5 [A6 A7]]]]]]. repeat split; congruence. Qed.

(* a block against the same nodes run flat: given agreement on the block's received handoffs and
   fresh output wires on the flat side *)
Theorem block_sim : forall sg ext wp wf lf,
  wf_block sg ->
  sim wp wf ->
  (forall e, In e (recvs sg) -> get e (w_buf wp) = get e lf) ->
  (forall e, In e (outs sg) \/ In e (sends sg) -> get e lf = []) ->
  let wp' := run_sg ext sg wp in
  let f' := run_nodes Fb ext (sg_nodes sg) (wf, lf) in
  sim wp' (fst f') /\
  (forall e, In e (sends sg) -> get e (w_buf wp') = get e (snd f')).
Proof.
  intros sg ext wp wf lf W Hs HR HL wp' f'.
  unfold wp', run_sg.
  destruct (recv_all sg (prep_send sg wp)) as [w2 loc] eqn:E.
  assert (Hin : inner sg (w2, loc) (wf, lf)).
  { pose proof (recv_direct_loc (sg_recv sg) (prep_send sg wp) []
                 (wb_recv_direct sg W) (wb_recv_nodup sg W)) as Hrd.
    unfold recv_all in E. cbv zeta in Hrd. unfold bufs in *. rewrite E in Hrd. cbn [fst snd] in Hrd.
    destruct Hrd as [R1 [R2 R3]].
    split; [|split]; cbn [fst snd].
    - apply sim_sym. eapply sim_trans; [apply sim_sym; exact Hs|].
      eapply sim_trans; [apply prep_send_sim | exact R1].
    - intros e [Her|[Heo Hns]].
      + rewrite (R2 e Her). fold (recvs sg) in Her.
        rewrite prep_send_other by (intro H; exact (wb_send_not_recv sg W e H Her)).
        apply HR. exact Her.
      + destruct (R3 e) as [J1 _]; [exact (wb_out_not_recv sg W e Heo)|].
        rewrite J1. unfold get at 1. cbn [lookup]. symmetry. apply HL. left. exact Heo.
    - intros e Hse. destruct (R3 e) as [_ J2]; [intro H; exact (wb_send_not_recv sg W e Hse H)|].
      rewrite J2.
      unfold sends in Hse. apply in_map_iff in Hse. destruct Hse as [[e0 k] [He0 Hin0]]. cbn [fst] in He0. subst e0.
      pose proof (wb_send_fresh sg W (e, k) Hin0) as Hk. cbn [snd] in Hk. subst k.
      assert (get e (w_buf (prep_send sg wp)) = []) as ->.
      { apply (prep_send_clears sg wp e SFresh Hin0); [discriminate | exact (wb_send_nodup sg W)]. }
      symmetry. apply HL. right. unfold sends. apply in_map_iff. exists (e, SFresh). split; [reflexivity | exact Hin0]. }
  pose proof (run_nodes_inner sg ext (sg_nodes sg) (w2, loc) (wf, lf) W (fun n H => H) Hin) as [K1 [_ K3]].
  fold (run_nodes sg ext (sg_nodes sg) (w2, loc)). split; [exact K1 | exact K3].
Qed.

(* ------------------------------------------------------------------ a whole loop-free program *)

(* blocks in execution order; P = handoffs sent so far, U = wires used so far, R = handoffs
   received so far.  Every block is well formed, receives only handoffs sent by earlier blocks and
   not yet received (one consumer), and writes only wires nobody used before (one producer). *)
Inductive wf_chain : list N -> list N -> list N -> list subgraph -> Prop :=
| wfc_nil : forall P U R, wf_chain P U R []
| wfc_cons : forall P U R B rest,
    wf_block B ->
    (forall e, In e (recvs B) -> In e P /\ ~ In e R) ->
    (forall e, In e (outs B) \/ In e (sends B) -> ~ In e U) ->
    wf_chain (sends B ++ P) (sends B ++ outs B ++ U) (recvs B ++ R) rest ->
    wf_chain P U R (B :: rest).

Lemma plain_not_ref : forall n h, plain_node n -> ~ node_refs n h.
Proof. intros n h. unfold plain_node, node_refs. destruct (n_kind n); tauto. Qed.

Lemma wf_block_buf_free : forall sg e, wf_block sg -> ~ In e (sends sg) -> ~ In e (recvs sg) -> buf_free sg e.
Proof.
  intros sg e W Hs Hr. split; [exact Hs|]. split.
  - intros x Hx _ Heq. apply Hr. unfold recvs. rewrite <- Heq. apply in_map. exact Hx.
  - pose proof (wb_plain sg W) as Hp. rewrite Forall_forall in *. intros n Hn. apply plain_not_ref. apply Hp. exact Hn.
Qed.

Lemma run_nodes_app : forall sg ext a b acc,
  run_nodes sg ext (a ++ b) acc = run_nodes sg ext b (run_nodes sg ext a acc).
Proof. intros. unfold run_nodes. apply fold_left_app. Qed.

Theorem chain_sim : forall ext sgs P U R,
  wf_chain P U R sgs ->
  forall wp wf lf,
  (forall e, In e P -> In e U) ->
  sim wp wf ->
  (forall e, In e P -> ~ In e R -> get e (w_buf wp) = get e lf) ->
  (forall e, ~ In e U -> get e lf = []) ->
  sim (run_sgs ext sgs wp) (fst (run_nodes Fb ext (concat (map sg_nodes sgs)) (wf, lf))).
Proof.
  intros ext sgs P U R H. induction H as [P U R | P U R B rest W Hrecv Hfresh Hrest IH];
    intros wp wf lf HPU Hs Hpend Hfr.
  - cbn. exact Hs.
  - cbn [map concat]. rewrite run_nodes_app.
    unfold run_sgs. cbn [fold_left]. fold (run_sgs ext rest (run_sg ext B wp)).
    destruct (block_sim B ext wp wf lf W Hs) as [S1 S2].
    { intros e He. destruct (Hrecv e He) as [HP HR]. apply Hpend; assumption. }
    { intros e He. apply Hfr. apply Hfresh. exact He. }
    cbv zeta in S1, S2.
    destruct (run_nodes Fb ext (sg_nodes B) (wf, lf)) as [wf' lf'] eqn:EF. cbn [fst snd] in S1, S2.
    apply IH.
    + intros e He. apply in_app_or in He. destruct He as [He|He].
      * apply in_or_app. left. exact He.
      * apply in_or_app. right. apply in_or_app. right. apply HPU. exact He.
    + exact S1.
    + intros e HeP HeR.
      assert (HnR : ~ In e R) by (intro; apply HeR; apply in_or_app; right; assumption).
      assert (Hnr : ~ In e (recvs B)) by (intro; apply HeR; apply in_or_app; left; assumption).
      destruct (in_dec N.eq_dec e (sends B)) as [Hse|Hns]; [apply S2; exact Hse|].
      apply in_app_or in HeP. destruct HeP as [HeP|HeP]; [contradiction|].
      rewrite (run_sg_buf_free ext B wp e (wf_block_buf_free B e W Hns Hnr)).
      rewrite (Hpend e HeP HnR).
      pose proof (run_nodes_flat_other ext (sg_nodes B) (wf, lf) e) as Hfo.
      rewrite EF in Hfo. cbn [snd] in Hfo. symmetry. apply Hfo.
      intro Ho. apply (Hfresh e (or_introl Ho)). apply HPU. exact HeP.
    + intros e HnU.
      pose proof (run_nodes_flat_other ext (sg_nodes B) (wf, lf) e) as Hfo.
      rewrite EF in Hfo. cbn [snd] in Hfo. rewrite Hfo.
      * apply Hfr. intro H. apply HnU. apply in_or_app. right. apply in_or_app. right. exact H.
      * intro Ho. apply HnU. apply in_or_app. right. apply in_or_app. left. exact Ho.
Qed.

(* ------------------------------------------------------------------ tick programs *)

Definition part_prog (sgs : list subgraph) (ops : list (N * nkind)) : prog :=
  {| p_body := map IRun sgs; p_sched := []; p_swaps := []; p_ops := ops |}.
Definition flat_prog (sgs : list subgraph) (ops : list (N * nkind)) : prog :=
  {| p_body := [IRun (flat_block sgs)]; p_sched := []; p_swaps := []; p_ops := ops |}.

Lemma tick_closure_sim : forall sgs ops ext wp wf,
  wf_chain [] [] [] sgs -> sim wp wf ->
  sim (fst (tick_closure (part_prog sgs ops) ext wp)) (fst (tick_closure (flat_prog sgs ops) ext wf)).
Proof.
  intros sgs ops ext wp wf W Hs. unfold tick_closure.
  cbn [part_prog flat_prog p_body p_sched p_swaps existsb swap_all fold_left fst].
  rewrite body_flat. cbn [exec]. rewrite run_sg_flat_block.
  assert (H : sim (run_sgs ext sgs wp) (fst (run_nodes Fb ext (concat (map sg_nodes sgs)) (wf, [])))).
  { apply (chain_sim ext sgs [] [] [] W); [intros e [] | exact Hs | intros e [] | intros e _; reflexivity]. }
  destruct H as [H1 [H2 [H3 [H4 [H5 [H6 H7]]]]]].
  unfold end_ops, sim. cbn [w_st w_out w_tick w_panic w_back w_wake w_oof set_st set_tick set_work p_ops].
  rewrite H1, H3. repeat split; assumption.
Qed.

Lemma run_tick_sim : forall sgs ops ext wp wf,
  wf_chain [] [] [] sgs -> sim wp wf ->
  sim (fst (run_tick (part_prog sgs ops) ext wp)) (fst (run_tick (flat_prog sgs ops) ext wf)).
Proof.
  intros sgs ops ext wp wf W Hs. unfold run_tick.
  assert (Hs' : sim (set_wake wp false) (set_wake wf false)).
  { destruct Hs as [H1 [H2 [H3 [H4 [H5 [H6 H7]]]]]]. repeat split; assumption. }
  pose proof (tick_closure_sim sgs ops ext _ _ W Hs') as H.
  destruct (tick_closure (part_prog sgs ops) ext (set_wake wp false)) as [a x].
  destruct (tick_closure (flat_prog sgs ops) ext (set_wake wf false)) as [b y]. exact H.
Qed.

(* the partitioned program and the flat graph: same sink outputs, operator states and tick counts
   over every history of external inputs, tick after tick *)
Theorem partitioned_eq_flat : forall sgs ops h,
  wf_chain [] [] [] sgs ->
  let '(wp, obsp) := drive false (part_prog sgs ops) h in
  let '(wf, obsf) := drive false (flat_prog sgs ops) h in
  w_out wp = w_out wf /\ w_st wp = w_st wf /\ w_panic wp = w_panic wf /\ obsp = obsf.
Proof.
  intros sgs ops h W. unfold drive.
  assert (G : forall h wp wf, sim wp wf ->
    sim (fst (drive_ticks (part_prog sgs ops) h wp)) (fst (drive_ticks (flat_prog sgs ops) h wf)) /\
    snd (drive_ticks (part_prog sgs ops) h wp) = snd (drive_ticks (flat_prog sgs ops) h wf)).
  { induction h0 as [|ext r IH]; intros wp wf Hs; cbn [drive_ticks]; [split; [exact Hs | reflexivity]|].
    pose proof (run_tick_sim sgs ops ext wp wf W Hs) as H1.
    destruct (run_tick (part_prog sgs ops) ext wp) as [wp1 bp].
    destruct (run_tick (flat_prog sgs ops) ext wf) as [wf1 bf]. cbn [fst] in H1.
    destruct (IH wp1 wf1 H1) as [I1 I2].
    destruct (drive_ticks (part_prog sgs ops) r wp1) as [wp2 op2].
    destruct (drive_ticks (flat_prog sgs ops) r wf1) as [wf2 of2]. cbn [fst snd] in *.
    split; [exact I1|]. destruct H1 as [_ [_ [H3 _]]]. rewrite H3, I2. reflexivity. }
  destruct (G h (init_world (part_prog sgs ops)) (init_world (flat_prog sgs ops)) (sim_refl _)) as [G1 G2].
  destruct (drive_ticks (part_prog sgs ops) h (init_world (part_prog sgs ops))) as [wp obsp].
  destruct (drive_ticks (flat_prog sgs ops) h (init_world (flat_prog sgs ops))) as [wf obsf].
  cbn [fst snd] in *. destruct G1 as [H1 [H2 [H3 [H4 _]]]]. repeat split; assumption.
Qed.
