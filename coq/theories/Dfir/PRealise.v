(* E7 Dfir -- pull realisation = push realisation (C22 (i)) for fold, persist, fold_keyed,
   sort_by_key, for every state, every tick's items and every closure. *)
From Coq Require Import List NArith Bool Arith Lia Permutation.
From HV Require Import Dfir.Model Dfir.ModelRealise Dfir.POps.
Import ListNotations.

Lemma push_run_silent : forall {S} (step : S -> val -> S * list val) (upd : S -> val -> S) s items,
  (forall s x, step s x = (upd s x, [])) ->
  fold_left (fun (acc : S * list val) x =>
               let '(s, out) := acc in let '(s', o) := step s x in (s', out ++ o)) items (s, [])
  = (fold_left upd items s, []).
Proof.
  intros S step upd s items H. revert s. induction items as [|x r IH]; intros s; cbn [fold_left]; [reflexivity|].
  rewrite H. cbn [app]. apply IH.
Qed.

Theorem fold_pull_push : forall f acc items,
  push_run (fold_push_step f) fold_push_fin acc items = fold_pull f acc items.
Proof.
  intros f acc items. unfold push_run.
  rewrite (push_run_silent (fold_push_step f) f) by reflexivity. reflexivity.
Qed.

Theorem sort_by_key_pull_push : forall key items,
  snd (push_run sort_by_key_push_step (sort_by_key_push_fin key) [] items) = sort_by_key_pull key items /\
  fst (push_run sort_by_key_push_step (sort_by_key_push_fin key) [] items) = [].
Proof.
  intros key items. unfold push_run.
  rewrite (push_run_silent sort_by_key_push_step (fun (b : list val) x => b ++ [x])) by reflexivity.
  assert (H : forall (l s : list val), fold_left (fun (b : list val) x => b ++ [x]) l s = s ++ l).
  { induction l as [|x r IH]; intros s; cbn [fold_left]; [rewrite app_nil_r; reflexivity|].
    rewrite IH, <- app_assoc. reflexivity. }
  rewrite H. cbn [app sort_by_key_push_fin fst snd]. split; reflexivity.
Qed.

(* fold_keyed: same table after the tick end, same items up to order (the push side pops its
   flush vector from the back) *)
Theorem fold_keyed_pull_push : forall p init f t items,
  let '(tp, outp) := fold_keyed_pull p init f t items in
  let '(tq, outq) := push_run (fold_keyed_push_step init f) fold_keyed_push_fin t items in
  fold_keyed_end p tp = fold_keyed_end p tq /\ Permutation outp outq.
Proof.
  intros p init f t items. unfold push_run, fold_keyed_pull.
  rewrite (push_run_silent (fold_keyed_push_step init f) (fold_keyed_ins init f)) by reflexivity.
  cbn [fold_keyed_push_fin app]. destruct p; cbn [fold_keyed_end]; split; try reflexivity; apply Permutation_rev.
Qed.

(* persist: the push side replays the old buffer before the first new item (or at finalize when
   the tick has no item) and forwards new items as they come: same sequence, same buffer *)
Lemma persist_push_steps : forall items vec idx,
  (idx <= length vec)%nat ->
  fold_left (fun (acc : (list val * nat) * list val) x =>
               let '(s, out) := acc in let '(s', o) := persist_push_step s x in (s', out ++ o))
            items ((vec, idx), [])
  = match items with
    | [] => ((vec, idx), [])
    | _ => ((vec ++ items, length (vec ++ items)), skipn idx vec ++ items)
    end.
Proof.
  intros items vec idx Hle.
  assert (G : forall items vec out, 
    fold_left (fun (acc : (list val * nat) * list val) x =>
               let '(s, out) := acc in let '(s', o) := persist_push_step s x in (s', out ++ o))
            items ((vec, length vec), out) = ((vec ++ items, length (vec ++ items)), out ++ items)).
  { induction items0 as [|x r IH]; intros v o; cbn [fold_left].
    - rewrite !app_nil_r. reflexivity.
    - unfold persist_push_step at 2. rewrite skipn_all. cbn [app].
      rewrite IH. rewrite <- !app_assoc. reflexivity. }
  destruct items as [|x r]; [reflexivity|].
  cbn [fold_left]. unfold persist_push_step at 2. cbn [app].
  rewrite G. rewrite <- !app_assoc. reflexivity.
Qed.

Theorem persist_pull_push : forall vec items,
  let '(s, out) := push_run persist_push_step persist_push_fin (vec, 0%nat) items in
  (fst s, out) = persist_pull vec items.
Proof.
  intros vec items. unfold push_run. rewrite persist_push_steps by lia.
  unfold persist_pull. destruct items as [|x r].
  - cbn [persist_push_fin skipn app fst]. rewrite app_nil_r. reflexivity.
  - cbn [persist_push_fin fst skipn]. rewrite skipn_all. rewrite app_nil_r. reflexivity.
Qed.

(* ------------------------------------------------------------------ reduce_no_replay *)

Lemma reduce_nr_steps : forall f items acc b,
  fold_left (fun (a : (list val * bool) * list val) x =>
               let '(s, out) := a in let '(s', o) := reduce_nr_push_step f s x in (s', out ++ o))
            items ((acc, b), [])
  = ((fold_left (reduce_ins f) items acc, b || match items with [] => false | _ => true end), []).
Proof.
  intros f items. induction items as [|x r IH]; intros acc b; cbn [fold_left].
  - rewrite orb_false_r. reflexivity.
  - unfold reduce_nr_push_step at 2. cbn [fst snd app]. rewrite IH. rewrite orb_true_r. reflexivity.
Qed.

(* the two realisations agree: same accumulator, same emission, for every state, tick and items *)
Theorem reduce_no_replay_pull_push : forall f tick0 acc items,
  let '(s, out) := push_run (reduce_nr_push_step f) (reduce_nr_push_fin tick0) (acc, false) items in
  (fst s, out) = reduce_nr_pull f tick0 acc items.
Proof.
  intros f tick0 acc items. unfold push_run. rewrite reduce_nr_steps.
  unfold reduce_nr_push_fin, reduce_nr_pull. cbn [fst snd app orb]. reflexivity.
Qed.

(* former witness (fixed in /repo 6436e27651c): with the flag set inside the reduce closure, one item
   into an empty accumulator after tick 0 was emitted by the pull side and not by the push side *)
Example reduce_no_replay_former_witness :
  let '(s, out) := push_run (reduce_nr_push_step_old a_sum) (reduce_nr_push_fin false) ([], false) [VN 0] in
  (fst s, out) <> reduce_nr_pull a_sum false [] [VN 0].
Proof. vm_compute. discriminate. Qed.
