(* E7 Dfir -- compile/fail agreement of shape perturbations (C22 (iii)).
   Subdividing a same-tick dependency u -> v by a fresh pass-through node m (u -> m -> v) neither
   creates nor removes a same-tick cycle; with engine E6's theorem C19 (the partitioner rejects exactly
   the graphs whose same-tick dependency relation has a cycle) the perturbed program is rejected iff
   the base program is.  Uses GraphAlg / Partition read-only. *)
From Coq Require Import List NArith Bool Arith Lia.
From HV Require Import GraphAlg.Model GraphAlg.PTopo.
Import ListNotations.
Open Scope N_scope.

(* ------------------------------------------------------------------ ranks exclude cycles *)

Lemma chain_rank : forall (preds : N -> list N) (rank : N -> nat) (X : N -> Prop) r a,
  (forall p s, In p (preds s) -> X s -> (rank p < rank s)%nat) ->
  chain preds (a :: r) -> (forall x, In x r -> X x) ->
  (rank a <= rank (last (a :: r) 0%N))%nat.
Proof.
  intros preds rank X r. induction r as [|b r IH]; intros a HR Ch HX; [cbn; lia|].
  cbn [chain] in Ch. destruct Ch as [Hab Ch].
  assert (H1 : (rank a < rank b)%nat) by (apply HR; [exact Hab | apply HX; left; reflexivity]).
  assert (H2 := IH b HR Ch (fun x Hx => HX x (or_intror Hx))).
  change (last (a :: b :: r) 0%N) with (last (b :: r) 0%N). lia.
Qed.

Lemma rank_no_cycle : forall (preds : N -> list N) (rank : N -> nat) (X : N -> Prop) c,
  (forall p s, In p (preds s) -> X s -> (rank p < rank s)%nat) ->
  (forall x, In x c -> X x) -> is_cycle preds c -> False.
Proof.
  intros preds rank X c HR HX (Hne & _ & Ch & Hl). destruct c as [|a r]; [congruence|].
  cbn [hd] in Hl.
  assert (H1 := chain_rank preds rank X r a HR Ch (fun x Hx => HX x (or_intror Hx))).
  assert (H2 : (rank (last (a :: r) 0%N) < rank a)%nat) by (apply HR; [exact Hl | apply HX; left; reflexivity]).
  lia.
Qed.

(* ------------------------------------------------------------------ positions in an order *)

Fixpoint idx (x : N) (l : list N) : nat :=
  match l with [] => 0%nat | y :: r => if N.eqb x y then 0%nat else S (idx x r) end.

Lemma idx_app_notin : forall x l1 r, ~ In x l1 -> idx x (l1 ++ r) = (length l1 + idx x r)%nat.
Proof.
  induction l1 as [|y l1 IH]; intros r H; [reflexivity|]. cbn [app idx length].
  destruct (N.eqb x y) eqn:E; [apply N.eqb_eq in E; subst; exfalso; apply H; left; reflexivity|].
  rewrite IH by (intro; apply H; right; assumption). reflexivity.
Qed.

Lemma idx_head : forall x r, idx x (x :: r) = 0%nat.
Proof. intros. cbn. rewrite N.eqb_refl. reflexivity. Qed.

Lemma NoDup_app_r' : forall {A} (a b : list A), NoDup (a ++ b) -> NoDup b.
Proof. induction a as [|x a IH]; intros b H; [exact H|]. inversion H; subst. apply IH. assumption. Qed.

Lemma before_idx : forall o p s, NoDup o -> before p s o -> (idx p o < idx s o)%nat.
Proof.
  intros o p s ND (l1 & l2 & l3 & ->).
  assert (Hp : ~ In p l1).
  { intro H. apply (NoDup_app_disj l1 (p :: l2 ++ s :: l3) p ND H). left. reflexivity. }
  assert (Hs1 : ~ In s l1).
  { intro H. apply (NoDup_app_disj l1 (p :: l2 ++ s :: l3) s ND H). right. apply in_or_app. right. left. reflexivity. }
  apply NoDup_remove in ND. destruct ND as [ND Hnp].
  assert (Hsp : s <> p).
  { intro; subst. apply Hnp. apply in_or_app. right. apply in_or_app. right. left. reflexivity. }
  assert (Hs2 : ~ In s l2).
  { intro H. apply NoDup_app_r' in ND. apply (NoDup_app_disj l2 (s :: l3) s ND H). left. reflexivity. }
  rewrite !idx_app_notin by assumption. rewrite idx_head.
  cbn [idx]. assert (E : N.eqb s p = false) by (apply N.eqb_neq; exact Hsp). rewrite E.
  rewrite idx_app_notin by exact Hs2. lia.
Qed.

(* ------------------------------------------------------------------ subdivision *)

(* preds' is preds with the dependency u -> v replaced by u -> m -> v, m fresh *)
Record sub_ok (preds preds' : N -> list N) (u v m : N) : Prop := {
  so_edge : In u (preds v);
  so_fresh : forall x, ~ In m (preds x);
  so_fresh2 : preds m = [];
  so_fwd : forall p x, In p (preds x) -> In p (preds' x) \/ (p = u /\ x = v);
  so_bwd : forall p x, In p (preds' x) ->
             (x <> m /\ p <> m /\ In p (preds x)) \/ (x = m /\ p = u) \/ (x = v /\ p = m);
  so_um : In u (preds' m);
  so_mv : In m (preds' v);
}.

Section Subdiv.
  Variables (preds preds' : N -> list N) (u v m : N) (nodes : list N).
  Hypothesis HS : sub_ok preds preds' u v m.
  (* the dependency relation lives on the node list *)
  Hypothesis closed : forall x p, In p (preds x) -> In x nodes /\ In p nodes.
  Hypothesis m_new : ~ In m nodes.

  Let nodes' := m :: nodes.

  Lemma closed' : forall x p, In p (preds' x) -> In x nodes' /\ In p nodes'.
  Proof.
    intros x p H. destruct (so_bwd _ _ _ _ _ HS p x H) as [[_ [_ H1]]|[[-> ->]|[-> ->]]].
    - destruct (closed x p H1). split; right; assumption.
    - split; [left; reflexivity|]. right. exact (proj2 (closed v u (so_edge _ _ _ _ _ HS))).
    - split; [|left; reflexivity]. right. exact (proj1 (closed v u (so_edge _ _ _ _ _ HS))).
  Qed.

  Lemma cycle_in_nodes : forall c, is_cycle preds c -> forall x, In x c -> In x nodes.
  Proof.
    intros c Hc x Hx. destruct (cycle_has_pred preds c x Hc Hx) as (p & _ & Hp). exact (proj1 (closed x p Hp)).
  Qed.

  Lemma cycle_in_nodes' : forall c, is_cycle preds' c -> forall x, In x c -> In x nodes'.
  Proof.
    intros c Hc x Hx. destruct (cycle_has_pred preds' c x Hc Hx) as (p & _ & Hp). exact (proj1 (closed' x p Hp)).
  Qed.

  Lemma before_trans_idx : forall o a b c, NoDup o -> before a b o -> before b c o -> (idx a o < idx c o)%nat.
  Proof. intros o a b c ND H1 H2. pose proof (before_idx o a b ND H1). pose proof (before_idx o b c ND H2). lia. Qed.

  Theorem subdivision_keeps_cycles :
    (exists c, is_cycle preds c) <-> (exists c, is_cycle preds' c).
  Proof.
    split.
    - (* a cycle of the base graph: the perturbed graph cannot be topologically sorted *)
      intros [c Hc].
      destruct (topo_sort_fuel preds' (S (S (length nodes'))) nodes') as [o'|c'|] eqn:R.
      + exfalso. destruct (topo_sort_ok preds' _ nodes' o' R) as (ND & Hin & _ & HB & _).
        apply (rank_no_cycle preds (fun x => idx x o') (fun x => In x nodes) c); [| exact (cycle_in_nodes c Hc) | exact Hc].
        intros p s Hp Hs.
        assert (Hso : In s o') by (apply Hin; right; exact Hs).
        destruct (so_fwd _ _ _ _ _ HS p s Hp) as [H|[-> ->]].
        * apply before_idx; [exact ND | apply HB; assumption].
        * apply (before_trans_idx o' u m v ND).
          -- apply HB; [apply Hin; left; reflexivity | exact (so_um _ _ _ _ _ HS)].
          -- apply HB; [exact Hso | exact (so_mv _ _ _ _ _ HS)].
      + exists c'. exact (proj1 (topo_sort_cycle preds' _ nodes' c' R)).
      + exfalso. apply (topo_sort_fuel_ok preds' (S (S (length nodes'))) nodes' nodes'); [| apply incl_refl | lia | exact R].
        intros x p _ Hp. exact (proj2 (closed' x p Hp)).
    - intros [c' Hc'].
      destruct (topo_sort_fuel preds (S (S (length nodes))) nodes) as [o|c|] eqn:R.
      + exfalso. destruct (topo_sort_ok preds _ nodes o R) as (ND & Hin & _ & HB & _).
        assert (Huv : (idx u o < idx v o)%nat).
        { apply before_idx; [exact ND|]. apply HB; [apply Hin; exact (proj1 (closed v u (so_edge _ _ _ _ _ HS))) | exact (so_edge _ _ _ _ _ HS)]. }
        apply (rank_no_cycle preds'
                 (fun x => if N.eqb x m then (2 * idx v o - 1)%nat else (2 * idx x o)%nat)
                 (fun x => In x nodes') c'); [| exact (cycle_in_nodes' c' Hc') | exact Hc'].
        intros p s Hp _.
        destruct (so_bwd _ _ _ _ _ HS p s Hp) as [[Hsm [Hpm H1]]|[[-> ->]|[-> ->]]].
        * apply N.eqb_neq in Hsm. apply N.eqb_neq in Hpm. rewrite Hsm, Hpm.
          assert ((idx p o < idx s o)%nat); [|lia].
          apply before_idx; [exact ND|]. apply HB; [apply Hin; exact (proj1 (closed s p H1)) | exact H1].
        * rewrite N.eqb_refl.
          assert (E : N.eqb u m = false).
          { apply N.eqb_neq. intro; subst. apply m_new. exact (proj2 (closed v m (so_edge _ _ _ _ _ HS))). }
          rewrite E. lia.
        * rewrite N.eqb_refl.
          assert (E : N.eqb v m = false).
          { apply N.eqb_neq. intro; subst. apply m_new. exact (proj1 (closed m u (so_edge _ _ _ _ _ HS))). }
          rewrite E. lia.
      + exists c. exact (proj1 (topo_sort_cycle preds _ nodes c R)).
      + exfalso. apply (topo_sort_fuel_ok preds (S (S (length nodes))) nodes nodes); [| apply incl_refl | lia | exact R].
        intros x p _ Hp. exact (proj2 (closed x p Hp)).
  Qed.
End Subdiv.

(* ------------------------------------------------------------------ pendant nodes *)

(* the tee+null and union+null gadgets also hang a leaf on the spliced node: a sink q (m -> q, the
   null() behind the tee) or a source q (q -> m, the null() feeding the union).  A leaf is on no cycle. *)
Lemma is_cycle_incl : forall (preds preds' : N -> list N) c,
  (forall p x, In p (preds x) -> In p (preds' x)) -> is_cycle preds c -> is_cycle preds' c.
Proof.
  intros preds preds' c H (Hne & ND & Ch & Hl). repeat split; try assumption; [|apply H; exact Hl].
  clear Hne ND Hl. induction c as [|a [|b r] IH]; cbn [chain] in *; try exact I.
  destruct Ch as [Hab Ch]. split; [apply H; exact Hab | apply IH; exact Ch].
Qed.

Section Leaf.
  Variables (preds preds' : N -> list N) (q : N) (nodes : list N).
  Hypothesis closed : forall x p, In p (preds x) -> In x nodes /\ In p nodes.
  Hypothesis q_new : ~ In q nodes.
  Hypothesis keep : forall p x, In p (preds x) -> In p (preds' x).
  (* every new dependency involves q, which is a pure source or a pure sink *)
  Hypothesis leaf :
    (forall p x, In p (preds' x) -> In p (preds x) \/ (p = q /\ In x nodes)) /\ preds' q = [] \/
    (forall p x, In p (preds' x) -> In p (preds x) \/ (x = q /\ In p nodes)) /\ (forall x, ~ In q (preds' x)).

  Lemma idx_le_length : forall x l, (idx x l <= length l)%nat.
  Proof. induction l as [|y l IH]; cbn [idx length]; [lia|]. destruct (N.eqb x y); lia. Qed.

  Theorem leaf_keeps_cycles :
    (exists c, is_cycle preds c) <-> (exists c, is_cycle preds' c).
  Proof.
    split; [intros [c Hc]; exists c; exact (is_cycle_incl preds preds' c keep Hc)|].
    intros [c' Hc'].
    destruct (topo_sort_fuel preds (S (S (length nodes))) nodes) as [o|c|] eqn:R.
    - exfalso. destruct (topo_sort_ok preds _ nodes o R) as (ND & Hin & _ & HB & _).
      assert (Hold : forall p s, In p (preds s) -> (idx p o < idx s o)%nat).
      { intros p s Hp. apply before_idx; [exact ND|]. apply HB; [apply Hin; exact (proj1 (closed s p Hp)) | exact Hp]. }
      destruct leaf as [[Hl Hq]|[Hl Hq]].
      + (* q is a source: rank 0, everything else shifted by one *)
        apply (rank_no_cycle preds' (fun x => if N.eqb x q then 0%nat else S (idx x o)) (fun _ => True) c');
          [| intros; exact I | exact Hc'].
        intros p s Hp _.
        assert (Hsq : N.eqb s q = false).
        { apply N.eqb_neq. intro; subst. rewrite Hq in Hp. destruct Hp. }
        rewrite Hsq. destruct (Hl p s Hp) as [H|[-> _]].
        * assert (Hpq : N.eqb p q = false).
          { apply N.eqb_neq. intro; subst. apply q_new. exact (proj2 (closed s q H)). }
          rewrite Hpq. pose proof (Hold p s H). lia.
        * rewrite N.eqb_refl. lia.
      + (* q is a sink: rank above everything *)
        apply (rank_no_cycle preds' (fun x => if N.eqb x q then S (length o) else idx x o) (fun _ => True) c');
          [| intros; exact I | exact Hc'].
        intros p s Hp _.
        assert (Hpq : N.eqb p q = false).
        { apply N.eqb_neq. intro; subst. exact (Hq s Hp). }
        rewrite Hpq. destruct (Hl p s Hp) as [H|[-> _]].
        * assert (Hsq : N.eqb s q = false).
          { apply N.eqb_neq. intro; subst. apply q_new. exact (proj1 (closed q p H)). }
          rewrite Hsq. exact (Hold p s H).
        * rewrite N.eqb_refl. pose proof (idx_le_length p o). lia.
    - exists c. exact (proj1 (topo_sort_cycle preds _ nodes c R)).
    - exfalso. apply (topo_sort_fuel_ok preds (S (S (length nodes))) nodes nodes); [| apply incl_refl | lia | exact R].
      intros x p _ Hp. exact (proj2 (closed x p Hp)).
  Qed.
End Leaf.
