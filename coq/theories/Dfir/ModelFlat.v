(* E7 Dfir -- executable well-formedness of a loop-free partitioned program (definitions only);
   soundness w.r.t. PFlat.wf_chain is proved in PFlatCheck.v *)
From Coq Require Import List NArith Bool.
From HV Require Import Dfir.Model Dfir.ModelTick.
Import ListNotations.
Open Scope N_scope.

Definition nmem (e : N) (l : list N) : bool := existsb (N.eqb e) l.
Fixpoint nodup_b (l : list N) : bool :=
  match l with [] => true | x :: r => negb (nmem x r) && nodup_b r end.

Definition sends_l (sg : subgraph) : list N := map fst (sg_send sg).
Definition recvs_l (sg : subgraph) : list N := map fst (sg_recv sg).
Definition outs_l (sg : subgraph) : list N := concat (map n_outs (sg_nodes sg)).

Definition readable_b (sg : subgraph) (e : N) : bool :=
  nmem e (recvs_l sg) || (nmem e (outs_l sg) && negb (nmem e (sends_l sg))).

Definition wf_block_b (sg : subgraph) : bool :=
  forallb (fun e : N * bool => negb (snd e)) (sg_recv sg) &&
  forallb (fun e : N * sendk => match snd e with SFresh => true | _ => false end) (sg_send sg) &&
  match sg_slots sg with [] => true | _ => false end &&
  forallb (fun n => match n_kind n with NRef _ _ => false | _ => true end) (sg_nodes sg) &&
  nodup_b (recvs_l sg) && nodup_b (sends_l sg) &&
  forallb (fun n => forallb (readable_b sg) (n_ins n)) (sg_nodes sg) &&
  forallb (fun e => negb (nmem e (recvs_l sg))) (outs_l sg) &&
  forallb (fun e => negb (nmem e (recvs_l sg))) (sends_l sg).

Fixpoint wf_chain_b (P U R : list N) (sgs : list subgraph) : bool :=
  match sgs with
  | [] => true
  | B :: rest =>
      wf_block_b B &&
      forallb (fun e => nmem e P && negb (nmem e R)) (recvs_l B) &&
      forallb (fun e => negb (nmem e U)) (outs_l B ++ sends_l B) &&
      wf_chain_b (sends_l B ++ P) (sends_l B ++ outs_l B ++ U) (recvs_l B ++ R) rest
  end.

(* the blocks of a loop-free program; None if it has loop gates / declarations *)
Fixpoint blocks_of (body : list instr) : option (list subgraph) :=
  match body with
  | [] => Some []
  | IRun sg :: r => match blocks_of r with Some l => Some (sg :: l) | None => None end
  | _ :: _ => None
  end.

(* loop-free, no deferred handoffs, and well formed: the hypotheses of PFlat.partitioned_eq_flat *)
Definition flat_applicable (p : prog) : bool :=
  match blocks_of (p_body p), p_sched p, p_swaps p with
  | Some sgs, [], [] => wf_chain_b [] [] [] sgs
  | _, _, _ => false
  end.

Definition flat_of (p : prog) : prog :=
  match blocks_of (p_body p) with
  | Some sgs => {| p_body := [IRun {| sg_recv := []; sg_send := []; sg_slots := [];
                                      sg_nodes := concat (map sg_nodes sgs) |}];
                   p_sched := []; p_swaps := []; p_ops := p_ops p |}
  | None => p
  end.
