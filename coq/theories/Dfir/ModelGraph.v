(* E7 Dfir -- from the partitioned graph to the tick program (definitions only).

   The graph record holds what the harness reads from the real `meta_graph()`: subgraphs (with
   their loop), operators and wires, handoffs (with the loops of their producer and consumer, the
   delay requested by the consuming operator's input port -- defer_tick / defer_tick_lazy -- and,
   separately, the delay type the partitioner recorded), and the loop tree.  Everything the code
   generator *selects* is computed here, following dfir_lang:
     - flat_to_partitioned.rs `mark_tick_boundary_handoffs`: Tick -> Loop and TickLazy -> LoopLazy for
       a handoff whose consumer is inside a nested loop;
     - meta_graph.rs `as_code_with_options`: which buffer a block drains (back for delayed handoffs),
       how it prepares a send buffer (clear / fresh / loop-exit: declared before the gate), the
       tick-level swap list, the schedule list;
     - meta_graph.rs `emit_loop_gate`: root loop = `if`, nested loop = `while`, the gate checks and
       the per-loop swap list. *)
From Coq Require Import List NArith Bool Arith.
From HV Require Import Dfir.Model Dfir.ModelTick.
Import ListNotations.
Open Scope N_scope.

Inductive dbase := BNone | BTick | BTickLazy.          (* input_delaytype_fn of the consumer's port *)
Inductive delay := DNo | DTick | DTickLazy | DLoop | DLoopLazy.

Definition delay_eqb (a b : delay) : bool :=
  match a, b with
  | DNo, DNo | DTick, DTick | DTickLazy, DTickLazy | DLoop, DLoop | DLoopLazy, DLoopLazy => true
  | _, _ => false
  end.

Definition oN_eqb (a b : option N) : bool :=
  match a, b with
  | None, None => true
  | Some x, Some y => N.eqb x y
  | _, _ => false
  end.

Record ghoff := {
  gh_wire : N;
  gh_base : dbase;
  gh_real : delay;                 (* handoff_delay_type as recorded by the real partitioner *)
  gh_slot : bool;                  (* Singleton / Optional *)
  gh_pred_sg : option N;           (* subgraph of the producer / consumer *)
  gh_succ_sg : option N;
  gh_pred_loop : option N;         (* node_loop of the producer / consumer *)
  gh_succ_loop : option N;
  gh_succ_sg_loop : option N;      (* subgraph_loop of the consumer's subgraph *)
  gh_lazy_win : bool;              (* the consumer is a WindowingLazy operator (batch_lazy) *)
}.

Record gsg := { gs_id : N; gs_loop : option N; gs_nodes : list node }.

Record ggraph := {
  g_hoffs : list ghoff;
  g_loops : list (N * option N);   (* loop, parent *)
}.

(* the nesting of the subgraph blocks in `subgraph_toposort` order *)
Inductive sk := SKRun (s : gsg) | SKLoop (l : N) (body : list sk).

(* ------------------------------------------------------------------ loops and delays *)

Definition loop_parent (g : ggraph) (l : N) : option N := lookup None l (g_loops g).
Definition is_root (g : ggraph) (l : N) : bool :=
  match loop_parent g l with None => true | Some _ => false end.
Definition in_nested (g : ggraph) (ol : option N) : bool :=
  match ol with Some l => negb (is_root g l) | None => false end.
Definition in_root (g : ggraph) (ol : option N) : bool :=
  match ol with Some l => is_root g l | None => false end.

(* mark_tick_boundary_handoffs *)
Definition eff_delay (g : ggraph) (h : ghoff) : delay :=
  match gh_base h with
  | BNone => DNo
  | BTick => if in_nested g (gh_succ_loop h) then DLoop else DTick
  | BTickLazy => if in_nested g (gh_succ_loop h) then DLoopLazy else DTickLazy
  end.

Definition delayed (g : ggraph) (h : ghoff) : bool :=
  match eff_delay g h with DNo => false | _ => true end.
Definition lazy_d (d : delay) : bool := match d with DTickLazy | DLoopLazy => true | _ => false end.
Definition tick_d (d : delay) : bool := match d with DTick | DTickLazy => true | _ => false end.
Definition loop_d (d : delay) : bool := match d with DLoop | DLoopLazy => true | _ => false end.

(* the model's delay agrees with what the real partitioner recorded *)
Definition delays_agree (g : ggraph) : bool :=
  forallb (fun h => delay_eqb (eff_delay g h) (gh_real h)) (g_hoffs g).

(* ------------------------------------------------------------------ blocks *)

Definition recv_of (g : ggraph) (s : gsg) : list (N * bool) :=
  map (fun h => (gh_wire h, delayed g h))
      (filter (fun h => oN_eqb (gh_succ_sg h) (Some (gs_id s))) (g_hoffs g)).

Definition is_exit (g : ggraph) (s : gsg) (h : ghoff) : bool :=
  match gs_loop s with
  | Some l => oN_eqb (gh_succ_loop h) (loop_parent g l)
  | None => false
  end.

Definition send_of (g : ggraph) (s : gsg) : list (N * sendk) :=
  map (fun h => (gh_wire h, if delayed g h then SClear else if is_exit g s h then SExit else SFresh))
      (filter (fun h => oN_eqb (gh_pred_sg h) (Some (gs_id s))) (g_hoffs g)).

Definition slots_of (g : ggraph) (s : gsg) : list N :=
  map gh_wire (filter (fun h => oN_eqb (gh_pred_sg h) (Some (gs_id s)) && gh_slot h) (g_hoffs g)).

Definition block_of (g : ggraph) (s : gsg) : subgraph :=
  {| sg_recv := recv_of g s; sg_send := send_of g s; sg_slots := slots_of g s; sg_nodes := gs_nodes s |}.

(* ------------------------------------------------------------------ loop gates *)

(* entry handoffs of loop l: producer in the parent, consumer in l; lazy windows do not gate *)
Definition entry_hoffs (g : ggraph) (l : N) : list ghoff :=
  filter (fun h => oN_eqb (gh_succ_loop h) (Some l) && oN_eqb (gh_pred_loop h) (loop_parent g l) &&
                   negb (gh_lazy_win h)) (g_hoffs g).

(* non-lazy delayed back buffers that re-fire loop l: Loop-delayed for a nested loop, Tick-delayed
   for a root-level loop *)
Definition refire_hoffs (g : ggraph) (l : N) : list ghoff :=
  filter (fun h => oN_eqb (gh_succ_sg_loop h) (Some l) &&
                   delay_eqb (eff_delay g h) (if is_root g l then DTick else DLoop)) (g_hoffs g).

Definition gate_checks (g : ggraph) (l : N) : list check :=
  map (fun h => if delayed g h then CBack (gh_wire h) else CBuf (gh_wire h)) (entry_hoffs g l) ++
  map (fun h => CBack (gh_wire h)) (refire_hoffs g l).

(* swapped at the end of every run of l's body: the loop-delayed handoffs consumed in l, and the
   tick-delayed ones when l is a root-level loop *)
Definition loop_swaps (g : ggraph) (l : N) : list N :=
  map gh_wire (filter (fun h => oN_eqb (gh_succ_sg_loop h) (Some l) &&
                                (loop_d (eff_delay g h) || (tick_d (eff_delay g h) && is_root g l)))
                      (g_hoffs g)).

(* exit handoffs of l: declared (empty) before the gate *)
Definition exit_hoffs (g : ggraph) (l : N) : list N :=
  map gh_wire (filter (fun h => oN_eqb (gh_pred_loop h) (Some l) && oN_eqb (gh_succ_loop h) (loop_parent g l))
                      (g_hoffs g)).

(* ------------------------------------------------------------------ tick level *)

Definition tick_swaps (g : ggraph) : list N :=
  map gh_wire (filter (fun h => tick_d (eff_delay g h) && negb (in_root g (gh_succ_sg_loop h))) (g_hoffs g)).

Definition sched_checks (g : ggraph) : list check :=
  map (fun h => if delay_eqb (eff_delay g h) DTick && in_root g (gh_succ_sg_loop h)
                then CBack (gh_wire h) else CBuf (gh_wire h))
      (filter (fun h => delayed g h && negb (lazy_d (eff_delay g h))) (g_hoffs g)).

(* ------------------------------------------------------------------ the program *)

Fixpoint lower_sk (g : ggraph) (s : sk) {struct s} : list instr :=
  match s with
  | SKRun b => [IRun (block_of g b)]
  | SKLoop l body =>
      [IDecl (exit_hoffs g l);
       IGate (is_root g l) (gate_checks g l) (flat_map (lower_sk g) body) (loop_swaps g l)]
  end.

Fixpoint sk_ops (s : sk) {struct s} : list (N * nkind) :=
  match s with
  | SKRun b => map (fun n => (n_id n, n_kind n)) (gs_nodes b)
  | SKLoop _ body => flat_map sk_ops body
  end.

Definition lower (g : ggraph) (sks : list sk) : prog :=
  {| p_body := flat_map (lower_sk g) sks;
     p_sched := sched_checks g;
     p_swaps := tick_swaps g;
     p_ops := flat_map sk_ops sks |}.
