(* E7 Dfir -- shape perturbations as rewrites of the flat graph (definitions only).
   A pass-through gadget K is spliced into the node list after the producer of wire a; it copies a
   to the fresh wire b (through fresh wires of its own); every later reader of a reads b instead. *)
From Coq Require Import List NArith Bool.
From HV Require Import Dfir.Model Dfir.ModelTick.
Import ListNotations.
Open Scope N_scope.

Definition ren_wire (a b e : N) : N := if N.eqb e a then b else e.
Definition ren (a b : N) (n : node) : node :=
  {| n_id := n_id n; n_kind := n_kind n; n_ins := map (ren_wire a b) (n_ins n); n_outs := n_outs n |}.

Definition splice (pre K post : list node) (a b : N) : list node :=
  pre ++ K ++ map (ren a b) post.

(* the gadgets of the perturbation grammar of tools/dfir.py (C22_VARIANTS) *)
Definition g_identity (k a b : N) : list node :=
  [ {| n_id := k; n_kind := NOp op_identity; n_ins := [a]; n_outs := [b] |} ].
(*  t = .. -> tee(); t -> null(); t -> ..  *)
Definition g_tee_null (k1 k2 a b c : N) : list node :=
  [ {| n_id := k1; n_kind := NOp (op_tee 2); n_ins := [a]; n_outs := [c; b] |};
    {| n_id := k2; n_kind := NOp op_null; n_ins := [c]; n_outs := [] |} ].
(*  .. -> [0]u; null() -> [1]u; u = union() -> ..  *)
Definition g_union_null (k1 k2 a b d : N) : list node :=
  [ {| n_id := k1; n_kind := NOp op_null; n_ins := []; n_outs := [d] |};
    {| n_id := k2; n_kind := NOp (op_union 2); n_ins := [a; d]; n_outs := [b] |} ].

Fixpoint olookup {A} (k : N) (m : list (N * A)) : option A :=
  match m with
  | [] => None
  | (k', v) :: r => if N.eqb k k' then Some v else olookup k r
  end.
