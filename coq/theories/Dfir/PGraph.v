(* E7 Dfir -- the selections of ModelGraph.v against the rules of the code generator
   (meta_graph.rs emit_loop_gate / as_code_with_options, flat_to_partitioned.rs
   mark_tick_boundary_handoffs), stated as membership characterisations. *)
From Coq Require Import List NArith Bool Arith.
From HV Require Import Dfir.Model Dfir.ModelTick Dfir.ModelGraph.
Import ListNotations.
Open Scope N_scope.

Lemma delay_eqb_eq : forall a b, delay_eqb a b = true <-> a = b.
Proof. intros [] []; cbn; split; intro H; try reflexivity; try discriminate. Qed.

Lemma oN_eqb_eq : forall a b, oN_eqb a b = true <-> a = b.
Proof.
  intros [x|] [y|]; cbn; split; intro H; try reflexivity; try discriminate.
  - apply N.eqb_eq in H. congruence.
  - inversion H. apply N.eqb_refl.
Qed.

(* ---- mark_tick_boundary_handoffs: a defer_tick / defer_tick_lazy consumed inside a nested loop
   is loop-delayed (lazy stays lazy), everywhere else tick-delayed *)
Theorem remap_rule : forall g h,
  (gh_base h = BNone -> eff_delay g h = DNo) /\
  (gh_base h = BTick -> eff_delay g h = if in_nested g (gh_succ_loop h) then DLoop else DTick) /\
  (gh_base h = BTickLazy -> eff_delay g h = if in_nested g (gh_succ_loop h) then DLoopLazy else DTickLazy).
Proof. intros g h. unfold eff_delay. repeat split; intros ->; reflexivity. Qed.

Corollary nested_never_tick_delayed : forall g h,
  in_nested g (gh_succ_loop h) = true -> tick_d (eff_delay g h) = false.
Proof. intros g h H. unfold eff_delay. rewrite H. destruct (gh_base h); reflexivity. Qed.

Corollary lazy_stays_lazy : forall g h,
  lazy_d (eff_delay g h) = match gh_base h with BTickLazy => true | _ => false end.
Proof. intros g h. unfold eff_delay. destruct (gh_base h); destruct (in_nested g (gh_succ_loop h)); reflexivity. Qed.

(* ---- emit_loop_gate: the gate checks of loop l *)
Theorem gate_checks_rule : forall g l c,
  In c (gate_checks g l) <->
  (exists h, In h (g_hoffs g) /\
     (* an entry handoff: producer in the parent loop, consumer in l, not a lazy window *)
     gh_succ_loop h = Some l /\ gh_pred_loop h = loop_parent g l /\ gh_lazy_win h = false /\
     c = (if delayed g h then CBack (gh_wire h) else CBuf (gh_wire h))) \/
  (exists h, In h (g_hoffs g) /\
     (* a non-lazy delayed handoff consumed in l: loop-delayed for a nested loop, tick-delayed for a root loop *)
     gh_succ_sg_loop h = Some l /\ eff_delay g h = (if is_root g l then DTick else DLoop) /\
     c = CBack (gh_wire h)).
Proof.
  intros g l c. unfold gate_checks. rewrite in_app_iff, !in_map_iff. split.
  - intros [[h [Hc Hin]]|[h [Hc Hin]]].
    + left. unfold entry_hoffs in Hin. apply filter_In in Hin. destruct Hin as [Hin Hf].
      apply andb_true_iff in Hf. destruct Hf as [Hf H3]. apply andb_true_iff in Hf. destruct Hf as [H1 H2].
      exists h. repeat split; try assumption; try (apply oN_eqb_eq; assumption).
      * apply negb_true_iff. exact H3.
      * symmetry. exact Hc.
    + right. unfold refire_hoffs in Hin. apply filter_In in Hin. destruct Hin as [Hin Hf].
      apply andb_true_iff in Hf. destruct Hf as [H1 H2].
      exists h. repeat split; try assumption; [apply oN_eqb_eq; exact H1 | apply delay_eqb_eq; exact H2 | symmetry; exact Hc].
  - intros [[h [Hin [H1 [H2 [H3 Hc]]]]]|[h [Hin [H1 [H2 Hc]]]]].
    + left. exists h. split; [symmetry; exact Hc|]. unfold entry_hoffs. apply filter_In. split; [exact Hin|].
      apply andb_true_iff. split; [apply andb_true_iff; split; apply oN_eqb_eq; assumption|].
      rewrite H3. reflexivity.
    + right. exists h. split; [symmetry; exact Hc|]. unfold refire_hoffs. apply filter_In. split; [exact Hin|].
      apply andb_true_iff. split; [apply oN_eqb_eq; exact H1 | apply delay_eqb_eq; exact H2].
Qed.

(* lazy handoffs never gate: neither a batch_lazy entry nor a lazily delayed back buffer *)
Corollary lazy_never_gates : forall g l h,
  In h (g_hoffs g) -> lazy_d (eff_delay g h) = true -> ~ In h (refire_hoffs g l).
Proof.
  intros g l h Hin Hl H. unfold refire_hoffs in H. apply filter_In in H. destruct H as [_ H].
  apply andb_true_iff in H. destruct H as [_ H]. apply delay_eqb_eq in H. rewrite H in Hl.
  destruct (is_root g l); discriminate.
Qed.

(* ---- the swap lists *)
Theorem loop_swaps_rule : forall g l w,
  In w (loop_swaps g l) <->
  exists h, In h (g_hoffs g) /\ gh_wire h = w /\ gh_succ_sg_loop h = Some l /\
            (loop_d (eff_delay g h) = true \/ (tick_d (eff_delay g h) = true /\ is_root g l = true)).
Proof.
  intros g l w. unfold loop_swaps. rewrite in_map_iff. split.
  - intros [h [Hw Hin]]. apply filter_In in Hin. destruct Hin as [Hin Hf].
    apply andb_true_iff in Hf. destruct Hf as [H1 H2]. exists h. repeat split; try assumption.
    + apply oN_eqb_eq. exact H1.
    + apply orb_true_iff in H2. destruct H2 as [H2|H2]; [left; exact H2 | right; apply andb_true_iff; exact H2].
  - intros [h [Hin [Hw [H1 H2]]]]. exists h. split; [exact Hw|]. apply filter_In. split; [exact Hin|].
    apply andb_true_iff. split; [apply oN_eqb_eq; exact H1|]. apply orb_true_iff.
    destruct H2 as [H2|H2]; [left; exact H2 | right; apply andb_true_iff; exact H2].
Qed.

Theorem tick_swaps_rule : forall g w,
  In w (tick_swaps g) <->
  exists h, In h (g_hoffs g) /\ gh_wire h = w /\ tick_d (eff_delay g h) = true /\
            in_root g (gh_succ_sg_loop h) = false.
Proof.
  intros g w. unfold tick_swaps. rewrite in_map_iff. split.
  - intros [h [Hw Hin]]. apply filter_In in Hin. destruct Hin as [Hin Hf].
    apply andb_true_iff in Hf. destruct Hf as [H1 H2]. exists h. repeat split; try assumption.
    apply negb_true_iff. exact H2.
  - intros [h [Hin [Hw [H1 H2]]]]. exists h. split; [exact Hw|]. apply filter_In. split; [exact Hin|].
    apply andb_true_iff. split; [exact H1 | apply negb_true_iff; exact H2].
Qed.

(* a deferred handoff consumed in a nested loop l is swapped at the end of every iteration of l and
   (its wire being the wire of no other handoff) never at tick level: defer_tick / defer_tick_lazy
   inside a nested loop delay by one iteration *)
Lemma nested_defer_in_loop_swaps : forall g h l,
  In h (g_hoffs g) -> gh_base h <> BNone ->
  gh_succ_loop h = Some l -> gh_succ_sg_loop h = Some l -> is_root g l = false ->
  In (gh_wire h) (loop_swaps g l).
Proof.
  intros g h l Hin Hb Hl Hsl Hr. apply loop_swaps_rule. exists h. repeat split; try assumption.
  left. unfold eff_delay. rewrite Hl. cbn [in_nested]. rewrite Hr. cbn [negb].
  destruct (gh_base h); [contradiction | reflexivity | reflexivity].
Qed.

Lemma nested_defer_not_tick_swapped : forall g h l,
  (forall h', In h' (g_hoffs g) -> gh_wire h' = gh_wire h -> h' = h) ->
  gh_succ_loop h = Some l -> is_root g l = false ->
  ~ In (gh_wire h) (tick_swaps g).
Proof.
  intros g h l Huniq Hl Hr Ht. apply tick_swaps_rule in Ht. destruct Ht as [h' [Hin' [Hw [Ht _]]]].
  rewrite (Huniq h' Hin' Hw) in Ht.
  rewrite nested_never_tick_delayed in Ht; [discriminate|].
  rewrite Hl. cbn [in_nested]. rewrite Hr. reflexivity.
Qed.

(* ---- the schedule list: exactly the non-lazy delayed handoffs *)
Theorem sched_rule : forall g c,
  In c (sched_checks g) <->
  exists h, In h (g_hoffs g) /\ delayed g h = true /\ lazy_d (eff_delay g h) = false /\
            c = (if delay_eqb (eff_delay g h) DTick && in_root g (gh_succ_sg_loop h)
                 then CBack (gh_wire h) else CBuf (gh_wire h)).
Proof.
  intros g c. unfold sched_checks. rewrite in_map_iff. split.
  - intros [h [Hc Hin]]. apply filter_In in Hin. destruct Hin as [Hin Hf].
    apply andb_true_iff in Hf. destruct Hf as [H1 H2]. exists h. repeat split; try assumption.
    + apply negb_true_iff. exact H2.
    + symmetry. exact Hc.
  - intros [h [Hin [H1 [H2 Hc]]]]. exists h. split; [symmetry; exact Hc|]. apply filter_In. split; [exact Hin|].
    apply andb_true_iff. split; [exact H1 | apply negb_true_iff; exact H2].
Qed.

(* ---- blocks: which buffer is drained, how a send buffer is prepared *)
Theorem block_rule : forall g s,
  (forall w b, In (w, b) (sg_recv (block_of g s)) <->
     exists h, In h (g_hoffs g) /\ gh_succ_sg h = Some (gs_id s) /\ w = gh_wire h /\ b = delayed g h) /\
  (forall w k, In (w, k) (sg_send (block_of g s)) <->
     exists h, In h (g_hoffs g) /\ gh_pred_sg h = Some (gs_id s) /\ w = gh_wire h /\
               k = (if delayed g h then SClear else if is_exit g s h then SExit else SFresh)).
Proof.
  intros g s. split; intros w x; cbn [block_of sg_recv sg_send]; unfold recv_of, send_of; rewrite in_map_iff; split.
  - intros [h [He Hin]]. apply filter_In in Hin. destruct Hin as [Hin Hf]. inversion He; subst.
    exists h. repeat split; try assumption. apply oN_eqb_eq. exact Hf.
  - intros [h [Hin [H1 [-> ->]]]]. exists h. split; [reflexivity|]. apply filter_In. split; [exact Hin|].
    apply oN_eqb_eq. exact H1.
  - intros [h [He Hin]]. apply filter_In in Hin. destruct Hin as [Hin Hf]. inversion He; subst.
    exists h. repeat split; try assumption. apply oN_eqb_eq. exact Hf.
  - intros [h [Hin [H1 [-> ->]]]]. exists h. split; [reflexivity|]. apply filter_In. split; [exact Hin|].
    apply oN_eqb_eq. exact H1.
Qed.

(* ---- the program: a loop block is the exit-handoff declaration followed by its gate *)
Theorem lower_loop : forall g l body,
  lower_sk g (SKLoop l body) =
  [IDecl (exit_hoffs g l);
   IGate (is_root g l) (gate_checks g l) (flat_map (lower_sk g) body) (loop_swaps g l)].
Proof. reflexivity. Qed.
