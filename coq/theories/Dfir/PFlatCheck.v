(* E7 Dfir -- soundness of the executable well-formedness check, and the transparency theorem
   stated for any program that passes it. *)
From Coq Require Import List NArith Bool Arith Lia.
From HV Require Import Dfir.Model Dfir.ModelTick Dfir.ModelFlat Dfir.PFrame Dfir.PFlat.
Import ListNotations.
Open Scope N_scope.

Lemma nmem_In : forall e l, nmem e l = true <-> In e l.
Proof.
  intros e l. unfold nmem. rewrite existsb_exists. split.
  - intros [x [Hx He]]. apply N.eqb_eq in He. subst. exact Hx.
  - intros H. exists e. split; [exact H | apply N.eqb_refl].
Qed.

Lemma nmem_false : forall e l, nmem e l = false <-> ~ In e l.
Proof.
  intros e l. split; intro H.
  - intro Hin. apply nmem_In in Hin. congruence.
  - destruct (nmem e l) eqn:E; [apply nmem_In in E; contradiction | reflexivity].
Qed.

Lemma nodup_b_NoDup : forall l, nodup_b l = true -> NoDup l.
Proof.
  induction l as [|x r IH]; intros H; [constructor|].
  cbn [nodup_b] in H. apply andb_true_iff in H. destruct H as [H1 H2].
  constructor; [apply nmem_false; apply negb_true_iff; exact H1 | apply IH; exact H2].
Qed.

Lemma wf_block_b_sound : forall sg, wf_block_b sg = true -> wf_block sg.
Proof.
  intros sg H. unfold wf_block_b in H.
  apply andb_true_iff in H. destruct H as [H H9].
  apply andb_true_iff in H. destruct H as [H H8].
  apply andb_true_iff in H. destruct H as [H H7].
  apply andb_true_iff in H. destruct H as [H H6].
  apply andb_true_iff in H. destruct H as [H H5].
  apply andb_true_iff in H. destruct H as [H H4].
  apply andb_true_iff in H. destruct H as [H H3].
  apply andb_true_iff in H. destruct H as [H1 H2].
  constructor.
  - intros e He. rewrite forallb_forall in H1. apply negb_true_iff. apply H1. exact He.
  - intros e He. rewrite forallb_forall in H2. specialize (H2 e He). destruct (snd e); try discriminate. reflexivity.
  - destruct (sg_slots sg); [reflexivity | discriminate].
  - rewrite Forall_forall. intros n Hn. rewrite forallb_forall in H4. specialize (H4 n Hn).
    unfold plain_node. destruct (n_kind n); try exact I. discriminate.
  - apply nodup_b_NoDup. exact H5.
  - apply nodup_b_NoDup. exact H6.
  - intros n e Hn He. rewrite forallb_forall in H7. specialize (H7 n Hn).
    rewrite forallb_forall in H7. specialize (H7 e He). unfold readable_b in H7.
    apply orb_true_iff in H7. destruct H7 as [H7|H7].
    + left. apply nmem_In. exact H7.
    + apply andb_true_iff in H7. destruct H7 as [A B]. right. split; [apply nmem_In; exact A|].
      apply nmem_false. apply negb_true_iff. exact B.
  - intros e He. rewrite forallb_forall in H8. apply nmem_false. apply negb_true_iff. apply H8. exact He.
  - intros e He. rewrite forallb_forall in H9. apply nmem_false. apply negb_true_iff. apply H9. exact He.
Qed.

Lemma wf_chain_b_sound : forall sgs P U R, wf_chain_b P U R sgs = true -> wf_chain P U R sgs.
Proof.
  induction sgs as [|B rest IH]; intros P U R H; [constructor|].
  cbn [wf_chain_b] in H.
  apply andb_true_iff in H. destruct H as [H H4].
  apply andb_true_iff in H. destruct H as [H H3].
  apply andb_true_iff in H. destruct H as [H1 H2].
  constructor.
  - apply wf_block_b_sound. exact H1.
  - intros e He. rewrite forallb_forall in H2. specialize (H2 e He).
    apply andb_true_iff in H2. destruct H2 as [A B0]. split; [apply nmem_In; exact A|].
    apply nmem_false. apply negb_true_iff. exact B0.
  - intros e He. rewrite forallb_forall in H3. apply nmem_false. apply negb_true_iff. apply H3.
    apply in_or_app. destruct He as [He|He]; [left | right]; exact He.
  - apply IH. exact H4.
Qed.

Lemma blocks_of_map : forall body sgs, blocks_of body = Some sgs -> body = map IRun sgs.
Proof.
  induction body as [|i r IH]; intros sgs H; cbn [blocks_of] in H.
  - inversion H. reflexivity.
  - destruct i as [sg|hs|a b c d]; try discriminate.
    destruct (blocks_of r) as [l|] eqn:E; [|discriminate]. inversion H; subst.
    cbn [map]. f_equal. apply IH. reflexivity.
Qed.

(* handoff transparency for every program that passes the executable check: over every history,
   the partitioned program and its flat denotation produce the same sink outputs, operator states,
   panic flag and tick counts *)
Theorem transparency : forall p h,
  flat_applicable p = true ->
  let '(wp, obsp) := drive false p h in
  let '(wf, obsf) := drive false (flat_of p) h in
  w_out wp = w_out wf /\ w_st wp = w_st wf /\ w_panic wp = w_panic wf /\ obsp = obsf.
Proof.
  intros p h H. unfold flat_applicable in H. unfold flat_of.
  destruct (blocks_of (p_body p)) as [sgs|] eqn:E; [|discriminate].
  destruct (p_sched p) eqn:Es; [|discriminate]. destruct (p_swaps p) eqn:Ew; [|discriminate].
  apply wf_chain_b_sound in H. apply blocks_of_map in E.
  assert (Hp : p = part_prog sgs (p_ops p)).
  { destruct p as [b s w o]. cbn in *. subst. reflexivity. }
  pose proof (partitioned_eq_flat sgs (p_ops p) h H) as G. rewrite <- Hp in G. exact G.
Qed.
