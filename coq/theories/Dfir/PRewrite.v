(* E7 Dfir -- splicing a pass-through gadget into the flat graph preserves its denotation:
   same sink outputs, same states of the original operators, tick after tick (C22 (ii)). *)
From Coq Require Import List NArith Bool Arith Lia.
From HV Require Import Dfir.Model Dfir.ModelTick Dfir.ModelRewrite Dfir.POps Dfir.PTick Dfir.PFrame Dfir.PFlat.
Import ListNotations.
Open Scope N_scope.

Lemma lookup_olookup : forall {A} (d : A) k m,
  lookup d k m = match olookup k m with Some v => v | None => d end.
Proof.
  induction m as [|[k' v] m IH]; cbn [lookup olookup]; [reflexivity|]. destruct (N.eqb k k'); [reflexivity | exact IH].
Qed.

Lemma olookup_update_same : forall {A} k (v : A) m, olookup k (update k v m) = Some v.
Proof.
  induction m as [|[k' v'] m IH]; cbn [update olookup].
  - rewrite N.eqb_refl. reflexivity.
  - destruct (N.eqb k k') eqn:E; cbn [olookup]; rewrite ?N.eqb_refl, ?E; [reflexivity | exact IH].
Qed.

Lemma olookup_update_other : forall {A} k k' (v : A) m, k <> k' -> olookup k (update k' v m) = olookup k m.
Proof.
  induction m as [|[k2 v2] m IH]; intros Hne; cbn [update olookup].
  - destruct (N.eqb k k') eqn:E; [apply N.eqb_eq in E; contradiction | reflexivity].
  - destruct (N.eqb k' k2) eqn:E; cbn [olookup].
    + apply N.eqb_eq in E. subst k2.
      destruct (N.eqb k k') eqn:E2; [apply N.eqb_eq in E2; contradiction | reflexivity].
    + destruct (N.eqb k k2); [reflexivity | apply IH; exact Hne].
Qed.

(* worlds that agree on everything observable, and on operator states outside the ids X *)
Definition steq (X : list N) (a b : world) : Prop :=
  w_out a = w_out b /\ w_tick a = w_tick b /\ w_panic a = w_panic b /\
  forall id, ~ In id X -> olookup id (w_st a) = olookup id (w_st b).

Lemma steq_refl : forall X w, steq X w w.
Proof. intros; repeat split. Qed.

(* ------------------------------------------------------------------ one node, read through rho *)

Lemma emits_flat_loc : forall l w loc,
  fst (fold_left (emit Fb) l (w, loc)) = w /\
  forall e, get e (snd (fold_left (emit Fb) l (w, loc))) =
            get e loc ++ concat (map snd (filter (fun eo => N.eqb e (fst eo)) l)).
Proof.
  induction l as [|[e0 its] l IH]; intros w loc; cbn [fold_left].
  - split; [reflexivity|]. intros e. cbn. rewrite app_nil_r. reflexivity.
  - unfold emit at 2. cbn [is_send Fb sg_send existsb].
    destruct (IH w (push_to e0 its loc)) as [I1 I2]. split; [exact I1|].
    intros e. rewrite I2. rewrite get_push_to. cbn [filter fst].
    destruct (N.eqb e e0); [cbn [map concat snd]; rewrite <- app_assoc; reflexivity | reflexivity].
Qed.

Definition plain_kind (k : nkind) : Prop := match k with NRef _ _ => False | _ => True end.

(* the same operator run in two worlds, its inputs read through different wires but with equal
   contents: same outputs on its output wires, same sink output, same new state *)
Lemma run_node_steq : forall X ext n n' w1 loc1 w2 loc2,
  n_id n' = n_id n -> n_kind n' = n_kind n -> n_outs n' = n_outs n ->
  plain_kind (n_kind n) -> ~ In (n_id n) X ->
  map (fun e => get e loc2) (n_ins n') = map (fun e => get e loc1) (n_ins n) ->
  steq X w1 w2 ->
  let r1 := run_node Fb ext (w1, loc1) n in
  let r2 := run_node Fb ext (w2, loc2) n' in
  steq X (fst r1) (fst r2) /\
  exists l, (forall eo, In eo l -> In (fst eo) (n_outs n)) /\
    (forall e, get e (snd r1) = get e loc1 ++ concat (map snd (filter (fun eo => N.eqb e (fst eo)) l))) /\
    (forall e, get e (snd r2) = get e loc2 ++ concat (map snd (filter (fun eo => N.eqb e (fst eo)) l))).
Proof.
  intros X ext n n' w1 loc1 w2 loc2 Hid Hk Ho Hpl HnX Hins [S1 [S2 [S3 S4]]] r1 r2.
  unfold r1, r2, run_node. rewrite Hk, Ho, Hid, Hins.
  set (ins := map (fun e => get e loc1) (n_ins n)).
  assert (Hst : lookup (op_init (kind_op (n_kind n) (w_tick w1))) (n_id n) (w_st w1) =
                lookup (op_init (kind_op (n_kind n) (w_tick w1))) (n_id n) (w_st w2)).
  { rewrite !lookup_olookup. rewrite (S4 (n_id n) HnX). reflexivity. }
  assert (Hl : forall os, forall eo : N * list val, In eo (combine (n_outs n) os) -> In (fst eo) (n_outs n)).
  { intros os eo H. apply in_combine_fst in H. exact H. }
  unfold plain_kind in Hpl.
  destruct (n_kind n) as [o|o|k|k|h g] eqn:Ek; try contradiction.
  - rewrite <- S2. cbn [kind_op] in *. rewrite <- Hst.
    destruct (op_step o _ ins) as [s' os].
    destruct (emits_flat_loc (combine (n_outs n) os) (set_st w1 (update (n_id n) s' (w_st w1))) loc1) as [A1 A2].
    destruct (emits_flat_loc (combine (n_outs n) os) (set_st w2 (update (n_id n) s' (w_st w2))) loc2) as [B1 B2].
    rewrite A1, B1. split.
    + repeat split; try assumption. intros id Hn. cbn [w_st set_st].
      destruct (N.eq_dec id (n_id n)) as [->|Hne]; [rewrite !olookup_update_same; reflexivity|].
      rewrite !olookup_update_other by exact Hne. apply S4. exact Hn.
    + exists (combine (n_outs n) os). split; [apply Hl|]. split; assumption.
  - rewrite <- S2. cbn [kind_op] in *. rewrite <- Hst.
    destruct (op_step (o (w_tick w1)) _ ins) as [s' os].
    destruct (emits_flat_loc (combine (n_outs n) os) (set_st w1 (update (n_id n) s' (w_st w1))) loc1) as [A1 A2].
    destruct (emits_flat_loc (combine (n_outs n) os) (set_st w2 (update (n_id n) s' (w_st w2))) loc2) as [B1 B2].
    rewrite A1, B1. split.
    + repeat split; try assumption. intros id Hn. cbn [w_st set_st].
      destruct (N.eq_dec id (n_id n)) as [->|Hne]; [rewrite !olookup_update_same; reflexivity|].
      rewrite !olookup_update_other by exact Hne. apply S4. exact Hn.
    + exists (combine (n_outs n) os). split; [apply Hl|]. split; assumption.
  - destruct (emits_flat_loc (combine (n_outs n) [get k ext]) w1 loc1) as [A1 A2].
    destruct (emits_flat_loc (combine (n_outs n) [get k ext]) w2 loc2) as [B1 B2].
    rewrite A1, B1. split; [repeat split; assumption|].
    exists (combine (n_outs n) [get k ext]). split; [apply Hl|]. split; assumption.
  - rewrite <- S1, <- S2.
    destruct (emits_flat_loc (combine (n_outs n) []) (set_out w1 (push_to k (map (fun x => VP (VN (w_tick w1)) x) (port 0 ins)) (w_out w1))) loc1) as [A1 A2].
    destruct (emits_flat_loc (combine (n_outs n) []) (set_out w2 (push_to k (map (fun x => VP (VN (w_tick w1)) x) (port 0 ins)) (w_out w1))) loc2) as [B1 B2].
    rewrite A1, B1. split; [repeat split; assumption|].
    exists (combine (n_outs n) []). split; [apply Hl|]. split; assumption.
Qed.

(* ------------------------------------------------------------------ frames from the emitted list *)

Lemma filter_none : forall (l : list (N * list val)) e,
  (forall eo, In eo l -> fst eo <> e) ->
  concat (map snd (filter (fun eo => N.eqb e (fst eo)) l)) = [].
Proof.
  induction l as [|eo l IH]; intros e H; cbn [filter]; [reflexivity|].
  destruct (N.eqb e (fst eo)) eqn:E.
  - apply N.eqb_eq in E. exfalso. apply (H eo); [left; reflexivity | symmetry; exact E].
  - apply IH. intros x Hx. apply H. right. exact Hx.
Qed.

(* conditions on an original node w.r.t. the protected wires P (the gadget's b and fresh wires)
   and the gadget's operator ids X *)
Definition node_ok (X P : list N) (n : node) : Prop :=
  plain_kind (n_kind n) /\ ~ In (n_id n) X /\
  (forall e, In e (n_ins n) -> ~ In e P) /\ (forall e, In e (n_outs n) -> ~ In e P).

(* same nodes on both sides *)
Lemma pre_sim : forall X P ext ns w1 loc1 w2 loc2,
  Forall (node_ok X P) ns ->
  steq X w1 w2 ->
  (forall e, ~ In e P -> get e loc1 = get e loc2) ->
  (forall e, In e P -> get e loc2 = []) ->
  let r1 := run_nodes Fb ext ns (w1, loc1) in
  let r2 := run_nodes Fb ext ns (w2, loc2) in
  steq X (fst r1) (fst r2) /\
  (forall e, ~ In e P -> get e (snd r1) = get e (snd r2)) /\
  (forall e, In e P -> get e (snd r2) = []).
Proof.
  intros X P ext ns. unfold run_nodes. induction ns as [|n ns IH]; intros w1 loc1 w2 loc2 Hok Hs HL HP; cbn [fold_left].
  - cbn [fst snd]. split; [exact Hs | split; assumption].
  - inversion Hok as [|? ? [Hpl [HnX [Hin Hout]]] Hok']; subst.
    destruct (run_node_steq X ext n n w1 loc1 w2 loc2 eq_refl eq_refl eq_refl Hpl HnX) as [S [l [Hl [E1 E2]]]]; [|exact Hs|].
    { apply map_ext_in. intros e He. symmetry. apply HL. apply Hin. exact He. }
    cbv zeta in S, E1, E2.
    destruct (run_node Fb ext (w1, loc1) n) as [w1' l1']. destruct (run_node Fb ext (w2, loc2) n) as [w2' l2'].
    cbn [fst snd] in *. apply IH; [exact Hok' | exact S | |].
    + intros e He. rewrite E1, E2, (HL e He). reflexivity.
    + intros e He. rewrite E2, (HP e He). apply filter_none.
      intros eo Heo Heq. apply (Hout (fst eo)); [apply Hl; exact Heo | rewrite Heq; exact He].
Qed.

(* later nodes: side 2 reads b wherever side 1 reads a *)
Lemma post_sim : forall X P a b ext ns, In b P -> forall w1 loc1 w2 loc2,
  Forall (node_ok X P) ns -> Forall (fun n => ~ In a (n_outs n)) ns ->
  steq X w1 w2 ->
  (forall e, ~ In e P -> get e loc1 = get e loc2) ->
  get b loc2 = get a loc1 ->
  let r1 := run_nodes Fb ext ns (w1, loc1) in
  let r2 := run_nodes Fb ext (map (ren a b) ns) (w2, loc2) in
  steq X (fst r1) (fst r2).
Proof.
  intros X P a b ext ns Hb. unfold run_nodes.
  induction ns as [|n ns IH]; intros w1 loc1 w2 loc2 Hok Ha Hs HL HR; cbn [map fold_left]; [exact Hs|].
  inversion Hok as [|? ? [Hpl [HnX [Hin Hout]]] Hok']; subst. inversion Ha as [|? ? Hna Ha']; subst.
  destruct (run_node_steq X ext n (ren a b n) w1 loc1 w2 loc2 eq_refl eq_refl eq_refl Hpl HnX) as [S [l [Hl [E1 E2]]]]; [|exact Hs|].
  { cbn [ren n_ins]. rewrite map_map. apply map_ext_in. intros e He. unfold ren_wire.
    destruct (N.eqb e a) eqn:E; [apply N.eqb_eq in E; subst; exact HR|].
    symmetry. apply HL. apply Hin. exact He. }
  cbv zeta in S, E1, E2.
  destruct (run_node Fb ext (w1, loc1) n) as [w1' l1']. destruct (run_node Fb ext (w2, loc2) (ren a b n)) as [w2' l2'].
  cbn [fst snd] in *. apply IH; [exact Hok' | exact Ha' | exact S | |].
  - intros e He. rewrite E1, E2, (HL e He). reflexivity.
  - rewrite E1, E2, HR. f_equal.
    rewrite filter_none by (intros eo Heo Heq; apply (Hout (fst eo)); [apply Hl; exact Heo | rewrite Heq; exact Hb]).
    rewrite filter_none by (intros eo Heo Heq; apply Hna; rewrite <- Heq; apply Hl; exact Heo).
    reflexivity.
Qed.

(* ------------------------------------------------------------------ gadgets *)

(* a pass-through gadget: run from a state where b and its fresh wires are empty, it copies a to b,
   touches no other wire, no sink, and only its own operators' states *)
Definition gadget_ok (K : list node) (a b : N) (P : list N) : Prop :=
  In b P /\ ~ In a P /\
  forall ext w loc, (forall e, In e P -> get e loc = []) ->
    let r := run_nodes Fb ext K (w, loc) in
    steq (map n_id K) w (fst r) /\
    get b (snd r) = get a loc /\
    (forall e, ~ In e P -> get e (snd r) = get e loc).

Ltac gadget_world :=
  repeat split; try reflexivity;
  intros id Hn; cbn [w_st set_st];
  repeat (rewrite olookup_update_other by (intro; subst; apply Hn; cbn [In map n_id]; auto)); reflexivity.

Lemma g_identity_ok : forall k a b, a <> b -> gadget_ok (g_identity k a b) a b [b].
Proof.
  intros k a b Hab. split; [left; reflexivity|]. split; [intros [H|[]]; congruence|].
  intros ext w loc HP r. unfold r, run_nodes, g_identity, op_identity. cbn [fold_left run_node n_kind n_ins n_outs n_id map kind_op op_step repeat combine emit is_send Fb sg_send existsb fst snd firstn concat].
  split; [gadget_world|]. split.
  - rewrite get_push_to, N.eqb_refl, (HP b (or_introl eq_refl)). reflexivity.
  - intros e He. rewrite get_push_to. destruct (N.eqb e b) eqn:E; [|reflexivity].
    apply N.eqb_eq in E. subst. exfalso. apply He. left. reflexivity.
Qed.

Lemma g_tee_null_ok : forall k1 k2 a b c, a <> b -> a <> c -> b <> c ->
  gadget_ok (g_tee_null k1 k2 a b c) a b [b; c].
Proof.
  intros k1 k2 a b c Hab Hac Hbc. split; [left; reflexivity|]. split; [intros [H|[H|[]]]; congruence|].
  intros ext w loc HP r. unfold r, run_nodes, g_tee_null, op_tee, op_null. cbn [fold_left run_node n_kind n_ins n_outs n_id map kind_op op_step repeat combine emit is_send Fb sg_send existsb fst snd firstn concat].
  split; [gadget_world|]. split.
  - rewrite !get_push_to, N.eqb_refl.
    assert (E : N.eqb b c = false) by (apply N.eqb_neq; exact Hbc). rewrite E.
    rewrite (HP b (or_introl eq_refl)). reflexivity.
  - intros e He. rewrite !get_push_to.
    destruct (N.eqb e b) eqn:E1; [apply N.eqb_eq in E1; subst; exfalso; apply He; left; reflexivity|].
    destruct (N.eqb e c) eqn:E2; [apply N.eqb_eq in E2; subst; exfalso; apply He; right; left; reflexivity|].
    reflexivity.
Qed.

Lemma g_union_null_ok : forall k1 k2 a b d, a <> b -> a <> d -> b <> d ->
  gadget_ok (g_union_null k1 k2 a b d) a b [b; d].
Proof.
  intros k1 k2 a b d Hab Had Hbd. split; [left; reflexivity|]. split; [intros [H|[H|[]]]; congruence|].
  intros ext w loc HP r. unfold r, run_nodes, g_union_null, op_union, op_null. cbn [fold_left run_node n_kind n_ins n_outs n_id map kind_op op_step repeat combine emit is_send Fb sg_send existsb fst snd firstn concat].
  split; [gadget_world|]. split.
  - assert (E : N.eqb b d = false) by (apply N.eqb_neq; exact Hbd).
    assert (E2 : N.eqb a d = false) by (apply N.eqb_neq; exact Had).
    rewrite !get_push_to. rewrite ?N.eqb_refl, ?E, ?E2.
    rewrite ?(HP b (or_introl eq_refl)), ?(HP d (or_intror (or_introl eq_refl))).
    cbn [app]. rewrite ?app_nil_r. reflexivity.
  - intros e He. rewrite !get_push_to.
    destruct (N.eqb e b) eqn:E1; [apply N.eqb_eq in E1; subst; exfalso; apply He; left; reflexivity|].
    destruct (N.eqb e d) eqn:E2; [apply N.eqb_eq in E2; subst; exfalso; apply He; right; left; reflexivity|].
    reflexivity.
Qed.

(* ------------------------------------------------------------------ splicing, one tick *)

Lemma steq_trans : forall X a b c, steq X a b -> steq X b c -> steq X a c.
Proof.
  intros X a b c [A1 [A2 [A3 A4]]] [B1 [B2 [B3 B4]]]. repeat split; try congruence.
  intros id H. rewrite (A4 id H). apply B4. exact H.
Qed.

Theorem splice_tick : forall K a b P ext pre post w1 w2,
  gadget_ok K a b P ->
  Forall (node_ok (map n_id K) P) pre -> Forall (node_ok (map n_id K) P) post ->
  Forall (fun n => ~ In a (n_outs n)) post ->
  steq (map n_id K) w1 w2 ->
  steq (map n_id K) (fst (run_nodes Fb ext (pre ++ post) (w1, [])))
                    (fst (run_nodes Fb ext (splice pre K post a b) (w2, []))).
Proof.
  intros K a b P ext pre post w1 w2 [HbP [HaP HG]] Hpre Hpost Hna Hs.
  unfold splice. rewrite !run_nodes_app.
  destruct (pre_sim (map n_id K) P ext pre w1 [] w2 [] Hpre Hs) as [S1 [L1 P1]];
    [intros; reflexivity | intros; reflexivity|].
  cbv zeta in S1, L1, P1. unfold bufs in *.
  destruct (run_nodes Fb ext pre (w1, [])) as [wa la]. destruct (run_nodes Fb ext pre (w2, [])) as [wb lb].
  cbn [fst snd] in *.
  destruct (HG ext wb lb P1) as [G1 [G2 G3]]. cbv zeta in G1, G2, G3. unfold bufs in *.
  destruct (run_nodes Fb ext K (wb, lb)) as [wc lc]. cbn [fst snd] in *.
  apply (post_sim (map n_id K) P a b ext post HbP wa la wc lc Hpost Hna).
  - eapply steq_trans; [exact S1 | exact G1].
  - intros e He. rewrite (G3 e He). apply L1. exact He.
  - rewrite G2. symmetry. apply L1. exact HaP.
Qed.

(* ------------------------------------------------------------------ whole runs *)

Definition flat_prog_n (ns : list node) (ops : list (N * nkind)) : prog :=
  {| p_body := [IRun {| sg_recv := []; sg_send := []; sg_slots := []; sg_nodes := ns |}];
     p_sched := []; p_swaps := []; p_ops := ops |}.

Lemma olookup_map : forall {A B} (F : N -> A -> B) k m,
  olookup k (map (fun e => (fst e, F (fst e) (snd e))) m) = option_map (F k) (olookup k m).
Proof.
  induction m as [|[k' v] m IH]; cbn [map olookup fst snd]; [reflexivity|].
  destruct (N.eqb k k') eqn:E; [apply N.eqb_eq in E; subst; reflexivity | exact IH].
Qed.

Definition ops_agree (X : list N) (ops1 ops2 : list (N * nkind)) : Prop :=
  forall id, ~ In id X -> olookup id ops1 = olookup id ops2.

Lemma tick_closure_steq : forall X ns1 ns2 ops1 ops2 ext w1 w2,
  ops_agree X ops1 ops2 ->
  (forall w1 w2, steq X w1 w2 ->
     steq X (fst (run_nodes Fb ext ns1 (w1, []))) (fst (run_nodes Fb ext ns2 (w2, [])))) ->
  steq X w1 w2 ->
  steq X (fst (tick_closure (flat_prog_n ns1 ops1) ext w1)) (fst (tick_closure (flat_prog_n ns2 ops2) ext w2)).
Proof.
  intros X ns1 ns2 ops1 ops2 ext w1 w2 Hops Hrun Hs. unfold tick_closure.
  cbn [flat_prog_n p_body p_sched p_swaps existsb swap_all fold_left fst exec].
  change (run_sg ext {| sg_recv := []; sg_send := []; sg_slots := []; sg_nodes := ns1 |} w1)
    with (fst (run_nodes Fb ext ns1 (w1, []))).
  change (run_sg ext {| sg_recv := []; sg_send := []; sg_slots := []; sg_nodes := ns2 |} w2)
    with (fst (run_nodes Fb ext ns2 (w2, []))).
  destruct (Hrun w1 w2 Hs) as [H1 [H2 [H3 H4]]].
  unfold end_ops, steq. cbn [w_st w_out w_tick w_panic set_st set_tick set_work p_ops].
  repeat split; try assumption; try congruence.
  intros id Hn. cbv zeta.
  rewrite (olookup_map (fun k s => op_end (kind_op (lookup (NSink 0) k ops1) (w_tick (fst (run_nodes Fb ext ns1 (w1, []))))) s)).
  rewrite (olookup_map (fun k s => op_end (kind_op (lookup (NSink 0) k ops2) (w_tick (fst (run_nodes Fb ext ns2 (w2, []))))) s)).
  rewrite (H4 id Hn), H2.
  rewrite !lookup_olookup, (Hops id Hn). reflexivity.
Qed.

Theorem splice_program : forall K a b P pre post ops1 ops2 h,
  gadget_ok K a b P ->
  Forall (node_ok (map n_id K) P) pre -> Forall (node_ok (map n_id K) P) post ->
  Forall (fun n => ~ In a (n_outs n)) post ->
  ops_agree (map n_id K) ops1 ops2 ->
  let '(w1, obs1) := drive false (flat_prog_n (pre ++ post) ops1) h in
  let '(w2, obs2) := drive false (flat_prog_n (splice pre K post a b) ops2) h in
  w_out w1 = w_out w2 /\ obs1 = obs2 /\ w_panic w1 = w_panic w2 /\
  forall id, ~ In id (map n_id K) -> olookup id (w_st w1) = olookup id (w_st w2).
Proof.
  intros K a b P pre post ops1 ops2 h HG Hpre Hpost Hna Hops. unfold drive.
  set (p1 := flat_prog_n (pre ++ post) ops1). set (p2 := flat_prog_n (splice pre K post a b) ops2).
  assert (Htick : forall ext w1 w2, steq (map n_id K) w1 w2 ->
            steq (map n_id K) (fst (run_tick p1 ext w1)) (fst (run_tick p2 ext w2))).
  { intros ext w1 w2 Hs. unfold run_tick.
    assert (Hs' : steq (map n_id K) (set_wake w1 false) (set_wake w2 false)).
    { destruct Hs as [A1 [A2 [A3 A4]]]. repeat split; assumption. }
    pose proof (tick_closure_steq (map n_id K) (pre ++ post) (splice pre K post a b) ops1 ops2 ext _ _ Hops
                  (fun wa wb Hab => splice_tick K a b P ext pre post wa wb HG Hpre Hpost Hna Hab) Hs') as H.
    fold p1 p2 in H.
    destruct (tick_closure p1 ext (set_wake w1 false)) as [x1 y1].
    destruct (tick_closure p2 ext (set_wake w2 false)) as [x2 y2]. exact H. }
  assert (G : forall h w1 w2, steq (map n_id K) w1 w2 ->
    steq (map n_id K) (fst (drive_ticks p1 h w1)) (fst (drive_ticks p2 h w2)) /\
    snd (drive_ticks p1 h w1) = snd (drive_ticks p2 h w2)).
  { induction h0 as [|ext r IH]; intros w1 w2 Hs; cbn [drive_ticks]; [split; [exact Hs | reflexivity]|].
    pose proof (Htick ext w1 w2 Hs) as H1.
    destruct (run_tick p1 ext w1) as [wa ba]. destruct (run_tick p2 ext w2) as [wb bb]. cbn [fst] in H1.
    destruct (IH wa wb H1) as [I1 I2].
    destruct (drive_ticks p1 r wa) as [wa2 oa]. destruct (drive_ticks p2 r wb) as [wb2 ob]. cbn [fst snd] in *.
    split; [exact I1|]. destruct H1 as [_ [H3 _]]. rewrite H3, I2. reflexivity. }
  assert (Hinit : steq (map n_id K) (init_world p1) (init_world p2)).
  { unfold init_world, steq. cbn [w_out w_tick w_panic w_st p1 p2 flat_prog_n p_ops].
    repeat split. intros id Hn.
    rewrite (olookup_map (fun _ k => op_init (kind_op k 0)) id ops1).
    rewrite (olookup_map (fun _ k => op_init (kind_op k 0)) id ops2). rewrite (Hops id Hn). reflexivity. }
  destruct (G h _ _ Hinit) as [G1 G2].
  destruct (drive_ticks p1 h (init_world p1)) as [w1 o1]. destruct (drive_ticks p2 h (init_world p2)) as [w2 o2].
  cbn [fst snd] in *. destruct G1 as [A1 [A2 [A3 A4]]]. repeat split; assumption.
Qed.
