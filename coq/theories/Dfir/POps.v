(* E7 Dfir -- operator layer: run_op (state machine) = history specification. *)
From Coq Require Import List NArith Bool Arith Lia Permutation.
From HV Require Import Dfir.Model.
Import ListNotations.
Open Scope N_scope.

(* ------------------------------------------------------------------ val_eqb *)

Lemma val_eqb_eq : forall x y, val_eqb x y = true <-> x = y.
Proof.
  induction x as [a|a IHa b IHb]; destruct y as [c|c d]; cbn [val_eqb]; split; intro H;
    try discriminate; try congruence.
  - apply N.eqb_eq in H. congruence.
  - inversion H. apply N.eqb_refl.
  - apply andb_true_iff in H. destruct H as [H1 H2].
    apply IHa in H1. apply IHb in H2. congruence.
  - inversion H; subst. apply andb_true_iff. split; [apply IHa | apply IHb]; reflexivity.
Qed.

Lemma val_eqb_refl : forall x, val_eqb x x = true.
Proof. intro x. apply val_eqb_eq. reflexivity. Qed.

Lemma val_eqb_neq : forall x y, val_eqb x y = false <-> x <> y.
Proof.
  intros x y. split; intro H.
  - intro E. apply val_eqb_eq in E. congruence.
  - destruct (val_eqb x y) eqn:E; [apply val_eqb_eq in E; contradiction | reflexivity].
Qed.

Lemma val_eqb_sym : forall x y, val_eqb x y = val_eqb y x.
Proof.
  intros x y. destruct (val_eqb x y) eqn:E.
  - apply val_eqb_eq in E. subst. symmetry. apply val_eqb_refl.
  - symmetry. apply val_eqb_neq. apply val_eqb_neq in E. congruence.
Qed.

Lemma vmem_In : forall x l, vmem x l = true <-> In x l.
Proof.
  induction l as [|y r IH]; cbn [vmem In]; split; intro H; try discriminate; try contradiction.
  - apply orb_true_iff in H. destruct H as [H|H].
    + left. apply val_eqb_eq in H. congruence.
    + right. apply IH. exact H.
  - apply orb_true_iff. destruct H as [H|H].
    + left. subst. apply val_eqb_refl.
    + right. apply IH. exact H.
Qed.

Lemma vmem_app : forall x a b, vmem x (a ++ b) = vmem x a || vmem x b.
Proof.
  induction a as [|y r IH]; intros b; cbn [vmem app]; [reflexivity|].
  rewrite IH. rewrite orb_assoc. reflexivity.
Qed.

(* ------------------------------------------------------------------ spec_run *)

Section SpecRun.
  Context {I O : Type}.
  Variable sp : list I -> I -> O.

  Fixpoint spec_run (pre : list I) (h : list I) : list O :=
    match h with
    | [] => []
    | c :: r => sp pre c :: spec_run (pre ++ [c]) r
    end.

  Lemma spec_run_length : forall h pre, length (spec_run pre h) = length h.
  Proof. induction h as [|c r IH]; intros pre; cbn [spec_run length]; [reflexivity | rewrite IH; reflexivity]. Qed.

  Lemma spec_run_nth : forall h pre t d dI,
    (t < length h)%nat ->
    nth t (spec_run pre h) d = sp (pre ++ firstn t h) (nth t h dI).
  Proof.
    induction h as [|c r IH]; intros pre t d dI Ht; cbn [length] in Ht; [lia|].
    destruct t as [|t]; cbn [spec_run nth firstn].
    - rewrite app_nil_r. reflexivity.
    - rewrite (IH (pre ++ [c]) t d dI) by lia. rewrite <- app_assoc. reflexivity.
  Qed.
End SpecRun.

(* the per-tick form of every theorem below: the outputs of tick t are the specification applied
   to the ticks before t and the inputs of tick t *)
Definition tick_view {O} (sp : list (list (list val)) -> list (list val) -> O)
           (h : list (list (list val))) (t : nat) : O :=
  sp (firstn t h) (nth t h []).

(* ------------------------------------------------------------------ stateless family *)

Definition stateless_spec (g : list (list val) -> list (list val))
           (pre : list (list (list val))) (cur : list (list val)) : list (list val) := g cur.

Lemma run_stateless : forall g h s, run_from (OStateless g) s h = map g h.
Proof.
  induction h as [|c r IH]; intros s; cbn [run_from op_step op_end map]; [reflexivity|].
  rewrite IH. reflexivity.
Qed.

Lemma nth_map_in : forall {A B} (f : A -> B) l t d d', (t < length l)%nat -> nth t (map f l) d = f (nth t l d').
Proof.
  induction l as [|x r IH]; intros t d d' Ht; cbn [length] in Ht; [lia|].
  destruct t; cbn [map nth]; [reflexivity | apply IH; lia].
Qed.

Theorem stateless_correct : forall g h t,
  (t < length h)%nat ->
  nth t (run_op (OStateless g) h) [] = tick_view (stateless_spec g) h t.
Proof.
  intros g h t Ht. unfold run_op, tick_view, stateless_spec. rewrite run_stateless.
  apply nth_map_in. exact Ht.
Qed.

(* ------------------------------------------------------------------ accumulating family *)

Lemma items_app : forall pre c k, items (pre ++ [c]) k = items pre k ++ port k c.
Proof.
  intros. unfold items. rewrite map_app, concat_app. cbn [map concat]. rewrite app_nil_r. reflexivity.
Qed.

Definition acc_pers (a : accop) (k : nat) : pers := nth k (ao_pers a) Tick.

Definition acc_state (a : accop) (pre : list (list (list val))) : list (list val) :=
  map (fun k => fold_left (ao_ins a k) (kept (acc_pers a k) pre k) (ao_init a k)) (seq 0 (nports a)).

Definition acc_new (a : accop) (pre : list (list (list val))) (cur : list (list val)) : list (list val) :=
  map (fun k => fold_left (ao_ins a k) (seen (acc_pers a k) pre cur k) (ao_init a k)) (seq 0 (nports a)).

Definition acc_spec (a : accop) (pre : list (list (list val))) (cur : list (list val)) : list (list val) :=
  ao_out a (acc_new a pre cur) (acc_state a pre) cur.

Lemma port_map_seq : forall (f : nat -> list val) n k, (k < n)%nat -> port k (map f (seq 0 n)) = f k.
Proof.
  intros f n k Hk. unfold port.
  rewrite (nth_map_in f (seq 0 n) k [] 0%nat) by (rewrite seq_length; exact Hk).
  rewrite seq_nth by exact Hk. reflexivity.
Qed.

Lemma absorb_state : forall a pre cur, absorb a (acc_state a pre) cur = acc_new a pre cur.
Proof.
  intros a pre cur. unfold absorb, acc_new. apply map_ext_in. intros k Hk.
  apply in_seq in Hk. unfold acc_state. rewrite port_map_seq by lia.
  unfold seen. rewrite fold_left_app. reflexivity.
Qed.

Lemma end_state : forall a pre cur,
  op_end (OAcc a) {| st_ports := acc_new a pre cur |} = {| st_ports := acc_state a (pre ++ [cur]) |}.
Proof.
  intros a pre cur. cbn [op_end st_ports]. f_equal. unfold acc_state. apply map_ext_in. intros k Hk.
  apply in_seq in Hk. unfold acc_new. rewrite port_map_seq by lia.
  unfold acc_pers, seen, kept. destruct (nth k (ao_pers a) Tick); [reflexivity|].
  rewrite items_app. reflexivity.
Qed.

Lemma run_acc : forall a h pre,
  run_from (OAcc a) {| st_ports := acc_state a pre |} h = spec_run (acc_spec a) pre h.
Proof.
  induction h as [|c r IH]; intros pre; cbn [run_from spec_run]; [reflexivity|].
  cbn [op_step st_ports]. rewrite absorb_state. rewrite end_state. rewrite IH. reflexivity.
Qed.

Lemma acc_state_nil : forall a, op_init (OAcc a) = {| st_ports := acc_state a [] |}.
Proof.
  intros a. cbn [op_init]. f_equal. unfold acc_state. apply map_ext. intros k.
  unfold kept, items. destruct (acc_pers a k); reflexivity.
Qed.

Theorem acc_correct : forall a h t,
  (t < length h)%nat ->
  nth t (run_op (OAcc a) h) [] = tick_view (acc_spec a) h t.
Proof.
  intros a h t Ht. unfold run_op, tick_view. rewrite acc_state_nil, run_acc.
  rewrite (spec_run_nth (acc_spec a) h [] t [] []) by exact Ht. reflexivity.
Qed.

(* 'tick state is the prologue state at every tick start; 'static state is carried *)
Lemma acc_state_tick : forall a pre k,
  (k < nports a)%nat -> acc_pers a k = Tick -> port k (acc_state a pre) = ao_init a k.
Proof.
  intros a pre k Hk Hp. unfold acc_state. rewrite port_map_seq by exact Hk. rewrite Hp. reflexivity.
Qed.

(* ------------------------------------------------------------------ list facts used by the named operators *)

Lemma fold_fold_ins : forall f l a, fold_left (fold_ins f) l [a] = [fold_left f l a].
Proof. induction l as [|x r IH]; intros a; cbn [fold_left fold_ins]; [reflexivity | apply IH]. Qed.

Lemma fold_reduce_ins : forall f l,
  fold_left (reduce_ins f) l [] = match l with [] => [] | x :: r => [fold_left f r x] end.
Proof.
  intros f [|x r]; cbn [fold_left reduce_ins]; [reflexivity|].
  revert x. induction r as [|y r IH]; intros x; cbn [fold_left reduce_ins]; [reflexivity | apply IH].
Qed.

Lemma fold_vec_push : forall l s, fold_left vec_push l s = s ++ l.
Proof.
  induction l as [|x r IH]; intros s; cbn [fold_left]; [rewrite app_nil_r; reflexivity|].
  rewrite IH. unfold vec_push. rewrite <- app_assoc. reflexivity.
Qed.

Lemma fold_enum_ins : forall l c, fold_left enum_ins l [VN c] = [VN (c + N.of_nat (length l))].
Proof.
  induction l as [|x r IH]; intros c; cbn [fold_left enum_ins length vnum].
  - rewrite N.add_0_r. reflexivity.
  - rewrite IH. f_equal. f_equal. lia.
Qed.

(* set_ins / dedup *)
Lemma set_ins_fold : forall b s,
  fold_left set_ins b s = s ++ filter (fun x => negb (vmem x s)) (dedup b).
Proof.
  intros b. induction b as [|x b IH] using rev_ind; intros s.
  - cbn. rewrite app_nil_r. reflexivity.
  - unfold dedup. rewrite !fold_left_app. cbn [fold_left]. fold (dedup b). rewrite IH.
    unfold set_ins. rewrite vmem_app.
    destruct (vmem x s) eqn:Es; cbn [orb].
    + destruct (vmem x (dedup b)) eqn:Ed; [reflexivity|].
      rewrite filter_app. cbn [filter]. rewrite Es. cbn [negb]. rewrite app_nil_r. reflexivity.
    + destruct (vmem x (filter (fun x0 => negb (vmem x0 s)) (dedup b))) eqn:Ef.
      * apply vmem_In in Ef. apply filter_In in Ef. destruct Ef as [Ef _].
        apply vmem_In in Ef. rewrite Ef. reflexivity.
      * destruct (vmem x (dedup b)) eqn:Ed.
        -- exfalso. apply vmem_In in Ed.
           assert (In x (filter (fun x0 => negb (vmem x0 s)) (dedup b))) as HI.
           { apply filter_In. split; [exact Ed | rewrite Es; reflexivity]. }
           apply vmem_In in HI. congruence.
        -- rewrite filter_app. cbn [filter]. rewrite Es. cbn [negb]. rewrite app_assoc. reflexivity.
Qed.

Lemma dedup_app : forall a b, dedup (a ++ b) = dedup a ++ filter (fun x => negb (vmem x (dedup a))) (dedup b).
Proof. intros a b. unfold dedup at 1. rewrite fold_left_app. fold (dedup a). apply set_ins_fold. Qed.

Lemma dedup_In : forall l x, In x (dedup l) <-> In x l.
Proof.
  intros l. induction l as [|y l IH] using rev_ind; intros x; [cbn; tauto|].
  unfold dedup. rewrite fold_left_app. cbn [fold_left]. fold (dedup l).
  unfold set_ins. rewrite in_app_iff. cbn [In].
  destruct (vmem y (dedup l)) eqn:E.
  - rewrite IH. split; [tauto|]. intros [H|[H|[]]]; [exact H|]. subst. apply IH. apply vmem_In. exact E.
  - rewrite in_app_iff, IH. cbn [In]. tauto.
Qed.

Lemma dedup_NoDup : forall l, NoDup (dedup l).
Proof.
  intros l. induction l as [|y l IH] using rev_ind; [constructor|].
  unfold dedup. rewrite fold_left_app. cbn [fold_left]. fold (dedup l).
  unfold set_ins. destruct (vmem y (dedup l)) eqn:E; [exact IH|].
  apply (Permutation_NoDup (Permutation_cons_append (dedup l) y)).
  constructor; [|exact IH]. intro Hx. apply vmem_In in Hx. congruence.
Qed.

Lemma vmem_dedup : forall x l, vmem x (dedup l) = vmem x l.
Proof.
  intros x l. destruct (vmem x l) eqn:E.
  - apply vmem_In. apply dedup_In. apply vmem_In. exact E.
  - destruct (vmem x (dedup l)) eqn:E2; [|reflexivity].
    apply vmem_In in E2. apply -> dedup_In in E2. apply vmem_In in E2. congruence.
Qed.

Lemma skipn_app_exact : forall {A} (a b : list A), skipn (length a) (a ++ b) = b.
Proof. induction a as [|x a IH]; intros b; cbn [length skipn app]; [reflexivity | apply IH]. Qed.

(* multiset_delta: counting characterisation (growth since the previous tick) *)
Lemma remove_one_count : forall x l l', remove_one x l = Some l' ->
  forall y, vcount y l = ((if val_eqb y x then 1 else 0) + vcount y l')%nat.
Proof.
  induction l as [|z r IH]; intros l' H y; cbn [remove_one] in H; [discriminate|].
  destruct (val_eqb x z) eqn:E.
  - inversion H; subst. apply val_eqb_eq in E. subst. cbn [vcount]. reflexivity.
  - destruct (remove_one x r) as [r'|] eqn:Er; [|discriminate]. inversion H; subst.
    cbn [vcount]. rewrite (IH r' eq_refl y). lia.
Qed.

Lemma remove_one_none : forall x l, remove_one x l = None -> vcount x l = 0%nat.
Proof.
  induction l as [|z r IH]; intros H; cbn [remove_one] in H; [reflexivity|].
  destruct (val_eqb x z) eqn:E; [discriminate|].
  destruct (remove_one x r) eqn:Er; [discriminate|]. cbn [vcount]. rewrite E. rewrite IH; reflexivity.
Qed.

Lemma delta_run_count : forall cur prev y,
  vcount y (delta_run prev cur) = (vcount y cur - vcount y prev)%nat.
Proof.
  induction cur as [|x r IH]; intros prev y; cbn [delta_run vcount]; [reflexivity|].
  destruct (remove_one x prev) as [prev'|] eqn:E.
  - rewrite IH. rewrite (remove_one_count x prev prev' E y).
    destruct (val_eqb y x); lia.
  - cbn [vcount]. rewrite IH. apply remove_one_none in E.
    destruct (val_eqb y x) eqn:Eyx.
    + apply val_eqb_eq in Eyx. subst. rewrite E. lia.
    + lia.
Qed.

(* ------------------------------------------------------------------ multiset_delta *)

Definition delta_spec (pre : list (list (list val))) (cur : list (list val)) : list (list val) :=
  [delta_run (port 0 (last pre [])) (port 0 cur)].

Lemma run_delta : forall h pre,
  run_from ODelta {| st_ports := [port 0 (last pre [])] |} h = spec_run delta_spec pre h.
Proof.
  induction h as [|c r IH]; intros pre; cbn [run_from spec_run]; [reflexivity|].
  cbn [op_step op_end st_ports]. unfold delta_spec at 1. f_equal.
  replace (port 0 c) with (port 0 (last (pre ++ [c]) [])) at 1 by (rewrite last_last; reflexivity).
  apply IH.
Qed.

Theorem delta_correct : forall h t,
  (t < length h)%nat -> nth t (run_op ODelta h) [] = tick_view delta_spec h t.
Proof.
  intros h t Ht. unfold run_op, tick_view. cbn [op_init].
  change [[]] with [port 0 (last (@nil (list (list val))) [])].
  rewrite run_delta. rewrite (spec_run_nth delta_spec h [] t [] []) by exact Ht. reflexivity.
Qed.

(* ------------------------------------------------------------------ zip<'tick,'tick> *)

Definition zip_tick_spec (pre : list (list (list val))) (cur : list (list val)) : list (list val) :=
  [vzip (port 0 cur) (port 1 cur)].

Lemma combine_firstn_min : forall {A B} (l : list A) (r : list B),
  combine (firstn (Nat.min (length l) (length r)) l) (firstn (Nat.min (length l) (length r)) r) = combine l r.
Proof.
  induction l as [|x l IH]; intros [|y r]; cbn [length Nat.min firstn combine]; try reflexivity.
  rewrite IH. reflexivity.
Qed.

Lemma run_zip_tick : forall h pre,
  run_from (OZip Tick Tick) {| st_ports := [[]; []] |} h = spec_run zip_tick_spec pre h.
Proof.
  induction h as [|c r IH]; intros pre; cbn [run_from spec_run]; [reflexivity|].
  cbn [op_step op_end st_ports port nth app]. unfold zip_tick_spec at 1, vzip.
  rewrite combine_firstn_min. f_equal. apply IH.
Qed.

Theorem zip_tick_correct : forall h t,
  (t < length h)%nat -> nth t (run_op (OZip Tick Tick) h) [] = tick_view zip_tick_spec h t.
Proof.
  intros h t Ht. unfold run_op, tick_view. cbn [op_init].
  rewrite (run_zip_tick h []). rewrite (spec_run_nth zip_tick_spec h [] t [] []) by exact Ht. reflexivity.
Qed.

(* ------------------------------------------------------------------ zip<'static,'static> *)

(* both queues survive the tick: the tick emits the part of the zip of everything seen so far
   that was not emitted before *)
Definition zip_static_spec (pre : list (list (list val))) (cur : list (list val)) : list (list val) :=
  [skipn (Nat.min (length (items pre 0)) (length (items pre 1)))
         (vzip (items pre 0 ++ port 0 cur) (items pre 1 ++ port 1 cur))].

Lemma combine_skipn : forall {A B} n (l : list A) (r : list B),
  combine (skipn n l) (skipn n r) = skipn n (combine l r).
Proof.
  induction n as [|n IH]; intros l r; [reflexivity|].
  destruct l as [|x l]; destruct r as [|y r]; cbn [skipn combine]; try reflexivity.
  - destruct (skipn n l); reflexivity.
  - apply IH.
Qed.

Lemma skipn_map' : forall {A B} (f : A -> B) n l, skipn n (map f l) = map f (skipn n l).
Proof. induction n as [|n IH]; intros [|x l]; cbn [skipn map]; try reflexivity. apply IH. Qed.

Lemma skipn_skipn' : forall {A} x y (l : list A), skipn x (skipn y l) = skipn (x + y) l.
Proof.
  intros A x y. revert x. induction y as [|y IH]; intros x l.
  - rewrite Nat.add_0_r. reflexivity.
  - destruct l as [|a l]; [rewrite !skipn_nil; reflexivity|].
    rewrite Nat.add_succ_r. cbn [skipn]. apply IH.
Qed.

Lemma skipn_app_le : forall {A} n (l r : list A), (n <= length l)%nat -> skipn n (l ++ r) = skipn n l ++ r.
Proof.
  intros A n l r H. rewrite skipn_app. replace (n - length l)%nat with 0%nat by lia. reflexivity.
Qed.

Definition zip_state (pre : list (list (list val))) : ostate :=
  let m := Nat.min (length (items pre 0)) (length (items pre 1)) in
  {| st_ports := [skipn m (items pre 0); skipn m (items pre 1)] |}.

Lemma run_zip_static : forall h pre,
  run_from (OZip Static Static) (zip_state pre) h = spec_run zip_static_spec pre h.
Proof.
  induction h as [|c r IH]; intros pre; cbn [run_from spec_run]; [reflexivity|].
  unfold zip_state at 1. cbn [op_step op_end st_ports port nth].
  set (L := items pre 0). set (R := items pre 1). set (m := Nat.min (length L) (length R)).
  set (cl := port 0 c). set (cr := port 1 c).
  assert (HmL : (m <= length L)%nat) by (unfold m; lia).
  assert (HmR : (m <= length R)%nat) by (unfold m; lia).
  rewrite <- (skipn_app_le m L cl HmL). rewrite <- (skipn_app_le m R cr HmR).
  set (L' := L ++ cl). set (R' := R ++ cr).
  set (n := Nat.min (length (skipn m L')) (length (skipn m R'))).
  f_equal.
  - unfold zip_static_spec. fold L R m. fold cl cr L' R'. f_equal.
    unfold vzip. unfold n. rewrite combine_firstn_min. rewrite combine_skipn. symmetry. apply skipn_map'.
  - rewrite <- IH. f_equal. unfold zip_state. cbn [st_ports].
    rewrite !items_app. fold L R cl cr L' R'.
    rewrite !skipn_skipn'.
    assert (Hn : (n + m)%nat = Nat.min (length L') (length R')).
    { unfold n. rewrite !skipn_length. unfold L', R'. rewrite !app_length. lia. }
    rewrite Hn. reflexivity.
Qed.

Theorem zip_static_correct : forall h t,
  (t < length h)%nat -> nth t (run_op (OZip Static Static) h) [] = tick_view zip_static_spec h t.
Proof.
  intros h t Ht. unfold run_op, tick_view. cbn [op_init].
  change {| st_ports := [[]; []] |} with (zip_state []).
  rewrite run_zip_static. rewrite (spec_run_nth zip_static_spec h [] t [] []) by exact Ht. reflexivity.
Qed.

(* ------------------------------------------------------------------ zip with mixed persistences *)

(* how many items of the persisting side have been paired during the ticks of [pre]:
   k = the persisting port, 1 - k the 'tick port *)
Definition zip_step (k : nat) (acc : nat * nat) (x : list (list val)) : nat * nat :=
  let len := (fst acc + length (port k x))%nat in
  (len, (snd acc + Nat.min (len - snd acc) (length (port (1 - k) x)))%nat).
Definition zip_consumed (k : nat) (pre : list (list (list val))) : nat :=
  snd (fold_left (zip_step k) pre (0%nat, 0%nat)).

(* zip<'static,'tick>: the left side queues across ticks, the right side is paired within its tick
   and its excess dropped; each tick pairs the not yet paired left items with this tick's right items *)
Definition zip_st_spec (pre : list (list (list val))) (cur : list (list val)) : list (list val) :=
  [vzip (skipn (zip_consumed 0 pre) (items pre 0 ++ port 0 cur)) (port 1 cur)].
Definition zip_ts_spec (pre : list (list (list val))) (cur : list (list val)) : list (list val) :=
  [vzip (port 0 cur) (skipn (zip_consumed 1 pre) (items pre 1 ++ port 1 cur))].

Lemma zip_fold_len : forall k pre a,
  fst (fold_left (zip_step k) pre a) = (fst a + length (items pre k))%nat.
Proof.
  intros k pre. induction pre as [|x pre IH] using rev_ind; intros a.
  - cbn. unfold items. cbn. lia.
  - rewrite fold_left_app. cbn [fold_left]. unfold zip_step at 1. cbn [fst].
    rewrite IH, items_app, app_length. lia.
Qed.

Lemma zip_consumed_le : forall k pre, (zip_consumed k pre <= length (items pre k))%nat.
Proof.
  intros k pre. unfold zip_consumed. induction pre as [|x pre IH] using rev_ind.
  - cbn. lia.
  - rewrite fold_left_app. cbn [fold_left]. unfold zip_step at 1. cbn [snd].
    rewrite zip_fold_len. cbn [fst]. rewrite items_app, app_length. lia.
Qed.

Lemma zip_consumed_snoc : forall k pre x,
  zip_consumed k (pre ++ [x]) =
  (zip_consumed k pre + Nat.min (length (items pre k) + length (port k x) - zip_consumed k pre)
                                (length (port (1 - k) x)))%nat.
Proof.
  intros k pre x. unfold zip_consumed. rewrite fold_left_app. cbn [fold_left]. unfold zip_step at 1. cbn [snd].
  rewrite zip_fold_len. cbn [fst]. reflexivity.
Qed.

Lemma vzip_firstn_min : forall l r,
  vzip (firstn (Nat.min (length l) (length r)) l) (firstn (Nat.min (length l) (length r)) r) = vzip l r.
Proof. intros. unfold vzip. rewrite combine_firstn_min. reflexivity. Qed.

Definition zip_st_state (pre : list (list (list val))) : ostate :=
  {| st_ports := [skipn (zip_consumed 0 pre) (items pre 0); []] |}.

Lemma run_zip_st : forall h pre,
  run_from (OZip Static Tick) (zip_st_state pre) h = spec_run zip_st_spec pre h.
Proof.
  induction h as [|c r IH]; intros pre; cbn [run_from spec_run]; [reflexivity|].
  unfold zip_st_state at 1. cbn [op_step op_end st_ports port nth app].
  set (L := items pre 0). set (m := zip_consumed 0 pre). set (cl := port 0 c). set (cr := port 1 c).
  assert (Hm : (m <= length L)%nat) by apply zip_consumed_le.
  rewrite <- (skipn_app_le m L cl Hm). set (L' := L ++ cl).
  f_equal.
  - unfold zip_st_spec. fold L m. fold cl cr L'. rewrite vzip_firstn_min. reflexivity.
  - rewrite <- IH. f_equal. unfold zip_st_state. f_equal. f_equal.
    rewrite skipn_skipn'. rewrite items_app. fold L cl L'.
    f_equal. rewrite zip_consumed_snoc. fold L m. fold cl. cbn [Nat.sub]. fold cr.
    rewrite skipn_length. unfold L'. rewrite app_length. cbn [Nat.sub]. lia.
Qed.

Theorem zip_st_correct : forall h t,
  (t < length h)%nat -> nth t (run_op (OZip Static Tick) h) [] = tick_view zip_st_spec h t.
Proof.
  intros h t Ht. unfold run_op, tick_view. cbn [op_init].
  change {| st_ports := [[]; []] |} with (zip_st_state []).
  rewrite run_zip_st. rewrite (spec_run_nth zip_st_spec h [] t [] []) by exact Ht. reflexivity.
Qed.

Definition zip_ts_state (pre : list (list (list val))) : ostate :=
  {| st_ports := [[]; skipn (zip_consumed 1 pre) (items pre 1)] |}.

Lemma run_zip_ts : forall h pre,
  run_from (OZip Tick Static) (zip_ts_state pre) h = spec_run zip_ts_spec pre h.
Proof.
  induction h as [|c r IH]; intros pre; cbn [run_from spec_run]; [reflexivity|].
  unfold zip_ts_state at 1. cbn [op_step op_end st_ports port nth app].
  set (R := items pre 1). set (m := zip_consumed 1 pre). set (cl := port 0 c). set (cr := port 1 c).
  assert (Hm : (m <= length R)%nat) by apply zip_consumed_le.
  rewrite <- (skipn_app_le m R cr Hm). set (R' := R ++ cr).
  f_equal.
  - unfold zip_ts_spec. fold R m. fold cl cr R'. rewrite vzip_firstn_min. reflexivity.
  - rewrite <- IH. f_equal. unfold zip_ts_state. f_equal. f_equal. f_equal.
    rewrite skipn_skipn'. rewrite items_app. fold R cr R'.
    f_equal. rewrite zip_consumed_snoc. fold R m. fold cr. cbn [Nat.sub]. fold cl.
    rewrite skipn_length. unfold R'. rewrite app_length. lia.
Qed.

Theorem zip_ts_correct : forall h t,
  (t < length h)%nat -> nth t (run_op (OZip Tick Static) h) [] = tick_view zip_ts_spec h t.
Proof.
  intros h t Ht. unfold run_op, tick_view. cbn [op_init].
  change {| st_ports := [[]; []] |} with (zip_ts_state []).
  rewrite run_zip_ts. rewrite (spec_run_nth zip_ts_spec h [] t [] []) by exact Ht. reflexivity.
Qed.
