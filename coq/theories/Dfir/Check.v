(* E7 Dfir -- executable verdicts evaluated by the correspondence check (definitions only). *)
From Coq Require Import List NArith Bool Arith.
From HV Require Import Dfir.Model Dfir.ModelTick.
Import ListNotations.
Open Scope N_scope.

Definition hspec := list (list (list val)) -> list (list val) -> list (list val).

(* the external items of one step, keyed by source number *)
Definition ext_of (step : list (list val)) : bufs :=
  combine (map N.of_nat (seq 0 (length step))) step.

Definition tag (t : nat) (l : list val) : list val := map (fun x => VP (VN (N.of_nat t)) x) l.

(* what sink j must have recorded if the operator whose input port k is source k and whose
   output port j is sink j follows the history specification [sp] *)
Definition spec_outs (sp : hspec) (h : list (list (list val))) (nsinks : nat) : list (list val) :=
  map (fun j => concat (map (fun t => tag t (nth j (sp (firstn t h) (nth t h [])) []))
                            (seq 0 (length h))))
      (seq 0 nsinks).

Definition outs_eqb (ordered : list bool) (a b : list (list val)) : bool :=
  all2 (fun (p : list val * nat) (y : list val) => out_eqb (nth (snd p) ordered false) (fst p) y)
       (combine a (seq 0 (length a))) b.

(* C21: bit0 = implementation differs from the tick-program model run on the real partition,
        bit1 = implementation's outputs differ from the operator's history specification
               evaluated on the implementation's own inputs *)
Definition c21_chk (p : prog) (sp : hspec) (ordered : list bool) (h : list (list (list val)))
           (impl_outs : list (list val)) (impl_obs : list N) : N :=
  verdict (run_agree false p (map ext_of h) ordered impl_outs impl_obs)
          (outs_eqb ordered impl_outs (spec_outs sp h (length impl_outs))).
