(* E7 Dfir -- executable verdicts evaluated by the correspondence check (definitions only). *)
From Coq Require Import List NArith Bool Arith.
From HV Require Import Dfir.Model Dfir.ModelTick Dfir.ModelFlat Dfir.ModelRefs.
Import ListNotations.
Open Scope N_scope.

Definition hspec := list (list (list val)) -> list (list val) -> list (list val).

(* the external items of one step, keyed by source number *)
Definition ext_of (step : list (list val)) : bufs :=
  combine (map N.of_nat (seq 0 (length step))) step.

Definition tag (t : nat) (l : list val) : list val := map (fun x => VP (VN (N.of_nat t)) x) l.

(* what sink j must have recorded if the operator whose input port k is source k and whose
   output port j is sink j follows the history specification [sp] *)
Definition spec_outs (sp : hspec) (h : list (list (list val))) (nsinks : nat) : list (list val) :=
  map (fun j => concat (map (fun t => tag t (nth j (sp (firstn t h) (nth t h [])) []))
                            (seq 0 (length h))))
      (seq 0 nsinks).

Definition outs_eqb (ordered : list bool) (a b : list (list val)) : bool :=
  all2 (fun (p : list val * nat) (y : list val) => out_eqb (nth (snd p) ordered false) (fst p) y)
       (combine a (seq 0 (length a))) b.

(* C21: bit0 = implementation differs from the tick-program model run on the real partition,
        bit1 = implementation's outputs differ from the operator's history specification
               evaluated on the implementation's own inputs *)
Definition c21_chk (p : prog) (sp : hspec) (ordered : list bool) (h : list (list (list val)))
           (impl_outs : list (list val)) (impl_obs : list N) : N :=
  verdict (run_agree false p (map ext_of h) ordered impl_outs impl_obs)
          (outs_eqb ordered impl_outs (spec_outs sp h (length impl_outs))).

(* ------------------------------------------------------------------ C24 *)

(* items a sink recorded at tick t *)
Definition at_tick (t : N) (l : list val) : list val :=
  map vsnd (filter (fun x => N.eqb (vnum (vfst x)) t) l).

Definition nsum (l : list N) : N := fold_left N.add l 0.

(* a defer_tick / defer_tick_lazy between the tap [before] and the tap [after] *)
Record defer := { d_before : nat; d_after : nat; d_lazy : bool }.

(* everything tapped before the defer in tick t is tapped after it in tick t+1 (if that tick ran)
   and nothing else ever is *)
Definition shift_ok (ordered : list bool) (total : N) (outs : list (list val)) (d : defer) : bool :=
  out_eqb (nth (d_before d) ordered false && nth (d_after d) ordered false)
    (nth (d_after d) outs [])
    (map (fun x => VP (VN (vnum (vfst x) + 1)) (vsnd x))
         (filter (fun x => vnum (vfst x) + 1 <? total) (nth (d_before d) outs []))).

(* non-lazy deferred data pending at the end of tick t *)
Definition pending (defers : list defer) (outs : list (list val)) (t : N) : bool :=
  existsb (fun d => negb (d_lazy d) &&
                    match at_tick t (nth (d_before d) outs []) with [] => false | _ => true end) defers.

Fixpoint expect_run (fuel : nat) (defers : list defer) (outs : list (list val)) (t : N) : N :=
  match fuel with
  | O => 0
  | S f => if pending defers outs t then 1 + expect_run f defers outs (t + 1) else 1
  end.

Fixpoint avail_ok (defers : list defer) (outs : list (list val)) (start : N) (obs : list N) : bool :=
  match obs with
  | [] => true
  | n :: r => N.eqb n (expect_run 200 defers outs start) && avail_ok defers outs (start + n) r
  end.

Fixpoint count_from (n : N) (l : list N) : bool :=
  match l with [] => true | x :: r => N.eqb x n && count_from (n + 1) r end.

(* a stateful operator between tap 0 and sink k: its outputs follow the history spec over what
   tap 0 recorded tick by tick ('tick state reset each tick, 'static state carried) *)
Definition state_ok (total : N) (outs : list (list val)) (ordered : list bool) (chk : nat * hspec) : bool :=
  let h := map (fun t => [at_tick (N.of_nat t) (nth 0 outs [])]) (seq 0 (N.to_nat total)) in
  out_eqb (nth (fst chk) ordered false) (nth (fst chk) outs []) (nth 0 (spec_outs (snd chk) h 1) []).

Definition c24_holds (avail : bool) (defers : list defer) (checks : list (nat * hspec))
           (ordered : list bool) (outs : list (list val)) (obs : list N) : bool :=
  let total := if avail then nsum obs else N.of_nat (length obs) in
  (if avail then avail_ok defers outs 0 obs else count_from 1 obs) &&
  forallb (shift_ok ordered total outs) defers &&
  forallb (state_ok total outs ordered) checks.

Definition c24_chk (avail : bool) (p : prog) (defers : list defer) (checks : list (nat * hspec))
           (ordered : list bool) (h : list (list (list val)))
           (impl_outs : list (list val)) (impl_obs : list N) : N :=
  verdict (run_agree avail p (map ext_of h) ordered impl_outs impl_obs)
          (c24_holds avail defers checks ordered impl_outs impl_obs).

(* ------------------------------------------------------------------ C22 *)

(* one history on several shape-perturbed variants of a program: bit0 = some variant's
   implementation run differs from the model interpreting that variant's real partition,
   bit1 = two variants' implementation runs differ from each other *)
Definition c22_chk (avail : bool) (ordered : list bool) (h : list (list (list val)))
           (runs : list (prog * (list (list val) * list N))) : N :=
  verdict (forallb (fun r => flat_applicable (fst r) &&
                            run_agree avail (fst r) (map ext_of h) ordered (fst (snd r)) (snd (snd r))) runs)
          (match runs with
           | [] => true
           | r0 :: rest =>
               forallb (fun r => outs_eqb ordered (fst (snd r0)) (fst (snd r)) &&
                                 nlist_eqb (snd (snd r0)) (snd (snd r))) rest
           end).

(* ------------------------------------------------------------------ C26 *)

(* iterate to the fixpoint: items, then what the loop-delayed cycle feeds back, ... until empty *)
Fixpoint closure_fix (fuel : nat) (f : val -> option val) (items : list val) : list val :=
  match fuel with
  | O => []
  | S n => match items with
           | [] => []
           | _ => items ++ closure_fix n f (filter_map_l f items)
           end
  end.

(* expected sink contents from a per-tick specification of the loop program *)
Definition expect_outs (e : list (list val) -> list (list (list val))) (h : list (list (list val)))
           (nsinks : nat) : list (list val) :=
  let per_tick := e (map (port 0) h) in
  map (fun j => concat (map (fun t => tag t (nth j (nth t per_tick []) [])) (seq 0 (length h))))
      (seq 0 nsinks).

Definition c26_chk (avail : bool) (p : prog) (e : option (list (list val) -> list (list (list val))))
           (ordered : list bool) (h : list (list (list val)))
           (impl_outs : list (list val)) (impl_obs : list N) : N :=
  verdict (run_agree avail p (map ext_of h) ordered impl_outs impl_obs)
          (match e with
           | None => true
           | Some e =>
               (if avail then forallb (N.eqb 1) impl_obs else count_from 1 impl_obs) &&
               outs_eqb ordered impl_outs (expect_outs e h (length impl_outs))
           end).

(* ------------------------------------------------------------------ C23 *)

(* bit0 = implementation differs from the model run on the real partition, or the real partition
   does not satisfy the executable hypotheses of the transparency theorem (PFlatCheck.transparency);
   bit1 = implementation differs from the denotation of the flat graph (every operator applied once
   per tick, in topological order, to the complete lists produced for it in that tick), computed
   by [flat_of] from the same lowered program *)
Definition c23_chk (avail : bool) (p : prog) (ordered : list bool) (h : list (list (list val)))
           (impl_outs : list (list val)) (impl_obs : list N) : N :=
  verdict (flat_applicable p && run_agree avail p (map ext_of h) ordered impl_outs impl_obs)
          (run_agree avail (flat_of p) (map ext_of h) ordered impl_outs impl_obs).

(* ------------------------------------------------------------------ C25 *)

(* a slot written by a producer (source 0 through [c_prod]), then accessed by closures in access
   groups in the listed order (sink, source, closure), then drained by a pipe consumer *)
Record c25_desc := {
  c_prod : hspec;
  c_groups : list (nat * nat * (list val -> val -> option (list val * list val)));
  c_consumer : option nat;
  c_vec : bool;                    (* the slot is a Vec handoff(): any number of items *)
}.

(* one tick: None = the program panics; otherwise the items per sink *)
Definition c25_tick (d : c25_desc) (pre : list (list (list val))) (cur : list (list val))
  : option (list (nat * list val)) :=
  let slot0 := nth 0 (c_prod d (map (fun s => [port 0 s]) pre) [port 0 cur]) [] in
  if negb (c_vec d) && Nat.ltb 1 (length slot0) then None else
  let '(slot, outs, bad) :=
    fold_left (fun (acc : list val * list (nat * list val) * bool) g =>
                 let '(slot, outs, bad) := acc in
                 let '(sink, src, f) := g in
                 let '(slot', o, b) := ref_fold f slot (port src cur) in
                 (slot', outs ++ [(sink, o)], bad || b))
              (c_groups d) (slot0, [], false) in
  if bad then None
  else Some (match c_consumer d with Some k => outs ++ [(k, slot)] | None => outs end).

Fixpoint c25_run (d : c25_desc) (pre h : list (list (list val))) (t : nat)
  : option (list (nat * (nat * list val))) :=
  match h with
  | [] => Some []
  | cur :: r =>
      match c25_tick d pre cur with
      | None => None
      | Some outs =>
          match c25_run d (pre ++ [cur]) r (S t) with
          | None => None
          | Some rest => Some (map (fun so => (fst so, (t, snd so))) outs ++ rest)
          end
      end
  end.

Definition c25_expect (d : c25_desc) (h : list (list (list val))) (nsinks : nat) : option (list (list val)) :=
  match c25_run d [] h 0 with
  | None => None
  | Some evs =>
      Some (map (fun j => concat (map (fun e => if Nat.eqb (fst e) j then tag (fst (snd e)) (snd (snd e)) else []) evs))
                (seq 0 nsinks))
  end.

(* bit0 = implementation vs the tick-program model on the real partition (incl. whether it panics);
   bit1 = implementation vs "the producer settles the slot, then the access groups run one after the
   other in group order, each for all its items, then the pipe consumer drains the slot" *)
Definition c25_chk (avail : bool) (p : prog) (d : c25_desc) (ordered : list bool)
           (h : list (list (list val))) (impl_panic : bool)
           (impl_outs : list (list val)) (impl_obs : list N) : N :=
  verdict (if impl_panic then w_panic (fst (drive avail p (map ext_of h)))
           else run_agree avail p (map ext_of h) ordered impl_outs impl_obs)
          (match c25_expect d h (length ordered) with
           | None => impl_panic
           | Some e => negb impl_panic && outs_eqb ordered impl_outs e
           end).

(* ------------------------------------------------------------------ guard *)
(* bit0 is also raised when a model-side applicability condition fails *)
Definition vand (b : bool) (v : N) : N := if b then v else N.lor v 1.

(* ------------------------------------------------------------------ C26: lazy loop delays *)

(* the iteration batches of a loop-delayed (non-lazy) cycle: items, f items, f (f items), ... *)
Fixpoint batches (fuel : nat) (f : val -> option val) (items : list val) : list (list val) :=
  match fuel with
  | O => []
  | S n => match items with
           | [] => []
           | _ => items :: batches n f (filter_map_l f items)
           end
  end.

(* nested loop whose only cycle goes through defer_tick_lazy: one iteration per firing; what it
   defers waits -- over idle ticks too -- for the next firing.  One sink: the per-iteration tap *)
Fixpoint nested_lazy_expect (f : val -> option val) (pending : list val) (ins : list (list val))
  : list (list (list val)) :=
  match ins with
  | [] => []
  | i :: r => match i with
              | [] => [[]] :: nested_lazy_expect f pending r
              | _ => let m := i ++ pending in [m] :: nested_lazy_expect f (filter_map_l f m) r
              end
  end.

(* nested loop iterating through a non-lazy defer_tick cycle, with a defer_tick_lazy branch off the
   per-iteration tap: sink 0 = every iteration's batch; sink 1 = what the lazy defer delivers: in
   iteration k+1 the batch of iteration k, and in the first iteration of a firing the last batch of
   the previous firing (however many idle ticks lie in between) *)
Fixpoint lazy_cycle_expect (f : val -> option val) (pending : list val) (ins : list (list val))
  : list (list (list val)) :=
  match ins with
  | [] => []
  | i :: r => match i with
              | [] => [[]; []] :: lazy_cycle_expect f pending r
              | _ => let bs := batches 64 f i in
                     [concat bs; pending ++ concat (removelast bs)] :: lazy_cycle_expect f (last bs []) r
              end
  end.
