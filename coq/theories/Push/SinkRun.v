(* Engine "Push", sinktools part: case evaluation for the correspondence check of C14. *)
From Coq Require Import List NArith Bool Arith.
From HV Require Import Push.SinkModel Push.Run.
Import ListNotations.

Set Implicit Arguments.

Inductive scomb :=
| KMap (f : fcode)
| KFilter (q : pcode)
| KFilterMap (q : pcode) (f : fcode)
| KFlatMap (g : gcode)
| KFlatten
| KUnzip
| KLazy (npend : nat) (ok : bool)
| KForEach
| KTryForEach (q : pcode)     (* the closure fails on items satisfying q *)
| KSendIter.

(* per downstream: poll_ready, start_send, poll_flush, poll_close scripts *)
Definition sscript := (list res * list bool * list res * list res)%type.
Definition sds0 {A} (sc : sscript) : sds A :=
  match sc with (r, s, f, c) => mksds r s f c [] end.
Definition nthss (l : list sscript) (i : nat) : sscript := nth i l ([], [], [], []).

(* outcome, driver trace, downstream logs (oldest first), number of initializer calls *)
Definition sobservation := (soutcome * list sdev * list (list (sev N)) * nat)%type.

Definition K := srec N.

Definition srun1 {A} (p : sink A) (s0 : SSt p) (lgs : SSt p -> list (list (sev N))) (ini : SSt p -> nat)
           (fuel : nat) (items : list A) : sobservation :=
  match sdrive p fuel items s0 [] with
  | (o, tr, s) => (o, rev tr, match o with SPanicked => [] | _ => map (@rev _) (lgs s) end, ini s)
  end.

Definition srun_case (c : scomb) (fuel : nat) (items : list (list N)) (dn : list sscript) : sobservation :=
  let d0 : sds N := sds0 (nthss dn 0) in
  let d1 : sds N := sds0 (nthss dn 1) in
  match c with
  | KMap f => srun1 (smap K (fev f)) d0 (fun s => [slg s]) (fun _ => 0) fuel (map it_n items)
  | KFilter q => srun1 (sfilter K (pev q)) d0 (fun s => [slg s]) (fun _ => 0) fuel (map it_n items)
  | KFilterMap q f => srun1 (sfilter_map K (fmopt q f)) d0 (fun s => [slg s]) (fun _ => 0) fuel (map it_n items)
  | KFlatMap g => srun1 (sflat_map K (gev g)) (None, d0) (fun s => [slg (snd s)]) (fun _ => 0) fuel (map it_n items)
  | KFlatten => srun1 (sflatten K) (None, d0) (fun s => [slg (snd s)]) (fun _ => 0) fuel items
  | KUnzip => srun1 (sunzip K K) ((false, false), (d0, d1))
                   (fun s => [slg (fst (snd s)); slg (snd (snd s))]) (fun _ => 0) fuel (map it_pair items)
  | KForEach => srun1 (sfor_each N) [] (fun s => [s]) (fun _ => 0) fuel (map it_n items)
  | KTryForEach q => srun1 (stry_for_each (pev q)) [] (fun s => [s]) (fun _ => 0) fuel (map it_n items)
  | KSendIter =>
    match si_drive K fuel (map it_n items) d0 [] with
    | (o, tr, st) => (o, map TRdy (rev tr), [rev (slg (snd st))], 0)
    end
  | KLazy n ok => srun1 (slazy K) (@LUninit N n ok, 0, d0) (fun s => [slg (snd s)]) (fun s => snd (fst s))
                        fuel (map it_n items)
  end.

Definition sref_items (c : scomb) (items : list (list N)) (i : nat) : list N :=
  match c with
  | KMap f => map (fev f) (map it_n items)
  | KFilter q => filter (pev q) (map it_n items)
  | KFilterMap q f => filter_map_l (fmopt q f) (map it_n items)
  | KFlatMap g => flat_map (gev g) (map it_n items)
  | KFlatten => concat items
  | KUnzip => if Nat.eqb i 0 then map fst (map it_pair items) else map snd (map it_pair items)
  | KLazy _ _ | KForEach | KTryForEach _ | KSendIter => map it_n items
  end.

Definition sn_down (c : scomb) : nat := match c with KUnzip => 2 | _ => 1 end.

(* ------------------------------------------------------------------ comparison *)

Definition eqb_res (x y : res) : bool :=
  match x, y with RDone, RDone | RPend, RPend | RErr, RErr => true | _, _ => false end.
Definition eqb_sev (x y : sev N) : bool :=
  match x, y with
  | SRdy a, SRdy b => eqb_res a b
  | SSend a o, SSend b o' => N.eqb a b && Bool.eqb o o'
  | SFlush a, SFlush b => eqb_res a b
  | SClose a, SClose b => eqb_res a b
  | _, _ => false
  end.
Definition eqb_sdev (x y : sdev) : bool :=
  match x, y with
  | TRdy a, TRdy b => eqb_res a b
  | TSend a, TSend b => Bool.eqb a b
  | TFlush a, TFlush b => eqb_res a b
  | TClose a, TClose b => eqb_res a b
  | _, _ => false
  end.
Definition eqb_sout (x y : soutcome) : bool :=
  match x, y with
  | SFinished, SFinished | SFailed, SFailed | SOutOfFuel, SOutOfFuel | SPanicked, SPanicked => true
  | _, _ => false
  end.

Definition sobs_agree (i m : sobservation) : bool :=
  match i, m with
  | (oi, ti, li, ci), (om, tm, lm, cm) =>
    eqb_sout oi om &&
    match om with
    | SPanicked => true
    | _ => eqb_list eqb_sdev ti tm && eqb_list (eqb_list eqb_sev) li lm && Nat.eqb ci cm
    end
  end.

(* ------------------------------------------------------------------ executable form of C14 *)

(* one downstream history (oldest first) *)
Definition sdown_ok (strict finished : bool) (ref : list N) (h : list (sev N)) : bool :=
  let l := rev h in
  (if strict then swf l else swfw l) &&
  prefixb (soffered l) ref &&                                  (* right items, in order, once *)
  (if finished then eqb_list N.eqb (ssent l) ref && sclosed l && negb (sfailed l) else true).

Fixpoint sdowns_ok (strict finished : bool) (c : scomb) (items : list (list N)) (i : nat)
         (hs : list (list (sev N))) : bool :=
  match hs with
  | [] => true
  | h :: r => sdown_ok strict finished (sref_items c items i) h &&
              sdowns_ok strict finished c items (S i) r
  end.

Definition lazy_init_failed (c : scomb) (inits : nat) : bool :=
  match c with KLazy _ false => Nat.leb 1 inits | _ => false end.

Definition sholds_gen (strict : bool) (c : scomb) (items : list (list N)) (o : sobservation) : bool :=
  match o with
  | (SPanicked, _, _, _) => false
  | (oc, _, hs, inits) =>
    Nat.eqb (length hs) (sn_down c) &&
    (match c with
     | KForEach | KTryForEach _ =>
       (* terminal sinks: the closure is called with the items in order, once; a failing call is
          the last one *)
       forallb (fun h => let l := rev h in
                         prefixb (soffered l) (sref_items c items 0) &&
                         (match l with [] => true | _ :: r => negb (sfailed r) end) &&
                         (negb (eqb_sout oc SFinished) || eqb_list N.eqb (ssent l) (sref_items c items 0))) hs
     | KSendIter =>
       (* the future: items in order, once, each start_send right after a poll_ready = Ready(Ok),
          flushed at the end, never closed *)
       forallb (fun h => let l := rev h in
                         swf l && negb (sclosing l) && prefixb (soffered l) (sref_items c items 0) &&
                         (negb (eqb_sout oc SFinished) ||
                          (eqb_list N.eqb (ssent l) (sref_items c items 0) && negb (sfailed l) &&
                           match l with SFlush RDone :: _ => true | _ => false end))) hs
     | _ => true
     end) &&
    (match c, inits with
     | KLazy _ _, 0 =>
       (* never initialised: the sink does not exist, nothing can have reached it, and the
          driver can only have finished if there was nothing to deliver *)
       forallb (fun h => match h with [] => true | _ => false end) hs &&
       (negb (eqb_sout oc SFinished) || match items with [] => true | _ => false end)
     | KForEach, _ | KTryForEach _, _ | KSendIter, _ => true
     | _, _ => sdowns_ok strict (eqb_sout oc SFinished) c items 0 hs
     end) &&
    (* errors propagate: the driver sees a failure iff a downstream (or the initializer) failed *)
    (negb (existsb (fun h => sfailed (rev h)) hs) || eqb_sout oc SFailed) &&
    (negb (eqb_sout oc SFailed) || existsb (fun h => sfailed (rev h)) hs || lazy_init_failed c inits) &&
    (* lazy: initializer called at most once, and called if anything reached the sink *)
    Nat.leb inits 1 &&
    match c with
    | KLazy _ _ => forallb (fun h => match h with [] => true | _ => Nat.eqb inits 1 end) hs
    | _ => Nat.eqb inits 0
    end
  end.

Definition C14_holds_b := sholds_gen true.
Definition C14_weak_holds_b := sholds_gen false.

Definition chk14 (c : scomb) (fuel : nat) (items : list (list N)) (dn : list sscript)
           (i : sobservation) : N :=
  verdict (sobs_agree i (srun_case c fuel items dn)) (C14_holds_b c items i).
